/-
Model of lib/go/protocol.go: the v0 header codec.

  marshal            v0ProtocolMarshaler.marshalHeaders (for one iteration order of the map)
  calcSize           calculateHeaderSize
  readPairs          readPairs (index arithmetic and Go slice semantics kept; `Res.panic`
                     is what Go would do on an out-of-range slice expression)
  headersFromFrame   getHeadersFromFrame → unmarshalHeadersFromFrame
  unmarshalStream    readHeader → unmarshalHeaders over an io.Reader holding the given bytes
  addHeadersToFrame  addHeadersToFrame (top level + v0)
  unmarshalFrame     unmarshalFrame (top level + v0)

Integers: the Go code computes in int32. All additions below are on `Int`; the
theorem `FV.readPairs_bounds` (Proofs/Headers) shows that under the guards every
intermediate index stays in `[0, end]`, so with `end < 2^31` no int32 addition
wraps and `Int` arithmetic coincides with Go's.
-/
import FV.Basic

set_option linter.unusedVariables false

namespace FV

/-- A header map in some iteration order. Keys distinct is a separate predicate. -/
abbrev Hdrs := List (Bytes × Bytes)

/-- Go `m[k] = v`: overwrite in place if present, else add. -/
def Hdrs.set : Hdrs → Bytes → Bytes → Hdrs
  | [], k, v => [(k, v)]
  | (k', v') :: t, k, v => if k' = k then (k, v) :: t else (k', v') :: Hdrs.set t k v

def Hdrs.get? : Hdrs → Bytes → Option Bytes
  | [], _ => none
  | (k', v') :: t, k => if k' = k then some v' else Hdrs.get? t k

def Hdrs.keys (h : Hdrs) : List Bytes := h.map Prod.fst

/-- `calculateHeaderSize`. -/
def calcSize : Hdrs → Nat
  | [] => 0
  | (k, v) :: t => 8 + k.length + v.length + calcSize t

def marshalPairs : Hdrs → Bytes
  | [] => []
  | (k, v) :: t => be32 k.length ++ k ++ be32 v.length ++ v ++ marshalPairs t

/-- `marshalHeaders`: version byte, total size, pairs. -/
def marshal (h : Hdrs) : Bytes := 0 :: (be32 (calcSize h) ++ marshalPairs h)

/-- `readPairs(buff, i, end)`, accumulating into `acc` (the Go map). -/
def readPairs (buf : Bytes) (i end_ : Int) (acc : Hdrs) : Res Hdrs :=
  if h : i < end_ then
    if h1 : end_ - i < 4 then .err .invalidData else
    match slice buf i (i + 4) with
    | .panic p => .panic p
    | .err e => .err e
    | .ok nb =>
      let nameSize := toI32 (rd32 nb)
      let i1 := i + 4
      if h2 : nameSize < 0 ∨ nameSize > end_ - i1 then .err .invalidData else
      match slice buf i1 (i1 + nameSize) with
      | .panic p => .panic p
      | .err e => .err e
      | .ok name =>
        let i2 := i1 + nameSize
        if h3 : end_ - i2 < 4 then .err .invalidData else
        match slice buf i2 (i2 + 4) with
        | .panic p => .panic p
        | .err e => .err e
        | .ok vb =>
          let valueSize := toI32 (rd32 vb)
          let i3 := i2 + 4
          if h4 : valueSize < 0 ∨ valueSize > end_ - i3 then .err .invalidData else
          match slice buf i3 (i3 + valueSize) with
          | .panic p => .panic p
          | .err e => .err e
          | .ok value => readPairs buf (i3 + valueSize) end_ (acc.set name value)
  else .ok acc
termination_by (end_ - i).toNat
decreasing_by
  simp only [not_or, Int.not_lt] at h2 h4
  omega

/-- `unmarshalHeadersFromFrame(frame)` (frame = bytes after the version byte). -/
def unmarshalHeadersFromFrame (frame : Bytes) : Res Hdrs :=
  if frame.length < 4 then .err .invalidData else
  let size := toI32 (rd32 frame)
  if size < 0 ∨ size > (frame.length : Int) - 4 then .err .invalidData else
  readPairs frame 4 (size + 4) []

/-- `getHeadersFromFrame(frame)`. -/
def headersFromFrame (frame : Bytes) : Res Hdrs :=
  match frame with
  | [] => .err .invalidData
  | ver :: rest => if ver = 0 then unmarshalHeadersFromFrame rest else .err .badVersion

/-- `readHeader(reader)` where the reader holds exactly `bs` and then reports EOF
(a `thrift.TMemoryBuffer`: a short read is `io.EOF`/`io.ErrUnexpectedEOF`, which
`readHeader` wraps as a TRANSPORT_EXCEPTION_UNKNOWN transport exception). Returns headers and the bytes
left unread on the reader. -/
def unmarshalStream (bs : Bytes) : Res (Hdrs × Bytes) :=
  match bs with
  | [] => .err .transport
  | ver :: r1 =>
    if ver ≠ 0 then .err .badVersion else
    if r1.length < 4 then .err .transport else
    let size := toI32 (rd32 r1)
    if size < 0 then .err .invalidData else
    let r2 := r1.drop 4
    if (r2.length : Int) < size then .err .transport else
    match readPairs (r2.take size.toNat) 0 size [] with
    | .ok h => .ok (h, r2.drop size.toNat)
    | .err e => .err e
    | .panic p => .panic p

/-- Merge `adds` into `h` in order (the `for name, value := range headers` loop). -/
def Hdrs.setAll (h : Hdrs) (adds : Hdrs) : Hdrs := adds.foldl (fun a kv => a.set kv.1 kv.2) h

/-- `addHeadersToFrame(frame, headers)`; `frame` includes the 4-byte frame size
(`len(frame) < 5` → INVALID_DATA; `frame[4]` is the version byte). -/
def addHeadersToFrame (frame : Bytes) (adds : Hdrs) : Res Bytes :=
  match frame with
  | _ :: _ :: _ :: _ :: ver :: body =>
    if ver = 0 then
      match unmarshalHeadersFromFrame body with
      | .err e => .err e
      | .panic p => .panic p
      | .ok existing =>
        let merged := existing.setAll adds
        let oldSize := toI32 (rd32 body)
        match sliceFrom frame (9 + oldSize) with
        | .err e => .err e
        | .panic p => .panic p
        | .ok payload =>
          let ser := marshal merged
          .ok (be32 (ser.length + payload.length) ++ ser ++ payload)
    else .err .badVersion
  | _ => .err .invalidData

structure FrameComponents where
  frameSize : Nat
  version : UInt8
  headers : Hdrs
  payload : Bytes
  deriving Repr, DecidableEq

/-- `unmarshalFrame(frame)`; `frame` includes the 4-byte frame size. The payload
offset is `calculateHeaderSize(headers) + 8`: the code (and its unit test)
expects the Thrift message after the headers to carry its own 4-byte length
prefix (a TFramedTransport-framed payload) and strips it. `calculateHeaderSize`
is taken over the decoded *map*, so duplicate names shift the offset. This
function is not used outside the tests of lib/go; it is modelled as it is. -/
def unmarshalFrame (frame : Bytes) : Res FrameComponents :=
  match frame with
  | _ :: _ :: _ :: _ :: ver :: body =>
    let frameSize := rd32 frame
    if frame.length - 4 ≠ frameSize then .err .invalidData else
    if ver = 0 then
      match unmarshalHeadersFromFrame body with
      | .err e => .err e
      | .panic p => .panic p
      | .ok h =>
        match sliceFrom body ((calcSize h : Int) + 8) with
        | .err e => .err e
        | .panic p => .panic p
        | .ok payload => .ok ⟨frameSize, 0, h, payload⟩
    else .err .badVersion
  | _ => .err .invalidData

end FV
