/-
Model of the breaking-change auditor, `compiler/parser/audit.go` (`Auditor.Audit` and the
checkers it calls), on the AST of `FV/Model/Idl.lean`. Core Lean only.

`audit old new` is the list of messages the auditor logs, each reduced to error/warning plus
a kind tag; the audit FAILS iff some finding is an error (`ErrorsLogged`). The order inside a
checker that ranges over a Go map is unspecified in Go; the correspondence compares the sorted
multiset of kinds.

What is keyed by what (as in the code): scopes, operations, namespaces, constants, enums,
struct-likes (per kind), services, methods by NAME; enum values by NUMBER; fields, arguments
and `throws` entries by ID. Every `newMap[key] = x` loop is `findLast?` (last one wins); the
field checker also ranges over the *map* of old fields (`dedupLast`).

`checkType` calls `UnderlyingType` on both sides (old typedefs for the old type, new typedefs
for the new one), compares the two names and recurses into key and value types; it stops at
the first level whose names differ. The recursion is on the *resolved* types, so the model is
fuelled: one unit per container level, and `underlying` one unit per typedef hop. The fuel
`old.fuel + new.fuel` suffices on well-formed programs (that is part of `WF`); running out
of fuel corresponds to the stack overflow of the real code on cyclic typedefs.

Includes: a name `inc.n` (`Ty.qual`) is looked up only in the typedefs of the included file
`inc` (`typedefTarget`); the body found there is resolved further in the INCLUDING file, as
the code does — right only when that body mentions no names (`WF`; a second hop or any name
inside an include is the recorded finding shared with C02/C11). Only the main file's
declarations are audited; struct/enum names of an include are compared as written (`inc.n`).
`underlying` does not look up reserved words (`base`, containers) among typedefs.

The command line (`main.go`): `frugal -audit old f1 … fk` audits every file against `old` with
one shared auditor whose logger's error flag is sticky, and exits 1 at the first failure:
`cliAudit`.
-/
import FV.Model.Idl

namespace FV.Audit
open FV.Idl

inductive Kind where
  | scopeMissing | pfx | opRemoved | type | enumValue | structMissing | ext | serviceMissing
  | methodMissing | oneway | excAdd | excRemove | modifier | fieldRemoved | addedRequired
  | nsChanged | nsRemoved | constChanged | constRemoved | enumRemoved | enumName | dflt
  | middle | name
  deriving DecidableEq, Repr, Inhabited

inductive Finding where
  | error (k : Kind)
  | warning (k : Kind)
  deriving DecidableEq, Repr, Inhabited

def Finding.isError : Finding → Bool
  | .error _ => true
  | .warning _ => false

/-- The shape of every checker: for each old item, the new item with the same key (last one
wins) is compared with it, or its absence is reported. -/
def forOld (olds : List α) (news : List β) (same : α → β → Bool)
    (both : α → β → List Finding) (missing : α → List Finding) : List Finding :=
  olds.flatMap fun o =>
    match findLast? (same o) news with
    | some n => both o n
    | none => missing o

/-! ### checkType -/

/-- `Frugal.UnderlyingType`: follow typedefs at the head of the type. -/
def underlying (tds : TEnv) : Nat → Ty → Ty
  | 0, t => t
  | f + 1, .named n =>
    match tds.loc n with
    | some body => underlying tds f body
    | none => .named n
  | f + 1, .qual i n =>
    -- `inc.n`: only `ParsedIncludes[inc].typedefIndex`; the body found there is then resolved
    -- further in the including file (as the code does)
    match tds.inInc i n with
    | some body => underlying tds f body
    | none => .qual i n
  | _ + 1, t => t

/-- Number of "types not equal" messages `checkType` logs for two non-nil types. -/
def tyMismatches (otds ntds : TEnv) : Nat → Ty → Ty → Nat
  | 0, _, _ => 0
  | f + 1, a, b =>
    match underlying otds (f + 1) a, underlying ntds (f + 1) b with
    | .list x, .list y => tyMismatches otds ntds f x y
    | .set x, .set y => tyMismatches otds ntds f x y
    | .map k v, .map k' v' => tyMismatches otds ntds f k k' + tyMismatches otds ntds f v v'
    | .base n, .base m => if n = m then 0 else 1
    | .named n, .named m => if n = m then 0 else 1
    | .qual i n, .qual j m => if i = j ∧ n = m then 0 else 1
    | _, _ => 1

/-- `checkType` including its nil guard (a nil type is a `void` return type). -/
def tyMismatchesO (otds ntds : TEnv) (fuel : Nat) : Option Ty → Option Ty → Nat
  | none, none => 0
  | some a, some b => tyMismatches otds ntds fuel a b
  | _, _ => 1

structure Ctx where
  otds : TEnv
  ntds : TEnv
  fuel : Nat

def Ctx.of (old new : Prog) : Ctx := ⟨old.env, new.env, old.fuel + new.fuel⟩

def checkType (c : Ctx) (warn : Bool) (a b : Option Ty) : List Finding :=
  List.replicate (tyMismatchesO c.otds c.ntds c.fuel a b) (if warn then .warning .type else .error .type)

/-! ### checkFields -/

def maxInt : Int := 9223372036854775807

def isReq (f : Field) : Bool := f.mod == .required

def checkFields (c : Ctx) (oldFs newFs : List Field) : List Finding :=
  let om := dedupLast (·.id) oldFs
  let nm := dedupLast (·.id) newFs
  let mn := om.foldl (fun m f => if f.id < m then f.id else m) maxInt
  let mx := om.foldl (fun m f => if f.id > m then f.id else m) 0
  forOld om nm (fun a b => b.id == a.id)
    (fun a b =>
      checkType c false (some a.ty) (some b.ty)
        ++ (if isReq a != isReq b then [.error .modifier] else [])
        ++ (if a.dflt != b.dflt then [.warning .dflt] else [])
        ++ (if a.name != b.name then [.warning .name] else []))
    (fun a => if a.mod != .optional then [.error .fieldRemoved] else [])
  ++ nm.flatMap fun g =>
      if om.any (fun a => a.id == g.id) then []
      else (if mn < g.id ∧ g.id < mx then [.warning .middle] else [])
        ++ (if g.mod == .required then [.error .addedRequired] else [])

/-! ### scopes -/

/-- `normalizeScopePrefix` on one piece: `{…}` becomes `{}` (here `none`), any other piece
stays (`some s`). Go compares the pieces re-joined with `.`; pieces contain no `.`, and a piece
that is not a variable contains no brace (grammar: `PrefixWord <- [^\r\n\t\f .{}]+`), so
comparing the joined strings is comparing these lists. -/
def normTok : PTok → Option String
  | .var _ => none
  | .lit s => some s

def normPrefix (p : List PTok) : List (Option String) := p.map normTok

def checkScopes (c : Ctx) (old new : List Scope) : List Finding :=
  forOld old new (fun a b => b.name == a.name)
    (fun a b =>
      (if normPrefix a.pfx != normPrefix b.pfx then [.error .pfx] else [])
        ++ forOld a.ops b.ops (fun x y => y.name == x.name)
            (fun x y => checkType c false (some x.ty) (some y.ty))
            (fun _ => [.error .opRemoved]))
    (fun _ => [.error .scopeMissing])

/-! ### namespaces, constants (warnings only) -/

def checkNamespaces (old new : List Namespace) : List Finding :=
  forOld old new (fun a b => b.scope == a.scope)
    (fun a b => if a.value != b.value then [.warning .nsChanged] else [])
    (fun _ => [.warning .nsRemoved])

def checkConstants (c : Ctx) (old new : List Const) : List Finding :=
  forOld old new (fun a b => b.name == a.name)
    (fun a b => checkType c true (some a.ty) (some b.ty)
      ++ (if a.value != b.value then [.warning .constChanged] else []))
    (fun _ => [.warning .constRemoved])

/-! ### enums -/

def checkEnums (old new : List Enum) : List Finding :=
  forOld old new (fun a b => b.name == a.name)
    (fun a b =>
      forOld a.values b.values (fun x y => y.num == x.num)
        (fun x y => if x.name != y.name then [.warning .enumName] else [])
        (fun _ => [.error .enumValue]))
    (fun _ => [.warning .enumRemoved])

/-! ### structs, exceptions, unions -/

def checkStructLike (c : Ctx) (old new : List StructLike) : List Finding :=
  forOld old new (fun a b => b.name == a.name)
    (fun a b => checkFields c a.fields b.fields)
    (fun _ => [.error .structMissing])

def ofKind (k : StructKind) (l : List StructLike) : List StructLike := l.filter (·.kind == k)

/-! ### services -/

def checkMethod (c : Ctx) (a b : Method) : List Finding :=
  (if a.oneway != b.oneway then [.error .oneway] else [])
    ++ checkType c false a.ret b.ret
    ++ checkFields c a.args b.args
    ++ checkFields c a.excs b.excs
    ++ (if a.ret.isNone ∧ a.excs.isEmpty ∧ !b.excs.isEmpty then [.error .excAdd] else [])
    ++ (if b.ret.isNone ∧ b.excs.isEmpty ∧ !a.excs.isEmpty then [.error .excRemove] else [])

def checkServices (c : Ctx) (old new : List Service) : List Finding :=
  forOld old new (fun a b => b.name == a.name)
    (fun a b =>
      (if a.ext.isSome ∧ a.ext != b.ext then [.error .ext] else [])
        ++ forOld a.methods b.methods (fun x y => y.name == x.name) (checkMethod c)
            (fun _ => [.error .methodMissing]))
    (fun _ => [.error .serviceMissing])

/-! ### Audit -/

/-- The checkers in the order of `Auditor.Audit`, for a given comparison context. Every position
is compared on its own: `checkType` keeps no memory of the pairs it has seen. -/
def auditWith (c : Ctx) (old new : Prog) : List Finding :=
  checkScopes c old.scopes new.scopes
    ++ checkNamespaces old.namespaces new.namespaces
    ++ checkConstants c old.consts new.consts
    ++ checkEnums old.enums new.enums
    ++ checkStructLike c (ofKind .struct old.structs) (ofKind .struct new.structs)
    ++ checkStructLike c (ofKind .exception old.structs) (ofKind .exception new.structs)
    ++ checkStructLike c (ofKind .union old.structs) (ofKind .union new.structs)
    ++ checkServices c old.services new.services

def audit (old new : Prog) : List Finding := auditWith (Ctx.of old new) old new

/-- `Audit` returns an error iff an error was logged. -/
def auditFails (old new : Prog) : Bool := (audit old new).any Finding.isError

/-- `main.go`, the `-audit` loop: one auditor for all files (its `errorsLogged` flag is never
reset), `os.Exit(1)` as soon as an `Audit` call returns an error. `true` = exit status 1. -/
def cliLoop (old : Prog) : Bool → List Prog → Bool
  | _, [] => false
  | sticky, f :: fs =>
    let failed := sticky || auditFails old f
    if failed then true else cliLoop old failed fs

def cliAudit (old : Prog) (files : List Prog) : Bool := cliLoop old false files

/-- Index of the file named in the `FAILED: audit of …` line (the first failing one). -/
def cliFirstFailing (old : Prog) (files : List Prog) : Option Nat :=
  files.findIdx? (auditFails old)

end FV.Audit
