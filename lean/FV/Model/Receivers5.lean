/-
The reply step of a server worker when the ECHOED response headers are large (C05 (f)):
lib/go/processor.go `SendReply` / `trapError` / `sendError` / `SendError`, `FBaseProcessor.Process`'s own
unknown-method answer, over lib/go/bounded_memory_buffer.go `TMemoryOutputBuffer` (limit 1 MiB in
`fNatsServer.processFrame`; the HTTP handler and the simple server write to unbounded buffers, the HTTP
handler compares the total with the `x-frugal-payload-limit` it was sent afterwards).

What the protocol writes is a list of write SIZES (response header block first): Thrift's writers are
environment, the harness records the sizes of the real run. The buffer holds a 4-byte frame-size
placeholder from the start; a write that would pass the limit RESETS the buffer to that placeholder and
fails (`checkSize`).

  checked     the writes of `SendReply` and of `Process`'s unknown-method answer: stop at the first failure
  group       the writes of ONE protocol call (`WriteMessageBegin`, `TApplicationException.Write`, …): Thrift's
              writers return at their first failed write
  unchecked   the protocol calls of `sendError`: every result is ignored, the calls behind a failed one still
              happen (on the buffer the failure has reset)
  replyStep   valid call: `SendReply`, and on failure ONE `sendError(RESPONSE_TOO_LARGE)` (`trapError`);
              handler error / unreadable arguments: ONE `SendError`; unknown method: one checked attempt whose
              failure is returned to the worker (logged, nothing published).
              `sendError` does not look at the results of its writes, so it cannot come back to `trapError`:
              the step is a composition of at most two folds over finite lists — structurally terminating.
  sendErrorRec  the variant in which `sendError` hands a failed write to `trapError` again (not the code):
              with a header block that alone passes the limit it never gets anywhere, whatever the fuel.
-/
import FV.Basic

namespace FV.Recv5

/-- One `Write`/`WriteByte`/`WriteString` of `w` bytes on a buffer of current length `len` (`limit = 0`:
unbounded): the new length, or `none` = buffer reset + REQUEST_TOO_LARGE. -/
def write (limit len w : Nat) : Option Nat :=
  if limit > 0 ∧ w + len > limit then none else some (len + w)

def checked (limit : Nat) : Nat → List Nat → Option Nat
  | len, [] => some len
  | len, w :: t =>
    match write limit len w with
    | some l => checked limit l t
    | none => none

def group (limit : Nat) : Nat → List Nat → Nat
  | len, [] => len
  | len, w :: t =>
    match write limit len w with
    | some l => group limit l t
    | none => 4

def unchecked (limit : Nat) : Nat → List (List Nat) → Nat
  | len, [] => len
  | len, g :: t => unchecked limit (group limit len g) t

inductive Scenario where
  | reply      -- the handler returned a value: SendReply
  | error      -- the handler failed or the arguments were unreadable: SendError
  | unknown    -- unknown method: FBaseProcessor.Process writes the exception itself, checking every write
  deriving DecidableEq, Repr

structure StepEnd where
  attempts : Nat     -- messages the worker started to write
  len : Nat          -- length of the output buffer afterwards (4 = nothing to publish)
  failed : Bool      -- `Process` returned the error to the worker: logged, nothing published
  deriving DecidableEq, Repr

/-- `primary`: the writes of the first attempt, grouped by protocol call; `fallback`: those of
`sendError(RESPONSE_TOO_LARGE)`. -/
def replyStep (limit : Nat) (sc : Scenario) (primary fallback : List (List Nat)) : StepEnd :=
  match sc with
  | .reply =>
    match checked limit 4 primary.flatten with
    | some n => ⟨1, n, false⟩
    | none => ⟨2, unchecked limit 4 fallback, false⟩
  | .error => ⟨1, unchecked limit 4 primary, false⟩
  | .unknown =>
    match checked limit 4 primary.flatten with
    | some n => ⟨1, n, false⟩
    | none => ⟨1, 4, true⟩

/-- What the worker publishes (`HasWriteData`: more than the placeholder). -/
def published (e : StepEnd) : Option Nat :=
  if e.failed ∨ e.len ≤ 4 then none else some e.len

/-- `NewFrugalHandlerFunc`: unbounded buffer, then the comparison with the announced limit: status and body length. -/
def httpReply (announced : Nat) (sc : Scenario) (primary fallback : List (List Nat)) : Nat × Option Nat :=
  let e := replyStep 0 sc primary fallback
  if announced > 0 ∧ e.len - 4 > announced then (413, none) else (200, some e.len)

/-- NOT the code: `sendError` that gives a failed write to `trapError`, which calls `sendError` again. -/
def sendErrorRec (limit : Nat) (exc : List Nat) : Nat → Option Nat
  | 0 => none
  | fuel + 1 =>
    match checked limit 4 exc with
    | some n => some n
    | none => sendErrorRec limit exc fuel

end FV.Recv5
