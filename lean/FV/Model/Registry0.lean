/-
Model of the error paths of fRegistryImpl.Execute and fBaseTransport.ExecuteFrame
against a registry in which the frame's op id is not registered (the pure part
of the client response path: header parse, op id parse, "unregistered" → nil).
-/
import FV.Basic
import FV.Model.Headers

namespace FV

def opIdHeader : Bytes := [95, 111, 112, 105, 100]  -- "_opid"
def cidHeader : Bytes := [95, 99, 105, 100]         -- "_cid"
def timeoutHeader : Bytes := [95, 116, 105, 109, 101, 111, 117, 116] -- "_timeout"

def digitsVal : List UInt8 → Nat → Option Nat
  | [], acc => some acc
  | c :: t, acc => if 48 ≤ c.toNat ∧ c.toNat ≤ 57 then digitsVal t (acc * 10 + (c.toNat - 48)) else none

/-- `strconv.ParseUint(s, 10, 64)`: non-empty, decimal digits only, below 2^64. -/
def parseU64 (s : Bytes) : Option Nat :=
  if s.isEmpty then none else
  match digitsVal s 0 with
  | some n => if n < 18446744073709551616 then some n else none
  | none => none

/-- Op id of a frame (without frame size), as `Execute` computes it. -/
def frameOpId (frame : Bytes) : Res Nat :=
  match headersFromFrame frame with
  | .ok h => match parseU64 ((h.get? opIdHeader).getD []) with
    | some n => .ok n
    | none => .err .badOpId
  | .err e => .err e
  | .panic p => .panic p

/-- `Execute(frame)` when the op id is not registered: nil, or the parse error. -/
def registryExecuteEmpty (frame : Bytes) : Res Unit :=
  match frameOpId frame with
  | .ok _ => .ok ()
  | .err e => .err e
  | .panic p => .panic p

/-- `fBaseTransport.ExecuteFrame(frame)`: strips the 4-byte frame size. -/
def executeFrameEmpty (frame : Bytes) : Res Unit :=
  if frame.length < 4 then .err .invalidData else registryExecuteEmpty (frame.drop 4)

end FV
