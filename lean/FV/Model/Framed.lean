/-
framed_transport.go read path + the adapter's read loop over a finite inbound stream (C15,
cut-anywhere family): what `readFrame` yields, call after call, on the bytes `bs` followed by the
end of the stream.
-/
import FV.Basic
import FV.Model.Registry0
import FV.Model.Adapter

namespace FV.Framed
open FV

/-- `defaultMaxLength` of framed_transport.go. -/
def maxLength : Nat := 16384000

/-- Where the stream ended relative to the framing. -/
inductive End where
  | boundary    -- between frames
  | cutHeader   -- inside a 4-byte size prefix
  | cutBody     -- inside a frame body
  | badSize     -- size prefix above maxLength: readFrameHeader fails
  deriving DecidableEq, Repr

/-- Frames handed to `registry.Execute`, in order, and how the stream ended. -/
def deframe (bs : Bytes) : List Bytes × End :=
  if bs.length = 0 then ([], .boundary)
  else if bs.length < 4 then ([], .cutHeader)
  else if rd32 bs > maxLength then ([], .badSize)
  else if (bs.drop 4).length < rd32 bs then ([], .cutBody)
  else
    let r := deframe ((bs.drop 4).drop (rd32 bs))
    ((bs.drop 4).take (rd32 bs) :: r.1, r.2)
termination_by bs.length
decreasing_by simp; omega

/-- The wire form of a list of frames. -/
def encode : List Bytes → Bytes
  | [] => []
  | f :: t => be32 f.length ++ f ++ encode t

/-- Number of frames of `fs` that lie wholly inside the first `k` bytes of `encode fs`. -/
def wholeBefore : List Bytes → Nat → Nat
  | [], _ => 0
  | f :: t, k => if 4 + f.length ≤ k then 1 + wholeBefore t (k - (4 + f.length)) else 0

/-- The read loop over the frames: deliver until `Execute` rejects one. -/
def deliver : List Bytes → Nat × Bool
  | [] => (0, true)
  | f :: t => if (registryExecuteEmpty f).isOk then ((deliver t).1 + 1, (deliver t).2) else (0, false)

/-- The adapter over the stream `bs` then EOF (`eofAfter = true`) or a read error: number of
frames delivered and the cause published on `Closed()`. -/
def readAll (bs : Bytes) (eofAfter : Bool) : Nat × Adapter.Cause :=
  let r := deframe bs
  let d := deliver r.1
  if !d.2 then (d.1, .dirty)                       -- Execute failed: close(err)
  else if r.2 = .badSize then (d.1, .dirty)        -- readFrameHeader failed: close(err)
  else if eofAfter then (d.1, .clean)              -- END_OF_FILE wherever it falls: Close()
  else (d.1, .dirty)

end FV.Framed
