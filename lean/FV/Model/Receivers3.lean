/-
The generic client path (C05 (d)): `FStandardClient.processReply` (lib/go/client.go) on the bytes a transport
hands back for a call — the reply frame without its size prefix, in a `thrift.TMemoryBuffer`.

  readI32 / binMessageBegin   thrift.TBinaryProtocol.ReadMessageBegin (v0.19.0, default configuration:
                              strict write, non-strict read, MaxMessageSize 100 MiB) — the one reader of
                              Thrift that decides which way `processReply` goes
  processReply                ReadResponseHeader (= `unmarshalStream` of Model/Headers + copying the headers
                              except `_opid` into the caller's context), ReadMessageBegin, the method-name
                              and message-type tests; the bodies (`TApplicationException.Read`,
                              `result.Read`) are Thrift's / the generated struct's readers: environment,
                              fuzzed through by the harness, the model stops at the stage reached.

Go's partial operations: `p.buffer[:size]` on the protocol's 64-byte scratch array is `bufSlice`.
-/
import FV.Basic
import FV.Model.Headers
import FV.Model.Registry0

namespace FV.Recv3
open FV

/-- `ReadI32`: `io.ReadFull` of 4 bytes; `none` = the buffer ended first (a protocol exception). -/
def readI32 (b : Bytes) : Option (Int × Bytes) :=
  if b.length < 4 then none else some (toI32 (rd32 b), b.drop 4)

/-- `p.buffer[:size]` with `len(p.buffer) = 64`. -/
def bufSlice (size : Int) : Res Nat :=
  if 0 ≤ size ∧ size ≤ 64 then .ok size.toNat else .panic .sliceBounds

/-- `thrift.DEFAULT_MAX_MESSAGE_SIZE`. -/
def maxMessageSize : Int := 104857600

/-- `TBinaryProtocol.ReadString` (inside the versioned `ReadMessageBegin`); `.err .other` = any error. -/
def binReadString (b : Bytes) : Res (Bytes × Bytes) :=
  match readI32 b with
  | none => .err .other
  | some (size, r) =>
    if size < 0 then .err .other            -- NEGATIVE_SIZE
    else if size > maxMessageSize then .err .other   -- SIZE_LIMIT
    else if size = 0 then .ok ([], r)
    else if size < 64 then
      match bufSlice size with
      | .panic p => .panic p
      | .err e => .err e
      | .ok n => if r.length < n then .err .other else .ok (r.take n, r.drop n)
    else if r.length < size.toNat then .err .other      -- `safeReadBytes`: io.CopyN into a growing buffer
    else .ok (r.take size.toNat, r.drop size.toNat)

/-- `ReadMessageBegin`: method name, message type, what is left. -/
def binMessageBegin (b : Bytes) : Res (Bytes × Nat × Bytes) :=
  match readI32 b with
  | none => .err .other
  | some (size, r) =>
    if size < 0 then
      -- versioned envelope: the top 16 bits must be 0x8001, the low byte is the message type
      if rd32 b / 65536 ≠ 32769 then .err .badVersion else
      match binReadString r with
      | .panic p => .panic p
      | .err e => .err e
      | .ok (name, r1) =>
        match readI32 r1 with
        | none => .err .other
        | some (_, r2) => .ok (name, rd32 b % 256, r2)
    else
      -- old envelope (non-strict read): name of `size` bytes (`safeReadBytes`), type byte, sequence id
      if r.length < size.toNat then .err .other else
      let name := r.take size.toNat
      match r.drop size.toNat with
      | [] => .err .other
      | ty :: r1 =>
        match readI32 r1 with
        | none => .err .other
        | some (_, r2) => .ok (name, ty.toNat, r2)

/-- How far `processReply` got; every stage but `reply` returns an error to the caller. -/
inductive Stage where
  | hdr (e : Err)     -- ReadResponseHeader failed
  | msg               -- ReadMessageBegin failed
  | wrongMethod       -- APPLICATION_EXCEPTION_WRONG_METHOD_NAME
  | exception         -- message type EXCEPTION: `TApplicationException.Read` on the body, then that exception (or the read error) is returned
  | badType           -- APPLICATION_EXCEPTION_INVALID_MESSAGE_TYPE
  | reply             -- message type REPLY: `result.Read` on the body
  deriving Repr, DecidableEq

structure ReplyOutcome where
  added : Hdrs        -- response headers copied into the caller's context (never `_opid`)
  stage : Stage
  deriving Repr, DecidableEq

def dropOpId (h : Hdrs) : Hdrs := h.filter (fun kv => kv.1 ≠ opIdHeader)

/-- `processReply(ctx, fctx, method, result, resultTransport)` up to the body. -/
def processReply (method reply : Bytes) : Res ReplyOutcome :=
  match unmarshalStream reply with
  | .panic p => .panic p
  | .err e => .ok ⟨[], .hdr e⟩
  | .ok (h, rest) =>
    let added := dropOpId h
    match binMessageBegin rest with
    | .panic p => .panic p
    | .err _ => .ok ⟨added, .msg⟩
    | .ok (name, ty, _) =>
      if name ≠ method then .ok ⟨added, .wrongMethod⟩
      else if ty = 3 then .ok ⟨added, .exception⟩
      else if ty ≠ 2 then .ok ⟨added, .badType⟩
      else .ok ⟨added, .reply⟩

end FV.Recv3
