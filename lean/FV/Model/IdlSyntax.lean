/-
Abstract syntax of a Frugal IDL file as the parser represents it (`compiler/parser/types.go`),
complete enough for C10: annotations, doc comments, defaults, constants, namespaces, includes.
(`FV.Model.Idl` is the smaller syntax the audit model of C18 needs.)  Core Lean only.

Identifiers and texts are `List Char`.  Correspondence with the Go AST:
* `Ty.base n anns`  : `Type{Name: n, Annotations}` produced by the `BaseType` rule;
  `Ty.named n`      : `Type{Name: n}` produced from an `Identifier` (never has annotations);
  `list/set/map`    : `Type{Name: "list"|"set"|"map", KeyType, ValueType, Annotations}`.
* `CV` : the `interface{}` of `ConstValue`: string, bool, float64 (kept as sign, decimal digits
  and decimal exponent — the driver prints its canonical decimal form), int64, `Identifier`,
  `[]interface{}`, `[]KeyValue`.
* `doc : Option (List (List Char))` : `Comment []string` (`none` = nil).
* an annotation without a value has the value `""` (the Go code cannot tell them apart).
-/
namespace FV.Syn

abbrev Name := List Char

structure Ann where
  name : Name
  value : List Char
  deriving DecidableEq, Repr, Inhabited

inductive Ty where
  | base (n : Name) (anns : List Ann)
  | named (n : Name)
  | list (e : Ty) (anns : List Ann)
  | set (e : Ty) (anns : List Ann)
  | map (k v : Ty) (anns : List Ann)
  deriving DecidableEq, Repr, Inhabited

inductive CV where
  | str (s : List Char)
  | bool (b : Bool)
  | dbl (neg : Bool) (digits : List Char) (exp : Int)
  | int (i : Int)
  | ref (n : Name)
  | list (l : List CV)
  | map (l : List (CV × CV))
  deriving Repr, Inhabited

inductive Mod where
  | required | optional | dflt
  deriving DecidableEq, Repr, Inhabited

abbrev Doc := Option (List (List Char))

structure Field where
  doc : Doc
  id : Int
  mod : Mod
  name : Name
  ty : Ty
  dflt : Option CV
  anns : List Ann
  deriving Repr, Inhabited

structure Struct where
  doc : Doc
  name : Name
  fields : List Field
  anns : List Ann
  deriving Repr, Inhabited

structure EnumValue where
  doc : Doc
  name : Name
  num : Int
  anns : List Ann
  deriving Repr, Inhabited

structure Enum where
  doc : Doc
  name : Name
  values : List EnumValue
  anns : List Ann
  deriving Repr, Inhabited

structure Typedef where
  doc : Doc
  name : Name
  ty : Ty
  anns : List Ann
  deriving Repr, Inhabited

structure Const where
  doc : Doc
  name : Name
  ty : Ty
  value : CV
  anns : List Ann
  deriving Repr, Inhabited

structure Include where
  name : Name
  value : List Char
  anns : List Ann
  deriving Repr, Inhabited

structure Namespace where
  scope : List Char
  value : Name
  anns : List Ann
  deriving Repr, Inhabited

structure Method where
  doc : Doc
  name : Name
  oneway : Bool
  ret : Option Ty
  args : List Field
  excs : List Field
  anns : List Ann
  deriving Repr, Inhabited

structure Service where
  doc : Doc
  name : Name
  ext : Name            -- `[]` = no `extends`
  methods : List Method
  anns : List Ann
  deriving Repr, Inhabited

structure Op where
  doc : Doc
  name : Name
  ty : Ty
  anns : List Ann
  deriving Repr, Inhabited

structure Scope where
  doc : Doc
  name : Name
  pfx : List Char        -- `ScopePrefix.String`
  vars : List Name       -- `ScopePrefix.Variables`
  ops : List Op
  anns : List Ann
  deriving Repr, Inhabited

structure File where
  includes : List Include := []
  namespaces : List Namespace := []
  typedefs : List Typedef := []
  consts : List Const := []
  enums : List Enum := []
  structs : List Struct := []
  exceptions : List Struct := []
  unions : List Struct := []
  services : List Service := []
  scopes : List Scope := []      -- in source order (the parser sorts them by name afterwards)
  deriving Repr, Inhabited

end FV.Syn
