/-
Shared vocabulary of the models: results of modelled Go functions (including
how they fail), byte strings, big-endian 32-bit fields, Go slice expressions.
Core Lean only (this file is linked into the driver executable).
-/
namespace FV

/-- Error classes the correspondence compares (messages are never compared). -/
inductive Err where
  | invalidData      -- thrift.INVALID_DATA protocol exception
  | badVersion       -- thrift.BAD_VERSION protocol exception
  | eof              -- TTransportException END_OF_FILE
  | transport        -- TTransportException, other
  | tooLarge         -- REQUEST_TOO_LARGE / RESPONSE_TOO_LARGE
  | missingOpId
  | badOpId          -- strconv.ParseUint failed on the _opid header
  | other
  deriving DecidableEq, Repr, Inhabited

/-- Ways a Go function can crash. -/
inductive Panic where
  | sliceBounds | makeNegative | index | nilMap | closedChan | typeAssert | overflow | fuel
  deriving DecidableEq, Repr, Inhabited

/-- Result of a modelled Go function: value, error return, or run-time panic. -/
inductive Res (α : Type) where
  | ok (a : α)
  | err (e : Err)
  | panic (p : Panic)
  deriving Repr

instance [DecidableEq α] : DecidableEq (Res α) := by
  intro a b
  cases a <;> cases b <;> first
    | (rename_i x y; exact if h : x = y then isTrue (by rw [h]) else isFalse (by intro h'; injection h'; contradiction))
    | (exact isFalse (by intro h; cases h))

namespace Res
def bind (r : Res α) (f : α → Res β) : Res β :=
  match r with
  | ok a => f a
  | err e => err e
  | panic p => panic p
instance : Monad Res where
  pure := ok
  bind := bind
def isPanic : Res α → Bool
  | panic _ => true
  | _ => false
def isOk : Res α → Bool
  | ok _ => true
  | _ => false
end Res

abbrev Bytes := List UInt8

/-- 4-byte big-endian encoding of `n mod 2^32` (`binary.BigEndian.PutUint32`). -/
def be32 (n : Nat) : Bytes :=
  [UInt8.ofNat (n / 16777216 % 256), UInt8.ofNat (n / 65536 % 256),
   UInt8.ofNat (n / 256 % 256), UInt8.ofNat (n % 256)]

/-- `binary.BigEndian.Uint32` of the first four bytes (callers guarantee length ≥ 4). -/
def rd32 : Bytes → Nat
  | a :: b :: c :: d :: _ => a.toNat * 16777216 + b.toNat * 65536 + c.toNat * 256 + d.toNat
  | _ => 0

/-- Go's `int32(x)` conversion of a `uint32`. -/
def toI32 (n : Nat) : Int :=
  if n % 4294967296 < 2147483648 then (n % 4294967296 : Nat) else (n % 4294967296 : Nat) - 4294967296

/-- Go's `uint32(x)` conversion of an `int32`/`int` (two's complement). -/
def toU32 (z : Int) : Nat := (z % 4294967296).toNat

/-- Go slice expression `b[i:j]` on a slice whose capacity equals its length
(the least permissive case): panics exactly when `¬ (0 ≤ i ≤ j ≤ len b)`. -/
def slice (b : Bytes) (i j : Int) : Res Bytes :=
  if 0 ≤ i ∧ i ≤ j ∧ j ≤ b.length then .ok ((b.drop i.toNat).take (j - i).toNat)
  else .panic .sliceBounds

/-- `b[i:]`. -/
def sliceFrom (b : Bytes) (i : Int) : Res Bytes :=
  if 0 ≤ i ∧ i ≤ b.length then .ok (b.drop i.toNat) else .panic .sliceBounds

/-- Lexicographic order on byte strings (Go's string comparison). -/
def bytesLt : Bytes → Bytes → Bool
  | [], [] => false
  | [], _ :: _ => true
  | _ :: _, [] => false
  | a :: as, b :: bs => if a < b then true else if b < a then false else bytesLt as bs

end FV
