/-
C11 — what a VALID file is, written as a specification over the abstract syntax
(`FV/Model/Compile.lean`: `File`, `Ctx`), independently of the validators: no definition below
calls `validate…`, `isValidType`, `dupLoop`, `walkEnds`, … — only the syntax, list membership,
`List.Nodup`, the include table `ctx.incs` and the single typedef hop `typedefTarget` (which is
how a typedef name is looked up, not a check).

`Valid ctx` is exactly the conjunction of what the ten parts of `(*Frugal).validate` are
responsible for. It is NOT all of Thrift validity: duplicate struct / enum / typedef / constant /
field names, constant values of the wrong type, unknown or cyclic `extends`, duplicate ids in
`throws` are checked by nothing in frugal (recorded finding `unchecked-semantic-errors`) and
are therefore not part of `Valid` either — with them `validate p = ok → Valid p` would be false.

`Props/C11.lean` proves `Valid ctx ↔ validateFile ctx = ok` (so `Valid` is decidable).
-/
import FV.Model.Compile

namespace FV.Compile

/-- Two names collide in some target language when they differ at most in the case of their
first letter ("not every language supports (exported) upper/lowercase first letters"). -/
def nameKey : Name → Name
  | [] => []
  | c :: cs => toLowerC c :: cs

/-- The file declares a type called `n` (struct, union, exception, enum or typedef). -/
def File.Declares (f : File) (n : Name) : Prop :=
  (∃ s ∈ f.structs, s.name = n) ∨ (∃ e ∈ f.enums, e.name = n) ∨ (∃ td ∈ f.typedefs, td.name = n)

/-- What a custom type name refers to: an unqualified name to a declaration of this file, a name
`inc.param` (split at its FIRST dot, `inc` non-empty) to a declaration of the file included as
`inc`. (Third case: a name that starts with a dot is read as unqualified — the grammar's
`Identifier` never starts with a dot; kept so that the equivalence holds for every `Name`.) -/
def NameResolves (ctx : Ctx) (n : Name) : Prop :=
  ('.' ∉ n ∧ ctx.self.Declares n) ∨
  (∃ inc param f, n = inc ++ '.' :: param ∧ '.' ∉ inc ∧ inc ≠ [] ∧
      ctx.incs.lookup inc = some f ∧ f.Declares param) ∨
  (∃ param, n = '.' :: param ∧ ctx.self.Declares param)

/-- Every name in the type resolves: base types, containers of resolving types, declared types.
A bare container keyword (`list` without an element type) is not a type. -/
def Resolves (ctx : Ctx) : Ty → Prop
  | .list e => Resolves ctx e
  | .set e => Resolves ctx e
  | .map k v => Resolves ctx k ∧ Resolves ctx v
  | .named n => n ∈ baseTypes ∨ (n ∉ containerNames ∧ NameResolves ctx n)

/-- Resolution from `t` stops after exactly `d` typedef hops. -/
inductive StopsAfter (ctx : Ctx) : Ty → Nat → Prop
  | stop {t} : typedefTarget ctx t = none → StopsAfter ctx t 0
  | hop {t t' d} : typedefTarget ctx t = some t' → StopsAfter ctx t' d → StopsAfter ctx t (d + 1)

/-- The typedef graph this file can see is acyclic: following typedefs from the right-hand side
of any typedef of the file or of a direct include comes to an end. -/
def TypedefsAcyclic (ctx : Ctx) : Prop :=
  ∀ td ∈ allTypedefs ctx, ∃ d, StopsAfter ctx td.ty d

/-- `Enum.VALUE` names a value of an enum of `f`. -/
def File.HasEnumValue (f : File) (e v : Name) : Prop := ∃ en ∈ f.enums, en.name = e ∧ v ∈ en.values

def File.HasConst (f : File) (n : Name) : Prop := ∃ k ∈ f.consts, k.name = n

/-- A constant whose value is the identifier `id` (split at its dots): `c` a constant of this
file; `Enum.VALUE` of this file or `inc.c` a constant of an include; `inc.Enum.VALUE`. -/
def RefResolves (ctx : Ctx) (id : Name) : Prop :=
  match splitOn '.' id with
  | [_] => ctx.self.HasConst id
  | [a, b] =>
    ctx.self.HasEnumValue a b ∨
    (a ≠ [] ∧ ∃ f, ctx.incs.lookup a = some f ∧ f.HasConst b) ∨
    (a = [] ∧ ctx.self.HasConst b)
  | [a, b, c] => ∃ f, ctx.incs.lookup a = some f ∧ f.HasEnumValue b c
  | _ => False

structure ValidMethod (ctx : Ctx) (m : Method) : Prop where
  ret : ∀ t, m.ret = some t → Resolves ctx t
  args : ∀ a ∈ m.args, Resolves ctx a.ty
  excs : ∀ a ∈ m.excs, Resolves ctx a.ty
  oneway : m.oneway = true → m.excs = [] ∧ m.ret = none
  argIds : (m.args.map (·.id)).Nodup

/-- The specification. -/
structure Valid (ctx : Ctx) : Prop where
  /-- services, their methods, scopes and their operations have (non-empty) names that are
  pairwise distinct even up to the case of the first letter -/
  serviceNames : (∀ s ∈ ctx.self.services, s.name ≠ []) ∧ (ctx.self.services.map (nameKey ·.name)).Nodup
  methodNames : ∀ s ∈ ctx.self.services, (∀ m ∈ s.methods, m.name ≠ []) ∧ (s.methods.map (nameKey ·.name)).Nodup
  scopeNames : (∀ s ∈ ctx.self.scopes, s.name ≠ []) ∧ (ctx.self.scopes.map (nameKey ·.name)).Nodup
  opNames : ∀ s ∈ ctx.self.scopes, (∀ o ∈ s.ops, o.name ≠ []) ∧ (s.ops.map (nameKey ·.name)).Nodup
  /-- no `vendor` annotation on a `*` namespace -/
  vendor : ctx.self.vendorWild = false
  /-- no file is included twice -/
  includes : (ctx.self.includes.map includeDeclName).Nodup
  /-- constants: the type resolves, a referenced identifier resolves -/
  consts : ∀ c ∈ ctx.self.consts, Resolves ctx c.ty ∧ ∀ id, c.ref = some id → RefResolves ctx id
  /-- typedefs: the target resolves; no cycles -/
  typedefs : ∀ td ∈ ctx.self.typedefs, Resolves ctx td.ty
  acyclic : TypedefsAcyclic ctx
  /-- structs, unions, exceptions: field types resolve, field ids are unique -/
  structs : ∀ s ∈ ctx.self.structs, (∀ fl ∈ s.fields, Resolves ctx fl.ty) ∧ (s.fields.map (·.id)).Nodup
  /-- services: return / argument / throws types resolve, oneway methods are void and throw
  nothing, argument ids are unique -/
  methods : ∀ s ∈ ctx.self.services, ∀ m ∈ s.methods, ValidMethod ctx m
  /-- scopes: operation types resolve -/
  ops : ∀ s ∈ ctx.self.scopes, ∀ o ∈ s.ops, Resolves ctx o.ty

/-- Includes resolve and are acyclic: the files of the directory are listed so that every include
of a file names (`<name>.frugal`) a file listed AFTER it. (An include graph is acyclic exactly
when such a listing exists; the first file is the one given to the compiler.) -/
def IncludesLater : Prog → Prop
  | [] => True
  | f :: rest => (∀ v ∈ f.includes, ∃ g ∈ rest, v = g.name ++ frugalExt) ∧ IncludesLater rest

/-- A valid program: distinct file names, includes that resolve and are acyclic, every file valid
in the context of its includes. -/
structure ValidProg (p : Prog) : Prop where
  nonempty : p ≠ []
  distinct : (p.map (·.name)).Nodup
  includes : IncludesLater p
  files : ∀ f ∈ p, Valid (ctxOf p f)

end FV.Compile
