/-
Vocabulary of the C16 statements, written without reference to `compose`:
the expected enter/exit sequences of a list of wrapping middleware, event
classifiers for counting, and "the function registered last under a name".
-/
import FV.Model.Middleware

namespace FV.Mw
variable {α ρ : Type}

/-- Enter events of `ws` labelled `k …`, outermost (last-listed) first. Middleware `i`
is called with the arguments rewritten by every later-listed one. -/
def enters (k : Nat) (ws : List (W α ρ)) (a : α) : List (Ev α ρ) :=
  (List.range ws.length).reverse.map (fun i => Ev.enter (k + i) (preAll (ws.drop (i + 1)) a))

/-- Exit events, innermost (first-listed) first. Middleware `i` gets back the inner
result rewritten by every earlier-listed one. -/
def exits (k : Nat) (ws : List (W α ρ)) (r : ρ) : List (Ev α ρ) :=
  (List.range ws.length).map (fun i => Ev.exit (k + i) (postAll (ws.take i) r))

def isEnter (i : Nat) : Ev α ρ → Bool
  | .enter j _ => j == i
  | _ => false
def isExit (i : Nat) : Ev α ρ → Bool
  | .exit j _ => j == i
  | _ => false
def isBase : Ev α ρ → Bool
  | .base _ => true
  | _ => false

/-- The event without the values it carries. -/
inductive Tag where
  | enter (i : Nat) | base | exit (i : Nat)
  deriving DecidableEq, Repr

def Ev.tag : Ev α ρ → Tag
  | .enter i _ => .enter i
  | .base _ => .base
  | .exit i _ => .exit i

/-- The proxied function registered last under `k` (a child's replaces its parent's). -/
def lastOp (ops : List (Op α ρ)) (k : String) : Option (α → ρ) :=
  ops.foldl (fun acc op => if op.1 = k then some op.2 else acc) none

end FV.Mw
