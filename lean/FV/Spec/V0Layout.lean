/-
The documented v0 header layout (documentation/protocol.md) as a relation,
written independently of the codec functions, plus an executable reader of it.
-/
import FV.Basic
import FV.Model.Headers

namespace FV

/-- `PairsLayout bs hs`: `bs` is exactly the length-prefixed name/value pairs `hs`, in order. -/
inductive PairsLayout : Bytes → Hdrs → Prop where
  | nil : PairsLayout [] []
  | cons (k v bs : Bytes) (hs : Hdrs) :
      k.length < 4294967296 → v.length < 4294967296 → PairsLayout bs hs →
      PairsLayout (be32 k.length ++ k ++ be32 v.length ++ v ++ bs) ((k, v) :: hs)

/-- `V0Layout b hs rest`: `b` is version byte 0, a 4-byte big-endian total `m`,
`m` bytes of pairs encoding `hs` in order, followed by `rest` (the Thrift payload). -/
def V0Layout (b : Bytes) (hs : Hdrs) (rest : Bytes) : Prop :=
  ∃ body, PairsLayout body hs ∧ body.length < 4294967296 ∧ b = 0 :: (be32 body.length ++ body ++ rest)

/-- Executable reader of the pairs region (fuel = number of bytes is always enough). -/
def specPairs : Nat → Bytes → Option Hdrs
  | _, [] => some []
  | 0, _ :: _ => none
  | fuel + 1, bs =>
    if bs.length < 4 then none else
    let k := rd32 bs
    let r := bs.drop 4
    if r.length < k then none else
    let r2 := r.drop k
    if r2.length < 4 then none else
    let v := rd32 r2
    let r3 := r2.drop 4
    if r3.length < v then none else
    (specPairs fuel (r3.drop v)).map fun t => (r.take k, r3.take v) :: t

/-- Executable reader of `[ver][m][pairs][rest]`. -/
def specDecode (b : Bytes) : Option (Hdrs × Bytes) :=
  match b with
  | [] => none
  | ver :: r =>
    if ver ≠ 0 ∨ r.length < 4 then none else
    let m := rd32 r
    let body := r.drop 4
    if body.length < m then none else
    (specPairs m (body.take m)).map fun hs => (hs, body.drop m)

end FV
