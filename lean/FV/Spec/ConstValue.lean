/-
C11 — when a constant value FITS its declared type (what Thrift asks of `const T c = v` and of
field defaults; nothing in frugal validates it). Declarative: an inductive relation over the
type and the value, independent of `genConst`.
-/
import FV.Model.ConstValue

namespace FV.Compile

/-- `t` reads, through typedefs, as `u`. -/
def Underlies (ctx : Ctx) (t u : Ty) : Prop := underlying ctx (typedefLimit ctx + 2) t = .ok u

/-- The identifier names a constant or an enum value that exists (here or in an include). -/
def IdentNames (ctx : Ctx) (id : Name) : Prop :=
  match splitOn '.' id with
  | [_] => ∃ k ∈ ctx.self.consts, k.name = id
  | [a, b] =>
    (∃ en ∈ ctx.self.enums, en.name = a ∧ b ∈ en.values) ∨
    (∃ f, ctx.incs.lookup a = some f ∧ ∃ k ∈ f.consts, k.name = b)
  | [a, b, c] => ∃ f, ctx.incs.lookup a = some f ∧ ∃ en, f.enums.find? (·.name = b) = some en ∧ c ∈ en.values
  | _ => False

/-- A literal of a base type. -/
def BaseFits (n : Name) : Val → Prop
  | .str _ => n = "string".toList ∨ n = "binary".toList
  | .bool _ => n = "bool".toList
  | .int _ => n ∈ ["byte", "i8", "i16", "i32", "i64", "double"].map String.toList
  | .dbl => n = "double".toList
  | _ => False

inductive Fits (ctx : Ctx) : Ty → Val → Prop
  | ident {t id} : IdentNames ctx id → Fits ctx t (.ident id)
  | base {t n v} : Underlies ctx t (.named n) → n ∈ baseTypes → BaseFits n v → Fits ctx t v
  | list {t e vs} : Underlies ctx t (.list e) → (∀ v ∈ vs, Fits ctx e v) → Fits ctx t (.list vs)
  | set {t e vs} : Underlies ctx t (.set e) → (∀ v ∈ vs, Fits ctx e v) → Fits ctx t (.list vs)
  | map {t k w kvs} : Underlies ctx t (.map k w) → (∀ kv ∈ kvs, Fits ctx k kv.1) → (∀ kv ∈ kvs, Fits ctx w kv.2) →
      Fits ctx t (.map kvs)
  | enum {t n i} : Underlies ctx t (.named n) → n ∉ baseTypes → n ∉ containerNames → isEnumName ctx n = true →
      Fits ctx t (.int i)
  | struct {t n s kvs} : Underlies ctx t (.named n) → n ∉ baseTypes → n ∉ containerNames → isEnumName ctx n = false →
      findStruct ctx n = some s →
      (∀ kv ∈ kvs, ∃ key, kv.1 = .str key ∨ kv.1 = .ident key) →
      (∀ kv ∈ kvs, ∀ key, (kv.1 = .str key ∨ kv.1 = .ident key) → ∀ fl ∈ s.fields, title fl.name = title key →
        Fits ctx fl.ty kv.2) →
      Fits ctx t (.map kvs)

end FV.Compile
