/-
The documented catalogue of breaking changes (header comments of `compiler/parser/audit.go`
and the text of property C18), written independently of the auditor model, as existential
statements over *sites* of the two programs. Nothing here mentions `FV.Audit`.

Readings adopted where the catalogue is terse (DESIGN §7 C18 "H"):
* "field removed" is the documented "non-optional field removed"; union fields and `throws`
  entries are optional by construction of the parser, so removing one of those is no breaking
  change by itself (a `throws` entry only through the void-method rule);
* declarations are matched by name (enum values by number, fields by id) — a renamed method,
  service, scope, operation or struct is a removed one; a field that changes its id is a
  removed field plus an added one;
* struct, union and exception are three kinds: the same name under another kind is a removal;
* removing a whole enum is the documented warning; its uses surface as type changes;
* a type is changed iff the two types differ after expanding all typedefs, the old type with
  the old program's typedefs and the new one with the new program's, at any depth; a name
  `inc.n` is expanded through the typedefs of the included file `inc` and only those (a local
  declaration `n` is a different thing), names of structs/enums of an include stay `inc.n`;
* the audited declarations are those of the file itself (an included file is audited on its own);
* adding `extends` is compatible, changing or dropping it is breaking.
-/
import FV.Model.Idl

namespace FV.Breaking
open FV.Idl

/-- The written types `a` (old program) and `b` (new program) denote different types. -/
def TypeChanged (old new : Prog) (a b : Ty) : Prop :=
  resolve? old.env old.fuel a ≠ resolve? new.env new.fuel b

/-- Return types: `none` is `void`. -/
def RetChanged (old new : Prog) : Option Ty → Option Ty → Prop
  | none, none => False
  | some a, some b => TypeChanged old new a b
  | _, _ => True

/-- Breaking changes of a field list (struct fields, arguments, `throws`), fields keyed by id. -/
def FieldsBreaking (old new : Prog) (ofs nfs : List Field) : Prop :=
  (∃ f ∈ ofs, ∃ g ∈ nfs, g.id = f.id ∧
      (TypeChanged old new f.ty g.ty                                  -- field type changed
        ∨ ¬ (f.mod = .required ↔ g.mod = .required)))                 -- requiredness changed
  ∨ (∃ f ∈ ofs, f.mod ≠ .optional ∧ ∀ g ∈ nfs, g.id ≠ f.id)         -- non-optional field removed
  ∨ (∃ g ∈ nfs, g.mod = .required ∧ ∀ f ∈ ofs, f.id ≠ g.id)         -- required field added

/-- Two prefix pieces agree up to the name of a variable. -/
def tokAgree : PTok → PTok → Prop
  | .var _, .var _ => True
  | .lit s, .lit t => s = t
  | _, _ => False

instance : ∀ a b, Decidable (tokAgree a b)
  | .var _, .var _ => isTrue trivial
  | .lit s, .lit t => inferInstanceAs (Decidable (s = t))
  | .var _, .lit _ => isFalse id
  | .lit _, .var _ => isFalse id

/-- The prefixes agree piece by piece up to variable names. -/
def prefixAgree : List PTok → List PTok → Prop
  | [], [] => True
  | a :: p, b :: q => tokAgree a b ∧ prefixAgree p q
  | _, _ => False

instance : ∀ p q, Decidable (prefixAgree p q)
  | [], [] => isTrue trivial
  | a :: p, b :: q =>
    have := instDecidablePrefixAgree p q
    inferInstanceAs (Decidable (tokAgree a b ∧ prefixAgree p q))
  | [], _ :: _ => isFalse id
  | _ :: _, [] => isFalse id

def ScopesBreaking (old new : Prog) : Prop :=
  ∃ s ∈ old.scopes,
    (∀ s' ∈ new.scopes, s'.name ≠ s.name)                              -- scope removed
    ∨ ∃ s' ∈ new.scopes, s'.name = s.name ∧
        (¬ prefixAgree s.pfx s'.pfx                                     -- prefix changed
          ∨ ∃ o ∈ s.ops,
              (∀ o' ∈ s'.ops, o'.name ≠ o.name)                        -- operation removed
              ∨ ∃ o' ∈ s'.ops, o'.name = o.name ∧ TypeChanged old new o.ty o'.ty)

def EnumsBreaking (old new : Prog) : Prop :=
  ∃ e ∈ old.enums, ∃ e' ∈ new.enums, e'.name = e.name ∧
    ∃ v ∈ e.values, ∀ v' ∈ e'.values, v'.num ≠ v.num                    -- enum value removed

def StructsBreaking (old new : Prog) : Prop :=
  ∃ s ∈ old.structs,
    (∀ s' ∈ new.structs, ¬ (s'.kind = s.kind ∧ s'.name = s.name))       -- struct removed
    ∨ ∃ s' ∈ new.structs, s'.kind = s.kind ∧ s'.name = s.name ∧
        FieldsBreaking old new s.fields s'.fields

def MethodBreaking (old new : Prog) (m m' : Method) : Prop :=
  m.oneway ≠ m'.oneway
  ∨ RetChanged old new m.ret m'.ret
  ∨ FieldsBreaking old new m.args m'.args
  ∨ FieldsBreaking old new m.excs m'.excs
  ∨ (m.ret = none ∧ m.excs = [] ∧ m'.excs ≠ [])     -- void method gains its first exception
  ∨ (m'.ret = none ∧ m'.excs = [] ∧ m.excs ≠ [])    -- void method loses its last exception

def ServicesBreaking (old new : Prog) : Prop :=
  ∃ s ∈ old.services,
    (∀ s' ∈ new.services, s'.name ≠ s.name)                            -- service removed
    ∨ ∃ s' ∈ new.services, s'.name = s.name ∧
        ((s.ext ≠ none ∧ s'.ext ≠ s.ext)                               -- extends changed / dropped
          ∨ ∃ m ∈ s.methods,
              (∀ m' ∈ s'.methods, m'.name ≠ m.name)                    -- method removed
              ∨ ∃ m' ∈ s'.methods, m'.name = m.name ∧ MethodBreaking old new m m')

/-- `new` contains at least one documented breaking change relative to `old`. -/
def Breaking (old new : Prog) : Prop :=
  ScopesBreaking old new ∨ EnumsBreaking old new ∨ StructsBreaking old new ∨ ServicesBreaking old new

instance (old new : Prog) (a b : Ty) : Decidable (TypeChanged old new a b) := by
  unfold TypeChanged; exact inferInstance

instance (old new : Prog) : ∀ a b, Decidable (RetChanged old new a b)
  | none, none => isFalse id
  | some a, some b => inferInstanceAs (Decidable (TypeChanged old new a b))
  | none, some _ => isTrue trivial
  | some _, none => isTrue trivial

instance (old new : Prog) (ofs nfs : List Field) : Decidable (FieldsBreaking old new ofs nfs) := by
  unfold FieldsBreaking; exact inferInstance

instance (old new : Prog) (m m' : Method) : Decidable (MethodBreaking old new m m') := by
  unfold MethodBreaking; exact inferInstance

instance (old new : Prog) : Decidable (Breaking old new) := by
  unfold Breaking ScopesBreaking EnumsBreaking StructsBreaking ServicesBreaking; exact inferInstance

/-- Executable form. -/
def breakingB (old new : Prog) : Bool := decide (Breaking old new)

theorem breakingB_iff (old new : Prog) : breakingB old new = true ↔ Breaking old new := by
  simp [breakingB]

/-! ### The documented compatible edits

`Compatible p p'`: `p'` is `p` after any combination of the edits the documentation calls
compatible — declarations, fields, arguments, enum values, prefix variables may be renamed
(names of those are not mentioned below: fields are matched by id, enum values by number,
prefix pieces up to variable names) and reordered; default values, namespaces and constants may
change freely (not mentioned); optional or default fields/arguments/exceptions, enum values,
methods, operations, services, scopes, structs and enums may be added; a service without
`extends` may get one; optional and default may be exchanged. Every old site keeps its type. -/

def FieldsCompat (ofs nfs : List Field) : Prop :=
  (∀ f ∈ ofs, ∃ g ∈ nfs, g.id = f.id ∧ g.ty = f.ty ∧ (g.mod = .required ↔ f.mod = .required))
  ∧ (∀ g ∈ nfs, g.mod = .required → ∃ f ∈ ofs, f.id = g.id)

def MethodCompat (m m' : Method) : Prop :=
  m'.oneway = m.oneway ∧ m'.ret = m.ret ∧ FieldsCompat m.args m'.args ∧ FieldsCompat m.excs m'.excs
  ∧ (m.ret = none → m.excs = [] → m'.excs = [])

def Compatible (p p' : Prog) : Prop :=
  p'.typedefs = p.typedefs ∧ p'.includes = p.includes
  ∧ (∀ s ∈ p.scopes, ∃ s' ∈ p'.scopes, s'.name = s.name ∧ prefixAgree s.pfx s'.pfx ∧
      ∀ o ∈ s.ops, ∃ o' ∈ s'.ops, o'.name = o.name ∧ o'.ty = o.ty)
  ∧ (∀ e ∈ p.enums, ∀ e' ∈ p'.enums, e'.name = e.name → ∀ v ∈ e.values, ∃ v' ∈ e'.values, v'.num = v.num)
  ∧ (∀ s ∈ p.structs, ∃ s' ∈ p'.structs, s'.kind = s.kind ∧ s'.name = s.name ∧
      FieldsCompat s.fields s'.fields)
  ∧ (∀ s ∈ p.services, ∃ s' ∈ p'.services, s'.name = s.name ∧ (s.ext = none ∨ s'.ext = s.ext) ∧
      ∀ m ∈ s.methods, ∃ m' ∈ s'.methods, m'.name = m.name ∧ MethodCompat m m')

instance (ofs nfs : List Field) : Decidable (FieldsCompat ofs nfs) := by
  unfold FieldsCompat; exact inferInstance

instance (m m' : Method) : Decidable (MethodCompat m m') := by
  unfold MethodCompat; exact inferInstance

instance (p p' : Prog) : Decidable (Compatible p p') := by
  unfold Compatible; exact inferInstance

/-! ### A change at any depth

A one-hole context of container types; `plug c t` puts `t` into the hole. -/

inductive TyCtx where
  | hole
  | list (c : TyCtx)
  | set (c : TyCtx)
  | mapKey (c : TyCtx) (v : Ty)
  | mapVal (k : Ty) (c : TyCtx)
  deriving Repr

def TyCtx.plug : TyCtx → Ty → Ty
  | .hole, t => t
  | .list c, t => .list (c.plug t)
  | .set c, t => .set (c.plug t)
  | .mapKey c v, t => .map (c.plug t) v
  | .mapVal k c, t => .map k (c.plug t)

def TyCtx.depth : TyCtx → Nat
  | .hole => 0
  | .list c => c.depth + 1
  | .set c => c.depth + 1
  | .mapKey c _ => c.depth + 1
  | .mapVal _ c => c.depth + 1

end FV.Breaking
