module verif/extract11

go 1.20
