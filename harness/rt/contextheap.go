package main

// C17 — op ids are unique and FContexts are safe to share and clone.
//
// Suite "c17": byte-coded op histories (every byte string is a history, see
// c17Exec and lean/Driver/ContextHeap.lean) executed on REAL FContexts /
// FProtocols; one driver line per history: `c17 <program-hex> <start>` where
// <start> is the value the process-wide op id counter is set to before the
// history runs (so outputs are absolute and deterministic).
//
// The oracle (c17World.check*) is the property, evaluated on real outputs only:
//   * every op id observed at creation is different from all earlier ones,
//   * a clone equals its original except `_opid` (headers, timeout, ephemeral),
//   * an operation changes nothing but the object it is aimed at: every other
//     context and every map an accessor returned reads exactly as before
//     (the one alias that exists by construction — contexts read from the same
//     FProtocol share that protocol's ephemeral map — is tracked and excepted),
//   * a map returned by an accessor has the content of the context's map.
// Plus: a lock census of lib/go/context.go (go/ast) and a concurrent stress
// whose only verdict is "no panic / fatal error, ids distinct, own writes read
// back" — supporting evidence for the atomicity assumption, not a proof.

import (
	"fmt"
	"go/ast"
	"go/parser"
	"go/token"
	"os"
	"path/filepath"
	"reflect"
	"runtime"
	"sort"
	"strconv"
	"strings"
	"sync"
	"sync/atomic"
	"time"

	frugal "github.com/Workiva/frugal/lib/go"
	"github.com/apache/thrift/lib/go/thrift"
)

var c17Keys = []string{"_opid", "_cid", "_timeout", "a", "b", "c", "k0", "k1",
	"", "é", "\x00", "_opid ", "x-long-header-name-0123456789", "A", "_cid", "_timeout"}

var c17Vals = []string{"", "0", "1", "100", "-5", "+7", "abc", "9223372036854775807",
	"9223372036854775808", "-9223372036854775808", "v1", "v2", "1_000", " 5",
	"9223372036855", "-18446744073709552"}

var c17Durs = []int64{0, 1000000, 5000000000, 999999, -1500000, 9223372036854775807, -9223372036854775808,
	3600000000000, 1, -1, 30000000000, 123456789}

var c17Cids = []string{"cid0", "cid1", "é", "x"}

// c17Foreign is a third-party FContext implementation: it has the FContext methods only (it is
// NOT an FContextWithEphemeralProperties), so the package-level frugal.Clone takes its generic branch.
type c17Foreign struct{ frugal.FContext }

// c17ForeignEP is a third-party FContextWithEphemeralProperties.
type c17ForeignEP struct {
	frugal.FContextWithEphemeralProperties
}

func (f c17ForeignEP) Clone() frugal.FContextWithEphemeralProperties {
	return c17ForeignEP{f.FContextWithEphemeralProperties.Clone()}
}

type c17Proto struct {
	p  *frugal.FProtocol
	tr *thrift.TMemoryBuffer
}

type c17Ret struct {
	s map[string]string
	e map[interface{}]interface{}
}

type c17Snap struct {
	req, resp, eph map[string]string
	timeout        int64
}

type c17World struct {
	ctxs    []frugal.FContext
	protoOf []int // protocol a context was read from, -1 when its ephemeral map is its own
	protos  []c17Proto
	rets    []c17Ret
	ids     map[string]bool
	fails   []string
	nops    int
	kinds   map[string]int
}

func c17EphMap(m map[interface{}]interface{}) map[string]string {
	out := make(map[string]string, len(m))
	for k, v := range m {
		ks, ok1 := k.(string)
		vs, ok2 := v.(string)
		if !ok1 || !ok2 {
			ks, vs = fmt.Sprintf("?%v", k), fmt.Sprintf("?%v", v)
		}
		out[ks] = vs
	}
	return out
}

func c17Eph(ctx frugal.FContext) map[string]string {
	if e, ok := ctx.(frugal.FContextWithEphemeralProperties); ok {
		return c17EphMap(e.EphemeralProperties())
	}
	return map[string]string{}
}

func c17SnapOf(ctx frugal.FContext) c17Snap {
	return c17Snap{ctx.RequestHeaders(), ctx.ResponseHeaders(), c17Eph(ctx), int64(ctx.Timeout())}
}

func c17RetMap(r c17Ret) map[string]string {
	if r.s != nil {
		m := make(map[string]string, len(r.s))
		for k, v := range r.s {
			m[k] = v
		}
		return m
	}
	return c17EphMap(r.e)
}

func (w *c17World) fail(format string, a ...interface{}) {
	if len(w.fails) < 4 {
		w.fails = append(w.fails, fmt.Sprintf("op#%d: ", w.nops)+fmt.Sprintf(format, a...))
	}
}

type c17Before struct {
	ctxs []c17Snap
	rets []map[string]string
}

func (w *c17World) snapshot() c17Before {
	b := c17Before{}
	for _, c := range w.ctxs {
		b.ctxs = append(b.ctxs, c17SnapOf(c))
	}
	for _, r := range w.rets {
		b.rets = append(b.rets, c17RetMap(r))
	}
	return b
}

// checkFrame: nothing but the target changed. tgtCtx / tgtRet = -1 for none;
// which = "req" | "resp" | "eph" | "" (the map of the target context the op writes).
func (w *c17World) checkFrame(b c17Before, tgtCtx int, which string, tgtRet int) {
	for i, old := range b.ctxs {
		now := c17SnapOf(w.ctxs[i])
		if i == tgtCtx {
			// the other maps of the target must not change either
			if which != "req" && (!mapsEqual(old.req, now.req) || old.timeout != now.timeout) {
				w.fail("request headers/timeout of context %d changed by a %s write on itself", i, which)
			}
			if which != "resp" && !mapsEqual(old.resp, now.resp) {
				w.fail("response headers of context %d changed by a %s write on itself", i, which)
			}
			if which != "eph" && !mapsEqual(old.eph, now.eph) {
				w.fail("ephemeral properties of context %d changed by a %s write on itself", i, which)
			}
			continue
		}
		if !mapsEqual(old.req, now.req) || old.timeout != now.timeout {
			w.fail("request headers/timeout of context %d changed by an operation on %d", i, tgtCtx)
		}
		if !mapsEqual(old.resp, now.resp) {
			w.fail("response headers of context %d changed by an operation on %d", i, tgtCtx)
		}
		sharedEph := tgtCtx >= 0 && which == "eph" && w.protoOf[i] >= 0 && w.protoOf[i] == w.protoOf[tgtCtx]
		if !sharedEph && !mapsEqual(old.eph, now.eph) {
			w.fail("ephemeral properties of context %d changed by an operation on %d", i, tgtCtx)
		}
	}
	for i, old := range b.rets {
		if i == tgtRet {
			continue
		}
		if !mapsEqual(old, c17RetMap(w.rets[i])) {
			w.fail("returned map %d changed by an operation not aimed at it", i)
		}
	}
}

func (w *c17World) created(ctx frugal.FContext, proto int) string {
	id, ok := ctx.RequestHeader("_opid")
	if !ok {
		w.fail("created context has no _opid")
		w.ctxs = append(w.ctxs, ctx)
		w.protoOf = append(w.protoOf, proto)
		return "new=?"
	}
	if w.ids[id] {
		w.fail("op id %q issued twice", id)
	}
	w.ids[id] = true
	w.ctxs = append(w.ctxs, ctx)
	w.protoOf = append(w.protoOf, proto)
	return "new=" + fmt.Sprintf("%x", id)
}

func c17Without(m map[string]string, k string) map[string]string {
	out := make(map[string]string, len(m))
	for a, b := range m {
		if a != k {
			out[a] = b
		}
	}
	return out
}

func c17Idx(n int, b byte) int {
	if n == 0 {
		return 0
	}
	return int(b) % n
}

func c17ValOut(v string, ok bool) string {
	if !ok {
		return "nil"
	}
	return "v=" + hx([]byte(v))
}

// c17Exec decodes and executes a program on real contexts. Returns the canonical
// output and the oracle failures.
func c17Exec(prog []byte, start uint64) (string, []string, map[string]int) {
	atomic.StoreUint64(frugal.VerifNextOpIDCounter(), start)
	w := &c17World{ids: map[string]bool{}, kinds: map[string]int{}}
	var obs []string
	i := 0
	need := func(n int) bool { return i+n <= len(prog) }
	for i < len(prog) {
		code, variant := int(prog[i])%20, int(prog[i])/20
		i++
		w.nops++
		before := w.snapshot()
		switch code {
		case 0:
			tr := thrift.NewTMemoryBuffer()
			w.protos = append(w.protos, c17Proto{binFactory.GetProtocol(tr), tr})
			obs = append(obs, ".")
			w.kinds["newProto"]++
			w.checkFrame(before, -1, "", -1)
		case 1:
			if !need(1) {
				goto done
			}
			ctx := frugal.NewFContext(c17Cids[int(prog[i])%4])
			i++
			obs = append(obs, w.created(ctx, -1))
			w.kinds["new"]++
			w.checkFrame(before, -1, "", -1)
		case 2, 19:
			if !need(1) {
				goto done
			}
			c := c17Idx(len(w.ctxs), prog[i])
			i++
			w.kinds["clone"]++
			if c >= len(w.ctxs) {
				obs = append(obs, "bad")
				break
			}
			// every way a clone comes into being: the method, the package-level function on the library's
			// own context, on a foreign FContext without ephemeral properties (the GENERIC branch of
			// frugal.Clone) and on a foreign FContextWithEphemeralProperties
			var cl frugal.FContext
			generic := false
			switch variant % 4 {
			case 0:
				cl = w.ctxs[c].(frugal.FContextWithEphemeralProperties).Clone()
				w.kinds["clone:method"]++
			case 1:
				cl = frugal.Clone(w.ctxs[c])
				w.kinds["clone:package"]++
			case 2:
				cl = frugal.Clone(c17Foreign{w.ctxs[c]})
				generic = true
				w.kinds["clone:package on foreign FContext (generic branch)"]++
			case 3:
				cl = frugal.Clone(c17ForeignEP{w.ctxs[c].(frugal.FContextWithEphemeralProperties)})
				w.kinds["clone:package on foreign FContextWithEphemeralProperties"]++
			}
			obs = append(obs, w.created(cl, -1))
			// clone equals original (as it was just before) except _opid
			o, n := before.ctxs[c], c17SnapOf(cl)
			// (that the clone's id differs from every id issued before is checked by created();
			// the original's `_opid` HEADER may have been overwritten by the caller with any
			// string, so it is not compared here)
			if _, hasNew := n.req["_opid"]; !hasNew {
				w.fail("clone of %d carries no op id", c)
			}
			oreq, nreq := c17Without(o.req, "_opid"), c17Without(n.req, "_opid")
			if !mapsEqual(oreq, nreq) {
				w.fail("clone of %d: request headers differ beyond _opid", c)
			}
			if !mapsEqual(o.resp, n.resp) {
				w.fail("clone of %d: response headers differ", c)
			}
			if generic {
				if len(n.eph) != 0 {
					w.fail("generic clone of %d: ephemeral properties not empty", c)
				}
			} else if !mapsEqual(o.eph, n.eph) {
				w.fail("clone of %d: ephemeral properties differ", c)
			}
			if o.timeout != n.timeout {
				w.fail("clone of %d: timeout differs", c)
			}
			w.checkFrame(before, -1, "", -1)
		case 3:
			if !need(3) {
				goto done
			}
			p, oid, cnt := c17Idx(len(w.protos), prog[i]), int(prog[i+1]), int(prog[i+2])%5
			i += 3
			if !need(2 * cnt) {
				goto done
			}
			hdrs := map[string]string{}
			for j := 0; j < cnt; j++ {
				hdrs[c17Keys[int(prog[i])%16]] = c17Vals[int(prog[i+1])%16]
				i += 2
			}
			switch {
			case oid%8 == 0:
			case oid%8 == 1:
				hdrs["_opid"] = c17Vals[(oid/8)%16]
			default:
				hdrs["_opid"] = strconv.Itoa(oid)
			}
			w.kinds["fromRequest"]++
			if p >= len(w.protos) {
				obs = append(obs, "bad")
				break
			}
			w.protos[p].tr.Write(frugal.VerifMarshalHeaders(hdrs))
			ctx, err := w.protos[p].p.ReadRequestHeader()
			if err != nil {
				obs = append(obs, errClass(err))
				w.kinds["fromRequest:"+errClass(err)]++
			} else {
				for q := range w.protoOf {
					if w.protoOf[q] == p {
						w.kinds["alias:two contexts of one protocol"]++
						break
					}
				}
				obs = append(obs, w.created(ctx, p))
			}
			w.checkFrame(before, -1, "", -1)
		case 4, 5, 6:
			if !need(3) {
				goto done
			}
			c, k, v := c17Idx(len(w.ctxs), prog[i]), c17Keys[int(prog[i+1])%16], c17Vals[int(prog[i+2])%16]
			i += 3
			which := []string{"req", "resp", "eph"}[code-4]
			w.kinds["add:"+which]++
			if c >= len(w.ctxs) {
				obs = append(obs, "bad")
				break
			}
			switch code {
			case 4:
				w.ctxs[c].AddRequestHeader(k, v)
			case 5:
				w.ctxs[c].AddResponseHeader(k, v)
			case 6:
				w.ctxs[c].(frugal.FContextWithEphemeralProperties).AddEphemeralProperty(k, v)
			}
			obs = append(obs, ".")
			w.checkFrame(before, c, which, -1)
		case 7:
			if !need(2) {
				goto done
			}
			c, d := c17Idx(len(w.ctxs), prog[i]), c17Durs[int(prog[i+1])%12]
			i += 2
			w.kinds["setTimeout"]++
			if c >= len(w.ctxs) {
				obs = append(obs, "bad")
				break
			}
			w.ctxs[c].SetTimeout(time.Duration(d))
			obs = append(obs, ".")
			w.checkFrame(before, c, "req", -1)
		case 8, 9, 10:
			if !need(2) {
				goto done
			}
			c, k := c17Idx(len(w.ctxs), prog[i]), c17Keys[int(prog[i+1])%16]
			i += 2
			w.kinds["read:header"]++
			if c >= len(w.ctxs) {
				obs = append(obs, "bad")
				break
			}
			switch code {
			case 8:
				v, ok := w.ctxs[c].RequestHeader(k)
				obs = append(obs, c17ValOut(v, ok))
			case 9:
				v, ok := w.ctxs[c].ResponseHeader(k)
				obs = append(obs, c17ValOut(v, ok))
			case 10:
				v, ok := w.ctxs[c].(frugal.FContextWithEphemeralProperties).EphemeralProperty(k)
				s, _ := v.(string)
				obs = append(obs, c17ValOut(s, ok))
			}
			w.checkFrame(before, -1, "", -1)
		case 11, 12:
			if !need(1) {
				goto done
			}
			c := c17Idx(len(w.ctxs), prog[i])
			i++
			w.kinds["read:timeout/cid"]++
			if c >= len(w.ctxs) {
				obs = append(obs, "bad")
				break
			}
			// consumers of a context; (variant/3)%2 == 1: through a foreign wrapper (only the FContext interface)
			ctx := w.ctxs[c]
			if (variant/3)%2 == 1 {
				ctx = c17Foreign{ctx}
			}
			switch {
			case code == 11 && variant%3 == 0:
				obs = append(obs, "t="+strconv.FormatInt(int64(ctx.Timeout()), 10))
			case code == 11 && variant%3 == 1:
				cctx, cancel := frugal.ToContext(ctx)
				_, has := cctx.Deadline()
				cancel()
				if has != (before.ctxs[c].timeout > 0) {
					w.fail("ToContext of %d: deadline present=%v but Timeout()=%d", c, has, before.ctxs[c].timeout)
				}
				obs = append(obs, map[bool]string{true: "f=1", false: "f=0"}[has])
				w.kinds["consume:ToContext"]++
			case code == 11:
				id, err := frugal.VerifGetOpID(ctx)
				switch {
				case err == nil:
					obs = append(obs, "n="+strconv.FormatUint(id, 10))
					if hv, e2 := strconv.ParseUint(before.ctxs[c].req["_opid"], 10, 64); e2 != nil || hv != id {
						w.fail("getOpID of %d returned %d, header is %q", c, id, before.ctxs[c].req["_opid"])
					}
				case strings.Contains(err.Error(), "required"):
					obs = append(obs, "err:missingOpId")
				default:
					obs = append(obs, "err:badOpId")
				}
				w.kinds["consume:getOpID"]++
			case variant%3 == 0:
				obs = append(obs, c17ValOut(ctx.CorrelationID(), true))
			default:
				// serialise through an FProtocol, decode the frame with the independent reader of the
				// documented layout: it must be exactly the context's map
				tr := thrift.NewTMemoryBuffer()
				p := binFactory.GetProtocol(tr)
				var err error
				want := before.ctxs[c].req
				if variant%3 == 1 {
					err = p.WriteRequestHeader(ctx)
				} else {
					err, want = p.WriteResponseHeader(ctx), before.ctxs[c].resp
				}
				w.kinds["consume:WriteRequest/ResponseHeader"]++
				if err != nil {
					obs = append(obs, errClass(err))
					w.fail("serialising context %d failed", c)
					break
				}
				l, rest, ok := specDecode(tr.Bytes())
				m, nodup := listToMap(l)
				if !ok || len(rest) != 0 || !nodup {
					w.fail("serialised headers of context %d do not decode (torn frame)", c)
					obs = append(obs, "m=?")
					break
				}
				if !mapsEqual(m, want) {
					w.fail("serialised headers of context %d differ from its header map", c)
				}
				obs = append(obs, "m="+pairs(m))
			}
			w.checkFrame(before, -1, "", -1)
		case 13, 14, 15:
			if !need(1) {
				goto done
			}
			c := c17Idx(len(w.ctxs), prog[i])
			i++
			w.kinds["accessor"]++
			if c >= len(w.ctxs) {
				obs = append(obs, "bad")
				break
			}
			var r c17Ret
			var want map[string]string
			switch code {
			case 13:
				r.s, want = w.ctxs[c].RequestHeaders(), before.ctxs[c].req
			case 14:
				r.s, want = w.ctxs[c].ResponseHeaders(), before.ctxs[c].resp
			case 15:
				r.e, want = w.ctxs[c].(frugal.FContextWithEphemeralProperties).EphemeralProperties(), before.ctxs[c].eph
			}
			w.rets = append(w.rets, r)
			if !mapsEqual(c17RetMap(r), want) {
				w.fail("accessor on context %d returned a map that differs from the context's", c)
			}
			obs = append(obs, "m="+pairs(c17RetMap(r)))
			w.checkFrame(before, -1, "", -1)
		case 16, 17:
			n := 3
			if code == 17 {
				n = 2
			}
			if !need(n) {
				goto done
			}
			ri, k := c17Idx(len(w.rets), prog[i]), c17Keys[int(prog[i+1])%16]
			v := ""
			if code == 16 {
				v = c17Vals[int(prog[i+2])%16]
			}
			i += n
			w.kinds["mutate returned map"]++
			if ri >= len(w.rets) {
				obs = append(obs, "bad")
				break
			}
			r := w.rets[ri]
			switch {
			case code == 16 && r.s != nil:
				r.s[k] = v
			case code == 16:
				r.e[k] = v
			case r.s != nil:
				delete(r.s, k)
			default:
				delete(r.e, k)
			}
			obs = append(obs, ".")
			w.checkFrame(before, -1, "", ri)
		case 18:
			if !need(1) {
				goto done
			}
			ri := c17Idx(len(w.rets), prog[i])
			i++
			w.kinds["read returned map"]++
			if ri >= len(w.rets) {
				obs = append(obs, "bad")
				break
			}
			obs = append(obs, "m="+pairs(c17RetMap(w.rets[ri])))
			w.checkFrame(before, -1, "", -1)
		}
		continue
	done:
		w.nops--
		break
	}
	var cs, rs []string
	for _, c := range w.ctxs {
		s := c17SnapOf(c)
		cs = append(cs, "m="+pairs(s.req)+",m="+pairs(s.resp)+",m="+pairs(s.eph)+",t="+strconv.FormatInt(s.timeout, 10))
	}
	for _, r := range w.rets {
		rs = append(rs, "m="+pairs(c17RetMap(r)))
	}
	w.kinds[fmt.Sprintf("contexts=%d", c17Bucket(len(w.ctxs)))]++
	w.kinds[fmt.Sprintf("ops=%d", c17Bucket(w.nops))]++
	if len(w.ctxs) > 0 && start+uint64(len(w.ctxs)) < start {
		w.kinds["counter wrapped past 2^64 inside the history"]++
	}
	return "ok " + strings.Join(obs, "|") + " # " + strings.Join(cs, "|") + " # " + strings.Join(rs, "|"), w.fails, w.kinds
}

func c17Bucket(n int) int {
	for _, b := range []int{0, 1, 2, 4, 8, 16, 32, 64} {
		if n <= b {
			return b
		}
	}
	return 128
}

func c17Real(prog []byte, start uint64) (string, []string, map[string]int) {
	var o string
	var fails []string
	var kinds map[string]int
	if g := guard(20*time.Second, func() { o, fails, kinds = c17Exec(prog, start) }); g != "" {
		return g, []string{"op history ended in " + g}, map[string]int{}
	}
	return o, fails, kinds
}

// ---------- generator ----------

var c17Weights = []struct {
	code, w int
}{{0, 4}, {1, 8}, {2, 10}, {3, 8}, {4, 10}, {5, 7}, {6, 7}, {7, 5}, {8, 4}, {9, 3}, {10, 3}, {11, 4}, {12, 2},
	{13, 4}, {14, 3}, {15, 3}, {16, 7}, {17, 3}, {18, 3}, {19, 2}}

func c17OperandCount(code int) int {
	switch code {
	case 0:
		return 0
	case 1, 2, 19, 11, 12, 13, 14, 15, 18:
		return 1
	case 7, 8, 9, 10, 17:
		return 2
	default:
		return 3
	}
}

func c17Gen(r *Rng, maxOps int) []byte {
	if r.Chance(8) {
		return r.Bytes(r.Intn(60))
	}
	var prog []byte
	total := 0
	for _, x := range c17Weights {
		total += x.w
	}
	emit := func(code int) {
		// any byte with the right residue mod 20
		prog = append(prog, byte(code+20*r.Intn(12)))
		prog = append(prog, r.Bytes(c17OperandCount(code))...)
		if code == 3 {
			n := int(prog[len(prog)-1]) % 5
			if r.Chance(70) { // most requests carry an op id
				for prog[len(prog)-2]%8 == 0 {
					prog[len(prog)-2] = byte(r.U64())
				}
			}
			prog = append(prog, r.Bytes(2*n)...)
		}
	}
	if r.Chance(90) {
		emit(1)
		if r.Bool() {
			emit(0)
		}
	}
	n := 1 + r.Intn(maxOps)
	for j := 0; j < n; j++ {
		x := r.Intn(total)
		for _, cw := range c17Weights {
			if x < cw.w {
				emit(cw.code)
				break
			}
			x -= cw.w
		}
	}
	return prog
}

func c17Start(r *Rng) uint64 {
	switch r.Intn(10) {
	case 0:
		return 0
	case 1:
		return ^uint64(0) - uint64(r.Intn(12)) // the counter wraps inside the history
	case 2:
		return []uint64{8, 9, 98, 99, 999, 9999, 99999999, 1<<32 - 2, 1<<63 - 3, 9999999999999999999 - 2}[r.Intn(10)]
	case 3:
		return r.U64()
	default:
		return r.U64() % (1 << 40)
	}
}

func c17Line(prog []byte, start uint64) string {
	return "c17 " + hx(prog) + " " + strconv.FormatUint(start, 10)
}

// c17Reseed: NewRng(seed) and NewRng(seed+1) produce the same stream shifted by one draw
// (common.go), and the parallel jobs of one run use consecutive seeds; start from the
// first OUTPUT instead so that jobs do not generate overlapping histories.
func c17Reseed(r *Rng) *Rng { return &Rng{s: r.U64() ^ 0xC17C17C17C17} }

func runC17(r *Rng, n int) {
	r = c17Reseed(r)
	c17Census()
	maxOps := 40
	for i := 0; i < n; i++ {
		if i%64 == 63 {
			maxOps = 120
		} else {
			maxOps = 40
		}
		prog, start := c17Gen(r, maxOps), c17Start(r)
		line := c17Line(prog, start)
		o, fails, kinds := c17Real(prog, start)
		Case(line, o)
		for k, v := range kinds {
			StatN(k, v)
		}
		if i < 3 {
			Sample(map[string]interface{}{"line": clip(line), "real": clip(o)})
		}
		for _, f := range fails {
			OracleFail("C17 oracle: "+c17Class(f), map[string]interface{}{"op": "c17", "line": line, "detail": f, "got": clip(o)})
		}
		Stat("evaluations")
	}
	c17Stress(r, 8, 400+n*4)
	// free-running concurrent cases on ONE context, each in a child process (contextheap_conc.go)
	for kind := 0; kind < 4; kind++ {
		c17ConcGen(r, kind, 4000+n*20)
	}
}

// c17Class strips positions/indices so that shrinking compares the same kind of failure.
func c17Class(f string) string {
	if i := strings.Index(f, ": "); i >= 0 {
		f = f[i+2:]
	}
	out := make([]rune, 0, len(f))
	for _, ch := range f {
		if ch >= '0' && ch <= '9' {
			continue
		}
		out = append(out, ch)
	}
	s := string(out)
	if j := strings.Index(s, "\""); j >= 0 {
		s = s[:j]
	}
	return strings.TrimSpace(s)
}

// ---------- lock census (go/ast) ----------

var c17Guarded = map[string]bool{"requestHeaders": true, "responseHeaders": true, "ephemeralProperties": true}

func c17ContextSource() string {
	if f := runtime.FuncForPC(reflect.ValueOf(frugal.NewFContext).Pointer()); f != nil {
		if file, _ := f.FileLine(f.Entry()); file != "" {
			if _, err := os.Stat(file); err == nil {
				return file
			}
		}
	}
	repo := os.Getenv("VERIF_REPO")
	if repo == "" {
		repo = "/repo"
	}
	return filepath.Join(repo, "lib", "go", "context.go")
}

// c17Census: in every method of FContextImpl, each access to one of the three
// maps must come after a c.mu.Lock()/RLock() that has not been released by a
// non-deferred Unlock. Constructors work on unshared values and are excepted.
func c17Census() {
	path := c17ContextSource()
	fset := token.NewFileSet()
	file, err := parser.ParseFile(fset, path, nil, 0)
	if err != nil {
		OracleFail("C17 lock census: cannot parse context.go", map[string]interface{}{"path": path, "err": err.Error()})
		return
	}
	methods, accesses := 0, 0
	for _, d := range file.Decls {
		fd, ok := d.(*ast.FuncDecl)
		if !ok || fd.Recv == nil || len(fd.Recv.List) != 1 || fd.Body == nil {
			continue
		}
		star, ok := fd.Recv.List[0].Type.(*ast.StarExpr)
		var tname string
		if ok {
			if id, ok := star.X.(*ast.Ident); ok {
				tname = id.Name
			}
		} else if id, ok := fd.Recv.List[0].Type.(*ast.Ident); ok {
			tname = id.Name
		}
		if tname != "FContextImpl" || len(fd.Recv.List[0].Names) != 1 {
			continue
		}
		recv := fd.Recv.List[0].Names[0].Name
		methods++
		held := false
		deferDepth := 0
		var walk func(n ast.Node) bool
		walk = func(n ast.Node) bool {
			switch x := n.(type) {
			case *ast.DeferStmt:
				deferDepth++
				ast.Inspect(x.Call, walk)
				deferDepth--
				return false
			case *ast.FuncLit, *ast.GoStmt:
				// a closure / goroutine would need its own analysis: flag any guarded access inside
				ast.Inspect(n, func(m ast.Node) bool {
					if m == n {
						return true
					}
					if s, ok := m.(*ast.SelectorExpr); ok {
						if id, ok := s.X.(*ast.Ident); ok && id.Name == recv && c17Guarded[s.Sel.Name] {
							accesses++
							OracleFail("C17 lock census: map access inside a closure/goroutine of an FContextImpl method", map[string]interface{}{
								"method": fd.Name.Name, "field": s.Sel.Name, "pos": fset.Position(s.Pos()).String()})
						}
					}
					return true
				})
				return false
			case *ast.CallExpr:
				if s, ok := x.Fun.(*ast.SelectorExpr); ok {
					if in, ok := s.X.(*ast.SelectorExpr); ok {
						if id, ok := in.X.(*ast.Ident); ok && id.Name == recv && in.Sel.Name == "mu" {
							switch s.Sel.Name {
							case "Lock", "RLock":
								held = true
							case "Unlock", "RUnlock":
								if deferDepth == 0 {
									held = false
								}
							}
							return false
						}
					}
				}
			case *ast.SelectorExpr:
				if id, ok := x.X.(*ast.Ident); ok && id.Name == recv && c17Guarded[x.Sel.Name] {
					accesses++
					if !held {
						OracleFail("C17 lock census: FContextImpl map accessed without c.mu held", map[string]interface{}{
							"method": fd.Name.Name, "field": x.Sel.Name, "pos": fset.Position(x.Pos()).String()})
						Stat("census:unguarded")
					}
				}
			}
			return true
		}
		ast.Inspect(fd.Body, walk)
	}
	StatN("census:FContextImpl methods", methods)
	StatN("census:guarded map accesses", accesses)
	if methods < 10 || accesses < 10 {
		OracleFail("C17 lock census: found fewer FContextImpl methods/accesses than the model has operations", map[string]interface{}{
			"methods": methods, "accesses": accesses, "path": path})
	}
}

// ---------- concurrent stress ----------

type c17Shared struct {
	mu   sync.Mutex
	ctxs []frugal.FContext
}

func (s *c17Shared) pick(r *Rng) (frugal.FContext, int) {
	s.mu.Lock()
	defer s.mu.Unlock()
	i := r.Intn(len(s.ctxs))
	return s.ctxs[i], i
}

func (s *c17Shared) publish(c frugal.FContext) {
	s.mu.Lock()
	if len(s.ctxs) < 64 {
		s.ctxs = append(s.ctxs, c)
	}
	s.mu.Unlock()
}

// c17Stress: G goroutines create, clone, mutate and read SHARED contexts. Every
// goroutine writes only keys carrying its own number, so it can check that its
// own last write is what it reads back (directly, through the copying accessor
// and in a clone it makes) whatever the others do. Verdict: no panic, no fatal
// error (would kill the process), all op ids distinct, own writes read back.
func c17Stress(r *Rng, goroutines, iters int) bool {
	atomic.StoreUint64(frugal.VerifNextOpIDCounter(), r.U64()%(1<<40))
	sh := &c17Shared{}
	idsOf := func(c frugal.FContext) string { v, _ := c.RequestHeader("_opid"); return v }
	var seedIDs []string
	for i := 0; i < 3; i++ {
		c := frugal.NewFContext("stress")
		seedIDs = append(seedIDs, idsOf(c))
		sh.publish(c)
	}
	{ // one received context (its own protocol: no alias between shared contexts)
		tr := thrift.NewTMemoryBuffer()
		tr.Write(frugal.VerifMarshalHeaders(map[string]string{"_opid": "7", "_cid": "stress-r"}))
		if c, err := binFactory.GetProtocol(tr).ReadRequestHeader(); err == nil {
			seedIDs = append(seedIDs, idsOf(c))
			sh.publish(c)
		}
	}
	ids := make([][]string, goroutines)
	problems := make([][]string, goroutines)
	var wg sync.WaitGroup
	outcome := guard(20*time.Second+time.Duration(iters)*time.Millisecond/4, func() {
		for g := 0; g < goroutines; g++ {
			wg.Add(1)
			gr := NewRng(r.U64())
			go func(g int, r *Rng) {
				defer wg.Done()
				defer func() {
					if p := recover(); p != nil {
						problems[g] = append(problems[g], "panic: "+c17Clip(fmt.Sprint(p)))
					}
				}()
				bad := func(f string, a ...interface{}) {
					if len(problems[g]) < 3 {
						problems[g] = append(problems[g], fmt.Sprintf(f, a...))
					}
				}
				last := map[int]map[string]string{} // shared index -> my key -> my last value (kind-prefixed)
				mine := func(i int) map[string]string {
					if last[i] == nil {
						last[i] = map[string]string{}
					}
					return last[i]
				}
				for it := 0; it < iters; it++ {
					c, ci := sh.pick(r)
					key := fmt.Sprintf("g%d-k%d", g, r.Intn(4))
					val := fmt.Sprintf("v%d", it)
					switch r.Intn(13) {
					case 0:
						n := frugal.NewFContext("stress")
						ids[g] = append(ids[g], idsOf(n))
						if r.Chance(10) {
							sh.publish(n)
						}
					case 1, 2:
						cl := frugal.Clone(c)
						ids[g] = append(ids[g], idsOf(cl))
						for k, v := range mine(ci) {
							var got string
							var ok bool
							switch k[0] {
							case 'q':
								got, ok = cl.RequestHeader(k[1:])
							case 'p':
								got, ok = cl.ResponseHeader(k[1:])
							case 'e':
								var x interface{}
								x, ok = cl.(frugal.FContextWithEphemeralProperties).EphemeralProperty(k[1:])
								got, _ = x.(string)
							}
							if !ok || got != v {
								bad("clone lacks this goroutine's last write %s=%s (got %q,%v)", k, v, got, ok)
							}
						}
						if r.Chance(5) {
							sh.publish(cl)
						}
					case 3, 4:
						c.AddRequestHeader(key, val)
						mine(ci)["q"+key] = val
						if got, ok := c.RequestHeader(key); !ok || got != val {
							bad("request header %s read back %q,%v after writing %s", key, got, ok, val)
						}
					case 5:
						c.AddResponseHeader(key, val)
						mine(ci)["p"+key] = val
						if got, ok := c.ResponseHeader(key); !ok || got != val {
							bad("response header %s read back %q,%v after writing %s", key, got, ok, val)
						}
					case 6:
						e := c.(frugal.FContextWithEphemeralProperties)
						e.AddEphemeralProperty(key, val)
						mine(ci)["e"+key] = val
						if got, ok := e.EphemeralProperty(key); !ok || got != val {
							bad("ephemeral property %s read back %v,%v after writing %s", key, got, ok, val)
						}
					case 7:
						m := c.RequestHeaders()
						for k, v := range mine(ci) {
							if k[0] == 'q' && m[k[1:]] != v {
								bad("RequestHeaders() lacks own write %s=%s", k, v)
							}
						}
						m["scribble"] = "x" // mutate the copy
					case 8:
						m := c.ResponseHeaders()
						for k, v := range mine(ci) {
							if k[0] == 'p' && m[k[1:]] != v {
								bad("ResponseHeaders() lacks own write %s=%s", k, v)
							}
						}
						m["scribble"] = "x"
					case 9:
						m := c.(frugal.FContextWithEphemeralProperties).EphemeralProperties()
						for k, v := range mine(ci) {
							if k[0] == 'e' && m[k[1:]] != v {
								bad("EphemeralProperties() lacks own write %s=%s", k, v)
							}
						}
						m["scribble"] = "x"
					case 10:
						c.SetTimeout(time.Duration(1+r.Intn(5)) * time.Second)
					case 11:
						if t := c.Timeout(); t < time.Second || t > 5*time.Second {
							bad("Timeout() returned %v, never written", t)
						}
					case 12:
						if _, ok := c.RequestHeader("scribble"); ok {
							bad("a write to a map returned by an accessor is visible in the context")
						}
						_ = c.CorrelationID()
					}
				}
			}(g, gr)
		}
		wg.Wait()
	})
	seen := map[string]bool{}
	total, dups := 0, 0
	for _, id := range seedIDs {
		seen[id] = true
		total++
	}
	if outcome == "" {
		for g := range ids {
			for _, id := range ids[g] {
				total++
				if id == "" || seen[id] {
					dups++
				}
				seen[id] = true
			}
		}
	}
	StatN("stress:goroutines", goroutines)
	StatN("stress:contexts created", total)
	var all []string
	for g := range problems {
		all = append(all, problems[g]...)
	}
	sort.Strings(all)
	if outcome != "" || dups > 0 || len(all) > 0 {
		if len(all) > 4 {
			all = all[:4]
		}
		OracleFail("C17 concurrent stress failed", map[string]interface{}{"outcome": outcome, "duplicate_or_missing_ids": dups, "problems": all})
		Stat("stress:failed")
		return false
	}
	Stat("stress:runs ok")
	return true
}

// runC17Race: the same stress, meant for the -race build of this harness (bin/props_d/c17.py
// builds .build/rtrace). A data race makes the race runtime print a report and exit 66,
// which bin/check reports as a failed suite. n = iterations per goroutine.
func runC17Race(r *Rng, n int) {
	r = c17Reseed(r)
	for round := 0; round < 4; round++ {
		if !c17Stress(r, 4+4*round, n) {
			break // goroutines of a failed round may be stuck for ever; do not pile up more
		}
	}
	for kind := 0; kind < 4; kind++ { // the child is this (-race) binary: a race report ends it with exit 66
		c17ConcGen(r, kind, 1500+n)
	}
	for i := 0; i < 50; i++ {
		prog, start := c17Gen(r, 40), c17Start(r)
		o, fails, _ := c17Real(prog, start)
		Case(c17Line(prog, start), o)
		for _, f := range fails {
			OracleFail("C17 oracle: "+c17Class(f), map[string]interface{}{"op": "c17", "line": c17Line(prog, start), "detail": f})
		}
		Stat("evaluations")
	}
}

func init() {
	suites["c17"] = runC17
	suites["c17race"] = runC17Race
	lineOps["c17"] = func(args []string) (string, bool) {
		if len(args) != 2 {
			return "bad-op", true
		}
		start, err := strconv.ParseUint(args[1], 10, 64)
		if err != nil {
			return "bad-op", true
		}
		o, fails, _ := c17Real(unhx(args[0]), start)
		// report under the same name as the generating run, so that the shrinker of
		// bin/check recognises the failure it is minimising
		for _, f := range fails {
			OracleFail("C17 oracle: "+c17Class(f), map[string]interface{}{"op": "c17", "line": "c17 " + args[0] + " " + args[1], "detail": f, "got": clip(o)})
		}
		return o, true
	}
}
