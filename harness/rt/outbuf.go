package main

// C12 — size limits are enforced exactly and reported, never silently.
//
// Suite "c12" drives, against the REAL code:
//   ob   <prog> <limit>   an op program (write / writeByte / writeString / reset) on
//                         frugal.NewTMemoryOutputBuffer(limit); every op is executed
//                         (also after a failure), then Bytes() is taken
//   obn  <prog> <limit>   the op list a real Thrift protocol (binary / compact / JSON)
//                         produces for a payload shape, written by that protocol into the
//                         real buffer; stops at the first error (as prepareMessage does)
//   call <req> <rep> <err> <kind> <qlimit> <rlimit>     (outbuf_call.go)
//
// Op program (hex, every byte string is a program): opcode c, c%4 = 0 write,
// 1 writeByte(c), 2 writeString, 3 reset; write/writeString are followed by a 3-byte
// big-endian length (missing bytes = 0, taken mod 2^21); content byte j of the op at program offset p
// is (13p + j) mod 256.

import (
	"bytes"
	"context"
	"fmt"
	"os"
	"os/exec"
	"runtime/debug"
	"strconv"
	"strings"
	"time"

	frugal "github.com/Workiva/frugal/lib/go"
	"github.com/apache/thrift/lib/go/thrift"
)

type c12Op struct {
	kind int // 0 write, 1 writeByte, 2 writeString, 3 reset
	data []byte
}

func (o c12Op) size() int {
	if o.kind == 3 {
		return 0
	}
	return len(o.data)
}

func c12Parse(prog []byte) []c12Op {
	var ops []c12Op
	for i := 0; i < len(prog); {
		c := prog[i]
		p := i
		i++
		switch c % 4 {
		case 1:
			ops = append(ops, c12Op{1, []byte{c}})
		case 3:
			ops = append(ops, c12Op{3, nil})
		default:
			n := 0
			for k := 0; k < 3; k++ {
				n <<= 8
				if i < len(prog) {
					n |= int(prog[i])
					i++
				}
			}
			n &= 1<<21 - 1
			d := make([]byte, n)
			for j := range d {
				d[j] = byte(13*p + j)
			}
			ops = append(ops, c12Op{int(c % 4), d})
		}
	}
	return ops
}

// c12Encode renders an op list (sizes only matter for write/writeString) as a program.
func c12Encode(ops []c12Op) []byte {
	var b []byte
	for _, o := range ops {
		switch o.kind {
		case 1:
			b = append(b, 1)
		case 3:
			b = append(b, 3)
		default:
			n := len(o.data)
			for n >= 1<<21 { // the length field holds 21 bits: a longer write is rendered as several
				m := 1<<21 - 1
				b = append(b, byte(o.kind), byte(m>>16), byte(m>>8), byte(m))
				n -= m
			}
			b = append(b, byte(o.kind), byte(n>>16), byte(n>>8), byte(n))
		}
	}
	return b
}

func c12Hash(b []byte) uint32 {
	h := uint32(7)
	for _, x := range b {
		h = h*31 + uint32(x)
	}
	return h
}

func c12Head(b []byte) string {
	if len(b) > 8 {
		b = b[:8]
	}
	return hx(b)
}

func c12TooLargeType(err error) int {
	if e, ok := err.(thrift.TTransportException); ok && frugal.IsErrTooLarge(err) {
		return e.TypeId()
	}
	return -1
}

// c12RunOB executes the program on the real buffer in this process.
// Returns the canonical output and the property verdict ("" = held).
func c12RunOB(prog []byte, limit uint) (string, string) {
	ops := c12Parse(prog)
	var res strings.Builder
	var final []byte
	bad := ""
	note := func(s string) {
		if bad == "" {
			bad = s
		}
	}
	o := guard(20*time.Second, func() {
		buf := frugal.NewTMemoryOutputBuffer(limit)
		cur := []byte{0, 0, 0, 0} // what the property says the buffer holds
		for i, op := range ops {
			if op.kind == 3 {
				buf.Reset()
				cur = cur[:4]
				res.WriteByte('r')
				continue
			}
			var err error
			n := 0
			switch op.kind {
			case 0:
				n, err = buf.Write(op.data)
			case 1:
				err = buf.WriteByte(op.data[0])
				if err == nil {
					n = 1
				}
			case 2:
				n, err = buf.WriteString(string(op.data))
			}
			must := limit > 0 && uint(len(cur)+len(op.data)) > limit
			switch {
			case err == nil:
				res.WriteByte('.')
				if must {
					note(fmt.Sprintf("op %d (%s of %d bytes) takes the framed size to %d > limit %d and reports no error", i, c12Kind(op.kind), len(op.data), len(cur)+len(op.data), limit))
				}
				if n != len(op.data) {
					note(fmt.Sprintf("op %d reports %d of %d bytes written without an error", i, n, len(op.data)))
				}
				cur = append(cur, op.data...)
			case c12TooLargeType(err) == frugal.TRANSPORT_EXCEPTION_REQUEST_TOO_LARGE:
				res.WriteByte('E')
				if !must {
					note(fmt.Sprintf("op %d (%s of %d bytes) rejected as too large at framed size %d, limit %d", i, c12Kind(op.kind), len(op.data), len(cur)+len(op.data), limit))
				}
				cur = cur[:4]
			default:
				res.WriteByte('X')
				note(fmt.Sprintf("op %d fails with an error that is not of the too-large class: %v", i, err))
				cur = cur[:4]
			}
			if limit >= 4 && uint(buf.Len()) > limit {
				note(fmt.Sprintf("after op %d the buffer holds %d bytes, limit %d", i, buf.Len(), limit))
			}
		}
		final = append([]byte{}, buf.Bytes()...)
		want := append(be32(uint32(len(cur)-4)), cur[4:]...)
		if !bytes.Equal(final, want) {
			note(fmt.Sprintf("Bytes() is not the size prefix plus the accepted writes in order (len %d, want %d)", len(final), len(want)))
		}
		if limit >= 4 && uint(len(final)) > limit {
			note(fmt.Sprintf("Bytes() has %d bytes, limit %d", len(final), limit))
		}
	})
	if o != "" {
		return o, "buffer operation " + o
	}
	rs := res.String()
	if rs == "" {
		rs = "-"
	}
	return fmt.Sprintf("r=%s len=%d h=%d head=%s", rs, len(final), c12Hash(final), c12Head(final)), bad
}

func c12Kind(k int) string { return [...]string{"Write", "WriteByte", "WriteString", "Reset"}[k] }

// c12ChildRun runs one line in a child process: limits 1..3 made
// NewTMemoryOutputBuffer recurse without bound (fatal, not recoverable).
func c12ChildRun(line string) (string, string) {
	f, err := os.CreateTemp("", "c12line")
	if err != nil {
		return "crash:tempfile", "cannot create temp file"
	}
	defer os.Remove(f.Name())
	f.WriteString(line + "\n")
	f.Close()
	cmd := exec.Command(os.Args[0], "c12", "-lines", f.Name())
	cmd.Env = append(os.Environ(), "VERIF_C12_INPROC=1", "GOMAXPROCS=2")
	var so, se bytes.Buffer
	cmd.Stdout, cmd.Stderr = &so, &se
	done := make(chan error, 1)
	go func() { done <- cmd.Run() }()
	select {
	case err = <-done:
	case <-time.After(60 * time.Second):
		cmd.Process.Kill()
		return "blocked", "child process blocked"
	}
	if err != nil {
		if strings.Contains(se.String(), "stack overflow") {
			return "crash:stackOverflow", "the process dies with a stack overflow (unbounded recursion Write -> Reset -> Write)"
		}
		return "crash:other", "child process failed: " + clipN(se.String(), 200)
	}
	real, bad := "crash:nooutput", "child printed no case"
	for _, l := range strings.Split(so.String(), "\n") {
		p := strings.Split(l, "\t")
		if p[0] == "C" && len(p) == 3 {
			real, bad = p[2], ""
		}
		if p[0] == "O" {
			bad = "property oracle failed in child: " + clipN(l, 300)
		}
	}
	return real, bad
}

func clipN(s string, n int) string {
	if len(s) > n {
		return s[:n]
	}
	return s
}

func c12RealOB(prog []byte, limit uint) (string, string) {
	if limit >= 1 && limit <= 3 && os.Getenv("VERIF_C12_INPROC") == "" {
		return c12ChildRun(fmt.Sprintf("ob %s %d", hx(prog), limit))
	}
	return c12RunOB(prog, limit)
}

// ---------- real protocols writing payload shapes ----------

// c12Recorder is a TRichTransport that records the operations a protocol performs.
type c12Recorder struct{ ops []c12Op }

func (t *c12Recorder) Write(p []byte) (int, error) {
	t.ops = append(t.ops, c12Op{0, append([]byte{}, p...)})
	return len(p), nil
}
func (t *c12Recorder) WriteByte(c byte) error { t.ops = append(t.ops, c12Op{1, []byte{c}}); return nil }
func (t *c12Recorder) WriteString(s string) (int, error) {
	t.ops = append(t.ops, c12Op{2, []byte(s)})
	return len(s), nil
}
func (t *c12Recorder) Read(p []byte) (int, error) {
	return 0, thrift.NewTTransportException(thrift.END_OF_FILE, "recorder")
}
func (t *c12Recorder) ReadByte() (byte, error) {
	return 0, thrift.NewTTransportException(thrift.END_OF_FILE, "recorder")
}
func (t *c12Recorder) RemainingBytes() uint64          { return 0 }
func (t *c12Recorder) Flush(ctx context.Context) error { return nil }
func (t *c12Recorder) Open() error                     { return nil }
func (t *c12Recorder) Close() error                    { return nil }
func (t *c12Recorder) IsOpen() bool                    { return true }
func (t *c12Recorder) concat() []byte {
	var b []byte
	for _, o := range t.ops {
		b = append(b, o.data...)
	}
	return b
}

var _ thrift.TRichTransport = (*c12Recorder)(nil)

func c12ProtoFactory(name string) thrift.TProtocolFactory {
	switch name {
	case "compact":
		return thrift.NewTCompactProtocolFactoryConf(nil)
	case "json":
		return thrift.NewTJSONProtocolFactory()
	}
	return thrift.NewTBinaryProtocolFactoryConf(nil)
}

var c12Protos = []string{"binary", "compact", "json"}

// c12Field is one field of a payload shape.
type c12Field struct {
	kind string // string binary list map bool byte i64 strlist
	n    int    // bytes (string/binary), elements (list/map/strlist)
}

// c12Shape is a thrift.TStruct writing the fields in order; Read skips a struct.
type c12Shape struct {
	fields []c12Field
	slim   bool // fields of base type are written through the lib/go/encoder.go helpers
}

func (s *c12Shape) String() string {
	parts := make([]string, len(s.fields))
	for i, f := range s.fields {
		parts[i] = f.kind + ":" + strconv.Itoa(f.n)
	}
	return strings.Join(parts, ",")
}

func (s *c12Shape) Write(ctx context.Context, p thrift.TProtocol) error {
	if err := p.WriteStructBegin(ctx, "shape"); err != nil {
		return err
	}
	for i, f := range s.fields {
		id := int16(i + 1)
		var err error
		w := func(e error) {
			if err == nil {
				err = e
			}
		}
		if len(f.kind) > 2 && f.kind[0] == 'n' && f.kind[1] >= '1' && f.kind[1] <= '3' {
			// the part sits inside a nested struct, d levels down; struct-typed fields and the string /
			// binary leaves are written the way code generated with `-gen go:slim` writes them: through
			// the runtime helpers of lib/go/encoder.go
			inner := &c12Shape{slim: true, fields: []c12Field{{"i64", f.n % 7}}}
			if f.kind[1] == '1' {
				inner.fields = append(inner.fields, c12Field{f.kind[2:], f.n})
			} else {
				inner.fields = append(inner.fields, c12Field{"n" + string(f.kind[1]-1) + f.kind[2:], f.n})
			}
			if i%2 == 1 {
				inner.fields[0], inner.fields[1] = inner.fields[1], inner.fields[0]
			}
			if err := frugal.WriteStructWithContext(ctx, p, inner, "f", id); err != nil {
				return err
			}
			continue
		}
		if s.slim && (f.kind == "string" || f.kind == "binary" || f.kind == "i64" || f.kind == "bool" || f.kind == "byte") {
			switch f.kind {
			case "string":
				err = frugal.WriteStringWithContext(ctx, p, strings.Repeat("s", f.n), "f", id)
			case "binary":
				err = frugal.WriteBinaryWithContext(ctx, p, bytes.Repeat([]byte{0xb1}, f.n), "f", id)
			case "i64":
				err = frugal.WriteI64WithContext(ctx, p, int64(f.n)*1000003, "f", id)
			case "bool":
				err = frugal.WriteBoolWithContext(ctx, p, f.n%2 == 1, "f", id)
			case "byte":
				err = frugal.WriteByteWithContext(ctx, p, int8(f.n), "f", id)
			}
			if err != nil {
				return err
			}
			continue
		}
		switch f.kind {
		case "string":
			w(p.WriteFieldBegin(ctx, "f", thrift.STRING, id))
			if err == nil {
				w(p.WriteString(ctx, strings.Repeat("s", f.n)))
			}
		case "binary":
			w(p.WriteFieldBegin(ctx, "f", thrift.STRING, id))
			if err == nil {
				w(p.WriteBinary(ctx, bytes.Repeat([]byte{0xb1}, f.n)))
			}
		case "list":
			w(p.WriteFieldBegin(ctx, "f", thrift.LIST, id))
			if err == nil {
				w(p.WriteListBegin(ctx, thrift.I32, f.n))
			}
			for k := 0; k < f.n && err == nil; k++ {
				w(p.WriteI32(ctx, int32(k*2654435)))
			}
			if err == nil {
				w(p.WriteListEnd(ctx))
			}
		case "strlist":
			w(p.WriteFieldBegin(ctx, "f", thrift.LIST, id))
			if err == nil {
				w(p.WriteListBegin(ctx, thrift.STRING, f.n))
			}
			for k := 0; k < f.n && err == nil; k++ {
				w(p.WriteString(ctx, "elem"+strconv.Itoa(k)))
			}
			if err == nil {
				w(p.WriteListEnd(ctx))
			}
		case "map":
			w(p.WriteFieldBegin(ctx, "f", thrift.MAP, id))
			if err == nil {
				w(p.WriteMapBegin(ctx, thrift.STRING, thrift.BYTE, f.n))
			}
			for k := 0; k < f.n && err == nil; k++ {
				w(p.WriteString(ctx, "k"+strconv.Itoa(k)))
				if err == nil {
					w(p.WriteByte(ctx, int8(k)))
				}
			}
			if err == nil {
				w(p.WriteMapEnd(ctx))
			}
		case "blist": // list<string>, 16 elements sharing f.n bytes
			w(p.WriteFieldBegin(ctx, "f", thrift.LIST, id))
			if err == nil {
				w(p.WriteListBegin(ctx, thrift.STRING, 16))
			}
			for k := 0; k < 16 && err == nil; k++ {
				m := f.n / 16
				if k == 15 {
					m = f.n - 15*(f.n/16)
				}
				w(p.WriteString(ctx, strings.Repeat("e", m)))
			}
			if err == nil {
				w(p.WriteListEnd(ctx))
			}
		case "bmap": // map<string,binary>, 8 entries sharing f.n bytes
			w(p.WriteFieldBegin(ctx, "f", thrift.MAP, id))
			if err == nil {
				w(p.WriteMapBegin(ctx, thrift.STRING, thrift.STRING, 8))
			}
			for k := 0; k < 8 && err == nil; k++ {
				m := f.n / 8
				if k == 7 {
					m = f.n - 7*(f.n/8)
				}
				w(p.WriteString(ctx, "k"+strconv.Itoa(k)))
				if err == nil {
					w(p.WriteBinary(ctx, bytes.Repeat([]byte{0xb2}, m)))
				}
			}
			if err == nil {
				w(p.WriteMapEnd(ctx))
			}
		case "bool":
			w(p.WriteFieldBegin(ctx, "f", thrift.BOOL, id))
			if err == nil {
				w(p.WriteBool(ctx, f.n%2 == 1))
			}
		case "byte":
			w(p.WriteFieldBegin(ctx, "f", thrift.BYTE, id))
			if err == nil {
				w(p.WriteByte(ctx, int8(f.n)))
			}
		default:
			w(p.WriteFieldBegin(ctx, "f", thrift.I64, id))
			if err == nil {
				w(p.WriteI64(ctx, int64(f.n)*1000003))
			}
		}
		if err == nil {
			w(p.WriteFieldEnd(ctx))
		}
		if err != nil {
			return err
		}
	}
	if err := p.WriteFieldStop(ctx); err != nil {
		return err
	}
	return p.WriteStructEnd(ctx)
}

func (s *c12Shape) Read(ctx context.Context, p thrift.TProtocol) error {
	return p.Skip(ctx, thrift.STRUCT)
}

var c12BigKinds = []string{"string", "string", "binary", "list", "strlist", "map", "n1string", "n2string", "n3binary", "n2strlist", "n1map"}
var c12SmallKinds = []string{"bool", "byte", "i64", "string", "binary"}

// c12GenShape: one big part of about `big` encoded bytes placed first, middle or last
// among small fields; returns the shape and the index of the big field.
func c12GenShape(r *Rng, big int) (*c12Shape, string) {
	nsmall := r.Intn(4)
	pos := r.Pick(0, 1, 2, 2) // first, middle, last (last twice: the unchecked path shows there)
	bk := c12BigKinds[r.Intn(len(c12BigKinds))]
	var bf c12Field
	switch bk {
	case "list":
		bf = c12Field{bk, big / 4}
	case "strlist", "n2strlist":
		bf = c12Field{bk, big / 9}
	case "map", "n1map":
		bf = c12Field{bk, big / 7}
	default:
		bf = c12Field{bk, big}
	}
	small := func() c12Field {
		k := c12SmallKinds[r.Intn(len(c12SmallKinds))]
		return c12Field{k, r.Intn(6)}
	}
	var fs []c12Field
	where := "only"
	switch {
	case nsmall == 0:
		fs = []c12Field{bf}
	case pos == 0:
		fs = append(fs, bf)
		for i := 0; i < nsmall; i++ {
			fs = append(fs, small())
		}
		where = "first"
	case pos == 2:
		for i := 0; i < nsmall; i++ {
			fs = append(fs, small())
		}
		fs = append(fs, bf)
		where = "last"
	default:
		nsmall++
		at := 1 + r.Intn(nsmall-1+1)
		if at >= nsmall {
			at = nsmall - 1
		}
		for i := 0; i < nsmall; i++ {
			if i == at {
				fs = append(fs, bf)
			}
			fs = append(fs, small())
		}
		where = "middle"
	}
	return &c12Shape{fields: fs}, bk + "-" + where
}

// c12Record runs the encoder over the shape into the recorder.
func c12Record(proto string, sh *c12Shape) *c12Recorder {
	rec := &c12Recorder{}
	p := c12ProtoFactory(proto).GetProtocol(rec)
	ctx := context.Background()
	sh.Write(ctx, p)
	p.Flush(ctx)
	return rec
}

// c12RealProto writes the shape with the real protocol into the real buffer.
func c12RealProto(proto string, sh *c12Shape, limit uint) (out string, final []byte, err error) {
	o := guard(30*time.Second, func() {
		buf := frugal.NewTMemoryOutputBuffer(limit)
		p := c12ProtoFactory(proto).GetProtocol(buf)
		ctx := context.Background()
		err = sh.Write(ctx, p)
		if err == nil {
			err = p.Flush(ctx)
		}
		final = append([]byte{}, buf.Bytes()...)
	})
	if o != "" {
		return o, nil, nil
	}
	switch {
	case err == nil:
		return fmt.Sprintf("ok len=%d", len(final)), final, nil
	case frugal.IsErrTooLarge(err):
		return "err:tooLarge", final, err
	}
	return errClass(err), final, err
}

// c12RealOBN runs a sizes-only program on the real buffer, stopping at the first error.
func c12RealOBN(prog []byte, limit uint) (string, string) {
	if limit >= 1 && limit <= 3 && os.Getenv("VERIF_C12_INPROC") == "" {
		return c12ChildRun(fmt.Sprintf("obn %s %d", hx(prog), limit))
	}
	ops := c12Parse(prog)
	out, bad := "", ""
	o := guard(30*time.Second, func() {
		buf := frugal.NewTMemoryOutputBuffer(limit)
		total := 4
		var err error
		for _, op := range ops {
			switch op.kind {
			case 0:
				_, err = buf.Write(op.data)
			case 1:
				err = buf.WriteByte(op.data[0])
			case 2:
				_, err = buf.WriteString(string(op.data))
			case 3:
				buf.Reset()
				total = 4
			}
			total += op.size()
			if err != nil {
				break
			}
		}
		over := limit > 0 && uint(total) > limit
		switch {
		case err == nil:
			out = fmt.Sprintf("ok len=%d", len(buf.Bytes()))
			if over && len(ops) > 0 {
				bad = fmt.Sprintf("framed size %d exceeds limit %d and no error is reported (Bytes() has %d bytes)", total, limit, len(buf.Bytes()))
			}
		case frugal.IsErrTooLarge(err):
			out = "err:tooLarge"
			if !over {
				bad = fmt.Sprintf("rejected as too large within the limit (framed size so far %d, limit %d)", total, limit)
			}
		default:
			out = errClass(err)
			bad = "error that is not of the too-large class: " + err.Error()
		}
	})
	if o != "" {
		return o, "buffer operation " + o
	}
	return out, bad
}

// ---------- generation ----------

// c12LimitValues: the limit VALUE as a boundary dimension (every limit knob is a uint; the HTTP
// payload-limit header is parsed as int64): around the frame prefix, 16/32/63/64-bit edges.
var c12LimitValues = []uint{0, 1, 3, 4, 5, 1 << 15, 1 << 16, 1<<31 - 1, 1 << 31, 1<<31 + 1, 1<<32 - 1, 1 << 32, 1 << 40,
	1<<63 - 1, 1 << 63, 1<<63 + 1, 1<<64 - 1}

func c12GenLimit(r *Rng, framed int) uint {
	switch r.Intn(13) {
	case 12:
		return c12LimitValues[r.Intn(len(c12LimitValues))]
	case 0:
		return 0
	case 1:
		return uint(r.Pick(1, 2, 3, 4, 5))
	case 2:
		return uint(framed + 100 + r.Intn(1000))
	case 3:
		return uint(1 + r.Intn(framed+1))
	default:
		l := framed - 8 + r.Intn(17)
		if l < 1 {
			l = r.Intn(8)
		}
		return uint(l)
	}
}

func c12GenProg(r *Rng) []byte {
	n := r.Pick(0, 1, 1, 2, 3, 4, 5, 6, 8, 12)
	var b []byte
	for i := 0; i < n; i++ {
		k := r.Pick(0, 0, 0, 1, 1, 2, 2, 2, 3)
		switch k {
		case 1:
			b = append(b, byte(4*r.Intn(64)+1))
		case 3:
			b = append(b, byte(4*r.Intn(64)+3))
		default:
			sz := r.Pick(0, 1, 2, 3, 4, 5, 8, 16, 40, 100, 300)
			if r.Chance(50) {
				sz = r.Intn(sz + 2)
			}
			b = append(b, byte(4*r.Intn(64)+k), 0, byte(sz>>8), byte(sz))
		}
	}
	return b
}

func c12Framed(ops []c12Op) int {
	t := 4
	for _, o := range ops {
		if o.kind == 3 {
			t = 4
		} else {
			t += len(o.data)
		}
	}
	return t
}

// c12Shrink drops ops / halves sizes while the line still violates the oracle.
func c12Shrink(op string, prog []byte, limit uint, fails func(prog []byte, limit uint) bool) ([]byte, uint) {
	ops := c12Parse(prog)
	enc := func(ops []c12Op) []byte {
		var b []byte
		for _, o := range ops {
			switch o.kind {
			case 1:
				b = append(b, 1)
			case 3:
				b = append(b, 3)
			default:
				n := len(o.data)
				b = append(b, byte(o.kind), byte(n>>16), byte(n>>8), byte(n))
			}
		}
		return b
	}
	if !fails(enc(ops), limit) {
		return prog, limit
	}
	budget := 200
	for changed := true; changed && budget > 0; {
		changed = false
		for i := 0; i < len(ops) && budget > 0; i++ {
			cand := append(append([]c12Op{}, ops[:i]...), ops[i+1:]...)
			budget--
			if fails(enc(cand), limit) {
				ops, changed = cand, true
				i--
			}
		}
		for i := range ops {
			for len(ops[i].data) > 1 && ops[i].kind != 1 && budget > 0 {
				cand := append([]c12Op{}, ops...)
				cand[i] = c12Op{ops[i].kind, make([]byte, len(ops[i].data)/2)}
				budget--
				if !fails(enc(cand), limit) {
					break
				}
				ops, changed = cand, true
			}
		}
		for limit > 4 && budget > 0 {
			budget--
			if !fails(enc(ops), limit/2) {
				break
			}
			limit, changed = limit/2, true
		}
	}
	return enc(ops), limit
}

func c12ReportOB(op string, prog []byte, limit uint, bad string) {
	run := c12RealOB
	if op == "obn" {
		run = c12RealOBN
	}
	p2, l2 := c12Shrink(op, prog, limit, func(p []byte, l uint) bool { _, b := run(p, l); return b != "" })
	o2, b2 := run(p2, l2)
	if b2 == "" {
		p2, l2, b2 = prog, limit, bad
		o2, _ = run(p2, l2)
	}
	what := "TMemoryOutputBuffer does not enforce its limit exactly"
	if strings.HasPrefix(o2, "crash") || strings.HasPrefix(o2, "panic") || o2 == "blocked" {
		what = "TMemoryOutputBuffer crashes the process for a configured limit"
	}
	OracleFail(what, map[string]interface{}{"op": op, "line": fmt.Sprintf("%s %s %d", op, hx(p2), l2), "got": o2, "why": b2,
		"ops": c12Describe(c12Parse(p2)), "limit": l2})
}

func c12Describe(ops []c12Op) string {
	parts := make([]string, len(ops))
	for i, o := range ops {
		if o.kind == 3 {
			parts[i] = "Reset"
		} else {
			parts[i] = fmt.Sprintf("%s(%d)", c12Kind(o.kind), len(o.data))
		}
	}
	return strings.Join(parts, " ")
}

func c12Bucket(n int) string {
	switch {
	case n <= 16:
		return "<=16"
	case n <= 256:
		return "<=256"
	case n <= 4096:
		return "<=4Ki"
	case n <= 65536:
		return "<=64Ki"
	}
	return ">64Ki"
}

func runC12(r *Rng, n int) {
	c12KnownWitness()
	c12KnownLimitWitness()
	c12HelperCheck()
	for i := 0; i < n; i++ {
		switch {
		case i%5 < 2: // op programs on the buffer
			prog := c12GenProg(r)
			ops := c12Parse(prog)
			limit := c12GenLimit(r, c12Framed(ops))
			if r.Chance(30) { // aim the limit at a prefix of the program
				k := r.Intn(len(ops) + 1)
				limit = c12GenLimit(r, c12Framed(ops[:k]))
			}
			o, bad := c12RealOB(prog, limit)
			Case(fmt.Sprintf("ob %s %d", hx(prog), limit), o)
			Stat(fmt.Sprintf("ob:ops=%d", len(ops)))
			Stat("ob:limit:" + c12LimitClass(limit, c12Framed(ops)))
			if strings.Contains(o, "E") {
				Stat("ob:outcome:some-op-rejected")
			} else {
				Stat("ob:outcome:all-accepted")
			}
			if i < 3 {
				Sample(map[string]interface{}{"op": "ob", "ops": c12Describe(ops), "limit": limit, "real": o})
			}
			if bad != "" {
				c12ReportOB("ob", prog, limit, bad)
			}
		case i%5 < 4: // a real protocol writing a shape
			c12ProtoCase(r, i)
		default:
			switch k := r.Intn(100); {
			case k < 30:
				c12SendCase(r, i)
			case k < 42:
				c12SeqCase(r, i, []string{"http-t", "http-c"})
			case k < 54:
				c12HdrCase(r, i)
			default:
				c12CallCase(r, i)
			}
		}
		Stat("evaluations")
	}
}

func c12LimitClass(limit uint, framed int) string {
	switch {
	case limit == 0:
		return "0(unbounded)"
	case limit < 4:
		return "1..3"
	case limit > 1<<63-1:
		return ">MaxInt64"
	case limit >= 1<<31:
		return "2^31..MaxInt64"
	case int(limit) < framed-8:
		return "far-below"
	case int(limit) < framed:
		return "size-8..size-1"
	case int(limit) == framed:
		return "=size"
	case int(limit) <= framed+8:
		return "size+1..size+8"
	}
	return "far-above"
}

func c12ProtoCase(r *Rng, i int) {
	proto := c12Protos[r.Intn(len(c12Protos))]
	big := r.Pick(0, 1, 9, 40, 40, 200, 200, 1000, 1000, 5000, 70000)
	if r.Chance(2) {
		big = 1<<20 + r.Intn(64) - 32
	}
	if big > 9 && r.Chance(50) {
		big = big/2 + r.Intn(big/2+1)
	}
	sh, where := c12GenShape(r, big)
	rec := c12Record(proto, sh)
	framed := c12Framed(rec.ops)
	limit := c12GenLimit(r, framed)
	if r.Chance(8) {
		limit = uint(r.Pick(16, 1024, 1<<20))
	}
	prog := c12Encode(rec.ops)
	line := fmt.Sprintf("obn %s %d", hx(prog), limit)
	var o string
	var final []byte
	if limit >= 1 && limit <= 3 {
		o, _ = c12RealOBN(prog, limit) // child process; the protocol itself is not involved
	} else {
		o, final, _ = c12RealProto(proto, sh, limit)
	}
	Case(line, o)
	Stat("proto:" + proto)
	Stat("proto:shape:" + where)
	Stat("proto:size:" + c12Bucket(framed))
	Stat("proto:limit:" + c12LimitClass(limit, framed))
	Stat("proto:outcome:" + clip(o))
	if i%5 == 2 && i < 40 {
		Sample(map[string]interface{}{"op": "obn", "protocol": proto, "shape": sh.String(), "framed": framed, "limit": limit, "real": o})
	}
	over := limit > 0 && uint(framed) > limit
	bad := ""
	switch {
	case strings.HasPrefix(o, "crash") || strings.HasPrefix(o, "panic") || o == "blocked":
		bad = "writing the payload " + o
	case over && o != "err:tooLarge":
		bad = fmt.Sprintf("%s protocol, shape %s: framed size %d exceeds limit %d but the encoder sees %s (buffer holds %d bytes)", proto, sh.String(), framed, limit, clip(o), len(final))
	case !over && strings.HasPrefix(o, "err"):
		bad = fmt.Sprintf("%s protocol, shape %s: framed size %d within limit %d rejected with %s", proto, sh.String(), framed, limit, o)
	case !over && limit != 1 && limit != 2 && limit != 3:
		want := append(be32(uint32(framed-4)), rec.concat()...)
		if !bytes.Equal(final, want) {
			bad = fmt.Sprintf("%s protocol, shape %s: Bytes() differs from size prefix + encoded payload (len %d, want %d)", proto, sh.String(), len(final), len(want))
		}
	}
	if limit >= 4 && uint(len(final)) > limit {
		bad = fmt.Sprintf("%s protocol, shape %s: Bytes() has %d bytes, limit %d (reported: %s)", proto, sh.String(), len(final), limit, clip(o))
	}
	if bad != "" {
		// re-establish on the buffer alone with the recorded op list, and shrink that
		if _, b2 := c12RealOBN(prog, limit); b2 != "" {
			c12ReportOB("obn", prog, limit, bad)
		} else {
			OracleFail("real protocol encoder into TMemoryOutputBuffer: limit not enforced exactly", map[string]interface{}{"op": "obn", "line": line, "got": o, "why": bad})
		}
	}
}

func c12ParseLimit(s string) uint {
	v, _ := strconv.ParseUint(s, 10, 64)
	return uint(v)
}

func init() {
	if os.Getenv("VERIF_C12_INPROC") != "" {
		debug.SetMaxStack(8 << 20) // child process: die quickly on unbounded recursion
	}
	suites["c12"] = runC12
	lineOps["ob"] = func(args []string) (string, bool) {
		if len(args) != 2 {
			return "bad-op", true
		}
		o, bad := c12RealOB(unhx(args[0]), c12ParseLimit(args[1]))
		return o, bad == ""
	}
	lineOps["obn"] = func(args []string) (string, bool) {
		if len(args) != 2 {
			return "bad-op", true
		}
		o, bad := c12RealOBN(unhx(args[0]), c12ParseLimit(args[1]))
		return o, bad == ""
	}
}
