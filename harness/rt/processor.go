package main

// C14 — the server answers every two-way request exactly once with a well-formed reply.
//
// Real code under test: frugal.FBaseProcessor.Process, FBaseProcessorFunction.SendReply /
// SendError, FProtocol (request/response headers) with the binary and compact protocols.
// The per-method processor functions below are hand-written copies of what the Go generator
// emits (compiler/generator/golang/generator.go, generateMethodProcessor) for
//
//	service S {
//	  string ping(1: required string s) throws (1: Err e)
//	  void nop()
//	  oneway void fire(1: required string s)
//	}
//
// The handler does what the request's "x-out" header scripts (success value, declared
// exception, TApplicationException of a given type, other error).
//
// Ops:  prc - <proto> <mode> <req>,<req>,…      (see lean/Driver/Processor.lean)
//       cw <k> <g>:<len>,…                      recorded Write trace of k concurrent goroutines

import (
	"bytes"
	"context"
	"encoding/base64"
	"errors"
	"fmt"
	"io"
	"log"
	"net/http"
	"net/http/httptest"
	"reflect"
	"runtime"
	"sort"
	"strconv"
	"strings"
	"sync"
	"time"

	frugal "github.com/Workiva/frugal/lib/go"
	"github.com/apache/thrift/lib/go/thrift"
)

// ---------- the hand-written service (structure of the emitted code) ----------

type c14Err struct{ Message string }

func (e *c14Err) Error() string { return "Err(" + e.Message + ")" }

func (e *c14Err) Write(ctx context.Context, oprot thrift.TProtocol) error {
	if err := oprot.WriteStructBegin(ctx, "Err"); err != nil {
		return err
	}
	if err := oprot.WriteFieldBegin(ctx, "message", thrift.STRING, 1); err != nil {
		return err
	}
	if err := oprot.WriteString(ctx, e.Message); err != nil {
		return err
	}
	if err := oprot.WriteFieldEnd(ctx); err != nil {
		return err
	}
	if err := oprot.WriteFieldStop(ctx); err != nil {
		return err
	}
	return oprot.WriteStructEnd(ctx)
}

// c14StrArgs: `1: required string s` (ping, fire).
type c14StrArgs struct{ S string }

func (p *c14StrArgs) Read(ctx context.Context, iprot thrift.TProtocol) error {
	if _, err := iprot.ReadStructBegin(ctx); err != nil {
		return thrift.PrependError(fmt.Sprintf("%T read error: ", p), err)
	}
	issetS := false
	for {
		_, fieldTypeID, fieldID, err := iprot.ReadFieldBegin(ctx)
		if err != nil {
			return thrift.PrependError(fmt.Sprintf("%T field %d read error: ", p, fieldID), err)
		}
		if fieldTypeID == thrift.STOP {
			break
		}
		switch fieldID {
		case 1:
			if fieldTypeID == thrift.STRING {
				v, err := iprot.ReadString(ctx)
				if err != nil {
					return thrift.PrependError("error reading field 1: ", err)
				}
				p.S = v
				issetS = true
				if v == c14PanicReadValue {
					panic("scripted panic in args.Read")
				}
			} else if err := iprot.Skip(ctx, fieldTypeID); err != nil {
				return err
			}
		default:
			if err := iprot.Skip(ctx, fieldTypeID); err != nil {
				return err
			}
		}
		if err := iprot.ReadFieldEnd(ctx); err != nil {
			return err
		}
	}
	if err := iprot.ReadStructEnd(ctx); err != nil {
		return thrift.PrependError(fmt.Sprintf("%T read struct end error: ", p), err)
	}
	if !issetS {
		return thrift.NewTProtocolExceptionWithType(thrift.INVALID_DATA, fmt.Errorf("Required field S is not set"))
	}
	return nil
}

// c14NopArgs: no fields.
type c14NopArgs struct{}

func (p *c14NopArgs) Read(ctx context.Context, iprot thrift.TProtocol) error {
	if _, err := iprot.ReadStructBegin(ctx); err != nil {
		return thrift.PrependError(fmt.Sprintf("%T read error: ", p), err)
	}
	for {
		_, fieldTypeID, fieldID, err := iprot.ReadFieldBegin(ctx)
		if err != nil {
			return thrift.PrependError(fmt.Sprintf("%T field %d read error: ", p, fieldID), err)
		}
		if fieldTypeID == thrift.STOP {
			break
		}
		if err := iprot.Skip(ctx, fieldTypeID); err != nil {
			return err
		}
		if err := iprot.ReadFieldEnd(ctx); err != nil {
			return err
		}
	}
	if err := iprot.ReadStructEnd(ctx); err != nil {
		return thrift.PrependError(fmt.Sprintf("%T read struct end error: ", p), err)
	}
	return nil
}

type c14PingResult struct {
	Success *string
	E       *c14Err
}

func (p *c14PingResult) Read(ctx context.Context, iprot thrift.TProtocol) error {
	return errors.New("not used by the server")
}

func (p *c14PingResult) Write(ctx context.Context, oprot thrift.TProtocol) error {
	// a result that cannot be serialised (in generated code: a nil struct element, a nil pointer
	// where Write dereferences it): panics after `at` protocol writes
	at := -1
	if p.Success != nil && strings.HasPrefix(*p.Success, c14PanicWriteMarker) {
		at, _ = strconv.Atoi((*p.Success)[len(c14PanicWriteMarker):])
	}
	if at == 0 {
		panic("scripted panic in result.Write")
	}
	if err := oprot.WriteStructBegin(ctx, "ping_result"); err != nil {
		return err
	}
	if at == 1 {
		panic("scripted panic in result.Write")
	}
	if p.Success != nil {
		if err := oprot.WriteFieldBegin(ctx, "success", thrift.STRING, 0); err != nil {
			return err
		}
		if at == 2 {
			panic("scripted panic in result.Write")
		}
		if err := oprot.WriteString(ctx, *p.Success); err != nil {
			return err
		}
		if at >= 3 {
			panic("scripted panic in result.Write")
		}
		if err := oprot.WriteFieldEnd(ctx); err != nil {
			return err
		}
	}
	if p.E != nil {
		if err := oprot.WriteFieldBegin(ctx, "e", thrift.STRUCT, 1); err != nil {
			return err
		}
		if err := p.E.Write(ctx, oprot); err != nil {
			return err
		}
		if err := oprot.WriteFieldEnd(ctx); err != nil {
			return err
		}
	}
	if err := oprot.WriteFieldStop(ctx); err != nil {
		return err
	}
	return oprot.WriteStructEnd(ctx)
}

type c14NopResult struct{}

func (p *c14NopResult) Read(ctx context.Context, iprot thrift.TProtocol) error {
	return errors.New("not used by the server")
}

func (p *c14NopResult) Write(ctx context.Context, oprot thrift.TProtocol) error {
	if err := oprot.WriteStructBegin(ctx, "nop_result"); err != nil {
		return err
	}
	if err := oprot.WriteFieldStop(ctx); err != nil {
		return err
	}
	return oprot.WriteStructEnd(ctx)
}

// The handler: does what the request's x-out header says.
type c14Handler struct{}

func c14Scripted(fctx frugal.FContext) (string, error) {
	if pos, _ := fctx.RequestHeader("x-panic"); pos == "h" {
		panic("scripted panic in the handler")
	} else if strings.HasPrefix(pos, "w") {
		return c14PanicWriteMarker + pos[1:], nil // a result whose Write panics
	}
	tok, _ := fctx.RequestHeader("x-out")
	switch {
	case strings.HasPrefix(tok, "s:"):
		return string(unhx(tok[2:])), nil
	case strings.HasPrefix(tok, "d:"):
		msg := "declared " + tok[2:]
		if big, ok := fctx.RequestHeader("x-big"); ok {
			n, _ := strconv.Atoi(big)
			msg += strings.Repeat("e", n)
		}
		return "", &c14Err{Message: msg}
	case strings.HasPrefix(tok, "a:"):
		t, _ := strconv.ParseInt(tok[2:], 10, 32)
		return "", thrift.NewTApplicationException(int32(t), "scripted application exception")
	}
	return "", errors.New("scripted undeclared error")
}

func (c14Handler) Ping(fctx frugal.FContext, s string) (string, error) {
	if script, ok := fctx.RequestHeader("x-eph"); ok {
		return c14EphHandler(fctx, script), nil
	}
	return c14Scripted(fctx)
}
func (c14Handler) Nop(fctx frugal.FContext) error            { _, err := c14Scripted(fctx); return err }
func (c14Handler) Fire(fctx frugal.FContext, s string) error { _, err := c14Scripted(fctx); return err }

type c14FPing struct{ *frugal.FBaseProcessorFunction }

func (p *c14FPing) Process(fctx frugal.FContext, iprot, oprot *frugal.FProtocol) error {
	ctx, cancelFn := frugal.ToContext(fctx)
	defer cancelFn()

	args := c14StrArgs{}
	err := args.Read(ctx, iprot)
	iprot.ReadMessageEnd(ctx)
	if err != nil {
		return p.SendError(fctx, oprot, frugal.APPLICATION_EXCEPTION_PROTOCOL_ERROR, "ping", err.Error())
	}
	result := c14PingResult{}
	ret := p.InvokeMethod([]interface{}{fctx, args.S})
	if len(ret) != 2 {
		panic(fmt.Sprintf("Middleware returned %d arguments, expected 2", len(ret)))
	}
	if ret[1] != nil {
		err = ret[1].(error)
	}
	if err != nil {
		if typedError, ok := err.(thrift.TApplicationException); ok {
			p.SendError(fctx, oprot, typedError.TypeId(), "ping", typedError.Error())
			return nil
		}
		switch v := err.(type) {
		case *c14Err:
			result.E = v
		default:
			return p.SendError(fctx, oprot, frugal.APPLICATION_EXCEPTION_INTERNAL_ERROR, "ping", "Internal error processing ping: "+err.Error())
		}
	} else {
		var retval string = ret[0].(string)
		result.Success = &retval
	}
	return p.SendReply(fctx, oprot, "ping", &result)
}

type c14FNop struct{ *frugal.FBaseProcessorFunction }

func (p *c14FNop) Process(fctx frugal.FContext, iprot, oprot *frugal.FProtocol) error {
	ctx, cancelFn := frugal.ToContext(fctx)
	defer cancelFn()

	args := c14NopArgs{}
	err := args.Read(ctx, iprot)
	iprot.ReadMessageEnd(ctx)
	if err != nil {
		return p.SendError(fctx, oprot, frugal.APPLICATION_EXCEPTION_PROTOCOL_ERROR, "nop", err.Error())
	}
	result := c14NopResult{}
	ret := p.InvokeMethod([]interface{}{fctx})
	if len(ret) != 1 {
		panic(fmt.Sprintf("Middleware returned %d arguments, expected 1", len(ret)))
	}
	if ret[0] != nil {
		err = ret[0].(error)
	}
	if err != nil {
		if typedError, ok := err.(thrift.TApplicationException); ok {
			p.SendError(fctx, oprot, typedError.TypeId(), "nop", typedError.Error())
			return nil
		}
		return p.SendError(fctx, oprot, frugal.APPLICATION_EXCEPTION_INTERNAL_ERROR, "nop", "Internal error processing nop: "+err.Error())
	}
	return p.SendReply(fctx, oprot, "nop", &result)
}

type c14FFire struct{ *frugal.FBaseProcessorFunction }

func (p *c14FFire) Process(fctx frugal.FContext, iprot, oprot *frugal.FProtocol) error {
	ctx, cancelFn := frugal.ToContext(fctx)
	defer cancelFn()

	args := c14StrArgs{}
	err := args.Read(ctx, iprot)
	iprot.ReadMessageEnd(ctx)
	if err != nil {
		return p.SendError(fctx, oprot, frugal.APPLICATION_EXCEPTION_PROTOCOL_ERROR, "fire", err.Error())
	}
	ret := p.InvokeMethod([]interface{}{fctx, args.S})
	if len(ret) != 1 {
		panic(fmt.Sprintf("Middleware returned %d arguments, expected 1", len(ret)))
	}
	if ret[0] != nil {
		err = ret[0].(error)
	}
	if err != nil {
		if typedError, ok := err.(thrift.TApplicationException); ok {
			p.SendError(fctx, oprot, typedError.TypeId(), "fire", typedError.Error())
			return nil
		}
		return p.SendError(fctx, oprot, frugal.APPLICATION_EXCEPTION_INTERNAL_ERROR, "fire", "Internal error processing fire: "+err.Error())
	}
	return err
}

const (
	c14PanicWriteMarker = "\x00c14-panic-in-write:"
	c14PanicReadValue   = "\x00c14-panic-in-read"
)

// c14PanicMW is a ServiceMiddleware that does nothing — unless the request's x-panic header asks
// it to panic before ("b") or after ("a") the handler.
func c14PanicMW(next frugal.InvocationHandler) frugal.InvocationHandler {
	return func(service reflect.Value, method reflect.Method, args frugal.Arguments) frugal.Results {
		pos, _ := args.Context().RequestHeader("x-panic")
		if pos == "b" {
			panic("scripted panic in a middleware before the handler")
		}
		ret := next(service, method, args)
		if pos == "a" {
			panic("scripted panic in a middleware after the handler")
		}
		return ret
	}
}

var c14MW = []frugal.ServiceMiddleware{c14PanicMW}

func newC14Processor() *frugal.FBaseProcessor {
	p := frugal.NewFBaseProcessor()
	h := c14Handler{}
	p.AddToProcessorMap("ping", &c14FPing{frugal.NewFBaseProcessorFunction(p.GetWriteMutex(), frugal.NewMethod(h, h.Ping, "Ping", c14MW))})
	p.AddToProcessorMap("nop", &c14FNop{frugal.NewFBaseProcessorFunction(p.GetWriteMutex(), frugal.NewMethod(h, h.Nop, "Nop", c14MW))})
	p.AddToProcessorMap("blob", &c14FBlob{frugal.NewFBaseProcessorFunction(p.GetWriteMutex(), frugal.NewMethod(h, h.Blob, "Blob", c14MW))})
	p.AddToProcessorMap("fire", &c14FFire{frugal.NewFBaseProcessorFunction(p.GetWriteMutex(), frugal.NewMethod(h, h.Fire, "Fire", c14MW))})
	return p
}

// ---------- protocols ----------

var c14Factories = map[string]thrift.TProtocolFactory{
	"bin": thrift.NewTBinaryProtocolFactoryConf(nil),
	"cmp": thrift.NewTCompactProtocolFactoryConf(nil),
}

var c14Bg = context.Background()

// ---------- requests ----------

type c14Req struct {
	hdrBlock []byte // the Frugal header block as put on the wire
	env      string // "1": a well-formed Thrift message envelope follows; "0": an envelope no protocol accepts; "n": nothing follows
	method   string
	mtype    int
	seqid    int32
	args     string // ok<k> | req | bad<k>
	outcome  string // s:<hex> | d:<n> | a:<int> | o
	out      string // "" healthy | L<limit>:<fit> bounded output buffer | W<k> the k-th Write fails | FL Flush fails
}

func (q *c14Req) token() string {
	t := fmt.Sprintf("%s/%s/%s/%d/%d/%s/%s", hx(q.hdrBlock), q.env, hx([]byte(q.method)), q.mtype, q.seqid, q.args, q.outcome)
	if q.out != "" {
		t += "/" + q.out
	}
	return t
}

func c14ParseReq(tok string) (*c14Req, bool) {
	f := strings.Split(tok, "/")
	out := ""
	if len(f) == 8 && c14ValidOut(f[7]) {
		out = f[7]
		f = f[:7]
	}
	if len(f) != 7 {
		return nil, false
	}
	mt, e1 := strconv.Atoi(f[3])
	sq, e2 := strconv.ParseInt(f[4], 10, 32)
	if e1 != nil || e2 != nil || (f[1] != "1" && f[1] != "0" && f[1] != "n") {
		return nil, false
	}
	return &c14Req{hdrBlock: unhx(f[0]), env: f[1], method: string(unhx(f[2])), mtype: mt, seqid: int32(sq), args: f[5], outcome: f[6], out: out}, true
}

// c14WriteArgs writes the argument struct of the given class with the real Thrift protocol.
func c14WriteArgs(prot thrift.TProtocol, tr *thrift.TMemoryBuffer, proto, class string) {
	ctx := c14Bg
	extra := func() {
		prot.WriteFieldBegin(ctx, "x", thrift.I32, 5)
		prot.WriteI32(ctx, 77)
		prot.WriteFieldEnd(ctx)
		prot.WriteFieldBegin(ctx, "y", thrift.STRUCT, 7)
		prot.WriteStructBegin(ctx, "inner")
		prot.WriteFieldBegin(ctx, "l", thrift.LIST, 1)
		prot.WriteListBegin(ctx, thrift.STRING, 2)
		prot.WriteString(ctx, "a")
		prot.WriteString(ctx, "")
		prot.WriteListEnd(ctx)
		prot.WriteFieldEnd(ctx)
		prot.WriteFieldBegin(ctx, "m", thrift.MAP, 2)
		prot.WriteMapBegin(ctx, thrift.I64, thrift.BOOL, 1)
		prot.WriteI64(ctx, -9)
		prot.WriteBool(ctx, true)
		prot.WriteMapEnd(ctx)
		prot.WriteFieldEnd(ctx)
		prot.WriteFieldStop(ctx)
		prot.WriteStructEnd(ctx)
		prot.WriteFieldEnd(ctx)
	}
	str := func() {
		prot.WriteFieldBegin(ctx, "s", thrift.STRING, 1)
		prot.WriteString(ctx, "value")
		prot.WriteFieldEnd(ctx)
	}
	prot.WriteStructBegin(ctx, "args")
	switch class {
	case "okp": // well-formed on the wire; the hand-written Read panics on this value
		prot.WriteFieldBegin(ctx, "s", thrift.STRING, 1)
		prot.WriteString(ctx, c14PanicReadValue)
		prot.WriteFieldEnd(ctx)
	case "ok0":
		str()
	case "ok1":
		str()
		extra()
	case "ok2":
		extra()
		str()
	case "req": // the required field is missing; the struct itself is well-formed
		prot.WriteFieldBegin(ctx, "x", thrift.I32, 5)
		prot.WriteI32(ctx, 1)
		prot.WriteFieldEnd(ctx)
	case "bad0": // string field whose declared length exceeds what follows
		prot.WriteFieldBegin(ctx, "s", thrift.STRING, 1)
		prot.Flush(ctx)
		if proto == "bin" {
			tr.Write([]byte{0, 0, 0, 100, 'a', 'b', 'c'})
		} else {
			tr.Write([]byte{100, 'a', 'b', 'c'})
		}
		return
	case "bad1": // negative string length
		prot.WriteFieldBegin(ctx, "s", thrift.STRING, 1)
		prot.Flush(ctx)
		if proto == "bin" {
			tr.Write([]byte{0xff, 0xff, 0xff, 0xff})
		} else {
			tr.Write([]byte{0xff, 0xff, 0xff, 0xff, 0x0f})
		}
		return
	case "bad2": // no STOP: the struct never ends
		str()
		prot.Flush(ctx)
		return
	}
	prot.WriteFieldStop(ctx)
	prot.WriteStructEnd(ctx)
}

// c14Bytes renders one request as the bytes a client would put on the connection.
func c14Bytes(proto string, q *c14Req) []byte {
	tr := thrift.NewTMemoryBuffer()
	tr.Write(q.hdrBlock)
	if q.env == "n" {
		return append([]byte{}, tr.Bytes()...)
	}
	if q.env == "0" {
		// an envelope no protocol accepts: bad version word / bad protocol id
		if proto == "bin" {
			tr.Write([]byte{0x80, 0x02, 0x00, 0x01, 0, 0, 0, 1, 'x', 0, 0, 0, 0, 0})
		} else {
			tr.Write([]byte{0x83, 0x21, 0x00, 0x01, 'x', 0})
		}
		return append([]byte{}, tr.Bytes()...)
	}
	prot := c14Factories[proto].GetProtocol(tr)
	prot.WriteMessageBegin(c14Bg, q.method, thrift.TMessageType(q.mtype), q.seqid)
	c14WriteArgs(prot, tr, proto, q.args)
	prot.WriteMessageEnd(c14Bg)
	prot.Flush(c14Bg)
	return append([]byte{}, tr.Bytes()...)
}

// ---------- independent reader of the output stream ----------

type c14Reply struct {
	hdrs    map[string]string
	kind    string // R | E
	exType  int32
	method  string
	seqid   int32
	payload string // s:<hex> | d:<n> | x | ?
	size    int    // bytes of the stream this reply occupies
}

func (p *c14Reply) String() string {
	return fmt.Sprintf("%s/%d/%s/%d/%s/%s", p.kind, p.exType, hx([]byte(p.method)), p.seqid, p.payload, pairs(p.hdrs))
}

// c14ParseStream reads whole replies until the stream is exhausted: Frugal header block, Thrift
// message envelope, then a TApplicationException or a result struct, field by field.
func c14ParseStream(proto string, data []byte) (out []*c14Reply, err error) {
	buf := &thrift.TMemoryBuffer{Buffer: bytes.NewBuffer(append([]byte{}, data...))}
	prot := c14Factories[proto].GetProtocol(buf)
	ctx := c14Bg
	for buf.Len() > 0 {
		before := buf.Len()
		h, e := frugal.VerifReadHeader(buf)
		if e != nil {
			return out, fmt.Errorf("reply %d: header block: %v", len(out), e)
		}
		name, typ, seq, e := prot.ReadMessageBegin(ctx)
		if e != nil {
			return out, fmt.Errorf("reply %d: message begin: %v", len(out), e)
		}
		rp := &c14Reply{hdrs: h, method: name, seqid: seq}
		switch typ {
		case thrift.EXCEPTION:
			rp.kind = "E"
			rp.payload = "x"
			ex := thrift.NewTApplicationException(0, "")
			if e := ex.Read(ctx, prot); e != nil {
				return out, fmt.Errorf("reply %d: application exception: %v", len(out), e)
			}
			rp.exType = ex.TypeId()
		case thrift.REPLY:
			rp.kind = "R"
			if _, e := prot.ReadStructBegin(ctx); e != nil {
				return out, fmt.Errorf("reply %d: result struct: %v", len(out), e)
			}
			var fields []string
			for {
				_, ft, id, e := prot.ReadFieldBegin(ctx)
				if e != nil {
					return out, fmt.Errorf("reply %d: result field: %v", len(out), e)
				}
				if ft == thrift.STOP {
					break
				}
				if id == 0 && ft == thrift.STRING {
					v, e := prot.ReadBinary(ctx)
					if e != nil {
						return out, fmt.Errorf("reply %d: success value: %v", len(out), e)
					}
					fields = append(fields, "s:"+hx(v))
				} else if id > 0 && ft == thrift.STRUCT {
					if e := prot.Skip(ctx, ft); e != nil {
						return out, fmt.Errorf("reply %d: exception field: %v", len(out), e)
					}
					fields = append(fields, fmt.Sprintf("d:%d", id))
				} else {
					return out, fmt.Errorf("reply %d: unexpected result field %d type %d", len(out), id, ft)
				}
				if e := prot.ReadFieldEnd(ctx); e != nil {
					return out, e
				}
			}
			if e := prot.ReadStructEnd(ctx); e != nil {
				return out, e
			}
			switch len(fields) {
			case 0:
				rp.payload = "s:-" // void result
			case 1:
				rp.payload = fields[0]
			default:
				rp.payload = "?" + strings.Join(fields, "+")
			}
		default:
			return out, fmt.Errorf("reply %d: message type %d", len(out), typ)
		}
		if e := prot.ReadMessageEnd(ctx); e != nil {
			return out, e
		}
		rp.size = before - buf.Len()
		out = append(out, rp)
	}
	return out, nil
}

// ---------- running a sequence on the real processor ----------

// c14Run processes the requests and returns the canonical real output, the parsed replies
// and a parse error of the output stream (nil = the stream is a sequence of whole replies).
func c14Run(proto, mode string, reqs []*c14Req) (string, []*c14Reply, error, []c14Event) {
	pf := frugal.NewFProtocolFactory(c14Factories[proto])
	proc := newC14Processor()
	results := make([]string, len(reqs))
	var stream []byte
	var events []c14Event
	var framingErr error
	class := func(q *c14Req, err error) string {
		if err == nil {
			return "ok"
		}
		if q == nil {
			return "err"
		}
		if !c14HeaderOK(q) {
			return errClass(err)
		}
		return "err:other"
	}
	outcome := guard(30*time.Second, func() {
		switch mode {
		case "shared": // one connection: the requests back to back on one input transport, one output transport
			var all []byte
			for _, q := range reqs {
				all = append(all, c14Bytes(proto, q)...)
			}
			in := &thrift.TMemoryBuffer{Buffer: bytes.NewBuffer(all)}
			out := thrift.NewTMemoryBuffer()
			iprot, oprot := pf.GetProtocol(in), pf.GetProtocol(out)
			stopped := false
			for i, q := range reqs {
				results[i] = class(q, proc.Process(iprot, oprot))
				if results[i] != "ok" {
					results = results[:i+1] // a server loop ends here
					stopped = true
					break
				}
			}
			if in.Len() != 0 && !stopped && len(reqs) > 0 && c14KeepsPosition(reqs[len(reqs)-1]) {
				results = append(results, fmt.Sprintf("unread=%d", in.Len()))
			}
			stream = append([]byte{}, out.Bytes()...)
		case "sep": // one input and one output transport per request (NATS / HTTP shape)
			for i, q := range reqs {
				in := &thrift.TMemoryBuffer{Buffer: bytes.NewBuffer(c14Bytes(proto, q))}
				out := thrift.NewTMemoryBuffer()
				results[i] = class(q, proc.Process(pf.GetProtocol(in), pf.GetProtocol(out)))
				stream = append(stream, out.Bytes()...)
			}
		case "simple": // the real per-connection loop of FSimpleServer over its framed transport
			var all []byte
			for _, q := range reqs {
				b := c14Bytes(proto, q)
				all = append(append(all, be32(uint32(len(b)))...), b...)
			}
			conn := &c14Duplex{in: bytes.NewReader(all)}
			// accept ends at the first error of Process (nil at a clean end of input)
			results = []string{class(nil, frugal.VerifSimpleServerAccept(proc, pf, conn))}
			// the output must be a sequence of frames, each holding exactly one whole reply
			rest := conn.out.Bytes()
			for len(rest) > 0 {
				if len(rest) < 4 || int(uint32(rest[0])<<24|uint32(rest[1])<<16|uint32(rest[2])<<8|uint32(rest[3])) > len(rest)-4 {
					framingErr = errors.New("output is not a sequence of size-prefixed frames")
					break
				}
				n := int(uint32(rest[0])<<24 | uint32(rest[1])<<16 | uint32(rest[2])<<8 | uint32(rest[3]))
				if one, e := c14ParseStream(proto, rest[4:4+n]); e != nil || len(one) != 1 {
					framingErr = fmt.Errorf("a reply frame holds %d whole replies (%v)", len(one), e)
					break
				}
				stream = append(stream, rest[4:4+n]...)
				rest = rest[4+n:]
			}
		case "http": // the real HTTP handler: one request body, one response body per request
			handler := frugal.NewFrugalHandlerFunc(proc, pf)
			for i, q := range reqs {
				b := c14Bytes(proto, q)
				body := base64.StdEncoding.EncodeToString(append(be32(uint32(len(b))), b...))
				w := httptest.NewRecorder()
				handler(w, httptest.NewRequest("POST", "/frugal", strings.NewReader(body)))
				if w.Code != 200 {
					results[i] = "err"
					continue
				}
				results[i] = "ok"
				raw, e := base64.StdEncoding.DecodeString(w.Body.String())
				if e != nil || len(raw) < 4 || int(uint32(raw[0])<<24|uint32(raw[1])<<16|uint32(raw[2])<<8|uint32(raw[3])) != len(raw)-4 {
					framingErr = errors.New("response body is not one base64 size-prefixed frame")
					continue
				}
				stream = append(stream, raw[4:]...)
			}
		case "bounded", "fault": // ONE processor; each request with its own transports, output bounded / failing
			for i, q := range reqs {
				in := &thrift.TMemoryBuffer{Buffer: bytes.NewBuffer(c14Bytes(proto, q))}
				var outT thrift.TTransport
				var data func() []byte
				switch kind, n, _ := c14OutKind(q); kind {
				case "L":
					ob := frugal.NewTMemoryOutputBuffer(uint(n))
					outT = ob
					data = func() []byte {
						if !ob.HasWriteData() {
							return nil
						}
						b := ob.Bytes() // what the NATS server publishes
						if len(b) < 4 || int(uint32(b[0])<<24|uint32(b[1])<<16|uint32(b[2])<<8|uint32(b[3])) != len(b)-4 {
							framingErr = errors.New("bounded buffer: frame size prefix does not match")
							return nil
						}
						return b[4:]
					}
				case "W", "FL":
					ft := &c14FaultTransport{failAt: -1, failFlush: kind == "FL"}
					if kind == "W" {
						ft.failAt = n
					}
					outT = ft
					data = func() []byte {
						if ft.triggered {
							return nil // went to a dead peer
						}
						return ft.buf.Bytes()
					}
				default:
					mb := thrift.NewTMemoryBuffer()
					outT = mb
					data = mb.Bytes
				}
				var err error
				// the watchdog: a request with healthy transports must not wait for anything
				if o := guard(time.Second, func() { err = proc.Process(pf.GetProtocol(in), pf.GetProtocol(outT)) }); strings.HasPrefix(o, "panic") && strings.HasPrefix(q.out, "P") {
					// user-supplied code panicked; the embedding (net/http does the same) recovers, drops
					// whatever was written for this request and goes on serving the others
					results[i] = "panic"
					continue
				} else if o != "" {
					c14Wedged++
					results[i] = o
					results = results[:i+1]
					break
				}
				results[i] = class(q, err)
				stream = append(stream, data()...)
			}
		case "hsrv": // the real HTTP handler on a real net/http server (which recovers a panicking request and drops its connection)
			ts := httptest.NewUnstartedServer(frugal.NewFrugalHandlerFunc(proc, pf))
			ts.Config.ErrorLog = log.New(io.Discard, "", 0)
			ts.Start()
			defer func() { go ts.Close() }() // Close waits for requests in flight: a wedged one must not wedge the harness
			for i, q := range reqs {
				b := c14Bytes(proto, q)
				body := base64.StdEncoding.EncodeToString(append(be32(uint32(len(b))), b...))
				client := &http.Client{Timeout: 1500 * time.Millisecond, Transport: &http.Transport{}} // a new connection per request
				resp, err := client.Post(ts.URL, "application/x-frugal", strings.NewReader(body))
				if err != nil {
					if ne, ok := err.(interface{ Timeout() bool }); ok && ne.Timeout() {
						c14Wedged++
						results[i] = "blocked"
						results = results[:i+1]
						break
					}
					results[i] = "panic" // connection dropped without a response
					continue
				}
				raw64, _ := io.ReadAll(resp.Body)
				resp.Body.Close()
				if resp.StatusCode != 200 {
					results[i] = "err"
					continue
				}
				results[i] = "ok"
				raw, e := base64.StdEncoding.DecodeString(string(raw64))
				if e != nil || len(raw) < 4 || int(uint32(raw[0])<<24|uint32(raw[1])<<16|uint32(raw[2])<<8|uint32(raw[3])) != len(raw)-4 {
					framingErr = errors.New("response body is not one base64 size-prefixed frame")
					continue
				}
				stream = append(stream, raw[4:]...)
			}
		case "concsep": // concurrent workers, each message with its own buffers (NATS server workers' shape)
			outs := make([][]byte, len(reqs))
			start := make(chan struct{})
			var wg sync.WaitGroup
			for i, q := range reqs {
				wg.Add(1)
				go func(i int, q *c14Req) {
					defer wg.Done()
					in := &thrift.TMemoryBuffer{Buffer: bytes.NewBuffer(c14Bytes(proto, q))}
					out := thrift.NewTMemoryBuffer()
					<-start
					results[i] = class(q, proc.Process(pf.GetProtocol(in), pf.GetProtocol(out)))
					outs[i] = append([]byte{}, out.Bytes()...)
				}(i, q)
			}
			close(start)
			wg.Wait()
			for _, o := range outs {
				stream = append(stream, o...)
			}
		case "conc": // one goroutine per request, own input transport, ONE shared output protocol
			rec := &c14RecTransport{gids: map[int64]int{}}
			oprot := pf.GetProtocol(rec)
			start := make(chan struct{})
			var wg sync.WaitGroup
			for i, q := range reqs {
				wg.Add(1)
				go func(i int, q *c14Req) {
					defer wg.Done()
					rec.register(i)
					in := &thrift.TMemoryBuffer{Buffer: bytes.NewBuffer(c14Bytes(proto, q))}
					iprot := pf.GetProtocol(in)
					<-start
					results[i] = class(q, proc.Process(iprot, oprot))
				}(i, q)
			}
			close(start)
			wg.Wait()
			stream = rec.buf
			events = rec.events
		}
	})
	if outcome != "" {
		return outcome, nil, nil, nil
	}
	replies, perr := c14ParseStream(proto, stream)
	if perr == nil {
		perr = framingErr
	}
	if perr != nil {
		return "res=" + strings.Join(results, ",") + " out=corrupt", replies, perr, events
	}
	shown := replies
	if mode == "conc" {
		// the order in which concurrent requests are answered is the scheduler's; compare per request
		shown = append([]*c14Reply{}, replies...)
		idx := map[string]int{}
		for i, q := range reqs {
			idx[c14OpID(q)] = i
		}
		sort.SliceStable(shown, func(a, b int) bool { return idx[shown[a].hdrs["_opid"]] < idx[shown[b].hdrs["_opid"]] })
	}
	parts := make([]string, len(shown))
	for i, rp := range shown {
		parts[i] = rp.String()
	}
	o := "."
	if len(parts) > 0 {
		o = strings.Join(parts, "|")
	}
	return "res=" + strings.Join(results, ",") + " out=" + o, replies, nil, events
}

func c14Headers(q *c14Req) (map[string]string, bool) {
	h, err := frugal.VerifReadHeader(bytes.NewReader(q.hdrBlock))
	if err != nil {
		return nil, false
	}
	return h, true
}

// c14HeaderOK: the header block decodes and carries an op id.
func c14HeaderOK(q *c14Req) bool {
	h, ok := c14Headers(q)
	if !ok {
		return false
	}
	_, has := h["_opid"]
	return has
}

// c14KeepsPosition: by construction of the request, handling it consumes exactly its bytes.
func c14KeepsPosition(q *c14Req) bool {
	return c14HeaderOK(q) && q.env == "1" && !strings.HasPrefix(q.args, "bad")
}

func c14OpID(q *c14Req) string {
	h, ok := c14Headers(q)
	if !ok {
		return "\x00none"
	}
	return h["_opid"]
}

var c14Known = map[string]struct {
	oneway bool
	throws map[string]bool
}{"ping": {false, map[string]bool{"1": true}}, "nop": {false, nil}, "fire": {true, nil}, "blob": {false, nil}}

// c14Expect is the property's table, written without reference to the model: how many replies
// the request must get (-1 = the statement does not say: 0 or 1), and kind / exception type /
// payload of that reply.
func c14Expect(q *c14Req) (count int, kind string, exType int32, payload string, cls string) {
	count, kind, exType, payload, cls = c14ExpectHealthy(q)
	switch ok, _, fits := c14OutKind(q); {
	case ok == "P":
		return 0, "", 0, "", cls + "/panics" // its connection is dropped; nothing of it is observed
	case ok == "W" || ok == "FL":
		if count != 0 {
			return 0, "", 0, "", cls + "/peer-gone" // nothing can reach a dead peer
		}
	case ok == "L" && !fits:
		if cls == "unknown-method" {
			return -1, "E", 1, "x", cls + "/too-large" // no smaller substitute echoes the name: unanswered or answered
		}
		if count == 1 && kind == "R" {
			return 1, "E", 100, "x", cls + "/too-large"
		}
	}
	return
}

func c14ExpectHealthy(q *c14Req) (count int, kind string, exType int32, payload string, cls string) {
	if !c14HeaderOK(q) {
		return 0, "", 0, "", "undecodable-header"
	}
	if q.env != "1" {
		return 0, "", 0, "", "undecodable-envelope"
	}
	m, known := c14Known[q.method]
	if !known {
		return 1, "E", 1, "x", "unknown-method"
	}
	malformed := !strings.HasPrefix(q.args, "ok")
	if m.oneway {
		if !malformed && strings.HasPrefix(q.outcome, "s:") {
			return 0, "", 0, "", "oneway"
		}
		return -1, "E", 0, "x", "oneway-failure"
	}
	if malformed {
		return 1, "E", 7, "x", "malformed-args"
	}
	switch {
	case strings.HasPrefix(q.outcome, "s:"):
		if q.method == "nop" || (q.method == "blob" && q.outcome == "s:-") {
			return 1, "R", 0, "s:-", "success"
		}
		return 1, "R", 0, q.outcome, "success"
	case strings.HasPrefix(q.outcome, "d:"):
		if m.throws[q.outcome[2:]] {
			return 1, "R", 0, q.outcome, "declared-exception"
		}
		return 1, "E", 6, "x", "undeclared-error"
	case strings.HasPrefix(q.outcome, "a:"):
		t, _ := strconv.ParseInt(q.outcome[2:], 10, 32)
		return 1, "E", int32(t), "x", "application-exception"
	}
	return 1, "E", 6, "x", "undeclared-error"
}

// c14Oracle evaluates the property on what the real server wrote. Returns "" when it holds.
func c14Oracle(mode string, reqs []*c14Req, replies []*c14Reply, perr error, real string) string {
	if strings.HasPrefix(real, "panic") || real == "blocked" {
		return "processing a request sequence: " + real
	}
	if strings.Contains(real, "blocked") || strings.Contains(real, "panic:") {
		return "a request with healthy transports did not return (or panicked) after an earlier request failed while its reply was being written (write error, overflow, or a panic of user-supplied code): the shared processor is wedged"
	}
	if perr != nil {
		return "the output is not a sequence of whole replies: " + perr.Error()
	}
	byOp := map[string][]*c14Reply{}
	for _, rp := range replies {
		byOp[rp.hdrs["_opid"]] = append(byOp[rp.hdrs["_opid"]], rp)
	}
	seen := 0
	var order []string
	for _, q := range reqs {
		want, kind, exType, payload, cls := c14Expect(q)
		got := byOp[c14OpID(q)]
		if !c14HeaderOK(q) {
			got = nil
		}
		seen += len(got)
		for range got {
			order = append(order, c14OpID(q))
		}
		if want == -1 {
			if len(got) > 1 {
				return fmt.Sprintf("a request (%s) got %d replies", cls, len(got))
			}
			continue
		}
		if len(got) != want {
			return fmt.Sprintf("a request (%s) got %d replies, the property demands %d", cls, len(got), want)
		}
		if want == 0 {
			continue
		}
		rp := got[0]
		if rp.kind != kind || (kind == "E" && rp.exType != exType) || rp.payload != payload || rp.method != q.method {
			return fmt.Sprintf("a request (%s): reply %s/%d/%s for method %q, the property demands %s/%d/%s", cls, rp.kind, rp.exType, rp.payload, rp.method, kind, exType, payload)
		}
		if h, _ := c14Headers(q); h["_cid"] != rp.hdrs["_cid"] {
			return fmt.Sprintf("a request (%s): reply carries correlation id %q, request %q", cls, rp.hdrs["_cid"], h["_cid"])
		}
	}
	if seen != len(replies) {
		return fmt.Sprintf("%d replies carry an op id of no request", len(replies)-seen)
	}
	if mode != "conc" {
		for i, rp := range replies {
			if rp.hdrs["_opid"] != order[i] {
				return fmt.Sprintf("reply %d answers op id %q, expected %q (request order)", i, rp.hdrs["_opid"], order[i])
			}
		}
	}
	return ""
}

// c14Duplex is a client connection: the server reads the request frames from `in` and writes to `out`.
type c14Duplex struct {
	in  *bytes.Reader
	out bytes.Buffer
}

// Read reports errors the way thrift.TSocket does (typed transport exceptions; END_OF_FILE when the peer is done).
func (t *c14Duplex) Read(p []byte) (int, error) {
	n, err := t.in.Read(p)
	return n, thrift.NewTTransportExceptionFromError(err)
}
func (t *c14Duplex) Write(p []byte) (int, error)     { return t.out.Write(p) }
func (t *c14Duplex) Open() error                     { return nil }
func (t *c14Duplex) Close() error                    { return nil }
func (t *c14Duplex) IsOpen() bool                    { return true }
func (t *c14Duplex) Flush(ctx context.Context) error { return nil }
func (t *c14Duplex) RemainingBytes() uint64          { return uint64(t.in.Len()) }

// ---------- concurrent writers: a transport that records who wrote what ----------

type c14Event struct{ g, n int }

type c14RecTransport struct {
	mu     sync.Mutex
	buf    []byte
	events []c14Event
	gids   map[int64]int
}

func c14GID() int64 {
	var b [64]byte
	s := string(b[:runtime.Stack(b[:], false)])
	s = strings.TrimPrefix(s, "goroutine ")
	if i := strings.IndexByte(s, ' '); i > 0 {
		id, _ := strconv.ParseInt(s[:i], 10, 64)
		return id
	}
	return -1
}

func (t *c14RecTransport) register(i int) {
	t.mu.Lock()
	t.gids[c14GID()] = i
	t.mu.Unlock()
}

func (t *c14RecTransport) Write(p []byte) (int, error) {
	g := c14GID()
	runtime.Gosched() // give the other writers every chance to get in between two chunks
	t.mu.Lock()
	idx, ok := t.gids[g]
	if !ok {
		idx = -1
	}
	t.buf = append(t.buf, p...)
	t.events = append(t.events, c14Event{idx, len(p)})
	t.mu.Unlock()
	return len(p), nil
}
func (t *c14RecTransport) Read(p []byte) (int, error)      { return 0, errors.New("write-only") }
func (t *c14RecTransport) Open() error                     { return nil }
func (t *c14RecTransport) Close() error                    { return nil }
func (t *c14RecTransport) IsOpen() bool                    { return true }
func (t *c14RecTransport) Flush(ctx context.Context) error { runtime.Gosched(); return nil }
func (t *c14RecTransport) RemainingBytes() uint64          { return 0 }

func c14TraceArg(ev []c14Event) string {
	if len(ev) == 0 {
		return "."
	}
	parts := make([]string, len(ev))
	for i, e := range ev {
		parts[i] = fmt.Sprintf("%d:%d", e.g, e.n)
	}
	return strings.Join(parts, ",")
}

func c14Ints(l []int) string {
	if len(l) == 0 {
		return "."
	}
	parts := make([]string, len(l))
	for i, v := range l {
		parts[i] = strconv.Itoa(v)
	}
	return strings.Join(parts, ",")
}

// c14TraceCheck: is the write trace a sequence of uninterrupted runs, one per goroutine?
// Returns the canonical "ok fin=… lens=… total=…" or "rejected".
func c14TraceCheck(k int, ev []c14Event) string {
	var fin, lens []int
	done := map[int]bool{}
	total := 0
	for i, e := range ev {
		if e.g < 0 || e.g >= k {
			return "rejected"
		}
		if i == 0 || ev[i-1].g != e.g {
			if done[e.g] {
				return "rejected"
			}
			done[e.g] = true
			fin = append(fin, e.g)
			lens = append(lens, 0)
		}
		lens[len(lens)-1] += e.n
		total += e.n
	}
	return fmt.Sprintf("ok fin=%s lens=%s total=%d", c14Ints(fin), c14Ints(lens), total)
}

// ---------- generation ----------

var c14Unknown = []string{"", "pin", "pingg", "Ping", "PING", "nop ", "fires", "x", "unknownMethod", "ping\x00", "日本", strings.Repeat("m", 300)}

func c14GenOutcome(r *Rng, method string) string {
	switch r.Intn(6) {
	case 0, 1:
		if method == "ping" || method == "blob" {
			return "s:" + hx(r.Bytes(r.Pick(0, 1, 3, 8, 20, 300)))
		}
		return "s:-"
	case 2:
		return "d:1"
	case 3, 4:
		return "a:" + strconv.Itoa(r.Pick(0, 1, 2, 3, 4, 5, 6, 7, 8, 9, 10, 100, 101, -1, 2147483647, -2147483648, 12345))
	}
	return "o"
}

// c14GenReq makes one request; positionSafe = only kinds after which a shared input stream is
// still at the start of the next request.
func c14GenReq(r *Rng, idx int, positionSafe bool) (*c14Req, string) {
	q := &c14Req{env: "1", mtype: r.Pick(1, 1, 1, 4, 2, 3, 0, 9), seqid: int32(r.Pick(0, 0, 1, 7, -1, 2147483647))}
	h := map[string]string{}
	for n := r.Pick(0, 0, 1, 2, 4); len(h) < n; {
		h[genString(r, true)] = genString(r, true)
	}
	opid := strconv.Itoa(idx)
	switch r.Intn(8) {
	case 0:
		opid = strconv.Itoa(idx) + "-" + genString(r, true) // op ids are opaque to the server
	case 1:
		opid = strconv.FormatUint(1<<63+uint64(idx), 10)
	}
	h["_opid"] = opid
	switch r.Intn(4) {
	case 0:
		h["_cid"] = "cid-" + strconv.Itoa(idx)
	case 1:
		h["_cid"] = genString(r, true)
	}
	if r.Chance(10) {
		h["_timeout"] = r.PickS("60000", "abc", "")
	}
	kind := r.Intn(100)
	switch {
	case kind < 22:
		q.method = c14Unknown[r.Intn(len(c14Unknown))]
	case kind < 62:
		q.method = "ping"
	case kind < 74:
		q.method = "nop"
	case kind < 84:
		q.method = "blob"
	default:
		q.method = "fire"
	}
	q.outcome = c14GenOutcome(r, q.method)
	h["x-out"] = q.outcome
	_, known := c14Known[q.method]
	a := r.Intn(100)
	switch {
	case a < 65 || ((q.method == "nop" || q.method == "blob") && positionSafe):
		q.args = "ok" + strconv.Itoa(r.Intn(3))
	case a < 80 && known && q.method != "nop" && q.method != "blob":
		q.args = "req"
	case !positionSafe:
		q.args = "bad" + strconv.Itoa(r.Intn(3))
	default:
		q.args = "ok0"
	}
	if !known && q.args == "req" {
		q.args = "ok1"
	}
	q.hdrBlock = frugal.VerifMarshalHeaders(h)
	cls := "kind:" + map[bool]string{true: "known", false: "unknown"}[known] + "/" + q.args[:len(q.args)-1]
	if q.args == "req" {
		cls = "kind:known/req"
	}
	if !positionSafe && r.Chance(12) {
		// undecodable request: header block or envelope
		switch r.Intn(7) {
		case 0:
			q.hdrBlock = q.hdrBlock[:r.Intn(len(q.hdrBlock))]
			cls = "kind:header/truncated"
		case 1:
			q.hdrBlock[0] = byte(1 + r.Intn(255))
			cls = "kind:header/version"
		case 2:
			copy(q.hdrBlock[1:5], []byte{0xff, 0xff, 0xff, byte(r.Intn(256))})
			cls = "kind:header/negative-size"
		case 3:
			copy(q.hdrBlock[1:5], be32(uint32(len(q.hdrBlock)+r.Intn(100))))
			cls = "kind:header/size-beyond-data"
		case 4:
			delete(h, "_opid")
			q.hdrBlock = frugal.VerifMarshalHeaders(h)
			cls = "kind:header/no-opid"
		case 5:
			copy(q.hdrBlock[5:9], []byte{0x7f, 0xff, 0xff, 0xff})
			cls = "kind:header/name-size"
		case 6:
			q.env = "0"
			cls = "kind:envelope"
		}
		if cls != "kind:envelope" && cls != "kind:header/no-opid" {
			q.env = "n" // nothing follows an undecodable header block
		}
	}
	return q, cls
}

func (r *Rng) PickS(xs ...string) string { return xs[r.Intn(len(xs))] }

func c14Line(proto, mode string, reqs []*c14Req) string {
	toks := make([]string, len(reqs))
	for i, q := range reqs {
		toks[i] = q.token()
	}
	l := "."
	if len(toks) > 0 {
		l = strings.Join(toks, ",")
	}
	return "prc - " + proto + " " + mode + " " + l
}

// c14Minimise drops requests while the oracle still fails.
func c14Minimise(proto, mode string, reqs []*c14Req) []*c14Req {
	if mode == "conc" {
		return reqs
	}
	cur := reqs
	for i := 0; i < len(cur) && len(cur) > 1; {
		cand := append(append([]*c14Req{}, cur[:i]...), cur[i+1:]...)
		real, replies, perr, _ := c14Run(proto, mode, cand)
		if c14Oracle(mode, cand, replies, perr, real) != "" {
			cur = cand
		} else {
			i++
		}
	}
	return cur
}

var c14Wedged, c14Minimised int

func runC14(r *Rng, n int) {
	for i := 0; i < n; i++ {
		proto := r.PickS("bin", "cmp")
		mode := r.PickS("shared", "simple", "sep", "sep", "http", "conc", "conc", "concsep", "bounded", "bounded", "fault", "fault", "fault", "hsrv")
		if c14Wedged >= 12 && (mode == "bounded" || mode == "fault" || mode == "hsrv") {
			mode = "sep" // established and reported; every further instance costs a watchdog period
		}
		k := 1 + r.Intn(9)
		if mode == "conc" || mode == "concsep" {
			k = 2 + r.Intn(7)
		}
		reqs := make([]*c14Req, k)
		for j := range reqs {
			var cls string
			conn := mode == "shared" || mode == "simple"
			last := j == len(reqs)-1 && r.Chance(35)
			for {
				reqs[j], cls = c14GenReq(r, j, conn && !last)
				// the framed connection of the simple server: only endings whose effect on the loop is determined
				if mode == "simple" && (strings.HasPrefix(reqs[j].args, "bad") || cls == "kind:header/truncated" || cls == "kind:header/size-beyond-data") {
					continue
				}
				break
			}
			if mode == "bounded" || mode == "fault" || mode == "hsrv" {
				Stat(c14GenOut(r, proto, mode, reqs[j], j == 0))
			}
			Stat(cls)
			if _, known := c14Known[reqs[j].method]; known {
				Stat("method:" + reqs[j].method)
			} else {
				Stat("method:(unknown)")
			}
			Stat("outcome:" + reqs[j].outcome[:1])
			_, _, _, _, ecls := c14Expect(reqs[j])
			Stat("expect:" + ecls)
		}
		Stat("mode:" + mode)
		Stat("proto:" + proto)
		Stat(fmt.Sprintf("requests=%d", k))
		real, replies, perr, events := c14Run(proto, mode, reqs)
		line := c14Line(proto, mode, reqs)
		Case(line, real)
		if i < 3 {
			Sample(map[string]interface{}{"line": clip(line), "real": clip(real)})
		}
		if what := c14Oracle(mode, reqs, replies, perr, real); what != "" {
			min := reqs
			if c14Minimised < 4 { // each re-run of a wedging sequence costs a watchdog period
				c14Minimised++
				min = c14Minimise(proto, mode, reqs)
			}
			mreal, _, _, _ := c14Run(proto, mode, min)
			OracleFail(what, map[string]interface{}{"op": "prc", "line": c14Line(proto, mode, min), "got": clip(mreal), "requests": len(min)})
		}
		if mode == "conc" {
			// trace validation: the recorded Write calls, replayed through the model's step
			tline := fmt.Sprintf("cw %d %s", k, c14TraceArg(events))
			var fin, lens []int
			idx := map[string]int{}
			for j, q := range reqs {
				idx[c14OpID(q)] = j
			}
			total := 0
			for _, rp := range replies {
				fin = append(fin, idx[rp.hdrs["_opid"]])
				lens = append(lens, rp.size)
				total += rp.size
			}
			treal := fmt.Sprintf("ok fin=%s lens=%s total=%d", c14Ints(fin), c14Ints(lens), total)
			if perr != nil {
				treal = "corrupt"
			}
			Case(tline, treal)
			Stat(fmt.Sprintf("conc:writers=%d", len(fin)))
			StatN("conc:write-calls", len(events))
			if c14TraceCheck(k, events) == "rejected" {
				OracleFail("writes of concurrently processed requests are interleaved on the shared output", map[string]interface{}{"op": "cw", "line": tline, "got": clip(real)})
			}
		}
		Stat("evaluations")
	}
}

func init() {
	suites["c14"] = runC14
	lineOps["prc"] = func(args []string) (string, bool) {
		if len(args) != 4 {
			return "bad-op", true
		}
		proto, mode := args[1], args[2]
		if _, ok := c14Factories[proto]; !ok || (mode != "shared" && mode != "sep" && mode != "conc" && mode != "simple" && mode != "http" && mode != "concsep" && mode != "bounded" && mode != "fault" && mode != "hsrv") {
			return "bad-op", true
		}
		var reqs []*c14Req
		if args[3] != "." {
			for _, t := range strings.Split(args[3], ",") {
				q, ok := c14ParseReq(t)
				if !ok {
					return "bad-op", true
				}
				reqs = append(reqs, q)
			}
		}
		real, replies, perr, _ := c14Run(proto, mode, reqs)
		return real, c14Oracle(mode, reqs, replies, perr, real) == ""
	}
	lineOps["cw"] = func(args []string) (string, bool) {
		if len(args) != 2 {
			return "bad-op", true
		}
		k, err := strconv.Atoi(args[0])
		if err != nil {
			return "bad-op", true
		}
		var ev []c14Event
		if args[1] != "." {
			for _, t := range strings.Split(args[1], ",") {
				f := strings.Split(t, ":")
				if len(f) != 2 {
					return "bad-op", true
				}
				g, e1 := strconv.Atoi(f[0])
				l, e2 := strconv.Atoi(f[1])
				if e1 != nil || e2 != nil {
					return "bad-op", true
				}
				ev = append(ev, c14Event{g, l})
			}
		}
		o := c14TraceCheck(k, ev)
		return o, o != "rejected"
	}
}
