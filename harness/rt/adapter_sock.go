package main

// C15 over a REAL thrift.TSocket: `ads <history hex> <monitor cfg>`. The peer is a loopback
// listener driven by the controller. One byte per action (low nibble):
//
//	0 O Open    1 C Close    2 I IsOpen    3 F peer sends a good frame
//	4 E peer closes between frames (FIN)      5 R peer resets the connection (RST)
//	6 H peer half-closes (shutdown write)     7 G peer sends a garbage frame
//	8 T peer sends a cut-off frame, then FIN  9 U peer sends a cut-off frame, then RST
//	f m let the monitor run                   others: no-op (`skip`)
//
// No goroutine is parked at a yield point here (the yield points only report events); the
// history is sequential, so the model line is the same history as an `adp` line. The peer is
// SILENT unless told otherwise: every call is made while the read loop is blocked in Read.

import (
	"net"
	"strconv"
	"strings"
	"time"

	frugal "github.com/Workiva/frugal/lib/go"
	"github.com/apache/thrift/lib/go/thrift"
)

type sockPeer struct {
	ln       net.Listener
	accepted chan net.Conn
	cur      net.Conn
	all      []net.Conn
}

func newSockPeer() (*sockPeer, error) {
	ln, err := net.Listen("tcp", "127.0.0.1:0")
	if err != nil {
		return nil, err
	}
	p := &sockPeer{ln: ln, accepted: make(chan net.Conn, 16)}
	go func() {
		for {
			c, err := ln.Accept()
			if err != nil {
				return
			}
			p.accepted <- c
		}
	}()
	return p, nil
}

func (p *sockPeer) awaitAccept() bool {
	c, ok := laRecv(p.accepted, adpWatch)
	if !ok {
		return false
	}
	p.cur = c
	p.all = append(p.all, c)
	return true
}

func (p *sockPeer) shutdown() {
	p.ln.Close()
	for _, c := range p.all {
		c.Close()
	}
	for {
		select {
		case c := <-p.accepted:
			c.Close()
		default:
			return
		}
	}
}

func (p *sockPeer) rst() {
	if tc, ok := p.cur.(*net.TCPConn); ok {
		tc.SetLinger(0)
	}
	p.cur.Close()
}

func adsActName(a byte) string { return string("OCIFERHGTU.....m"[a&15 : a&15+1]) }

// adsToAdp maps a real-socket history to the scripted-transport history with the same meaning
// (this is the line the model is stepped through).
func adsToAdp(h []byte) []byte {
	m := map[byte]byte{0: 0, 1: 1, 2: 2, 3: 3, 4: 4, 5: 5, 6: 4, 7: 7, 8: 8, 9: 9, 15: 15}
	out := make([]byte, len(h))
	for i, b := range h {
		if x, ok := m[b&15]; ok {
			out[i] = x | b&0xf0
		} else {
			out[i] = 14 // `x`: arms a failure of the next underlying Open in adp; here a no-op, never used
		}
	}
	return out
}

// settleLoopStart gives the new read loop the time to block in Read (not observable on a real
// socket). Only the detection of a call blocking behind that Read depends on it.
const settleLoopStart = 3 * time.Millisecond

func runAds(hist []byte, cfg adpCfg) (string, []string) {
	adpInstallHook()
	peer, err := newSockPeer()
	if err != nil {
		return "err:listen", []string{"cannot listen on loopback"}
	}
	c := &adpCtl{sock: peer, evq: make(chan interface{}, 1024),
		known: map[int64]bool{}, hookGate: map[int64]chan struct{}{}, ents: map[int64]*adpEnt{}, monState: "none", nextOp: 1 << 41}
	sockT := thrift.NewTSocketConf(peer.ln.Addr().String(), &thrift.TConfiguration{ConnectTimeout: time.Second})
	c.ft = frugal.NewAdapterTransport(sockT)
	adpCur.Store(c)
	if cfg.kind != "n" {
		m := &adpMon{c: c, stub: cfg.kind == "s", reopen: cfg.reopen}
		m.base = frugal.BaseFTransportMonitor{MaxReopenAttempts: uint(cfg.max), InitialWait: time.Duration(cfg.init) * time.Millisecond, MaxWait: time.Duration(cfg.mw) * time.Millisecond}
		c.ft.SetMonitor(m)
		c.monState = "idle"
	}
	var outs []string
	step := func(i int, b byte) string {
		a, par := b&15, int(b>>4)
		switch a {
		case 0, 1, 2:
			if a == 0 && (c.monState == "parked" || c.monState == "busy" || c.buffered) {
				c.manualRace = true
			}
			e := c.startCall("OCI"[a], i)
			c.settle()
			if a == 0 && e.res == "ok" {
				time.Sleep(settleLoopStart)
			}
			return c.report(e, "")
		case 3:
			if !c.obsOpen() {
				return "skip"
			}
			c.nextOp++
			ctx := frugal.NewFContext("")
			ctx.AddRequestHeader("_opid", strconv.FormatUint(c.nextOp, 10))
			resC := make(chan []byte, 1)
			frugal.VerifAdapterRegister(c.ft, ctx, resC)
			fr := goodFrame(c.nextOp, par)
			peer.cur.Write(fr)
			got, ok := laRecv(resC, adpWatch)
			if !ok {
				c.violate("a whole frame was not delivered")
				return "blocked"
			}
			if string(got) != string(fr[4:]) {
				c.violate("delivered frame differs from the frame sent")
				return "d?"
			}
			return "d"
		case 4, 5, 6, 7, 8, 9:
			if !c.obsOpen() || c.curLoop == nil {
				return "skip"
			}
			e := c.curLoop
			kind := "e"
			switch a {
			case 4:
				kind = "n"
			case 6:
				kind = "n"
			case 8:
				kind = "n"
			}
			c.incFail[e.idx-1] += kind
			e.st, e.fed = "run", true
			switch a {
			case 4:
				peer.cur.Close()
			case 5:
				peer.rst()
			case 6:
				peer.cur.(*net.TCPConn).CloseWrite()
			case 7:
				if par%2 == 1 {
					peer.cur.Write(be32(0))
				} else {
					peer.cur.Write(append(be32(3), 1, 2, 3))
				}
			case 8, 9:
				fr := goodFrame(7, 6)
				peer.cur.Write(fr[:1+par%(len(fr)-1)])
				if a == 8 {
					peer.cur.Close()
				} else {
					time.Sleep(time.Millisecond) // let the bytes arrive before the reset discards them (either order is an unclean close)
					peer.rst()
				}
			}
			c.settle()
			return c.report(e, "")
		case 15:
			if c.monState != "parked" {
				return "skip"
			}
			wasOpen := c.obsOpen()
			if c.healedByMonitor() {
				c.violate("the monitor handles a close report although the transport is open and the application never reopened it (a failure reported twice / a report without a failure)")
			}
			c.monState = "busy"
			c.hmu.Lock()
			gate := c.monGate
			c.monGate = nil
			c.hmu.Unlock()
			close(gate)
			c.settleMon()
			if c.monState == "idle" || c.monState == "parked" {
				time.Sleep(settleLoopStart)
			}
			toks := []string{}
			for _, t := range c.stepMon {
				if !strings.HasPrefix(t, "!") {
					toks = append(toks, t)
				}
			}
			c.checkOutage(toks, cfg, 0, wasOpen)
			return c.report(nil, strings.Join(toks, ","))
		}
		return "a"
	}
	adp := adsToAdp(hist)
	for i, b := range hist {
		outs = append(outs, adpActName(adp[i])+"="+step(i, b))
	}
	return c.finish(len(hist), outs, nil, cfg)
}

func genAds(r *Rng) ([]byte, adpCfg) {
	var cfg adpCfg
	switch r.Intn(4) {
	case 0:
		cfg = adpCfg{kind: "n"}
	case 1, 2:
		cfg = adpCfg{kind: "s", reopen: r.Chance(85), max: 1 + r.Intn(3)}
	default:
		cfg = adpCfg{kind: "b", max: 1 + r.Intn(3), init: r.Intn(3), mw: 0}
		cfg.mw = cfg.init + r.Intn(4)
	}
	n := 1 + r.Intn(10)
	weights := map[byte]int{0: 14, 1: 8, 2: 8, 3: 7, 4: 5, 5: 6, 6: 4, 7: 3, 8: 4, 9: 3, 15: 10}
	if cfg.kind == "n" {
		weights[15] = 0
	}
	keys := []byte{0, 1, 2, 3, 4, 5, 6, 7, 8, 9, 15}
	tot := 0
	for _, k := range keys {
		tot += weights[k]
	}
	h := []byte{0}
	for len(h) < n {
		x := r.Intn(tot)
		for _, k := range keys {
			if x < weights[k] {
				h = append(h, k|byte(r.Intn(16))<<4)
				break
			}
			x -= weights[k]
		}
	}
	return h, cfg
}

func realAdsLine(args []string) (string, bool) {
	if len(args) != 2 {
		return "bad-op", true
	}
	cfg, ok := parseAdpCfg(args[1])
	if !ok {
		return "bad-op", true
	}
	h := unhx(args[0])
	if len(h) > 64 {
		return "bad-op", true
	}
	for _, b := range h {
		if a := b & 15; a > 9 && a != 15 {
			return "bad-op", true
		}
	}
	o, viol := runAds(h, cfg)
	if len(viol) > 0 {
		OracleFail("C15 socket: "+viol[0], map[string]interface{}{"op": "ads", "line": "ads " + strings.Join(args, " "), "in": args[0], "got": o, "all": viol})
	}
	return o, true
}

func runC15Sock(r *Rng, n int) {
	for i := 0; i < n; i++ {
		h, cfg := genAds(r)
		o, viol := runAds(h, cfg)
		line := "ads " + hx(h) + " " + adpCfgString(cfg)
		Case(line, o)
		Stat("evaluations")
		Stat("monitor:" + cfg.kind)
		for _, b := range h {
			Stat("action:" + adsActName(b))
		}
		if i < 2 {
			Sample(map[string]interface{}{"line": line, "real": o})
		}
		if len(viol) > 0 {
			OracleFail("C15 socket: "+viol[0], map[string]interface{}{"op": "ads", "line": line, "in": hx(h), "got": o, "all": viol})
		}
	}
}

func init() {
	suites["c15sock"] = runC15Sock
	lineOps["ads"] = realAdsLine
}
