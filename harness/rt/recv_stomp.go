package main

// C05 (c) — the STOMP subscriber path: fStompSubscriberTransport.processMessages (lib/go/stomp_transport.go)
// on ARBITRARY message bodies, and on MESSAGE frames whose headers are incomplete.
//
// Real code under test: NewFStompSubscriberTransportFactoryBuilder(conn).Build().GetTransport().Subscribe →
// processMessages → callback / ackMessage, fed by go-stomp's client (github.com/go-stomp/stomp) from a real
// TCP connection to an in-process peer that plays the broker: it answers CONNECT / SUBSCRIBE / UNSUBSCRIBE /
// DISCONNECT and writes exactly the MESSAGE frames the case asks for (own subscription id, headers chosen
// by the case), and counts the ACK frames that come back.
//
// Property oracle (independent of the model): no panic (it would kill the process), the callback runs once
// for every body of at least 4 bytes and for no other, in order, with the bytes behind the 4-byte prefix;
// the well-formed message sent after the sequence is delivered (the loop is alive); every accepted message
// that carried an `ack` header is acknowledged, no other is.
//
// Op:  stm <body>,<body>,…      output `delivered=<n> acked=<n> exited=<bool>`  (acked = callbacks that returned nil)

import (
	"fmt"
	"io"
	"net"
	"strconv"
	"strings"
	"sync"
	"sync/atomic"
	"time"

	frugal "github.com/Workiva/frugal/lib/go"
	"github.com/apache/thrift/lib/go/thrift"
	"github.com/go-stomp/stomp"
	"github.com/go-stomp/stomp/frame"
)

// ---------- the peer that plays the broker ----------

type c05Broker struct {
	mu    sync.Mutex
	nc    net.Conn
	w     *frame.Writer
	subID map[string]string // destination -> subscription id
	subC  chan string       // destinations subscribed, as they arrive
	acks  int64
}

func c05StartBroker() (*c05Broker, string, error) {
	l, err := net.Listen("tcp", "127.0.0.1:0")
	if err != nil {
		return nil, "", err
	}
	b := &c05Broker{subID: map[string]string{}, subC: make(chan string, 16)}
	go func() {
		nc, err := l.Accept()
		l.Close()
		if err != nil {
			return
		}
		b.mu.Lock()
		b.nc, b.w = nc, frame.NewWriter(nc)
		b.mu.Unlock()
		r := frame.NewReader(nc)
		for {
			f, err := r.Read()
			if err != nil {
				return
			}
			if f == nil {
				continue
			}
			switch f.Command {
			case frame.CONNECT, frame.STOMP:
				b.write(frame.New(frame.CONNECTED, frame.Version, "1.2", frame.HeartBeat, "0,0"))
				continue
			case frame.SUBSCRIBE:
				b.mu.Lock()
				b.subID[f.Header.Get(frame.Destination)] = f.Header.Get(frame.Id)
				b.mu.Unlock()
				b.subC <- f.Header.Get(frame.Destination)
			case frame.ACK:
				atomic.AddInt64(&b.acks, 1)
			}
			if id, ok := f.Header.Contains(frame.Receipt); ok {
				b.write(frame.New(frame.RECEIPT, frame.ReceiptId, id))
			}
			if f.Command == frame.DISCONNECT {
				return
			}
		}
	}()
	return b, l.Addr().String(), nil
}

func (b *c05Broker) write(f *frame.Frame) {
	b.mu.Lock()
	defer b.mu.Unlock()
	if b.w != nil {
		b.w.Write(f)
	}
}

// message writes one MESSAGE frame for the destination; `shape` selects which headers it carries.
func (b *c05Broker) message(dest string, n int, body []byte, shape byte) {
	b.mu.Lock()
	id := b.subID[dest]
	b.mu.Unlock()
	mid := strconv.Itoa(n)
	f := frame.New(frame.MESSAGE, frame.Subscription, id, frame.Destination, dest)
	if shape != 'm' { // 'm': no message-id
		f.Header.Add(frame.MessageId, mid)
	}
	if shape != 'a' { // 'a': no ack header (the ACK cannot be built)
		f.Header.Add(frame.Ack, mid)
	}
	if shape == 't' { // 't': a content-type and an unknown header
		f.Header.Add(frame.ContentType, "application/octet-stream")
		f.Header.Add("x-garbage", "\x01\x02")
	}
	f.Header.Add(frame.ContentLength, strconv.Itoa(len(body)))
	f.Body = body
	b.write(f)
}

// ---------- one subscription ----------

var (
	c05StompMu   sync.Mutex
	c05StompB    *c05Broker
	c05StompConn *stomp.Conn
	c05StompSeq  int
)

func c05StompSetup() error {
	if c05StompConn != nil {
		return nil
	}
	if _, err := c07Stomp(); err != nil { // silences go-stomp's standard logger as a side effect
		return err
	}
	b, addr, err := c05StartBroker()
	if err != nil {
		return err
	}
	conn, err := stomp.Dial("tcp", addr, stomp.ConnOpt.HeartBeat(0, 0))
	if err != nil {
		return err
	}
	c05StompB, c05StompConn = b, conn
	return nil
}

type stmMsg struct {
	body  []byte
	shape byte // 'n' normal, 'a' no ack header, 'm' no message-id, 't' extra headers
}

type stmRun struct {
	out  string
	viol []string
}

// realSTM subscribes, lets the peer send the messages and then one well-formed message, and reports what
// the callback saw.
func realSTM(msgs []stmMsg) stmRun {
	c05StompMu.Lock()
	defer c05StompMu.Unlock()
	var r stmRun
	if err := c05StompSetup(); err != nil {
		r.out = "err:setup"
		r.viol = append(r.viol, "harness: "+err.Error())
		return r
	}
	c05StompSeq++
	topic := fmt.Sprintf("c05.t%d", c05StompSeq)
	dest := "/topic/frugal." + topic
	var mu sync.Mutex
	var seen [][]byte
	accepted := 0
	cb := func(tr thrift.TTransport) error {
		buf, _ := io.ReadAll(tr)
		n := len(buf)
		mu.Lock()
		defer mu.Unlock()
		seen = append(seen, buf)
		if n > 0 && buf[0] == 0 {
			accepted++
			return nil
		}
		return fmt.Errorf("callback refuses the payload")
	}
	sub := frugal.NewFStompSubscriberTransportFactoryBuilder(c05StompConn).Build().GetTransport()
	var serr error
	if o := guard(5*time.Second, func() { serr = sub.Subscribe(topic, cb) }); o != "" || serr != nil {
		r.out = "err:subscribe" + o
		r.viol = append(r.viol, fmt.Sprintf("harness: Subscribe %s %v", o, serr))
		c05StompConn = nil
		return r
	}
	select {
	case <-c05StompB.subC:
	case <-time.After(3 * time.Second):
		r.viol = append(r.viol, "harness: the SUBSCRIBE frame did not arrive")
	}
	acksBefore := atomic.LoadInt64(&c05StompB.acks)
	var want [][]byte
	wantAcks := 0
	all := append(append([]stmMsg{}, msgs...), stmMsg{body: []byte{0, 0, 0, 1, 0}, shape: 'n'})
	for i, m := range all {
		c05StompB.message(dest, i+1, exact(m.body), m.shape)
		if len(m.body) >= 4 {
			want = append(want, m.body[4:])
			if len(m.body) > 4 && m.body[4] == 0 && m.shape != 'a' {
				wantAcks++
			}
		}
	}
	deadline := time.Now().Add(3 * time.Second)
	for time.Now().Before(deadline) {
		mu.Lock()
		n := len(seen)
		mu.Unlock()
		if n >= len(want) && atomic.LoadInt64(&c05StompB.acks)-acksBefore >= int64(wantAcks) {
			break
		}
		time.Sleep(200 * time.Microsecond)
	}
	time.Sleep(300 * time.Microsecond) // anything that should NOT come gets a moment to show up
	mu.Lock()
	got := append([][]byte{}, seen...)
	acc := accepted
	mu.Unlock()
	last := len(got) > 0 && string(got[len(got)-1]) == "\x00"
	if len(got) != len(want) {
		r.viol = append(r.viol, fmt.Sprintf("the callback ran %d times, %d bodies have at least 4 bytes", len(got), len(want)))
	} else {
		for i := range got {
			if string(got[i]) != string(want[i]) {
				r.viol = append(r.viol, "the callback saw other bytes than the body behind its 4-byte prefix (or out of order)")
				break
			}
		}
	}
	if !last {
		r.viol = append(r.viol, "the well-formed message sent after the sequence was not delivered (message loop dead)")
	}
	if a := atomic.LoadInt64(&c05StompB.acks) - acksBefore; a != int64(wantAcks) {
		r.viol = append(r.viol, fmt.Sprintf("%d ACK frames for %d accepted messages that can be acknowledged", a, wantAcks))
	}
	// Teardown, outside the receiving path: go-stomp v2.1.4's Subscription.Unsubscribe can miss the wake-up of a
	// closed subscription under load (KNOWN_FINDINGS: C07 gostomp-unsubscribe-lost-wakeup, a defect of the
	// dependency). When that happens the case is counted and the suite goes on with a fresh connection.
	if o := guard(5*time.Second, func() { sub.Unsubscribe() }); o != "" {
		Stat("stm:teardown-unsubscribe-" + o + "(go-stomp lost wake-up, see C07 finding)")
		c05StompConn = nil
	}
	r.out = fmt.Sprintf("delivered=%d acked=%d exited=%v", len(got), acc, !last)
	return r
}

// ---------- generator ----------

func genStompMsgs(r *Rng) []stmMsg {
	n := r.Intn(7)
	var msgs []stmMsg
	for i := 0; i < n; i++ {
		var b []byte
		switch r.Intn(6) {
		case 0:
			b = r.Bytes(r.Intn(4)) // shorter than the frame-size prefix (incl. empty)
		case 1:
			b = r.Bytes(4 + r.Intn(30))
		case 2:
			b = append(r.Bytes(4), 0) // accepted by the callback
			b = append(b, r.Bytes(r.Intn(8))...)
		case 3:
			b = r.Bytes(4) // exactly the prefix: an empty payload
		default:
			m := smallHeaders(r)
			m["_opid"] = "0"
			fr := frameOf(marshalSorted(m), smallPayload(r))
			if r.Bool() {
				fr, _ = mutate(r, fr, sizeFieldOffsets(fr))
			}
			b = fr
		}
		msgs = append(msgs, stmMsg{body: b, shape: "nnnnamt"[r.Intn(7)]})
	}
	return msgs
}

func stmArg(msgs []stmMsg) (string, string) {
	if len(msgs) == 0 {
		return ".", "."
	}
	bodies := make([]string, len(msgs))
	shapes := make([]byte, len(msgs))
	for i, m := range msgs {
		bodies[i] = hx(m.body)
		shapes[i] = m.shape
	}
	return strings.Join(bodies, ","), string(shapes)
}

func runC05Stomp(r *Rng, n int) {
	for i := 0; i < n; i++ {
		msgs := genStompMsgs(r)
		run := realSTM(msgs)
		bodies, shapes := stmArg(msgs)
		line := "stm " + bodies + " " + shapes
		Case(line, run.out)
		Stat(fmt.Sprintf("stm:msgs=%d", len(msgs)))
		for _, m := range msgs {
			switch {
			case len(m.body) < 4:
				Stat("stm:body:short")
			case len(m.body) > 4 && m.body[4] == 0:
				Stat("stm:body:accepted")
			default:
				Stat("stm:body:refused-by-callback")
			}
			Stat("stm:shape:" + string(m.shape))
		}
		if i < 3 {
			Sample(map[string]interface{}{"op": "stm", "messages": len(msgs), "shapes": shapes, "real": run.out})
		}
		if len(run.viol) > 0 {
			OracleFail("STOMP subscriber: "+run.viol[0], map[string]interface{}{"op": "stm", "line": line, "got": run.out, "all": run.viol})
		}
		Stat("evaluations")
	}
}

func realSTMLine(args []string) (string, bool) {
	if len(args) != 2 {
		return "bad-op", true
	}
	var msgs []stmMsg
	if args[0] != "." {
		bodies := strings.Split(args[0], ",")
		if len(bodies) != len(args[1]) {
			return "bad-op", true
		}
		for i, b := range bodies {
			msgs = append(msgs, stmMsg{body: unhx(b), shape: args[1][i]})
		}
	}
	r := realSTM(msgs)
	return r.out, len(r.viol) == 0
}

func init() {
	suites["c05stomp"] = runC05Stomp
	lineOps["stm"] = realSTMLine
}
