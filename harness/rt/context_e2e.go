package main

// C09, same property through the real client and processor code: FStandardClient.Call
// (client.go: prepareMessage / processReply) over an in-memory FTransport that hands the frame
// to FBaseProcessor.Process (processor.go) with a registered FProcessorFunction whose handler
// records the FContext it is given and sets response headers; the reply is written by
// FBaseProcessorFunction.SendReply.

import (
	"bytes"
	"context"
	"fmt"
	"strconv"
	"sync"
	"time"

	frugal "github.com/Workiva/frugal/lib/go"
	"github.com/apache/thrift/lib/go/thrift"
)

// c9Empty is a Thrift struct without fields (arguments and result of the stub method).
type c9Empty struct{}

func (c9Empty) Write(ctx context.Context, p thrift.TProtocol) error {
	if err := p.WriteStructBegin(ctx, "e"); err != nil {
		return err
	}
	if err := p.WriteFieldStop(ctx); err != nil {
		return err
	}
	return p.WriteStructEnd(ctx)
}

func (c9Empty) Read(ctx context.Context, p thrift.TProtocol) error {
	if _, err := p.ReadStructBegin(ctx); err != nil {
		return err
	}
	for {
		_, t, _, err := p.ReadFieldBegin(ctx)
		if err != nil {
			return err
		}
		if t == thrift.STOP {
			break
		}
		if err := p.Skip(ctx, t); err != nil {
			return err
		}
		if err := p.ReadFieldEnd(ctx); err != nil {
			return err
		}
	}
	return p.ReadStructEnd(ctx)
}

func (c9Empty) String() string { return "c9Empty" }

type c9Fn struct {
	base    *frugal.FBaseProcessorFunction
	handler func(frugal.FContext)
	name    string // method name ("m" when empty)
}

func (f *c9Fn) Process(fctx frugal.FContext, in, out *frugal.FProtocol) error {
	ctx, cancel := frugal.ToContext(fctx)
	defer cancel()
	if err := (c9Empty{}).Read(ctx, in); err != nil {
		return err
	}
	if err := in.ReadMessageEnd(ctx); err != nil {
		return err
	}
	f.handler(fctx)
	name := f.name
	if name == "" {
		name = "m"
	}
	return f.base.SendReply(fctx, out, name, c9Empty{})
}
func (f *c9Fn) AddMiddleware(frugal.ServiceMiddleware) {}

// c9Transport: request frame -> processor -> reply frame, all in memory.
type c9Transport struct {
	proc          frugal.FProcessor
	fac           *frugal.FProtocolFactory
	lastReq, last []byte
	procErr       error
}

func (t *c9Transport) SetMonitor(frugal.FTransportMonitor) {}
func (t *c9Transport) Closed() <-chan error                { return make(chan error) }
func (t *c9Transport) Open() error                         { return nil }
func (t *c9Transport) IsOpen() bool                        { return true }
func (t *c9Transport) Close() error                        { return nil }
func (t *c9Transport) GetRequestSizeLimit() uint           { return 0 }
func (t *c9Transport) Oneway(ctx frugal.FContext, payload []byte) error {
	_, err := t.Request(ctx, payload)
	return err
}
func (t *c9Transport) Request(ctx frugal.FContext, payload []byte) (thrift.TTransport, error) {
	t.lastReq = append([]byte{}, payload...)
	in := thrift.NewTMemoryBuffer()
	in.Write(payload[4:])
	out := frugal.NewTMemoryOutputBuffer(0)
	t.procErr = t.proc.Process(t.fac.GetProtocol(in), t.fac.GetProtocol(out))
	t.last = append([]byte{}, out.Bytes()...)
	res := thrift.NewTMemoryBuffer()
	res.Write(t.last[4:])
	return res, nil
}

func c9E2E(r *Rng) {
	fac := c9Factories[r.Intn(len(c9Factories))]
	Stat("e2e-protocol:" + fac.name)
	U := c9UserHeaders(r)
	cidArg := c9Cid(r)
	d, _ := c9Timeout(r)
	if d < time.Minute {
		// Call and Process run under context.WithTimeout(Timeout()): keep the deadline far away so that a
		// loaded machine cannot make the call itself time out (small timeouts go through the FProtocol path)
		d = time.Minute + time.Duration(r.Intn(100000))*time.Millisecond
	}
	R := genHeaders(r, true)
	delete(R, "_opid")
	delete(R, "_cid")
	StatN("e2e-user-headers", len(U))
	StatN("e2e-response-headers", len(R))

	var seen frugal.FContext
	var seenReq, seenResp map[string]string
	var seenCid string
	var seenTimeout time.Duration
	var base uint64
	proc := frugal.NewFBaseProcessor()
	proc.AddToProcessorMap("m", &c9Fn{base: frugal.NewFBaseProcessorFunction(&sync.Mutex{}, nil), handler: func(fctx frugal.FContext) {
		seen = fctx
		seenReq, seenResp = fctx.RequestHeaders(), fctx.ResponseHeaders()
		seenCid, seenTimeout = fctx.CorrelationID(), fctx.Timeout()
		for _, k := range sortedKeys(R) {
			fctx.AddResponseHeader(k, R[k])
		}
	}})
	tr := &c9Transport{proc: proc, fac: fac.f}
	client := frugal.NewFStandardClient(frugal.NewFServiceProvider(tr, fac.f))

	ctx := frugal.NewFContext(cidArg)
	for _, k := range sortedKeys(U) {
		ctx.AddRequestHeader(k, U[k])
	}
	ctx.SetTimeout(d)
	H := ctx.RequestHeaders()
	clientOp, cid := H["_opid"], ctx.CorrelationID()
	want := wireTimeout(d)
	c9Seen[clientOp] = true
	before := ctx.ResponseHeaders()

	var err error
	o := guard(30*time.Second, func() {
		base = frugal.VerifCtx09OpIDCounter()
		err = client.Call(ctx, "m", c9Empty{}, &c9Empty{})
	})
	line := "c9srv - 0"
	if len(tr.lastReq) >= 4 {
		line = fmt.Sprintf("c9srv %s %d", hx(tr.lastReq[4:]), base)
	}
	if o != "" || err != nil || tr.procErr != nil || seen == nil {
		c9Fail("call through FStandardClient/FBaseProcessor failed: "+o+" "+errClass(err)+" "+errClass(tr.procErr), line, nil)
		return
	}
	why := ""
	a, b := copyMap(seenReq), copyMap(H)
	serverOp := a["_opid"]
	delete(a, "_opid")
	delete(b, "_opid")
	if !mapsEqual(a, b) {
		why = "handler's request headers differ from the caller's (ignoring _opid)"
	}
	if seenCid != cid || (cidArg != "" && cid != cidArg) {
		why = "handler sees a different correlation id"
	}
	if seenTimeout != want {
		why = "handler sees a different timeout"
	}
	if n, e := strconv.ParseUint(serverOp, 10, 64); e != nil || n != base+1 || serverOp == clientOp || c9Seen[serverOp] {
		why = "handler context's op id is not fresh"
	}
	c9Seen[serverOp] = true
	wantP := map[string]string{"_opid": clientOp, "_cid": cid}
	if !mapsEqual(seenResp, wantP) {
		why = "handler context's response headers are not {_opid: request op id, _cid: cid}"
	}
	after := ctx.ResponseHeaders()
	for k, v := range R {
		if w, has := after[k]; !has || w != v {
			why = "a response header set by the handler is not visible on the caller's context"
		}
	}
	if after["_cid"] != cid {
		why = "echoed correlation id not visible on the caller's context"
	}
	if _, has := after["_opid"]; has {
		why = "caller's context received an _opid response header"
	}
	if !mapsEqual(H, ctx.RequestHeaders()) {
		why = "caller's request headers changed during the call"
	}
	// the reply frame carries the request's op id (what the client registry routes on)
	if l, _, ok := specDecode(tr.last[4:]); !ok {
		why = "reply frame does not start with a v0 header"
	} else if m, _ := listToMap(l); m["_opid"] != clientOp || m["_cid"] != cid {
		why = "reply frame does not carry the request's op id and correlation id"
	}
	if why != "" {
		c9Fail(why, line, map[string]interface{}{"caller": pairs(H), "handler_saw": pairs(seenReq), "handler_set": pairs(R), "caller_after": pairs(after)})
	}
	// tie to the model: the same frames re-read by the real header readers
	out, _, _, base2, _ := c9Srv(fac.f, tr.lastReq[4:], nil)
	Case(fmt.Sprintf("c9srv %s %d", hx(tr.lastReq[4:]), base2), out)
	c9Seen[strconv.FormatUint(base2+1, 10)] = true
	again := frugal.NewFContext("x")
	for k, v := range before {
		again.AddResponseHeader(k, v)
	}
	out, _, _ = c9Rsp(fac.f, again, tr.last[4:])
	Case("c9rsp "+hx(tr.last[4:])+" "+pairs(before), out)
	if !mapsEqual(again.ResponseHeaders(), after) || bytes.Equal(tr.last, nil) {
		c9Fail("re-reading the reply frame gives other response headers than the call left on the context", "c9rsp "+hx(tr.last[4:])+" "+pairs(before), nil)
	}
}
