package main

import (
	"context"
	"fmt"
	"io"
	"strconv"
	"sync"
	"time"

	frugal "github.com/Workiva/frugal/lib/go"
	"github.com/apache/thrift/lib/go/thrift"
)

// ---------- real fAdapterTransport.Request / Oneway against a scripted peer (C13, C01, C06 end to end) ----------

// scriptedPeer is the underlying thrift.TTransport of an adapter transport: what the
// client writes is recorded; what the client reads is what the controller injects.
type scriptedPeer struct {
	mu         sync.Mutex
	inbound    chan []byte // frames (with 4-byte size) injected by the controller
	cur        []byte
	closed     chan struct{}
	writeStall time.Duration
	flushStall time.Duration
	writes     int
}

func newScriptedPeer() *scriptedPeer {
	return &scriptedPeer{inbound: make(chan []byte, 256), closed: make(chan struct{})}
}

func (p *scriptedPeer) Read(b []byte) (int, error) {
	if len(b) == 0 {
		return 0, nil
	}
	for len(p.cur) == 0 {
		select {
		case fr := <-p.inbound:
			p.cur = fr
		case <-p.closed:
			return 0, thrift.NewTTransportException(thrift.END_OF_FILE, "closed")
		}
	}
	n := copy(b, p.cur)
	p.cur = p.cur[n:]
	return n, nil
}
func (p *scriptedPeer) Write(b []byte) (int, error) {
	p.mu.Lock()
	d := p.writeStall
	p.writes++
	p.mu.Unlock()
	if d > 0 {
		time.Sleep(d)
	}
	return len(b), nil
}
func (p *scriptedPeer) Flush(ctx context.Context) error {
	p.mu.Lock()
	d := p.flushStall
	p.mu.Unlock()
	if d > 0 {
		time.Sleep(d)
	}
	return nil
}
func (p *scriptedPeer) Open() error  { return nil }
func (p *scriptedPeer) IsOpen() bool { return true }
func (p *scriptedPeer) Close() error {
	select {
	case <-p.closed:
	default:
		close(p.closed)
	}
	return nil
}
func (p *scriptedPeer) RemainingBytes() uint64 { return ^uint64(0) }

var _ thrift.TTransport = (*scriptedPeer)(nil)
var _ io.Reader = (*scriptedPeer)(nil)

func (p *scriptedPeer) inject(opid uint64, tag int) {
	body := respFrame(opid, tag)
	p.inbound <- append(be32(uint32(len(body))), body...)
}

const allowance = 150 * time.Millisecond

var reqKinds = []string{"early", "silent", "late", "dupearly", "foreignonly", "stallwrite", "stallflush", "otherfirst"}

// runRequestCase runs one real Request of the given kind (with `noise` other callers
// in flight on the same transport) and returns the canonical outcome + oracle verdict.
func runRequestCase(kind string, timeoutMs int, noise int) (string, bool, string) {
	peer := newScriptedPeer()
	tr := frugal.NewAdapterTransport(peer)
	if err := tr.Open(); err != nil {
		return "open-failed", false, "Open failed: " + err.Error()
	}
	defer tr.Close()
	timeout := time.Duration(timeoutMs) * time.Millisecond
	switch kind {
	case "stallwrite":
		peer.writeStall = timeout * 3
	case "stallflush":
		peer.flushStall = timeout * 3
	}
	var wg sync.WaitGroup
	// noise callers: silent peers for them, longer timeouts; they must not influence the caller under test
	noiseIDs := make([]uint64, noise)
	noiseBad := make([]string, noise)
	for k := 0; k < noise; k++ {
		ctx := frugal.NewFContext("")
		ctx.SetTimeout(timeout + 60*time.Millisecond)
		noiseIDs[k], _ = frugal.VerifGetOpID(ctx)
		wg.Add(1)
		go func(k int) {
			defer wg.Done()
			t, err := tr.Request(ctx, []byte{0, 0, 0, 1, 0})
			if err == nil && t != nil {
				// a caller may look at its response a little later: it must still be ITS response
				time.Sleep(8 * time.Millisecond)
				buf := make([]byte, 4096)
				n, _ := t.Read(buf)
				if id, _, ok := frameIdent(buf[:n]); !ok {
					noiseBad[k] = "a concurrent request completed with a frame that does not parse"
				} else if id != noiseIDs[k] {
					noiseBad[k] = fmt.Sprintf("a concurrent request with op id %d holds the response of op id %d", noiseIDs[k], id)
				}
			}
		}(k)
	}
	ctx := frugal.NewFContext("")
	ctx.SetTimeout(timeout)
	opid, _ := frugal.VerifGetOpID(ctx)
	start := time.Now()
	type res struct {
		tr  thrift.TTransport
		err error
	}
	done := make(chan res, 1)
	go func() {
		t, err := tr.Request(ctx, []byte{0, 0, 0, 1, 0})
		done <- res{t, err}
	}()
	time.Sleep(3 * time.Millisecond) // let the request register
	switch kind {
	case "early":
		peer.inject(opid, 7)
	case "dupearly":
		peer.inject(opid, 7)
		peer.inject(opid, 8)
		peer.inject(opid, 9)
	case "otherfirst": // frames for other in-flight and never-issued op ids, duplicates of them, then ours
		for _, id := range noiseIDs {
			peer.inject(id, 1)
			peer.inject(id, 2)
			peer.inject(id, 3)
		}
		peer.inject(1<<62+5, 4)
		peer.inject(opid, 7)
	case "foreignonly":
		peer.inject(1<<62+1, 1)
		peer.inject(1<<62+2, 2)
	case "late":
		go func() {
			time.Sleep(timeout + 40*time.Millisecond)
			peer.inject(opid, 7)
		}()
	}
	var r res
	select {
	case r = <-done:
	case <-time.After(timeout*3 + 2*time.Second):
		return "outcome=hung", false, "Request did not return within 3x its timeout"
	}
	elapsed := time.Since(start)
	outcome := ""
	why := ""
	if r.err == nil && r.tr != nil {
		buf := make([]byte, 4096)
		n, _ := r.tr.Read(buf)
		id, tag, ok := frameIdent(buf[:n])
		if !ok {
			outcome = "ok:garbled"
			why = "Request returned a frame that does not parse"
		} else if id != opid {
			outcome = "ok:foreign"
			why = fmt.Sprintf("Request with op id %d completed with the response of op id %d", opid, id)
		} else {
			outcome = "ok:" + strconv.Itoa(tag)
		}
	} else if te, ok := r.err.(thrift.TTransportException); ok && te.TypeId() == frugal.TRANSPORT_EXCEPTION_TIMED_OUT {
		outcome = "timedOut"
	} else {
		outcome = "err:" + errClass(r.err)
	}
	if elapsed > timeout+allowance {
		why = fmt.Sprintf("Request returned after %v with timeout %v (allowance %v)", elapsed.Round(time.Millisecond), timeout, allowance)
	}
	// the caller under test has returned: its registration must be gone once the noise callers return too
	wg.Wait()
	for _, b := range noiseBad {
		if b != "" && why == "" {
			why = b
		}
	}
	time.Sleep(2 * time.Millisecond)
	regLeft := frugal.VerifAdapterRegistrySize(tr)
	if regLeft != 0 && why == "" {
		why = fmt.Sprintf("%d registrations left behind after every request returned", regLeft)
	}
	// the inbound path must still deliver a fresh response (no head-of-line blocking)
	fresh := frugal.NewFContext("")
	fresh.SetTimeout(400 * time.Millisecond)
	fid, _ := frugal.VerifGetOpID(fresh)
	fdone := make(chan error, 1)
	go func() {
		_, err := tr.Request(fresh, []byte{0, 0, 0, 1, 0})
		fdone <- err
	}()
	time.Sleep(3 * time.Millisecond)
	peer.inject(fid, 1)
	freshOK := "delivered"
	select {
	case err := <-fdone:
		if err != nil {
			freshOK = "lost"
		}
	case <-time.After(2 * time.Second):
		freshOK = "lost"
	}
	if freshOK != "delivered" && why == "" && kind != "stallwrite" && kind != "stallflush" {
		why = "a fresh request's response was not delivered after the scenario (inbound path stalled)"
	}
	if kind == "stallwrite" || kind == "stallflush" {
		freshOK = "n/a" // the scripted peer keeps stalling writes; delivery of the fresh one is not the point here
	}
	return fmt.Sprintf("outcome=%s reg=%d fresh=%s", outcome, regLeft, freshOK), why == "", why
}

// retryTiming re-runs a real-time scenario when its only complaint is about elapsed time or a
// timing-dependent outcome: a genuine defect (a call stuck behind a blocked write, a lost response)
// reproduces every time, a loaded machine does not. The failure is reported only if it occurs 3 times
// out of 3.
func retryTiming(f func() (string, bool, string)) (string, bool, string) {
	obs, fine, why := f()
	for i := 0; i < 2 && !fine; i++ {
		Stat("timing-retries")
		time.Sleep(20 * time.Millisecond)
		obs2, fine2, why2 := f()
		if fine2 {
			return obs2, true, ""
		}
		obs, why = obs2, why2
	}
	return obs, fine, why
}

func runRequestSuite(r *Rng, n int) {
	var wg sync.WaitGroup
	sem := make(chan struct{}, 6)
	for i := 0; i < n; i++ {
		kind := reqKinds[r.Intn(len(reqKinds))]
		to := 30 + r.Intn(120)
		noise := r.Intn(4)
		wg.Add(1)
		sem <- struct{}{}
		go func() {
			defer wg.Done()
			defer func() { <-sem }()
			obs, fine, why := retryTiming(func() (string, bool, string) { return runRequestCase(kind, to, noise) })
			line := fmt.Sprintf("rq %s %d %d", kind, to, noise)
			Case(line, obs)
			Stat("kind:" + kind)
			Stat("outcome:" + obs)
			Sample(map[string]interface{}{"line": line, "real": obs})
			if !fine {
				OracleFail(why, map[string]interface{}{"op": "rq", "line": line, "got": obs})
			}
			Stat("evaluations")
		}()
	}
	wg.Wait()
}

func init() {
	suites["c13req"] = runRequestSuite
	lineOps["rq"] = func(args []string) (string, bool) {
		to, _ := strconv.Atoi(args[1])
		noise, _ := strconv.Atoi(args[2])
		obs, fine, _ := runRequestCase(args[0], to, noise)
		return obs, fine
	}
}
