package main

import (
	"context"
	"fmt"
	"io"
	"strconv"
	"sync"
	"time"

	frugal "github.com/Workiva/frugal/lib/go"
	"github.com/apache/thrift/lib/go/thrift"
)

// ---------- real fAdapterTransport.Request / Oneway against a scripted peer (C13, C01, C06 end to end) ----------

// scriptedPeer is the underlying thrift.TTransport of an adapter transport: what the
// client writes is recorded; what the client reads is what the controller injects.
type scriptedPeer struct {
	mu         sync.Mutex
	inbound    chan []byte // frames (with 4-byte size) injected by the controller
	cur        []byte
	closed     chan struct{}
	writeStall time.Duration
	flushStall time.Duration
	writes     int
}

func newScriptedPeer() *scriptedPeer {
	return &scriptedPeer{inbound: make(chan []byte, 256), closed: make(chan struct{})}
}

func (p *scriptedPeer) Read(b []byte) (int, error) {
	if len(b) == 0 {
		return 0, nil
	}
	for len(p.cur) == 0 {
		select {
		case fr := <-p.inbound:
			p.cur = fr
		case <-p.closed:
			return 0, thrift.NewTTransportException(thrift.END_OF_FILE, "closed")
		}
	}
	n := copy(b, p.cur)
	p.cur = p.cur[n:]
	return n, nil
}
func (p *scriptedPeer) Write(b []byte) (int, error) {
	p.mu.Lock()
	d := p.writeStall
	p.writes++
	p.mu.Unlock()
	if d > 0 {
		time.Sleep(d)
	}
	return len(b), nil
}
func (p *scriptedPeer) Flush(ctx context.Context) error {
	p.mu.Lock()
	d := p.flushStall
	p.mu.Unlock()
	if d > 0 {
		time.Sleep(d)
	}
	return nil
}
func (p *scriptedPeer) Open() error  { return nil }
func (p *scriptedPeer) IsOpen() bool { return true }
func (p *scriptedPeer) Close() error {
	select {
	case <-p.closed:
	default:
		close(p.closed)
	}
	return nil
}
func (p *scriptedPeer) RemainingBytes() uint64 { return ^uint64(0) }

var _ thrift.TTransport = (*scriptedPeer)(nil)
var _ io.Reader = (*scriptedPeer)(nil)

func (p *scriptedPeer) inject(opid uint64, tag int) {
	body := respFrame(opid, tag)
	p.inbound <- append(be32(uint32(len(body))), body...)
}

const allowance = 150 * time.Millisecond

var reqKinds = []string{"early", "silent", "late", "dupearly", "foreignonly", "stallwrite", "stallflush", "otherfirst"}

// runRequestCase runs one real Request of the given kind (with `noise` other callers
// in flight on the same transport) and returns the canonical outcome + oracle verdict.
func runRequestCase(kind string, timeoutMs int, noise int) (string, bool, string) {
	peer := newScriptedPeer()
	tr := frugal.NewAdapterTransport(peer)
	if err := tr.Open(); err != nil {
		return "open-failed", false, "Open failed: " + err.Error()
	}
	defer tr.Close()
	timeout := time.Duration(timeoutMs) * time.Millisecond
	switch kind {
	case "stallwrite":
		peer.writeStall = timeout * 3
	case "stallflush":
		peer.flushStall = timeout * 3
	}
	var wg sync.WaitGroup
	// noise callers: silent peers for them, longer timeouts; they must not influence the caller under test
	noiseIDs := make([]uint64, noise)
	noiseBad := make([]string, noise)
	for k := 0; k < noise; k++ {
		ctx := frugal.NewFContext("")
		ctx.SetTimeout(timeout + 60*time.Millisecond)
		noiseIDs[k], _ = frugal.VerifGetOpID(ctx)
		wg.Add(1)
		go func(k int) {
			defer wg.Done()
			t, err := tr.Request(ctx, []byte{0, 0, 0, 1, 0})
			if err == nil && t != nil {
				// a caller may look at its response a little later: it must still be ITS response
				time.Sleep(8 * time.Millisecond)
				buf := make([]byte, 4096)
				n, _ := t.Read(buf)
				if id, _, ok := frameIdent(buf[:n]); !ok {
					noiseBad[k] = "a concurrent request completed with a frame that does not parse"
				} else if id != noiseIDs[k] {
					noiseBad[k] = fmt.Sprintf("a concurrent request with op id %d holds the response of op id %d", noiseIDs[k], id)
				}
			}
		}(k)
	}
	ctx := frugal.NewFContext("")
	ctx.SetTimeout(timeout)
	opid, _ := frugal.VerifGetOpID(ctx)
	start := time.Now()
	type res struct {
		tr  thrift.TTransport
		err error
	}
	done := make(chan res, 1)
	go func() {
		t, err := tr.Request(ctx, []byte{0, 0, 0, 1, 0})
		done <- res{t, err}
	}()
	time.Sleep(3 * time.Millisecond) // let the request register
	switch kind {
	case "early":
		peer.inject(opid, 7)
	case "dupearly":
		peer.inject(opid, 7)
		peer.inject(opid, 8)
		peer.inject(opid, 9)
	case "otherfirst": // frames for other in-flight and never-issued op ids, duplicates of them, then ours
		for _, id := range noiseIDs {
			peer.inject(id, 1)
			peer.inject(id, 2)
			peer.inject(id, 3)
		}
		peer.inject(1<<62+5, 4)
		peer.inject(opid, 7)
	case "foreignonly":
		peer.inject(1<<62+1, 1)
		peer.inject(1<<62+2, 2)
	case "late":
		go func() {
			time.Sleep(timeout + 40*time.Millisecond)
			peer.inject(opid, 7)
		}()
	}
	var r res
	select {
	case r = <-done:
	case <-time.After(timeout*3 + 2*time.Second):
		return "outcome=hung", false, "Request did not return within 3x its timeout"
	}
	elapsed := time.Since(start)
	outcome := ""
	why := ""
	if r.err == nil && r.tr != nil {
		buf := make([]byte, 4096)
		n, _ := r.tr.Read(buf)
		id, tag, ok := frameIdent(buf[:n])
		if !ok {
			outcome = "ok:garbled"
			why = "Request returned a frame that does not parse"
		} else if id != opid {
			outcome = "ok:foreign"
			why = fmt.Sprintf("Request with op id %d completed with the response of op id %d", opid, id)
		} else {
			outcome = "ok:" + strconv.Itoa(tag)
		}
	} else if te, ok := r.err.(thrift.TTransportException); ok && te.TypeId() == frugal.TRANSPORT_EXCEPTION_TIMED_OUT {
		outcome = "timedOut"
	} else {
		outcome = "err:" + errClass(r.err)
	}
	if elapsed > timeout+allowance {
		why = fmt.Sprintf("Request returned after %v with timeout %v (allowance %v)", elapsed.Round(time.Millisecond), timeout, allowance)
	}
	// the caller under test has returned: its registration must be gone once the noise callers return too
	wg.Wait()
	for _, b := range noiseBad {
		if b != "" && why == "" {
			why = b
		}
	}
	time.Sleep(2 * time.Millisecond)
	regLeft := frugal.VerifAdapterRegistrySize(tr)
	if regLeft != 0 && why == "" {
		why = fmt.Sprintf("%d registrations left behind after every request returned", regLeft)
	}
	// the inbound path must still deliver a fresh response (no head-of-line blocking)
	fresh := frugal.NewFContext("")
	fresh.SetTimeout(400 * time.Millisecond)
	fid, _ := frugal.VerifGetOpID(fresh)
	fdone := make(chan error, 1)
	go func() {
		_, err := tr.Request(fresh, []byte{0, 0, 0, 1, 0})
		fdone <- err
	}()
	time.Sleep(3 * time.Millisecond)
	peer.inject(fid, 1)
	freshOK := "delivered"
	select {
	case err := <-fdone:
		if err != nil {
			freshOK = "lost"
		}
	case <-time.After(2 * time.Second):
		freshOK = "lost"
	}
	if freshOK != "delivered" && why == "" && kind != "stallwrite" && kind != "stallflush" {
		why = "a fresh request's response was not delivered after the scenario (inbound path stalled)"
	}
	if kind == "stallwrite" || kind == "stallflush" {
		freshOK = "n/a" // the scripted peer keeps stalling writes; delivery of the fresh one is not the point here
	}
	return fmt.Sprintf("outcome=%s reg=%d fresh=%s", outcome, regLeft, freshOK), why == "", why
}

// retryTiming re-runs a real-time scenario when its only complaint is about elapsed time or a
// timing-dependent outcome: a genuine defect (a call stuck behind a blocked write, a lost response)
// reproduces every time, a loaded machine does not. The failure is reported only if it occurs 3 times
// out of 3.
func retryTiming(f func() (string, bool, string)) (string, bool, string) {
	obs, fine, why := f()
	for i := 0; i < 2 && !fine; i++ {
		Stat("timing-retries")
		time.Sleep(20 * time.Millisecond)
		obs2, fine2, why2 := f()
		if fine2 {
			return obs2, true, ""
		}
		obs, why = obs2, why2
	}
	return obs, fine, why
}

func runRequestSuite(r *Rng, n int) {
	var wg sync.WaitGroup
	sem := make(chan struct{}, 6)
	for i := 0; i < n; i++ {
		kind := reqKinds[r.Intn(len(reqKinds))]
		to := 30 + r.Intn(120)
		noise := r.Intn(4)
		wg.Add(1)
		sem <- struct{}{}
		go func() {
			defer wg.Done()
			defer func() { <-sem }()
			obs, fine, why := retryTiming(func() (string, bool, string) { return runRequestCase(kind, to, noise) })
			line := fmt.Sprintf("rq %s %d %d", kind, to, noise)
			Case(line, obs)
			Stat("kind:" + kind)
			Stat("outcome:" + obs)
			Sample(map[string]interface{}{"line": line, "real": obs})
			if !fine {
				OracleFail(why, map[string]interface{}{"op": "rq", "line": line, "got": obs})
			}
			Stat("evaluations")
		}()
	}
	wg.Wait()
}

func init() {
	suites["c13req"] = runRequestSuite
	lineOps["rq"] = func(args []string) (string, bool) {
		to, _ := strconv.Atoi(args[1])
		noise, _ := strconv.Atoi(args[2])
		obs, fine, _ := runRequestCase(args[0], to, noise)
		return obs, fine
	}
}

// ---------- calls issued while the transport's own Open / Close is stalled in the network (C13) ----------

// stallingPeer: a scripted peer whose Open (or Close) blocks until released.
type stallingPeer struct {
	*scriptedPeer
	openGate, closeGate chan struct{} // nil = do not stall
	inOpen, inClose     chan struct{}
}

func (p *stallingPeer) Open() error {
	if p.openGate != nil {
		p.inOpen <- struct{}{}
		<-p.openGate
	}
	return nil
}
func (p *stallingPeer) Close() error {
	if p.closeGate != nil {
		p.inClose <- struct{}{}
		<-p.closeGate
	}
	return p.scriptedPeer.Close()
}

// runLifecycleStallCase: `phase` = openstall (first Open stalled), closestall (Close stalled),
// reopenstall (Close done, second Open stalled). While it is stalled a Request (or Oneway) with the given
// timeout is issued; the peer accepts writes and never answers.
func runLifecycleStallCase(phase string, timeoutMs int, oneway bool) (string, bool, string) {
	sp := &stallingPeer{scriptedPeer: newScriptedPeer(), inOpen: make(chan struct{}, 1), inClose: make(chan struct{}, 1)}
	tr := frugal.NewAdapterTransport(sp)
	timeout := time.Duration(timeoutMs) * time.Millisecond
	release := func() {}
	switch phase {
	case "openstall":
		gate := make(chan struct{})
		sp.openGate = gate
		go tr.Open()
		<-sp.inOpen
		release = func() { close(gate) }
	case "closestall":
		if err := tr.Open(); err != nil {
			return "open-failed", false, err.Error()
		}
		gate := make(chan struct{})
		sp.closeGate = gate
		go tr.Close()
		<-sp.inClose
		release = func() { close(gate) }
	case "reopenstall":
		if err := tr.Open(); err != nil {
			return "open-failed", false, err.Error()
		}
		tr.Close()
		sp.scriptedPeer = newScriptedPeer()
		gate := make(chan struct{})
		sp.openGate = gate
		go tr.Open()
		<-sp.inOpen
		release = func() { close(gate) }
	default:
		return "bad-op", true, ""
	}
	defer func() { release(); time.Sleep(time.Millisecond); tr.Close() }()
	ctx := frugal.NewFContext("")
	ctx.SetTimeout(timeout)
	start := time.Now()
	done := make(chan error, 1)
	go func() {
		if oneway {
			done <- tr.Oneway(ctx, []byte{0, 0, 0, 1, 0})
		} else {
			_, err := tr.Request(ctx, []byte{0, 0, 0, 1, 0})
			done <- err
		}
	}()
	var err error
	select {
	case err = <-done:
	case <-time.After(timeout*3 + 2*time.Second):
		return "outcome=hung", false, fmt.Sprintf("a call with FContext timeout %v issued while the transport's %s was stalled in the network had not returned after 3x its timeout + 2 s", timeout, phase[:len(phase)-5])
	}
	elapsed := time.Since(start)
	outcome := "ok"
	if te, ok := err.(thrift.TTransportException); ok && te.TypeId() == frugal.TRANSPORT_EXCEPTION_TIMED_OUT {
		outcome = "timedOut"
	} else if err != nil {
		outcome = "err:" + errClass(err)
	}
	why := ""
	if elapsed > timeout+allowance {
		why = fmt.Sprintf("call returned after %v with timeout %v (allowance %v) while %s", elapsed.Round(time.Millisecond), timeout, allowance, phase)
	}
	return "outcome=" + outcome, why == "", why
}

func init() {
	suites["c13life"] = func(r *Rng, n int) {
		for i := 0; i < n; i++ {
			phase := []string{"openstall", "closestall", "reopenstall"}[r.Intn(3)]
			to := 20 + r.Intn(120)
			ow := r.Intn(2)
			obs, fine, why := retryTiming(func() (string, bool, string) { return runLifecycleStallCase(phase, to, ow == 1) })
			line := fmt.Sprintf("rql %s %d %d", phase, to, ow)
			Case(line, obs)
			Stat("phase:" + phase)
			if !fine {
				OracleFail(why, map[string]interface{}{"op": "rql", "line": line, "got": obs})
			}
			Stat("evaluations")
		}
	}
	lineOps["rql"] = func(a []string) (string, bool) {
		if len(a) != 3 {
			return "bad-op", true
		}
		to, _ := strconv.Atoi(a[1])
		obs, fine, _ := runLifecycleStallCase(a[0], to, a[2] == "1")
		return obs, fine
	}
}

// ---------- a connection that ends INSIDE a frame, then the same transport object reopened (C05, C06) ----------

// runReopenCase: connection 1 delivers the first `cut` bytes of a well-formed response frame (0 = nothing,
// 1..3 = inside the size prefix, >= 4 = prefix consumed, body incomplete) and hangs up; the transport closes
// itself; the SAME transport object is opened again on a fresh connection; a request on connection 2 gets its
// response (possibly preceded by `pre` other complete frames). Whatever was left over from connection 1 must
// not be taken for the start of connection 2.
func runReopenCase(cut, pre, timeoutMs int) (string, bool, string) {
	sp := &stallingPeer{scriptedPeer: newScriptedPeer(), inOpen: make(chan struct{}, 1), inClose: make(chan struct{}, 1)}
	tr := frugal.NewAdapterTransport(sp)
	if err := tr.Open(); err != nil {
		return "open-failed", false, err.Error()
	}
	closed := tr.Closed()
	body := respFrame(1<<60+9, 3)
	fr := append(be32(uint32(len(body))), body...)
	if cut > len(fr)-1 {
		cut = len(fr) - 1
	}
	if cut > 0 {
		sp.scriptedPeer.inbound <- fr[:cut]
		time.Sleep(2 * time.Millisecond)
	}
	sp.scriptedPeer.Close() // the peer hangs up: EOF for the read loop
	select {
	case <-closed:
	case <-time.After(2 * time.Second):
		tr.Close()
		return "outcome=notClosed", false, "the transport did not close itself after the peer hung up"
	}
	sp.scriptedPeer = newScriptedPeer() // connection 2
	if err := tr.Open(); err != nil {
		return "outcome=reopenFailed:" + errClass(err), false, "reopen of the same transport failed: " + err.Error()
	}
	defer tr.Close()
	timeout := time.Duration(timeoutMs) * time.Millisecond
	ctx := frugal.NewFContext("")
	ctx.SetTimeout(timeout)
	opid, _ := frugal.VerifGetOpID(ctx)
	type res struct {
		tr  thrift.TTransport
		err error
	}
	done := make(chan res, 1)
	go func() {
		t, err := tr.Request(ctx, []byte{0, 0, 0, 1, 0})
		done <- res{t, err}
	}()
	time.Sleep(3 * time.Millisecond)
	for i := 0; i < pre; i++ {
		sp.scriptedPeer.inject(1<<61+uint64(i), 1)
	}
	sp.scriptedPeer.inject(opid, 7)
	var r res
	select {
	case r = <-done:
	case <-time.After(timeout*3 + 2*time.Second):
		return "outcome=hung", false, "Request on the reopened transport did not return"
	}
	outcome := ""
	if r.err == nil && r.tr != nil {
		buf := make([]byte, 4096)
		n, _ := r.tr.Read(buf)
		if id, tag, ok := frameIdent(buf[:n]); ok && id == opid {
			outcome = "ok:" + strconv.Itoa(tag)
		} else {
			outcome = "ok:foreign"
		}
	} else if te, ok := r.err.(thrift.TTransportException); ok && te.TypeId() == frugal.TRANSPORT_EXCEPTION_TIMED_OUT {
		outcome = "timedOut"
	} else {
		outcome = "err:" + errClass(r.err)
	}
	why := ""
	if outcome != "ok:7" {
		why = fmt.Sprintf("after connection 1 ended %d bytes into a frame and the SAME transport was reopened, the well-formed response on connection 2 was not delivered (%s): what was left over from the old connection was taken for the start of the new one", cut, outcome)
	}
	return "outcome=" + outcome, why == "", why
}

func init() {
	suites["c06reopen"] = func(r *Rng, n int) {
		for i := 0; i < n; i++ {
			cut := r.Pick(0, 1, 2, 3, 4, 5, 6, 9, 13, 20, 1000)
			pre := r.Intn(3)
			to := 60 + r.Intn(100)
			obs, fine, why := retryTiming(func() (string, bool, string) { return runReopenCase(cut, pre, to) })
			line := fmt.Sprintf("rqo %d %d %d", cut, pre, to)
			Case(line, obs)
			Stat(fmt.Sprintf("cut=%d", cut))
			if !fine {
				OracleFail(why, map[string]interface{}{"op": "rqo", "line": line, "got": obs})
			}
			Stat("evaluations")
		}
	}
	lineOps["rqo"] = func(a []string) (string, bool) {
		if len(a) != 3 {
			return "bad-op", true
		}
		cut, _ := strconv.Atoi(a[0])
		pre, _ := strconv.Atoi(a[1])
		to, _ := strconv.Atoi(a[2])
		obs, fine, _ := runReopenCase(cut, pre, to)
		return obs, fine
	}
}
