package main

// C09 — the request context travels with the call and back.
//
// Real path per case: NewFContext(cid) + AddRequestHeader… + SetTimeout → FProtocol
// WriteRequestHeader over a TMemoryBuffer → (server) ReadRequestHeader → handler adds
// response headers → WriteResponseHeader → (caller) ReadResponseHeader(ctx).
// Every step is emitted as a driver line (c9cli, mar, c9srv, c9hdl, mar, c9rsp, c9tmo) and
// the property itself is evaluated on the real contexts (oracle*, independent of the model).

import (
	"bytes"
	"fmt"
	"sort"
	"strconv"
	"strings"
	"time"

	frugal "github.com/Workiva/frugal/lib/go"
	"github.com/apache/thrift/lib/go/thrift"
)

var c9Factories = []struct {
	name string
	f    *frugal.FProtocolFactory
}{
	{"binary", frugal.NewFProtocolFactory(thrift.NewTBinaryProtocolFactoryConf(nil))},
	{"compact", frugal.NewFProtocolFactory(thrift.NewTCompactProtocolFactoryConf(nil))},
	{"json", frugal.NewFProtocolFactory(thrift.NewTJSONProtocolFactory())},
}

// every op id this process has observed on any context (callers' and handlers')
var c9Seen = map[string]bool{}

// wireTimeout: what a timeout is at the resolution of the `_timeout` header (whole milliseconds, truncated
// toward zero; a positive duration below 1 ms is carried as 1 ms since fix 6fdb59c — 0 would mean "no deadline").
func wireTimeout(d time.Duration) time.Duration {
	if d > 0 && d < time.Millisecond {
		return time.Millisecond
	}
	return d / time.Millisecond * time.Millisecond
}

func c9Reserved(k string) bool { return k == "_opid" || k == "_cid" || k == "_timeout" }

func c9UserHeaders(r *Rng) map[string]string {
	if r.Chance(30) {
		t, shape := c9PickSize(r, 1<<17)
		if shape == "many" && t > 9000 { // the model driver is quadratic in the number of pairs
			t = 8192 - 160 + r.Intn(320)
		}
		Stat("pure-user-block:" + c9SizeClass(t) + "/" + shape)
		return c9SizedHeaders(r, t, shape, "u")
	}
	m := genHeaders(r, true)
	for k := range m {
		if c9Reserved(k) {
			delete(m, k)
		}
	}
	if r.Chance(10) { // names close to the reserved ones
		for _, k := range []string{"_opid ", "_OPID", "_cid_", "cid", "_timeou", "_timeout2", "_"} {
			if r.Bool() {
				m[k] = genString(r, true)
			}
		}
	}
	return m
}

func c9Cid(r *Rng) string {
	switch r.Intn(6) {
	case 0:
		return "" // NewFContext generates one
	case 1:
		return genString(r, true)
	case 2:
		return "0"
	default:
		s := genString(r, false)
		if s == "" {
			s = "cid"
		}
		return s
	}
}

// c9Timeout returns a duration and whether it is a whole non-negative number of milliseconds.
func c9Timeout(r *Rng) (time.Duration, bool) {
	ms := int64(time.Millisecond)
	switch r.Intn(12) {
	case 0:
		return 0, true
	case 1:
		return time.Millisecond, true
	case 2:
		return 5 * time.Second, true
	case 3: // > 2^31 ms
		return time.Duration((int64(1)<<31 + int64(r.Intn(1000))) * ms), true
	case 4: // largest whole-ms duration
		return time.Duration((int64(^uint64(0)>>1) / ms) * ms), true
	case 5: // sub-millisecond part (truncated by SetTimeout): outside the property's region
		return time.Duration(int64(r.Intn(100000))*ms + 1 + int64(r.Intn(999999))), false
	case 6: // negative: outside the property's region
		return -time.Duration(r.U64() >> uint(1+r.Intn(63))), false
	case 7:
		return time.Duration(r.U64() >> uint(1+r.Intn(63))), false
	default:
		return time.Duration(int64(r.U64()>>uint(24+r.Intn(40))) % (int64(^uint64(0)>>1) / ms) * ms), true
	}
}

func sortedKeys(m map[string]string) []string {
	ks := make([]string, 0, len(m))
	for k := range m {
		ks = append(ks, k)
	}
	sort.Strings(ks)
	return ks
}

func copyMap(m map[string]string) map[string]string {
	c := make(map[string]string, len(m))
	for k, v := range m {
		c[k] = v
	}
	return c
}

func c9OpID(ctx frugal.FContext) string {
	id, err := frugal.VerifGetOpID(ctx)
	if err == nil {
		return strconv.FormatUint(id, 10)
	}
	if _, ok := ctx.RequestHeader("_opid"); !ok {
		return "err:missingOpId"
	}
	return "err:badOpId"
}

func c9CliOut(ctx frugal.FContext) string {
	return fmt.Sprintf("ok req=%s cid=%s timeout=%d opid=%s", pairs(ctx.RequestHeaders()), hx([]byte(ctx.CorrelationID())), int64(ctx.Timeout()), c9OpID(ctx))
}

// c9Srv runs ReadRequestHeader over the bytes. lineCtr is the counter value the driver line
// carries: the main path passes the real counter (identity); a replayed line cannot set the
// process counter, so the fresh op id is translated to the line's numbering.
func c9Srv(f *frugal.FProtocolFactory, wire []byte, lineCtr *uint64) (out string, sctx frugal.FContext, rest []byte, base uint64, err error) {
	return c9SrvK(f, wire, lineCtr, 0)
}

// c9SrvK: k = 0 reads from a thrift.TMemoryBuffer (one Read returns everything); k > 0 from a
// reader that hands out at most k bytes per Read (a socket, a bufio window, a base64 decoder).
func c9SrvK(f *frugal.FProtocolFactory, wire []byte, lineCtr *uint64, k int) (out string, sctx frugal.FContext, rest []byte, base uint64, err error) {
	buf := c9NewSource(wire, k)
	proto := f.GetProtocol(buf)
	var after uint64
	o := guard(20*time.Second, func() {
		base = frugal.VerifCtx09OpIDCounter()
		sctx, err = proto.ReadRequestHeader()
		after = frugal.VerifCtx09OpIDCounter()
	})
	lc := base
	if lineCtr != nil {
		lc = *lineCtr
	}
	if o != "" {
		return fmt.Sprintf("%s ctr=%d", o, lc), nil, nil, base, nil
	}
	ctr := lc + (after - base)
	if err != nil {
		return fmt.Sprintf("%s ctr=%d", errClass(err), ctr), nil, nil, base, err
	}
	rest = buf.Rest()
	req := sctx.RequestHeaders()
	opid := c9OpID(sctx)
	if lc != base && req["_opid"] == strconv.FormatUint(base+1, 10) {
		req["_opid"] = strconv.FormatUint(lc+1, 10)
		opid = req["_opid"]
	}
	out = fmt.Sprintf("ok req=%s resp=%s cid=%s timeout=%d opid=%s rest=%s ctr=%d", pairs(req), pairs(sctx.ResponseHeaders()),
		hx([]byte(sctx.CorrelationID())), int64(sctx.Timeout()), opid, hx(rest), ctr)
	return out, sctx, rest, base, nil
}

func c9Rsp(f *frugal.FProtocolFactory, ctx frugal.FContext, wire []byte) (out string, rest []byte, err error) {
	return c9RspK(f, ctx, wire, 0)
}

func c9RspK(f *frugal.FProtocolFactory, ctx frugal.FContext, wire []byte, k int) (out string, rest []byte, err error) {
	buf := c9NewSource(wire, k)
	proto := f.GetProtocol(buf)
	if o := guard(20*time.Second, func() { err = proto.ReadResponseHeader(ctx) }); o != "" {
		return o, nil, nil
	}
	if err != nil {
		return errClass(err), nil, err
	}
	rest = buf.Rest()
	return fmt.Sprintf("ok resp=%s rest=%s", pairs(ctx.ResponseHeaders()), hx(rest)), rest, nil
}

// c9Write runs Write{Request,Response}Header and appends the payload (stand-in for the Thrift message).
func c9Write(f *frugal.FProtocolFactory, ctx frugal.FContext, request bool, payload []byte) (hdr, wire []byte, outcome string) {
	buf := thrift.NewTMemoryBuffer()
	proto := f.GetProtocol(buf)
	var err error
	if o := guard(20*time.Second, func() {
		if request {
			err = proto.WriteRequestHeader(ctx)
		} else {
			err = proto.WriteResponseHeader(ctx)
		}
	}); o != "" {
		return nil, nil, o
	}
	if err != nil {
		return nil, nil, errClass(err)
	}
	hdr = append([]byte{}, buf.Bytes()...)
	wire = append(append([]byte{}, hdr...), payload...)
	return hdr, wire, ""
}

func c9Tmo(v *string) string {
	var ctx frugal.FContext
	if v == nil { // a context whose _timeout header is missing: read from a peer that sent none
		buf := thrift.NewTMemoryBuffer()
		buf.Write(frugal.VerifMarshalHeaders(map[string]string{"_opid": "1"}))
		c, err := c9Factories[0].f.GetProtocol(buf).ReadRequestHeader()
		if err != nil {
			return errClass(err)
		}
		ctx = c
	} else {
		ctx = frugal.NewFContext("t").AddRequestHeader("_timeout", *v)
	}
	var d time.Duration
	if o := guard(5*time.Second, func() { d = ctx.Timeout() }); o != "" {
		return o
	}
	return "ok " + strconv.FormatInt(int64(d), 10)
}

func c9Fail(what string, line string, extra map[string]interface{}) {
	d := map[string]interface{}{"line": line}
	for k, v := range extra {
		d[k] = v
	}
	OracleFail(what, d)
}

// ---------- one full call ----------

func c9Call(r *Rng) {
	fac := c9Factories[r.Intn(len(c9Factories))]
	Stat("protocol:" + fac.name)
	U := c9UserHeaders(r)
	cidArg := c9Cid(r)
	d, whole := c9Timeout(r)
	setTimeout := !r.Chance(10)
	over := map[string]string{}
	if r.Chance(12) { // reserved-name overrides through AddRequestHeader: outside the property's region
		switch r.Intn(4) {
		case 0:
			over["_cid"] = "" // the only way to put an empty correlation id on the wire
		case 1:
			over["_timeout"] = []string{"abc", "", "+7", "-3", "1_000", "0x10", " 5", "9223372036854775808", "1e3", "5.0"}[r.Intn(10)]
		case 2:
			over["_opid"] = []string{"abc", "", "-1", "18446744073709551616", "18446744073709551615", "007"}[r.Intn(6)]
		default:
			over["_cid"] = genString(r, true)
		}
		Stat("override:" + sortedKeys(over)[0])
	}
	propagated := r.Chance(25)
	StatN("user-headers", len(U))
	Stat(fmt.Sprintf("nuser=%d", len(U)))
	if cidArg == "" {
		Stat("cid:generated")
	} else {
		Stat("cid:given")
	}
	switch {
	case !setTimeout:
		Stat("timeout:default")
	case d == 0:
		Stat("timeout:0")
	case d < 0:
		Stat("timeout:negative")
	case !whole:
		Stat("timeout:sub-ms")
	case d > time.Duration(int64(1)<<31)*time.Millisecond:
		Stat("timeout:>2^31ms")
	default:
		Stat("timeout:whole-ms")
	}

	// ---- caller ----
	var ctx frugal.FContext
	if propagated {
		// the caller's context is the inbound context of an earlier hop (used directly or cloned)
		Stat("caller:propagated")
		c0 := frugal.NewFContext(cidArg)
		c9Seen[c0.RequestHeaders()["_opid"]] = true
		_, w0, _ := c9Write(fac.f, c0, true, nil)
		_, s0, _, _, err := c9Srv(fac.f, w0, nil)
		if err != nil || s0 == nil {
			c9Fail("ReadRequestHeader failed on a written request header", "c9srv "+hx(w0)+" 0", nil)
			return
		}
		c9Seen[s0.RequestHeaders()["_opid"]] = true
		ctx = s0
		if r.Bool() {
			ctx = frugal.Clone(s0)
			Stat("caller:propagated-clone")
		}
	} else {
		Stat("caller:new")
		ctx = frugal.NewFContext(cidArg)
	}
	assigned, cid0 := ctx.RequestHeaders()["_opid"], ctx.CorrelationID() // what NewFContext assigned / generated
	for _, k := range sortedKeys(U) {
		ctx.AddRequestHeader(k, U[k])
	}
	if setTimeout {
		ctx.SetTimeout(d)
	} else {
		d = 5 * time.Second
	}
	for _, k := range sortedKeys(over) {
		ctx.AddRequestHeader(k, over[k])
	}
	wantTimeout := wireTimeout(d)
	H := ctx.RequestHeaders()
	clientOp := H["_opid"]
	cid := ctx.CorrelationID()
	cliLine := ""
	if !propagated {
		cliLine = fmt.Sprintf("c9cli %s %s %s %d %s", hx([]byte(cid0)), assigned, pairs(U), int64(d), pairs(over))
		Case(cliLine, c9CliOut(ctx))
	}
	if _, dup := c9Seen[clientOp]; dup && len(over) == 0 && !propagated {
		c9Fail("NewFContext handed out an op id already seen in this process", cliLine, map[string]interface{}{"opid": clientOp})
	}
	c9Seen[clientOp] = true
	if len(over) == 0 {
		ok := len(H) == len(U)+3 && (cidArg == "" && cid != "" || cid == cidArg)
		for k, v := range U {
			if w, has := H[k]; !has || w != v {
				ok = false
			}
		}
		if ctx.Timeout() != wantTimeout {
			ok = false
		}
		if !ok {
			c9Fail("caller context does not hold exactly the user headers, cid and timeout placed on it", cliLine, map[string]interface{}{"user": pairs(U), "got": c9CliOut(ctx)})
		}
	}
	Sample(map[string]interface{}{"protocol": fac.name, "user": pairs(U), "cid": cidArg, "timeout_ns": int64(d), "over": pairs(over), "propagated": propagated})

	// ---- request on the wire ----
	p := genPayload(r)
	hdr, wire, o := c9Write(fac.f, ctx, true, p)
	if o != "" {
		c9Fail("WriteRequestHeader "+o, cliLine, nil)
		return
	}
	reqMar := "c9mar " + hx(hdr) + " " + pairs(H)
	Case(reqMar, "ok")
	if l, rest, ok := specDecode(wire); !ok || !bytes.Equal(rest, p) {
		c9Fail("request header bytes are not the v0 layout followed by the payload", reqMar, nil)
	} else if m, nodup := listToMap(l); !nodup || !mapsEqual(m, H) {
		c9Fail("request header bytes do not carry exactly the context's request headers", reqMar, nil)
	}

	// ---- handler side ----
	kq := c9Chunk(r)
	out, sctx, rest, base, err := c9SrvK(fac.f, wire, nil, kq)
	srvLine := fmt.Sprintf("c9srv %s %d", hx(wire), base)
	if kq > 0 {
		srvLine = fmt.Sprintf("c9srvd %s %d %d", hx(wire), base, kq)
	}
	Stat(fmt.Sprintf("request-read-chunk:%d", kq))
	Case(srvLine, out)
	if err != nil || sctx == nil {
		c9Fail("ReadRequestHeader failed on a written request header: "+clip(out), srvLine, map[string]interface{}{"got": out})
		return
	}
	{
		SR := sctx.RequestHeaders()
		SP := sctx.ResponseHeaders()
		serverOp := SR["_opid"]
		why := ""
		// exactly the caller's headers (user headers, _cid, _timeout) next to a fresh _opid
		a, b := copyMap(SR), copyMap(H)
		delete(a, "_opid")
		delete(b, "_opid")
		if !mapsEqual(a, b) {
			why = "handler's request headers differ from the caller's (ignoring _opid)"
		}
		for k, v := range U {
			if w, has := SR[k]; (!has || w != v) && !c9Reserved(k) {
				why = "a user header is missing or changed on the handler's context"
			}
		}
		if sctx.CorrelationID() != cid {
			why = "handler sees a different correlation id"
		}
		if _, tov := over["_timeout"]; !tov && sctx.Timeout() != wantTimeout {
			why = "handler sees a different timeout"
		}
		if sctx.Timeout() != ctx.Timeout() {
			why = "handler's Timeout() differs from the caller's Timeout()"
		}
		if !bytes.Equal(rest, p) {
			why = "payload after the request header was touched"
		}
		// fresh op id
		if n, e := strconv.ParseUint(serverOp, 10, 64); e != nil || n != base+1 {
			why = "handler context's op id is not the next counter value"
		}
		if serverOp == clientOp || c9Seen[serverOp] {
			why = "handler context's op id collides with an op id seen before in this process"
		}
		c9Seen[serverOp] = true
		// reply ids
		wantP := map[string]string{"_opid": clientOp}
		if cid != "" {
			wantP["_cid"] = cid
		}
		if !mapsEqual(SP, wantP) {
			why = "handler context's response headers are not {_opid: request op id, _cid: cid}"
		}
		if why != "" {
			c9Fail(why, srvLine, map[string]interface{}{"caller": pairs(H), "got": out})
		}
		if cid == "" {
			Stat("cid:empty-on-wire")
		}
	}

	// ---- handler sets response headers, reply on the wire ----
	R := genHeaders(r, true)
	if r.Chance(30) {
		t, shape := c9PickSize(r, 1<<17)
		if shape == "many" && t > 9000 {
			t = 8192 - 160 + r.Intn(320)
		}
		Stat("pure-response-block:" + c9SizeClass(t) + "/" + shape)
		R = c9SizedHeaders(r, t, shape, "r")
	}
	delete(R, "_opid")
	delete(R, "_cid")
	rRegion := true
	if r.Chance(8) {
		R["_cid"] = genString(r, true) // not reserved for responses by the code's doc, but excluded by the design's H
		Stat("handler-sets:_cid")
	}
	if r.Chance(4) {
		R["_opid"] = strconv.Itoa(r.Intn(1000)) // reserved: outside the property's region
		rRegion = false
		Stat("handler-sets:_opid")
	}
	StatN("response-headers", len(R))
	resp0 := sctx.ResponseHeaders()
	for _, k := range sortedKeys(R) {
		sctx.AddResponseHeader(k, R[k])
	}
	SP := sctx.ResponseHeaders()
	Case("c9hdl "+pairs(resp0)+" "+pairs(R), "ok "+pairs(SP))
	p2 := genPayload(r)
	hdr2, wire2, o := c9Write(fac.f, sctx, false, p2)
	if o != "" {
		c9Fail("WriteResponseHeader "+o, srvLine, nil)
		return
	}
	marLine := "c9mar " + hx(hdr2) + " " + pairs(SP)
	Case(marLine, "ok")
	if l, rest, ok := specDecode(wire2); !ok || !bytes.Equal(rest, p2) {
		c9Fail("response header bytes are not the v0 layout followed by the payload", marLine, nil)
	} else if m, nodup := listToMap(l); !nodup {
		c9Fail("response header bytes repeat a name", marLine, nil)
	} else if rRegion {
		why := ""
		if m["_opid"] != clientOp {
			why = "reply does not carry the request's op id"
		}
		if _, set := R["_cid"]; !set && (cid != "" && m["_cid"] != cid) {
			why = "reply does not carry the request's correlation id"
		}
		for k, v := range R {
			if m[k] != v {
				why = "reply does not carry a response header the handler set"
			}
		}
		if why != "" {
			c9Fail(why, marLine, map[string]interface{}{"request_opid": clientOp, "cid": cid})
		}
	}

	// ---- caller reads the reply ----
	before := ctx.ResponseHeaders()
	reqBefore := ctx.RequestHeaders()
	kp := c9Chunk(r)
	rspLine := "c9rsp " + hx(wire2) + " " + pairs(before)
	if kp > 0 {
		rspLine = fmt.Sprintf("c9rspd %s %s %d", hx(wire2), pairs(before), kp)
	}
	Stat(fmt.Sprintf("response-read-chunk:%d", kp))
	out, rest2, err := c9RspK(fac.f, ctx, wire2, kp)
	Case(rspLine, out)
	after := ctx.ResponseHeaders()
	why := ""
	if err != nil || !strings.HasPrefix(out, "ok") {
		why = "ReadResponseHeader failed on a written response header"
	} else {
		for k, v := range R {
			if k == "_opid" {
				continue
			}
			if w, has := after[k]; !has || w != v {
				why = "a response header set by the handler is not visible on the caller's context"
			}
		}
		if _, set := R["_cid"]; !set && cid != "" && after["_cid"] != cid {
			why = "echoed correlation id not visible on the caller's context"
		}
		bo, bh := before["_opid"]
		ao, ah := after["_opid"]
		if bh != ah || bo != ao {
			why = "caller's own _opid response header was overwritten"
		}
		if !mapsEqual(reqBefore, ctx.RequestHeaders()) {
			why = "caller's request headers changed while reading the reply"
		}
		if !bytes.Equal(rest2, p2) {
			why = "payload after the response header was touched"
		}
	}
	if why != "" {
		c9Fail(why, rspLine, map[string]interface{}{"handler_set": pairs(R), "got": out})
	}
}

// ---------- malformed / unusual request headers (error path of ReadRequestHeader) ----------

func c9MarshalList(l []kv) []byte {
	var body []byte
	for _, p := range l {
		body = append(body, be32(uint32(len(p.k)))...)
		body = append(body, p.k...)
		body = append(body, be32(uint32(len(p.v)))...)
		body = append(body, p.v...)
	}
	return append(append([]byte{0}, be32(uint32(len(body)))...), body...)
}

func c9Odd(r *Rng) {
	fac := c9Factories[r.Intn(len(c9Factories))]
	m := c9UserHeaders(r)
	kind := r.Intn(9)
	var wire []byte
	wantMissing := false
	name := ""
	switch kind {
	case 0:
		name = "missing-opid"
		m["_cid"] = genString(r, false)
		m["_timeout"] = "5000"
		wire = frugal.VerifMarshalHeaders(m)
		wantMissing = true
	case 1:
		name = "empty-map"
		wire = frugal.VerifMarshalHeaders(map[string]string{})
		wantMissing = true
	case 2:
		name = "only-opid"
		wire = frugal.VerifMarshalHeaders(map[string]string{"_opid": strconv.FormatUint(r.U64(), 10)})
	case 3:
		name = "non-numeric-opid"
		m["_opid"] = []string{"abc", "", "-1", "18446744073709551616", "1 ", "٣"}[r.Intn(6)]
		m["_cid"] = genString(r, true)
		wire = frugal.VerifMarshalHeaders(m)
	case 4:
		name = "duplicate-names"
		l := []kv{{"_opid", "7"}, {"_cid", "a"}, {"_opid", strconv.Itoa(r.Intn(100))}, {"_cid", genString(r, false)}, {"x", "1"}, {"x", "2"}}
		wire = c9MarshalList(l)
	case 5:
		name = "odd-timeout"
		m["_opid"] = strconv.Itoa(1 + r.Intn(1000))
		m["_timeout"] = []string{"abc", "", "+7", "-3", "1_000", "0x10", " 5", "9223372036854775807", "9223372036854775808", "-9223372036854775808", "-9223372036854775809", "9223372036855", "00012", "+", "-", "--1", "+-1", "1e3"}[r.Intn(18)]
		wire = frugal.VerifMarshalHeaders(m)
	case 6:
		name = "truncated"
		m["_opid"] = "12"
		w := frugal.VerifMarshalHeaders(m)
		wire = w[:r.Intn(len(w))]
	case 7:
		name = "bad-version"
		m["_opid"] = "12"
		wire = frugal.VerifMarshalHeaders(m)
		wire[0] = byte(1 + r.Intn(255))
	default:
		name = "opid-like-names"
		m["_opid "] = "1"
		m["_OPID"] = "2"
		m["opid"] = "3"
		wire = frugal.VerifMarshalHeaders(m)
		wantMissing = true
	}
	Stat("odd:" + name)
	if kind != 6 {
		wire = append(wire, genPayload(r)...)
	}
	out, sctx, _, base, err := c9Srv(fac.f, wire, nil)
	line := fmt.Sprintf("c9srv %s %d", hx(wire), base)
	Case(line, out)
	Stat("odd-outcome:" + clip(out))
	if strings.HasPrefix(out, "panic") || strings.HasPrefix(out, "blocked") {
		c9Fail("ReadRequestHeader "+clip(out), line, nil)
	}
	if wantMissing && kind != 6 {
		if err == nil || sctx != nil || errClass(err) != "err:invalidData" {
			c9Fail("request without _opid was not rejected with INVALID_DATA", line, map[string]interface{}{"got": out})
		}
	}
	if sctx != nil {
		c9Seen[sctx.RequestHeaders()["_opid"]] = true
	}
}

var c9TimeoutStrings = []string{"", "0", "1", "5000", "-1", "+1", "-0", "+0", "abc", "12a", "a12", " 1", "1 ", "1_000", "0x10", "1e3", "1.5",
	"9223372036854775807", "9223372036854775808", "-9223372036854775808", "-9223372036854775809", "9223372036854", "9223372036855", "9223372036854775",
	"-9223372036854", "-9223372036855", "00000000000000000000000000012", "+", "-", "--1", "+-1", "٣", "18446744073709551616", "99999999999999999999999999"}

func c9TimeoutCase(r *Rng) {
	var v *string
	var s string
	switch r.Intn(5) {
	case 0:
		Stat("tmo:missing")
	case 1, 2:
		s = c9TimeoutStrings[r.Intn(len(c9TimeoutStrings))]
		v = &s
		Stat("tmo:special")
	case 3:
		s = strconv.FormatInt(int64(r.U64()>>uint(r.Intn(64))), 10)
		if r.Bool() {
			s = "-" + s
		}
		v = &s
		Stat("tmo:decimal")
	default:
		s = genString(r, true)
		v = &s
		Stat("tmo:random-string")
	}
	line := "c9tmo none"
	if v != nil {
		line = "c9tmo " + hx([]byte(s))
	}
	out := c9Tmo(v)
	Case(line, out)
	// property: a value without any decimal digit (or a missing header) is the default 5 s;
	// the decimal rendering of ms (ms·10^6 within int64) decodes to ms
	hasDigit := strings.ContainsAny(s, "0123456789")
	if (v == nil || !hasDigit) && out != "ok 5000000000" {
		c9Fail("missing / non-numeric _timeout does not give the default timeout", line, map[string]interface{}{"got": out})
	}
	if n, e := strconv.ParseInt(s, 10, 64); v != nil && e == nil && strconv.FormatInt(n, 10) == s && n > -9000000000000 && n < 9000000000000 {
		if out != "ok "+strconv.FormatInt(n*1000000, 10) {
			c9Fail("decimal _timeout does not decode to its value in milliseconds", line, map[string]interface{}{"got": out})
		}
	}
}

func runC09(r *Rng, n int) {
	for i := 0; i < n; i++ {
		switch k := r.Intn(10); {
		case k < 6:
			c9Call(r)
		case k < 7:
			c9E2E(r)
		case k < 9:
			c9Odd(r)
		default:
			c9TimeoutCase(r)
		}
		Stat("evaluations")
	}
}

// ---------- replay of driver lines ----------

func c9MapOf(s string) map[string]string {
	m := map[string]string{}
	for _, p := range parsePairs(s) {
		m[p.k] = p.v
	}
	return m
}

func init() {
	suites["c09"] = runC09
	bad := func(o string) bool { return strings.HasPrefix(o, "panic") || strings.HasPrefix(o, "blocked") }
	lineOps["c9cli"] = func(args []string) (string, bool) {
		if len(args) != 5 {
			return "bad-op", true
		}
		cid := string(unhx(args[0]))
		ns, _ := strconv.ParseInt(args[3], 10, 64)
		U, over := c9MapOf(args[2]), c9MapOf(args[4])
		var ctx frugal.FContext
		if cid == "" {
			ctx = frugal.NewFContext("x").AddRequestHeader("_cid", "")
		} else {
			ctx = frugal.NewFContext(cid)
		}
		ctx.AddRequestHeader("_opid", args[1]) // a replay cannot choose what the counter hands out
		for _, k := range sortedKeys(U) {
			ctx.AddRequestHeader(k, U[k])
		}
		ctx.SetTimeout(time.Duration(ns))
		for _, k := range sortedKeys(over) {
			ctx.AddRequestHeader(k, over[k])
		}
		H := ctx.RequestHeaders()
		ok := true
		reserved := false
		for k := range U {
			reserved = reserved || c9Reserved(k)
		}
		if len(over) == 0 && !reserved {
			ok = len(H) == len(U)+3 && ctx.CorrelationID() == cid && ctx.Timeout() == wireTimeout(time.Duration(ns))
			for k, v := range U {
				ok = ok && H[k] == v
			}
		}
		return c9CliOut(ctx), ok
	}
	srvOp := func(args []string) (string, bool) {
		if len(args) != 2 && len(args) != 3 {
			return "bad-op", true
		}
		ctr, _ := strconv.ParseUint(args[1], 10, 64)
		wire := unhx(args[0])
		k := 0
		if len(args) == 3 {
			k, _ = strconv.Atoi(args[2])
		}
		out, sctx, rest, base, err := c9SrvK(c9Factories[0].f, wire, &ctr, k)
		ok := !bad(out)
		// property on a replayed request: what a spec-decoder sees on the wire is what the handler sees
		if l, p, dec := specDecode(wire); dec && ok {
			if m, nodup := listToMap(l); nodup {
				if _, has := m["_opid"]; !has {
					ok = err != nil && errClass(err) == "err:invalidData"
				} else if sctx == nil {
					ok = false
				} else {
					SR, SP := sctx.RequestHeaders(), sctx.ResponseHeaders()
					fresh := SR["_opid"]
					delete(SR, "_opid")
					want := copyMap(m)
					delete(want, "_opid")
					wantP := map[string]string{"_opid": m["_opid"]}
					if m["_cid"] != "" {
						wantP["_cid"] = m["_cid"]
					}
					ok = mapsEqual(SR, want) && mapsEqual(SP, wantP) && bytes.Equal(rest, p) &&
						fresh == strconv.FormatUint(base+1, 10) && sctx.CorrelationID() == m["_cid"]
				}
			}
		}
		return out, ok
	}
	lineOps["c9hdl"] = func(args []string) (string, bool) {
		if len(args) != 2 {
			return "bad-op", true
		}
		ctx := frugal.NewFContext("x")
		resp, R := c9MapOf(args[0]), c9MapOf(args[1])
		for _, k := range sortedKeys(resp) {
			ctx.AddResponseHeader(k, resp[k])
		}
		for _, k := range sortedKeys(R) {
			ctx.AddResponseHeader(k, R[k])
		}
		got := ctx.ResponseHeaders()
		ok := true
		for k, v := range R {
			ok = ok && got[k] == v
		}
		return "ok " + pairs(got), ok
	}
	rspOp := func(args []string) (string, bool) {
		if len(args) != 2 && len(args) != 3 {
			return "bad-op", true
		}
		ctx := frugal.NewFContext("x")
		resp := c9MapOf(args[1])
		for _, k := range sortedKeys(resp) {
			ctx.AddResponseHeader(k, resp[k])
		}
		wire := unhx(args[0])
		kk := 0
		if len(args) == 3 {
			kk, _ = strconv.Atoi(args[2])
		}
		out, rest, err := c9RspK(c9Factories[0].f, ctx, wire, kk)
		ok := !bad(out)
		if l, p, dec := specDecode(wire); dec && ok {
			if m, nodup := listToMap(l); nodup {
				after := ctx.ResponseHeaders()
				ok = err == nil && bytes.Equal(rest, p)
				for k, v := range m {
					if k != "_opid" {
						ok = ok && after[k] == v
					}
				}
				bo, bh := resp["_opid"]
				ao, ah := after["_opid"]
				ok = ok && bo == ao && bh == ah
			}
		}
		return out, ok
	}
	lineOps["c9mar"] = func(args []string) (string, bool) {
		// the bytes on the line are a recorded output (Go's map order is not reproducible): the map is
		// written again by the real code, and both byte strings must be the v0 layout of exactly the map
		if len(args) != 2 {
			return "bad-op", true
		}
		m := c9MapOf(args[1])
		ctx := frugal.NewFContext("x")
		for k, v := range m {
			ctx.AddResponseHeader(k, v)
		}
		hdr, _, o := c9Write(c9Factories[0].f, ctx, false, nil)
		if o != "" {
			return o, false
		}
		for _, b := range [][]byte{hdr, unhx(args[0])} {
			l, rest, ok := specDecode(b)
			got, nodup := listToMap(l)
			if !ok || !nodup || len(rest) != 0 || !mapsEqual(got, m) {
				return "bad", false
			}
		}
		return "ok", true
	}
	lineOps["c9tmo"] = func(args []string) (string, bool) {
		if len(args) != 1 {
			return "bad-op", true
		}
		if args[0] == "none" {
			o := c9Tmo(nil)
			return o, o == "ok 5000000000"
		}
		s := string(unhx(args[0]))
		o := c9Tmo(&s)
		ok := !bad(o)
		if !strings.ContainsAny(s, "0123456789") {
			ok = o == "ok 5000000000"
		}
		return o, ok
	}
	lineOps["c9srv"], lineOps["c9srvd"] = srvOp, srvOp
	lineOps["c9rsp"], lineOps["c9rspd"] = rspOp, rspOp
}
