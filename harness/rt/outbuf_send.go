package main

// C12, Oneway and Publish at the client API (FStandardClient.Oneway / .Publish):
//   c12send <reqprog> <kind> <q> <proto> <args> <reqHdr>
// kinds  loop     Oneway over the in-process FTransport stand-in (limit q)
//        http     Oneway over the real FHTTPTransport + handler (request limit q)
//        looppub  Publish over an in-process FPublisherTransport stand-in (limit q)
//        nats     Oneway over the real fNatsTransport and an in-process nats-server   (outbuf_e2e.go)
//        natspub  Publish over the real fNatsPublisherTransport                      (outbuf_e2e.go)
//        stomp    Publish over the real fStompPublisherTransport, in-process broker  (outbuf_e2e.go)

import (
	"bytes"
	"context"
	"fmt"
	"net/http"
	"strconv"
	"strings"
	"time"

	frugal "github.com/Workiva/frugal/lib/go"
	"github.com/apache/thrift/lib/go/thrift"
)

// c12LoopPub: FPublisherTransport stand-in; the check is that of
// fNatsPublisherTransport / fStompPublisherTransport with the limit as a parameter.
type c12LoopPub struct {
	limit uint
	open  bool
	sent  []byte
}

func (t *c12LoopPub) Open() error               { t.open = true; return nil }
func (t *c12LoopPub) Close() error              { t.open = false; return nil }
func (t *c12LoopPub) IsOpen() bool              { return t.open }
func (t *c12LoopPub) GetPublishSizeLimit() uint { return t.limit }
func (t *c12LoopPub) Publish(topic string, data []byte) error {
	if t.limit > 0 && uint(len(data)) > t.limit {
		return thrift.NewTTransportException(frugal.TRANSPORT_EXCEPTION_REQUEST_TOO_LARGE, "Message exceeds limit")
	}
	t.sent = append([]byte{}, data...)
	return nil
}

type c12PubFactory struct{ t frugal.FPublisherTransport }

func (f c12PubFactory) GetTransport() frugal.FPublisherTransport { return f.t }

// c12RecordRequest: the op list of prepareMessage for this context/arguments.
func c12RecordRequest(pf *frugal.FProtocolFactory, fctx frugal.FContext, args *c12Shape, kind thrift.TMessageType) []c12Op {
	ctx := context.Background()
	rec := &c12Recorder{}
	rp := pf.GetProtocol(rec)
	rp.WriteRequestHeader(fctx)
	rp.WriteMessageBegin(ctx, "m", kind, 0)
	args.Write(ctx, rp)
	rp.WriteMessageEnd(ctx)
	rp.Flush(ctx)
	return rec.ops
}

type c12SendParams struct {
	kind, proto string
	args        *c12Shape
	reqHdr      int
	q           uint
	where       string
}

func (p c12SendParams) line(req []c12Op) string {
	return fmt.Sprintf("c12send %s %s %d %s %s %d", hx(c12Encode(req)), p.kind, p.q, p.proto, p.args.String(), p.reqHdr)
}

type c12SendOut struct {
	req       []c12Op
	sent      bool
	sentLen   int // -1 = not observable
	sentBytes []byte
	res       string
	err       error
}

// c12RealSend performs one Oneway/Publish on the real client code (in-process kinds).
func c12RealSend(p c12SendParams) (out c12SendOut, outcome string) {
	pf := frugal.NewFProtocolFactory(c12ProtoFactory(p.proto))
	fctx := frugal.NewFContext("c12")
	if p.reqHdr > 0 {
		fctx.AddRequestHeader("q", strings.Repeat("H", p.reqHdr))
	}
	fctx.SetTimeout(3 * time.Second)
	out.sentLen = -1
	switch p.kind {
	case "loop":
		out.req = c12RecordRequest(pf, fctx, p.args, thrift.ONEWAY)
		loop := &c12Loop{qlimit: p.q, pf: pf}
		outcome = guard(30*time.Second, func() {
			client := frugal.NewFStandardClient(frugal.NewFServiceProvider(loop, pf))
			out.err = client.Oneway(fctx, "m", p.args)
		})
		out.sent, out.sentBytes, out.sentLen = loop.sent != nil, loop.sent, len(loop.sent)
	case "http":
		out.req = c12RecordRequest(pf, fctx, p.args, thrift.ONEWAY)
		srv := &c12Server{result: &c12Shape{}, pf: pf}
		proc := frugal.NewFBaseProcessor()
		srv.base = frugal.NewFBaseProcessorFunction(proc.GetWriteMutex(), nil)
		proc.AddToProcessorMap("m", srv)
		url := c12HTTPURL()
		c12HTTPMu.Lock()
		c12HTTPHandler = frugal.NewFrugalHandlerFunc(proc, pf)
		hits0 := c12HTTPHits
		c12HTTPMu.Unlock()
		tr := frugal.NewFHTTPTransportBuilder(&http.Client{}, url).WithRequestSizeLimit(p.q).Build()
		tr.Open()
		outcome = guard(30*time.Second, func() {
			client := frugal.NewFStandardClient(frugal.NewFServiceProvider(tr, pf))
			out.err = client.Oneway(fctx, "m", p.args)
		})
		c12HTTPMu.Lock()
		out.sent = c12HTTPHits > hits0
		c12HTTPMu.Unlock()
	case "looppub":
		out.req = c12RecordRequest(pf, fctx, p.args, thrift.CALL)
		pub := &c12LoopPub{limit: p.q}
		outcome = guard(30*time.Second, func() {
			client := frugal.NewFScopeClient(frugal.NewFScopeProvider(c12PubFactory{pub}, nil, pf))
			if err := client.Open(); err != nil {
				out.err = err
				return
			}
			out.err = client.Publish(fctx, "m", "c12.topic", p.args)
		})
		out.sent, out.sentBytes, out.sentLen = pub.sent != nil, pub.sent, len(pub.sent)
	default:
		return c12E2ESend(p)
	}
	out.res = c12CallClass(out.err)
	return out, outcome
}

// c12JudgeSend evaluates the property on one Oneway/Publish.
func c12JudgeSend(p c12SendParams) (line, real, bad string) {
	out, o := c12RealSend(p)
	line = p.line(out.req)
	if o != "" {
		return line, o, p.kind + " " + o
	}
	real = fmt.Sprintf("sent=%s res=%s", c12YN(out.sent), out.res)
	Q := 4 + c12Sum(out.req)
	L := p.q
	if p.kind == "nats" || p.kind == "natspub" {
		L = 1 << 20
	}
	if L > 0 && uint(Q) > L {
		switch {
		case out.sent:
			bad = fmt.Sprintf("message of framed size %d over limit %d was transmitted", Q, L)
		case out.res != "err:requestTooLarge":
			bad = fmt.Sprintf("message of framed size %d over limit %d fails with %s (%v), not REQUEST_TOO_LARGE", Q, L, out.res, out.err)
		}
		return
	}
	switch {
	case out.res != "ok":
		bad = fmt.Sprintf("message of framed size %d within limit %d rejected: %s (%v)", Q, L, out.res, out.err)
	case !out.sent:
		bad = fmt.Sprintf("message of framed size %d within limit %d: nil returned but nothing transmitted", Q, L)
	case out.sentLen >= 0 && out.sentLen != Q:
		bad = fmt.Sprintf("transmitted %d bytes; the framed message has %d", out.sentLen, Q)
	case out.sentBytes != nil && !bytes.Equal(out.sentBytes[:4], be32(uint32(Q-4))):
		bad = fmt.Sprintf("size prefix %s of a framed message of %d bytes", hx(out.sentBytes[:4]), Q)
	}
	return
}

var c12SendKinds = []string{"loop", "http", "looppub", "looppub"}

func c12SendCase(r *Rng, i int) {
	p := c12SendParams{kind: c12SendKinds[r.Intn(len(c12SendKinds))], proto: c12Protos[r.Intn(len(c12Protos))]}
	p.args, p.where = c12GenShape(r, r.Pick(0, 5, 40, 200, 1000, 5000, 70000))
	if r.Chance(15) {
		p.reqHdr = r.Pick(1, 30, 300)
	}
	// size without a limit
	pf := frugal.NewFProtocolFactory(c12ProtoFactory(p.proto))
	fc := frugal.NewFContext("c12")
	if p.reqHdr > 0 {
		fc.AddRequestHeader("q", strings.Repeat("H", p.reqHdr))
	}
	fc.SetTimeout(3 * time.Second)
	Q := 4 + c12Sum(c12RecordRequest(pf, fc, p.args, thrift.CALL))
	p.q = c12GenLimit(r, Q)
	if p.q >= 1 && p.q <= 3 {
		p.q = 0
	}
	if c12AboveInt64(p.kind, p.q) {
		p.q = 1<<63 - 1 - uint(r.Intn(3))
		Stat("send:excluded-known-class(limit-above-int64)")
	}
	line, real, bad := c12JudgeSend(p)
	Case(line, real)
	Stat("send:kind:" + p.kind)
	Stat("send:proto:" + p.proto)
	Stat("send:shape:" + p.where)
	Stat("send:limit:" + c12LimitClass(p.q, Q))
	Stat("send:outcome:" + strings.ReplaceAll(real, " ", ","))
	if i%7 == 4 && i < 80 {
		Sample(map[string]interface{}{"op": "c12send", "kind": p.kind, "protocol": p.proto, "args": p.args.String(), "framed": Q, "limit": p.q, "real": real})
	}
	if bad != "" {
		OracleFail("size limit not enforced/reported exactly by Oneway/Publish", map[string]interface{}{"op": "c12send", "line": line, "got": real, "why": bad,
			"kind": p.kind, "protocol": p.proto, "args": p.args.String(), "limit": p.q})
	}
}

// c12ReplaySend re-runs a `c12send` line from its generating parameters.
func c12ReplaySend(args []string) (string, bool) {
	if len(args) != 6 {
		return "bad-op", true
	}
	p := c12SendParams{kind: args[1], q: c12ParseLimit(args[2]), proto: args[3], args: c12ParseShape(args[4])}
	p.reqHdr, _ = strconv.Atoi(args[5])
	if p.q >= 1 && p.q <= 3 {
		return "bad-op", true
	}
	var line, real, bad string
	judge := func() (string, bool, string) {
		line, real, bad = c12JudgeSend(p)
		return real, bad == "", bad
	}
	if c12IsE2EKind(p.kind) {
		retryTiming(judge)
	} else {
		judge()
	}
	_ = line
	return real, bad == ""
}

func init() { lineOps["c12send"] = c12ReplaySend }
