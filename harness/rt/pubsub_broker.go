package main

// A minimal in-process STOMP 1.2 broker for the C07 runtime suite (wire codec: go-stomp's `frame`
// package). It implements exactly the broker contract the model assumes (lean/FV/Model/PubSub.lean):
//
//   * a SEND to a destination is handed, as a MESSAGE, to every subscription on that destination at
//     that moment; every connection has ONE outbound FIFO, so a subscription sees the messages of a
//     destination in the order the broker processed them;
//   * every client frame that carries a `receipt` header is answered by a RECEIPT queued on the same
//     FIFO — in particular UNSUBSCRIBE: the RECEIPT follows every MESSAGE the broker had already
//     queued for that connection, and nothing is queued for the subscription after it.
//
// Why not github.com/go-stomp/stomp/server: that server never answers UNSUBSCRIBE (handleUnsubscribe
// has no sendReceiptImmediately), while go-stomp's client `Subscription.Unsubscribe` waits for exactly
// that RECEIPT: against it the client call blocks forever even with no message at all (the one
// Unsubscribe in lib/go's own STOMP test returns only because an ERROR frame for the ACK tears the
// connection down first). ActiveMQ and every conforming broker send the RECEIPT (STOMP 1.2, "any
// client frame other than CONNECT MAY specify a receipt header … the server MUST acknowledge").

import (
	"net"
	"strconv"
	"sync"

	"github.com/go-stomp/stomp/frame"
)

type c07BrokerSub struct {
	conn *c07BrokerConn
	id   string
	ack  string
}

type c07BrokerConn struct {
	nc     net.Conn
	mu     sync.Mutex
	cond   *sync.Cond
	queue  []*frame.Frame
	closed bool
}

type c07Broker struct {
	mu     sync.Mutex
	topics map[string][]*c07BrokerSub
	msgID  uint64
}

func c07StartBroker() (string, error) {
	l, err := net.Listen("tcp", "127.0.0.1:0")
	if err != nil {
		return "", err
	}
	b := &c07Broker{topics: map[string][]*c07BrokerSub{}}
	go func() {
		for {
			nc, err := l.Accept()
			if err != nil {
				return
			}
			c := &c07BrokerConn{nc: nc}
			c.cond = sync.NewCond(&c.mu)
			go c.writeLoop()
			go b.readLoop(c)
		}
	}()
	return l.Addr().String(), nil
}

// enqueue never blocks the broker: the outbound queue is unbounded, the socket is written by writeLoop.
func (c *c07BrokerConn) enqueue(f *frame.Frame) {
	c.mu.Lock()
	if !c.closed {
		c.queue = append(c.queue, f)
		c.cond.Signal()
	}
	c.mu.Unlock()
}

func (c *c07BrokerConn) shutdown() {
	c.mu.Lock()
	c.closed = true
	c.cond.Signal()
	c.mu.Unlock()
	c.nc.Close()
}

func (c *c07BrokerConn) writeLoop() {
	w := frame.NewWriter(c.nc)
	for {
		c.mu.Lock()
		for len(c.queue) == 0 && !c.closed {
			c.cond.Wait()
		}
		if c.closed {
			c.mu.Unlock()
			return
		}
		f := c.queue[0]
		c.queue = c.queue[1:]
		c.mu.Unlock()
		if err := w.Write(f); err != nil {
			c.shutdown()
			return
		}
	}
}

func (b *c07Broker) dropConn(c *c07BrokerConn) {
	b.mu.Lock()
	for d, subs := range b.topics {
		keep := subs[:0]
		for _, s := range subs {
			if s.conn != c {
				keep = append(keep, s)
			}
		}
		b.topics[d] = keep
	}
	b.mu.Unlock()
	c.shutdown()
}

func (b *c07Broker) readLoop(c *c07BrokerConn) {
	defer b.dropConn(c)
	r := frame.NewReader(c.nc)
	for {
		f, err := r.Read()
		if err != nil {
			return
		}
		if f == nil { // heart-beat
			continue
		}
		// the whole handling of one frame (fan-out + RECEIPT) is atomic with respect to other
		// connections: the broker processes one frame at a time
		b.mu.Lock()
		switch f.Command {
		case frame.CONNECT, frame.STOMP:
			c.enqueue(frame.New(frame.CONNECTED, frame.Version, "1.2", frame.HeartBeat, "0,0"))
			b.mu.Unlock()
			continue
		case frame.SUBSCRIBE:
			dest := f.Header.Get(frame.Destination)
			ack := f.Header.Get(frame.Ack)
			if ack == "" {
				ack = frame.AckAuto
			}
			b.topics[dest] = append(b.topics[dest], &c07BrokerSub{conn: c, id: f.Header.Get(frame.Id), ack: ack})
		case frame.UNSUBSCRIBE:
			id := f.Header.Get(frame.Id)
			for d, subs := range b.topics {
				keep := subs[:0]
				for _, s := range subs {
					if !(s.conn == c && s.id == id) {
						keep = append(keep, s)
					}
				}
				b.topics[d] = keep
			}
		case frame.SEND:
			dest := f.Header.Get(frame.Destination)
			for _, s := range b.topics[dest] {
				b.msgID++
				mid := strconv.FormatUint(b.msgID, 10)
				m := frame.New(frame.MESSAGE, frame.Subscription, s.id, frame.MessageId, mid, frame.Destination, dest)
				if ct, ok := f.Header.Contains(frame.ContentType); ok {
					m.Header.Add(frame.ContentType, ct)
				}
				if s.ack != frame.AckAuto {
					m.Header.Add(frame.Ack, mid)
				}
				m.Header.Add(frame.ContentLength, strconv.Itoa(len(f.Body)))
				m.Body = append([]byte{}, f.Body...)
				s.conn.enqueue(m)
			}
		case frame.ACK, frame.NACK, frame.BEGIN, frame.COMMIT, frame.ABORT:
			// acknowledgements and transactions are outside the property
		case frame.DISCONNECT:
			if id, ok := f.Header.Contains(frame.Receipt); ok {
				c.enqueue(frame.New(frame.RECEIPT, frame.ReceiptId, id))
			}
			b.mu.Unlock()
			return
		}
		if id, ok := f.Header.Contains(frame.Receipt); ok {
			c.enqueue(frame.New(frame.RECEIPT, frame.ReceiptId, id))
		}
		b.mu.Unlock()
	}
}
