package main

// C15 with SEVERAL transports per case: `adm <spec hex>`. Each transport gets its own monitor from
// a PUBLIC way of making one — frugal.NewDefaultFTransportMonitor() (then customised through its
// exported fields, as its doc invites) or a &frugal.BaseFTransportMonitor{} literal — all monitors are
// constructed first, then configured with DIFFERENT policies, then outages of the transports are
// interleaved (and policies rewritten in between). Every byte string is a spec:
//
//	b0: n = 2 + b0%2 transports;  per transport 2 bytes: c1%2 = constructor (0 default, 1 literal),
//	(c1/2)%5 = MaxReopenAttempts, c2%3 = InitialWait ms, MaxWait = InitialWait + (c2/3)%4 ms
//	then events e: transport t = e%n, op = (e/n)%8: 0..5 outage whose first `op` reopen attempts fail,
//	7 outage with exactly MaxReopenAttempts failing attempts, 6 rewrite monitor t's fields from the next byte.

import (
	"fmt"
	"strings"
	"sync"
	"time"

	frugal "github.com/Workiva/frugal/lib/go"
)

type admMon struct {
	inner frugal.FTransportMonitor
	mu    sync.Mutex
	toks  []string
	done  chan bool // true: reopened, false: the runner returned
}

func (m *admMon) log(t string) { m.mu.Lock(); m.toks = append(m.toks, t); m.mu.Unlock() }

func (m *admMon) take() []string {
	m.mu.Lock()
	defer m.mu.Unlock()
	t := m.toks
	m.toks = nil
	return t
}

func (m *admMon) OnClosedCleanly() { m.inner.OnClosedCleanly(); m.log("C"); m.done <- false }

func (m *admMon) OnClosedUncleanly(cause error) (bool, time.Duration) {
	r, w := m.inner.OnClosedUncleanly(cause)
	m.log(fmt.Sprintf("U>%d:%d", b2i(r), ms(w)))
	if !r {
		m.done <- false
	}
	return r, w
}

func (m *admMon) OnReopenFailed(prev uint, pw time.Duration) (bool, time.Duration) {
	r, w := m.inner.OnReopenFailed(prev, pw)
	m.log(fmt.Sprintf("F%d:%d>%d:%d", prev, ms(pw), b2i(r), ms(w)))
	if !r {
		m.done <- false
	}
	return r, w
}

func (m *admMon) OnReopenSucceeded() { m.inner.OnReopenSucceeded(); m.log("S"); m.done <- true }

type admTr struct {
	tr    *scriptT
	ft    frugal.FTransport
	mon   *admMon
	cfg   adpCfg // the policy this case has written to THIS transport's monitor value
	alive bool
}

func setPolicy(mon frugal.FTransportMonitor, cfg adpCfg) bool {
	b, ok := mon.(*frugal.BaseFTransportMonitor)
	if !ok {
		return false
	}
	b.MaxReopenAttempts = uint(cfg.max)
	b.InitialWait = time.Duration(cfg.init) * time.Millisecond
	b.MaxWait = time.Duration(cfg.mw) * time.Millisecond
	return true
}

func runAdm(bs []byte) (string, []string) {
	adpInstallHook()
	adpCur.Store(nil)
	at := func(j int) int {
		if j < len(bs) {
			return int(bs[j])
		}
		return 0
	}
	var viol []string
	n := 2 + at(0)%2
	trs := make([]*admTr, n)
	// 1. every monitor is obtained, independently, from a public constructor / literal
	for t := 0; t < n; t++ {
		c1 := at(1 + 2*t)
		var inner frugal.FTransportMonitor
		if c1%2 == 0 {
			inner = frugal.NewDefaultFTransportMonitor()
		} else {
			inner = &frugal.BaseFTransportMonitor{}
		}
		trs[t] = &admTr{tr: newScriptT(), mon: &admMon{inner: inner, done: make(chan bool, 8)}, alive: true}
	}
	// 2. then each one is given ITS policy through the exported fields
	for t := 0; t < n; t++ {
		c1, c2 := at(1+2*t), at(2+2*t)
		x := trs[t]
		x.cfg = adpCfg{kind: "b", max: (c1 / 2) % 5, init: c2 % 3}
		x.cfg.mw = x.cfg.init + (c2/3)%4
		if !setPolicy(x.mon.inner, x.cfg) {
			viol = append(viol, "a monitor from a public constructor is not a *BaseFTransportMonitor")
		}
	}
	for _, x := range trs {
		x.ft = frugal.NewAdapterTransport(x.tr)
		x.ft.SetMonitor(x.mon)
		if err := x.ft.Open(); err != nil {
			viol = append(viol, "Open failed")
		}
	}
	var outs []string
	cnt := 0
	for j := 1 + 2*n; j < len(bs) && cnt < 24; cnt++ {
		e := at(j)
		t, op := e%n, (e/n)%8
		x := trs[t]
		if op == 6 {
			nb := at(j + 1)
			j += 2
			x.cfg = adpCfg{kind: "b", max: (nb / 2) % 5, init: nb % 3}
			x.cfg.mw = x.cfg.init + (nb/16)%4
			setPolicy(x.mon.inner, x.cfg)
			outs = append(outs, fmt.Sprintf("P%d", t))
			continue
		}
		j++
		k := op
		if op == 7 {
			k = x.cfg.max
		}
		if !x.alive {
			outs = append(outs, fmt.Sprintf("T%d:term", t))
			continue
		}
		if !x.tr.waitReader() {
			viol = append(viol, "no read loop reading on an open transport")
		}
		for i := 0; i < k; i++ {
			x.tr.armFail()
		}
		x.tr.feed(nil, errScriptedRead)
		healed, ok := laRecv(x.mon.done, adpWatch)
		timedOut := !ok
		toks := x.mon.take()
		if timedOut {
			viol = append(viol, fmt.Sprintf("the monitor of transport %d did not finish handling a close", t))
			toks = append(toks, "blocked")
		}
		x.alive = healed
		// leftover failure budget (the monitor gave up early, or k > what it may try) is not carried over
		x.tr.mu.Lock()
		x.tr.openScript = nil
		x.tr.mu.Unlock()
		// the property, for THIS transport against the policy configured on ITS monitor value
		for _, v := range outageViolations(toks, x.cfg, k, false) {
			viol = append(viol, fmt.Sprintf("transport %d (policy max=%d init=%dms maxwait=%dms): %s", t, x.cfg.max, x.cfg.init, x.cfg.mw, v))
		}
		// nobody else's monitor moved
		for u, y := range trs {
			if u != t {
				if extra := y.mon.take(); len(extra) > 0 {
					viol = append(viol, fmt.Sprintf("the monitor of transport %d acted (%s) on a close of transport %d", u, strings.Join(extra, ","), t))
				}
			}
		}
		outs = append(outs, fmt.Sprintf("T%d:%s", t, strings.Join(toks, ",")))
	}
	alive := ""
	for _, x := range trs {
		alive += fmt.Sprint(b2i(x.alive))
		laGuard(adpWatch, func() { x.ft.Close() })
		x.tr.Close()
	}
	return strings.Join(outs, ";") + "|alive=" + alive, viol
}

func realAdmLine(args []string) (string, bool) {
	if len(args) != 1 {
		return "bad-op", true
	}
	bs := unhx(args[0])
	if len(bs) > 64 {
		return "bad-op", true
	}
	o, viol := runAdm(bs)
	if len(viol) > 0 {
		OracleFail("C15 multi: "+viol[0], map[string]interface{}{"op": "adm", "line": "adm " + args[0], "in": args[0], "got": o, "all": viol})
	}
	return o, true
}

func genAdm(r *Rng) []byte {
	n := 2 + r.Intn(2)
	bs := []byte{byte(n - 2 + 2*r.Intn(100))}
	maxOf := make([]int, n)
	dead := make([]bool, n)
	for t := 0; t < n; t++ {
		kind := 0
		if r.Chance(30) {
			kind = 1
		}
		maxOf[t] = r.Pick(0, 1, 2, 2, 3, 3, 4, 4)
		bs = append(bs, byte(kind+2*maxOf[t]+10*r.Intn(20)), byte(r.Intn(3)+3*r.Intn(4)+12*r.Intn(15)))
	}
	ne := 3 + r.Intn(8)
	for i := 0; i < ne; i++ {
		t := r.Intn(n)
		if dead[t] && r.Chance(80) {
			t = r.Intn(n)
		}
		op := r.Intn(6)
		switch {
		case r.Chance(10):
			op = 6
		case r.Chance(10):
			op = 7
		case maxOf[t] > 0 && r.Chance(75):
			op = r.Intn(maxOf[t]) // heals: fewer failing attempts than THIS monitor's budget
			if op > 5 {
				op = 5
			}
		}
		bs = append(bs, byte(t+n*(op+8*r.Intn(8))))
		if op == 6 {
			nb := byte(r.Intn(256))
			bs = append(bs, nb)
			maxOf[t] = int(nb/2) % 5
		} else if op == 7 || op >= maxOf[t] {
			dead[t] = true
		}
	}
	return bs
}

func runC15Multi(r *Rng, n int) {
	for i := 0; i < n; i++ {
		bs := genAdm(r)
		o, viol := runAdm(bs)
		line := "adm " + hx(bs)
		Case(line, o)
		Stat("evaluations")
		Stat(fmt.Sprintf("transports=%d", 2+int(bs[0])%2))
		Stat(fmt.Sprintf("events=%d", strings.Count(o, ";")+1))
		Stat(fmt.Sprintf("healed=%d", strings.Count(o, ",S")+strings.Count(o, ":S")))
		if i < 2 {
			Sample(map[string]interface{}{"line": line, "real": o})
		}
		if len(viol) > 0 {
			OracleFail("C15 multi: "+viol[0], map[string]interface{}{"op": "adm", "line": line, "in": hx(bs), "got": o, "all": viol})
		}
	}
}

func init() {
	suites["c15multi"] = runC15Multi
	lineOps["adm"] = realAdmLine
}
