package main

// C12, API level: a real FStandardClient.Call (prepareMessage, processReply) against a
// real FBaseProcessor whose processor function answers with SendReply (trapError,
// sendError), over
//   kind "loop": an in-process FTransport shaped like fNatsTransport.Request +
//                fNatsServer.processFrame with parametrised limits (real
//                NewTMemoryOutputBuffer(rlimit) on the server side), and
//   kind "http": the real FHTTPTransport against the real NewFrugalHandlerFunc
//                (net/http/httptest on loopback).
//
//   call <reqprog> <repprog> <errprog> <kind> <qlimit> <rlimit>
// <reqprog>, <repprog>: the op lists the real encoders produce for the request and the
// reply; <errprog>: comma-separated programs of the five steps of sendError for the
// RESPONSE_TOO_LARGE error reply (all recorded with a recording transport).

import (
	"bytes"
	"context"
	"fmt"
	"net/http"
	"net/http/httptest"
	"os"
	"strconv"
	"strings"
	"sync"
	"time"

	frugal "github.com/Workiva/frugal/lib/go"
	"github.com/apache/thrift/lib/go/thrift"
)

type c12Server struct {
	mu       sync.Mutex
	base     *frugal.FBaseProcessorFunction
	result   *c12Shape
	rlimit   uint
	respHdr  int // extra response header bytes added by the handler
	pf       *frugal.FProtocolFactory
	repOps   []c12Op
	errSegs  [][]c12Op
	invoked  int
	replyErr error
}

// Process is the FProcessorFunction: read the arguments, answer with SendReply.
func (s *c12Server) Process(fctx frugal.FContext, in, out *frugal.FProtocol) error {
	ctx := context.Background()
	args := &c12Shape{}
	if err := args.Read(ctx, in); err != nil {
		return err
	}
	if err := in.ReadMessageEnd(ctx); err != nil {
		return err
	}
	if s.respHdr > 0 {
		fctx.AddResponseHeader("x", strings.Repeat("h", s.respHdr))
	}
	// what the encoders write for the reply and for the too-large error reply
	rec := &c12Recorder{}
	s.base.SendReply(fctx, s.pf.GetProtocol(rec), "m", s.result)
	// sendError's five steps (each stops at its own first error; errors between them are ignored)
	rec2 := &c12Recorder{}
	ep := s.pf.GetProtocol(rec2)
	// the message of the error reply is the text of the error the reply's encoder returned (it carries the
	// prefixes of every struct level the failing write sat in): take it from a scratch run of SendReply's steps
	msg := fmt.Sprintf("Buffer size reached (%d)", s.rlimit)
	if s.rlimit == 0 || s.rlimit >= 4 {
		sp := s.pf.GetProtocol(frugal.NewTMemoryOutputBuffer(s.rlimit))
		var e1 error
		if e1 = sp.WriteResponseHeader(fctx); e1 == nil {
			if e1 = sp.WriteMessageBegin(ctx, "m", thrift.REPLY, 0); e1 == nil {
				if e1 = s.result.Write(ctx, sp); e1 == nil {
					if e1 = sp.WriteMessageEnd(ctx); e1 == nil {
						e1 = sp.Flush(ctx)
					}
				}
			}
		}
		if e1 != nil {
			msg = e1.Error()
		}
	}
	ex := thrift.NewTApplicationException(frugal.APPLICATION_EXCEPTION_RESPONSE_TOO_LARGE, msg)
	var segs [][]c12Op
	mark := func() { segs = append(segs, rec2.ops); rec2.ops = nil }
	ep.WriteResponseHeader(fctx)
	mark()
	ep.WriteMessageBegin(ctx, "m", thrift.EXCEPTION, 0)
	mark()
	ex.Write(ctx, ep)
	mark()
	ep.WriteMessageEnd(ctx)
	mark()
	ep.Flush(ctx)
	mark()
	s.mu.Lock()
	s.repOps, s.errSegs = rec.ops, segs
	s.invoked++
	s.mu.Unlock()
	err := s.base.SendReply(fctx, out, "m", s.result)
	s.mu.Lock()
	s.replyErr = err
	s.mu.Unlock()
	return err
}
func (s *c12Server) AddMiddleware(frugal.ServiceMiddleware) {}

// c12Loop: FTransport stand-in; the size checks are those of fNatsTransport
// (checkMessageSize) and fNatsServer.processFrame with the limits as parameters.
type c12Loop struct {
	qlimit, rlimit uint
	proc           frugal.FProcessor
	pf             *frugal.FProtocolFactory
	sent           []byte
	replyLen       int
}

func (t *c12Loop) SetMonitor(frugal.FTransportMonitor) {}
func (t *c12Loop) Closed() <-chan error                { return nil }
func (t *c12Loop) Open() error                         { return nil }
func (t *c12Loop) IsOpen() bool                        { return true }
func (t *c12Loop) Close() error                        { return nil }
func (t *c12Loop) GetRequestSizeLimit() uint           { return t.qlimit }
func (t *c12Loop) Oneway(ctx frugal.FContext, data []byte) error {
	if len(data) == 4 {
		return nil
	}
	if t.qlimit > 0 && uint(len(data)) > t.qlimit {
		return thrift.NewTTransportException(frugal.TRANSPORT_EXCEPTION_REQUEST_TOO_LARGE, "Message exceeds limit")
	}
	t.sent = append([]byte{}, data...)
	return nil
}
func (t *c12Loop) Request(ctx frugal.FContext, data []byte) (thrift.TTransport, error) {
	if len(data) == 4 {
		return nil, nil
	}
	if t.qlimit > 0 && uint(len(data)) > t.qlimit {
		return nil, thrift.NewTTransportException(frugal.TRANSPORT_EXCEPTION_REQUEST_TOO_LARGE, "Message exceeds limit")
	}
	t.sent = append([]byte{}, data...)
	input := &thrift.TMemoryBuffer{Buffer: bytes.NewBuffer(data[4:])}
	output := frugal.NewTMemoryOutputBuffer(t.rlimit)
	if err := t.proc.Process(t.pf.GetProtocol(input), t.pf.GetProtocol(output)); err != nil {
		return nil, thrift.NewTTransportException(frugal.TRANSPORT_EXCEPTION_TIMED_OUT, "no reply: "+err.Error())
	}
	if !output.HasWriteData() {
		return nil, thrift.NewTTransportException(frugal.TRANSPORT_EXCEPTION_TIMED_OUT, "no reply")
	}
	reply := output.Bytes()
	t.replyLen = len(reply)
	return &thrift.TMemoryBuffer{Buffer: bytes.NewBuffer(append([]byte{}, reply[4:]...))}, nil
}

var (
	c12HTTPOnce    sync.Once
	c12HTTPSrv     *httptest.Server
	c12HTTPMu      sync.Mutex
	c12HTTPHandler http.HandlerFunc
	c12HTTPHits    int
)

func c12HTTPURL() string {
	c12HTTPOnce.Do(func() {
		c12HTTPSrv = httptest.NewServer(http.HandlerFunc(func(w http.ResponseWriter, r *http.Request) {
			c12HTTPMu.Lock()
			h := c12HTTPHandler
			c12HTTPHits++
			c12HTTPMu.Unlock()
			h(w, r)
		}))
	})
	return c12HTTPSrv.URL
}

func c12CallClass(err error) string {
	if err == nil {
		return "ok"
	}
	if e, ok := err.(thrift.TTransportException); ok {
		switch e.TypeId() {
		case frugal.TRANSPORT_EXCEPTION_REQUEST_TOO_LARGE:
			return "err:requestTooLarge"
		case frugal.TRANSPORT_EXCEPTION_RESPONSE_TOO_LARGE:
			return "err:responseTooLarge"
		case frugal.TRANSPORT_EXCEPTION_TIMED_OUT:
			return "timeout"
		}
		return "err:other"
	}
	if _, ok := err.(thrift.TApplicationException); ok {
		return "err:application"
	}
	return "err:other"
}

type c12CallOut struct {
	req, rep  []c12Op
	errp      [][]c12Op
	sent      bool
	sentBytes []byte
	replyLen  int
	follow    string // e2e: what went wrong with the follow-up normal call ("" = fine)
	res       string
	err       error
}

// c12RealCall performs one Call on the real client/server code.
func c12RealCall(kind, proto string, args, result *c12Shape, reqHdr, respHdr int, qlimit, rlimit uint) (out c12CallOut, outcome string) {
	if kind == "nats" {
		return c12E2ECall(proto, args, result, reqHdr, respHdr)
	}
	pf := frugal.NewFProtocolFactory(c12ProtoFactory(proto))
	srv := &c12Server{result: result, rlimit: rlimit, respHdr: respHdr, pf: pf}
	proc := frugal.NewFBaseProcessor()
	srv.base = frugal.NewFBaseProcessorFunction(proc.GetWriteMutex(), nil)
	proc.AddToProcessorMap("m", srv)
	fctx := frugal.NewFContext("c12")
	if reqHdr > 0 {
		fctx.AddRequestHeader("q", strings.Repeat("H", reqHdr))
	}
	fctx.SetTimeout(3 * time.Second)
	ctx := context.Background()
	// the op list of the request, in prepareMessage's order
	rec := &c12Recorder{}
	rp := pf.GetProtocol(rec)
	rp.WriteRequestHeader(fctx)
	rp.WriteMessageBegin(ctx, "m", thrift.CALL, 0)
	args.Write(ctx, rp)
	rp.WriteMessageEnd(ctx)
	rp.Flush(ctx)
	out.req = rec.ops

	var tr frugal.FTransport
	var loop *c12Loop
	hits0 := 0
	if kind == "http" {
		url := c12HTTPURL()
		c12HTTPMu.Lock()
		c12HTTPHandler = frugal.NewFrugalHandlerFunc(proc, pf)
		hits0 = c12HTTPHits
		c12HTTPMu.Unlock()
		tr = frugal.NewFHTTPTransportBuilder(&http.Client{}, url).WithRequestSizeLimit(qlimit).WithResponseSizeLimit(rlimit).Build()
		tr.Open()
	} else {
		loop = &c12Loop{qlimit: qlimit, rlimit: rlimit, proc: proc, pf: pf}
		tr = loop
	}
	outcome = guard(30*time.Second, func() {
		client := frugal.NewFStandardClient(frugal.NewFServiceProvider(tr, pf))
		res := &c12Shape{}
		out.err = client.Call(fctx, "m", args, res)
	})
	if outcome != "" {
		return out, outcome
	}
	out.res = c12CallClass(out.err)
	if kind == "http" {
		c12HTTPMu.Lock()
		out.sent = c12HTTPHits > hits0
		c12HTTPMu.Unlock()
	} else {
		out.sent = loop.sent != nil
		out.sentBytes = loop.sent
		out.replyLen = loop.replyLen
	}
	srv.mu.Lock()
	out.rep, out.errp = srv.repOps, srv.errSegs
	srv.mu.Unlock()
	return out, ""
}

func c12Sum(ops []c12Op) int {
	t := 0
	for _, o := range ops {
		t += o.size()
	}
	return t
}

func c12Segs(segs [][]c12Op) string {
	if len(segs) == 0 {
		return "-"
	}
	parts := make([]string, len(segs))
	for i, sg := range segs {
		parts[i] = hx(c12Encode(sg))
	}
	return strings.Join(parts, ",")
}

func c12YN(b bool) string {
	if b {
		return "y"
	}
	return "n"
}

type c12CallParams struct {
	kind, proto     string
	args, result    *c12Shape
	reqHdr, respHdr int
	qlimit, rlimit  uint
	whereQ, whereR  string
}

// tail: the generating parameters, carried on the line so that it can be re-run
// against the real code (the model ignores them).
func (p c12CallParams) tail() string {
	return fmt.Sprintf("%s %s %s %d %d", p.proto, p.args.String(), p.result.String(), p.reqHdr, p.respHdr)
}

func c12ParseShape(s string) *c12Shape {
	sh := &c12Shape{}
	if s == "-" || s == "" {
		return sh
	}
	for _, f := range strings.Split(s, ",") {
		i := strings.IndexByte(f, ':')
		if i < 0 {
			continue
		}
		n, _ := strconv.Atoi(f[i+1:])
		sh.fields = append(sh.fields, c12Field{f[:i], n})
	}
	return sh
}

// c12ReplayCall re-runs a `c12call` line from its generating parameters (the programs on
// the line are what the model is fed; header sizes may differ by a byte between runs because
// the op id has a different number of digits).
func c12ReplayCall(args []string) (string, bool) {
	if len(args) != 11 {
		return "bad-op", true
	}
	p := c12CallParams{kind: args[3], qlimit: c12ParseLimit(args[4]), rlimit: c12ParseLimit(args[5]), proto: args[6],
		args: c12ParseShape(args[7]), result: c12ParseShape(args[8])}
	p.reqHdr, _ = strconv.Atoi(args[9])
	p.respHdr, _ = strconv.Atoi(args[10])
	if (p.qlimit >= 1 && p.qlimit <= 3) || (p.rlimit >= 1 && p.rlimit <= 3) {
		return "bad-op", true
	}
	var line, real, bad string
	judge := func() (string, bool, string) {
		line, real, bad, _ = c12JudgeCall(p)
		return real, bad == "", bad
	}
	if c12IsE2EKind(p.kind) {
		retryTiming(judge)
	} else {
		judge()
	}
	_ = line // the run is determined by the generating parameters; the programs on the line feed the model
	return real, bad == ""
}

func init() { lineOps["c12call"] = c12ReplayCall }

// c12JudgeCall evaluates the property on one real call. Returns the driver line, the
// canonical real output and the verdict.
func c12JudgeCall(p c12CallParams) (line, real, bad string, assumed bool) {
	out, o := c12RealCall(p.kind, p.proto, p.args, p.result, p.reqHdr, p.respHdr, p.qlimit, p.rlimit)
	prog := func(ops []c12Op) string { return hx(c12Encode(ops)) }
	if o != "" {
		return fmt.Sprintf("c12call %s - - %s %d %d %s", prog(out.req), p.kind, p.qlimit, p.rlimit, p.tail()), o, "Call " + o, false
	}
	line = fmt.Sprintf("c12call %s %s %s %s %d %d %s", prog(out.req), prog(out.rep), c12Segs(out.errp), p.kind, p.qlimit, p.rlimit, p.tail())
	real = fmt.Sprintf("sent=%s res=%s", c12YN(out.sent), out.res)
	if out.follow != "" {
		bad = "after this call the same client and server: " + out.follow
		return
	}
	Q := 4 + c12Sum(out.req)
	if p.qlimit > 0 && uint(Q) > p.qlimit {
		if out.sent {
			bad = fmt.Sprintf("request of framed size %d over limit %d was transmitted", Q, p.qlimit)
		} else if out.res != "err:requestTooLarge" {
			bad = fmt.Sprintf("request of framed size %d over limit %d fails with %s (%v), not REQUEST_TOO_LARGE", Q, p.qlimit, out.res, out.err)
		}
		return
	}
	if !out.sent {
		bad = fmt.Sprintf("request of framed size %d within limit %d not transmitted: %s (%v)", Q, p.qlimit, out.res, out.err)
		return
	}
	if out.sentBytes != nil {
		rec := &c12Recorder{ops: out.req}
		// header order inside the frame may differ (Go map order): compare length and prefix
		if len(out.sentBytes) != Q || !bytes.Equal(out.sentBytes[:4], be32(uint32(Q-4))) {
			bad = fmt.Sprintf("transmitted %d bytes, size prefix %s; framed request has %d", len(out.sentBytes), hx(out.sentBytes[:4]), Q)
			return
		}
		_ = rec
	}
	if p.rlimit >= 4 && uint(out.replyLen) > p.rlimit {
		bad = fmt.Sprintf("the server publishes a reply of %d bytes, limit %d", out.replyLen, p.rlimit)
		return
	}
	R := 4 + c12Sum(out.rep)
	E := 4
	for _, sg := range out.errp {
		E += c12Sum(sg)
	}
	over := p.rlimit > 0 && uint(R) > p.rlimit
	if p.kind == "http" {
		over = p.rlimit > 0 && uint(R-4) > p.rlimit // the HTTP payload limit counts the unframed reply
	} else if over && uint(E) > p.rlimit {
		// assumption of the property as claimed: the error reply itself fits the limit
		return line, real, "", true
	}
	switch {
	case over && out.res != "err:responseTooLarge":
		bad = fmt.Sprintf("reply of framed size %d over limit %d reaches the caller as %s (%v), not RESPONSE_TOO_LARGE", R, p.rlimit, out.res, out.err)
	case !over && out.res != "ok":
		bad = fmt.Sprintf("reply of framed size %d within limit %d: caller gets %s (%v)", R, p.rlimit, out.res, out.err)
	}
	return
}

func c12CallCase(r *Rng, i int) {
	p := c12CallParams{kind: "loop", proto: c12Protos[r.Intn(len(c12Protos))]}
	if r.Chance(35) {
		p.kind = "http"
	}
	bigQ := r.Pick(0, 5, 40, 200, 1000, 5000)
	bigR := r.Pick(0, 5, 40, 200, 1000, 5000, 70000)
	p.args, p.whereQ = c12GenShape(r, bigQ)
	p.result, p.whereR = c12GenShape(r, bigR)
	if r.Chance(15) {
		p.reqHdr = r.Pick(1, 30, 300)
	}
	if r.Chance(15) {
		p.respHdr = r.Pick(1, 30, 300)
	}
	// sizes: record once without limits
	pf := c12ProtoFactory(p.proto)
	_ = pf
	probe, o := c12RealCall("loop", p.proto, p.args, p.result, p.reqHdr, p.respHdr, 0, 0)
	if o != "" || probe.res != "ok" {
		OracleFail("call without limits fails", map[string]interface{}{"op": "c12call", "got": o + probe.res})
		return
	}
	Q, R := 4+c12Sum(probe.req), 4+c12Sum(probe.rep)
	lim := func(framed int) uint {
		l := c12GenLimit(r, framed)
		if l >= 1 && l <= 3 { // the 1..3 class is driven on the buffer alone (ob/obn, child process)
			l = 0
		}
		if c12AboveInt64(p.kind, l) {
			l = 1<<63 - 1 - uint(r.Intn(3))
			Stat("call:excluded-known-class(limit-above-int64)")
		}
		return l
	}
	switch r.Intn(4) {
	case 0:
		p.qlimit = lim(Q)
	case 1:
		p.rlimit = lim(R)
		if p.kind == "http" {
			p.rlimit = lim(R - 4)
		}
	default:
		p.qlimit, p.rlimit = lim(Q), lim(R)
	}
	if c12KnownClass(p, R) {
		// known finding json-sticky-writer: keep the reply within the limit
		p.rlimit = uint(R + r.Intn(9))
		Stat("call:excluded-known-class(json-sticky-writer)")
	}
	line, real, bad, assumed := c12JudgeCall(p)
	Case(line, real)
	Stat("call:kind:" + p.kind)
	Stat("call:proto:" + p.proto)
	Stat("call:req-shape:" + p.whereQ)
	Stat("call:rep-shape:" + p.whereR)
	Stat("call:qlimit:" + c12LimitClass(p.qlimit, Q))
	Stat("call:rlimit:" + c12LimitClass(p.rlimit, R))
	Stat("call:outcome:" + strings.ReplaceAll(real, " ", ","))
	if assumed {
		Stat("call:outside-assumption(error reply does not fit the limit)")
	}
	if i%5 == 4 && i < 60 {
		Sample(map[string]interface{}{"op": "c12call", "kind": p.kind, "protocol": p.proto, "args": p.args.String(), "result": p.result.String(), "request_framed": Q, "reply_framed": R, "qlimit": p.qlimit, "rlimit": p.rlimit, "real": real})
	}
	if bad != "" {
		// smallest failing variant: drop the fields that are not needed
		OracleFail("size limit not enforced/reported exactly at the client API", map[string]interface{}{"op": "c12call", "line": line, "got": real, "why": bad,
			"kind": p.kind, "protocol": p.proto, "args": p.args.String(), "result": p.result.String(), "qlimit": p.qlimit, "rlimit": p.rlimit})
	}
}

// ---------- known finding: buffered (JSON) encoder swallows the error reply ----------

const c12KnownID = "json-sticky-writer"

// c12KnownClass: NATS-shaped server, JSON protocol, reply over the server-side limit.
func c12KnownClass(p c12CallParams, replyFramed int) bool {
	return (p.kind == "loop" || p.kind == "nats") && p.proto == "json" && p.rlimit > 0 && uint(replyFramed) > p.rlimit
}

// c12KnownWitness replays known/c12_json_sticky: Known(...) while it still fails.
func c12KnownWitness() {
	p := c12CallParams{kind: "loop", proto: "json", args: c12ParseShape("string:5"), result: c12ParseShape("string:200"), rlimit: 150}
	_, real, bad, _ := c12JudgeCall(p)
	if bad != "" {
		Known(c12KnownID, "server-side RESPONSE_TOO_LARGE is not reported with TJSONProtocol: the reply is found too large at Flush, the protocol's bufio.Writer keeps that error and drops everything sendError writes through it; the published reply holds only the response header and the caller fails with a protocol error ("+real+") instead of transport exception 101")
	}
}

// ---------- known finding: an HTTP limit above MaxInt64 ----------

const c12KnownLimitID = "limit-above-int64"

// c12AboveInt64: the HTTP transport / handler with a limit the handler's int64 (the client's
// int conversion) cannot hold. VERIF_C12_NOEXCL=1 switches the exclusion off (to re-establish it).
func c12AboveInt64(kind string, limit uint) bool {
	return strings.HasPrefix(kind, "http") && limit > 1<<63-1 && os.Getenv("VERIF_C12_NOEXCL") == ""
}

// c12KnownLimitWitness replays known/c12_limit_above_int64: Known(...) while it still fails.
func c12KnownLimitWitness() {
	sh := func(s string) *c12Shape { return c12ParseShape(s) }
	_, r1, b1, _ := c12JudgeCall(c12CallParams{kind: "http", proto: "binary", args: sh("string:5"), result: sh("string:7"), rlimit: 1 << 63})
	_, r2, b2, _ := c12JudgeCall(c12CallParams{kind: "http", proto: "binary", args: sh("string:5"), result: sh("string:7"), qlimit: 1 << 63})
	if b1 != "" || b2 != "" {
		Known(c12KnownLimitID, "HTTP limits above MaxInt64 (the client's limits are uint): WithResponseSizeLimit(2^63) -> the handler answers every call 400 'x-frugal-payload-limit header not an integer' ("+r1+"); WithRequestSizeLimit(2^63) -> len(data) > int(limit) is always true, every request is rejected as REQUEST_TOO_LARGE ("+r2+")")
	}
}
