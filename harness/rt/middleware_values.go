package main

// C16, the VALUE dimension: what flows through Invoke and the middleware are
// []interface{} — every element has a dynamic type and a nil-ness, and generated
// code consumes Results with type assertions. Op "mwv": a proxied function of a
// real declared Go signature func(FContext, A) (R, error) / func(FContext, A) error
// for every kind the emitted code passes (pointer-to-struct, list, map, binary,
// primitives, string), returning nil / empty / zero / non-zero values and every
// kind of error (nil, plain, declared exception, typed-nil *Exc as error), behind
// observing or replacing middleware at every attachment point; the middleware
// record reflect.TypeOf / IsNil of every element they see; the final consumer is
// what generated code does (processor: ret[0].(R); client; void).

import (
	"encoding/hex"
	"errors"
	"fmt"
	"reflect"
	"sort"
	"strings"
	"sync"

	frugal "github.com/Workiva/frugal/lib/go"
)

type c16Thing struct{ N int32 }

// c16Exc is a declared exception: a struct pointer implementing error.
type c16Exc struct{ Msg string }

func (e *c16Exc) Error() string {
	if e == nil {
		return "nil-exc"
	}
	return "exc:" + e.Msg
}

// c16Desc renders a value held in an interface{}: "nil" for the untyped nil, else
// <dynamic type>#nil or <dynamic type>#<contents>.
func c16Desc(v interface{}) string {
	if v == nil {
		return "nil"
	}
	return c16DescRV(reflect.TypeOf(v), reflect.ValueOf(v))
}

func c16DescRV(t reflect.Type, rv reflect.Value) string {
	ts := strings.ReplaceAll(t.String(), "main.", "")
	switch rv.Kind() {
	case reflect.Ptr, reflect.Slice, reflect.Map, reflect.Interface, reflect.Func, reflect.Chan:
		if rv.IsNil() {
			return ts + "#nil"
		}
	}
	switch x := rv.Interface().(type) {
	case *c16Thing:
		return fmt.Sprintf("%s#{%d}", ts, x.N)
	case *c16Exc:
		return ts + "#{" + x.Msg + "}"
	case []string:
		return ts + "#[" + strings.Join(x, "+") + "]"
	case map[string]int32:
		var ks []string
		for k, v := range x {
			ks = append(ks, fmt.Sprintf("%s=%d", k, v))
		}
		sort.Strings(ks)
		return ts + "#{" + strings.Join(ks, "+") + "}"
	case []byte:
		return ts + "#" + hex.EncodeToString(x)
	case error:
		return ts + "#" + x.Error()
	case frugal.FContext:
		return "ctx"
	}
	return fmt.Sprintf("%s#%v", ts, rv.Interface())
}

// c16Val: the value for (kind, code), with its Go type; nil = no such code.
func c16Val(kind, code string) interface{} {
	switch kind + code {
	case "ptrn":
		return (*c16Thing)(nil)
	case "ptrz":
		return &c16Thing{}
	case "ptrv":
		return &c16Thing{N: 7}
	case "listn":
		return []string(nil)
	case "liste":
		return []string{}
	case "listv":
		return []string{"a", "b"}
	case "mapn":
		return map[string]int32(nil)
	case "mape":
		return map[string]int32{}
	case "mapv":
		return map[string]int32{"k": 1}
	case "binn":
		return []byte(nil)
	case "bine":
		return []byte{}
	case "binv":
		return []byte{0, 255}
	case "i32z":
		return int32(0)
	case "i32v":
		return int32(42)
	case "i64z":
		return int64(0)
	case "i64v":
		return int64(-9)
	case "boolz":
		return false
	case "boolv":
		return true
	case "dblz":
		return float64(0)
	case "dblv":
		return float64(1.5)
	case "strz":
		return ""
	case "strv":
		return "s"
	}
	return nil
}

var c16KindCodes = map[string][]string{
	"ptr": {"n", "z", "v"}, "list": {"n", "e", "v"}, "map": {"n", "e", "v"}, "bin": {"n", "e", "v"},
	"i32": {"z", "v"}, "i64": {"z", "v"}, "bool": {"z", "v"}, "dbl": {"z", "v"}, "str": {"z", "v"},
}
var c16Kinds = []string{"ptr", "list", "map", "bin", "i32", "i64", "bool", "dbl", "str"}

// c16ErrVal: - nil; p plain error; x declared exception; t a nil *c16Exc as error.
func c16ErrVal(code string) (error, bool) {
	switch code {
	case "-":
		return nil, true
	case "p":
		return errors.New("P"), true
	case "x":
		return &c16Exc{"boom"}, true
	case "t":
		var e *c16Exc
		return e, true
	}
	return nil, false
}

// ---------- recorder ----------

type c16VEv struct {
	kind  byte // e enter, b base (what the function received), h what the function returned, x exit
	label int
	vals  []string // descriptions of the non-context arguments / of all results
	ctx   string
}

type c16VRec struct {
	mu  sync.Mutex
	evs []c16VEv
}

func (r *c16VRec) add(e c16VEv) { r.mu.Lock(); r.evs = append(r.evs, e); r.mu.Unlock() }

func c16DescAll(l []interface{}) []string {
	out := make([]string, len(l))
	for i, v := range l {
		out[i] = c16Desc(v)
	}
	return out
}

// c16DescStatic describes a value by its DECLARED type (the ground truth of what a
// function returned, taken before anything is boxed by the library).
func c16DescStatic[T any](v T) string {
	rv := reflect.ValueOf(&v).Elem()
	if rv.Kind() == reflect.Interface {
		if rv.IsNil() {
			return "nil"
		}
		return c16DescRV(rv.Elem().Type(), rv.Elem())
	}
	return c16DescRV(rv.Type(), rv)
}

// ---------- proxied functions of real declared signatures ----------

func c16VH[A any, R any](rec *c16VRec, ret interface{}, err error) func(frugal.FContext, A) (R, error) {
	return func(ctx frugal.FContext, a A) (R, error) {
		rec.add(c16VEv{kind: 'b', vals: []string{c16DescStatic(a)}, ctx: c16Desc(ctx)})
		var r R
		if ret != nil {
			r = ret.(R)
		}
		rec.add(c16VEv{kind: 'h', vals: []string{c16DescStatic(r), c16DescStatic(err)}})
		return r, err
	}
}

func c16VHVoid[A any](rec *c16VRec, err error) func(frugal.FContext, A) error {
	return func(ctx frugal.FContext, a A) error {
		rec.add(c16VEv{kind: 'b', vals: []string{c16DescStatic(a)}, ctx: c16Desc(ctx)})
		rec.add(c16VEv{kind: 'h', vals: []string{c16DescStatic(err)}})
		return err
	}
}

func c16VHR[A any](rKind string, rec *c16VRec, ret interface{}, err error) interface{} {
	switch rKind {
	case "ptr":
		return c16VH[A, *c16Thing](rec, ret, err)
	case "list":
		return c16VH[A, []string](rec, ret, err)
	case "map":
		return c16VH[A, map[string]int32](rec, ret, err)
	case "bin":
		return c16VH[A, []byte](rec, ret, err)
	case "i32":
		return c16VH[A, int32](rec, ret, err)
	case "i64":
		return c16VH[A, int64](rec, ret, err)
	case "bool":
		return c16VH[A, bool](rec, ret, err)
	case "dbl":
		return c16VH[A, float64](rec, ret, err)
	case "str":
		return c16VH[A, string](rec, ret, err)
	case "void":
		return c16VHVoid[A](rec, err)
	}
	return nil
}

func c16VHandler(aKind, rKind string, rec *c16VRec, ret interface{}, err error) interface{} {
	switch aKind {
	case "ptr":
		return c16VHR[*c16Thing](rKind, rec, ret, err)
	case "list":
		return c16VHR[[]string](rKind, rec, ret, err)
	case "map":
		return c16VHR[map[string]int32](rKind, rec, ret, err)
	case "bin":
		return c16VHR[[]byte](rKind, rec, ret, err)
	case "i32":
		return c16VHR[int32](rKind, rec, ret, err)
	case "i64":
		return c16VHR[int64](rKind, rec, ret, err)
	case "bool":
		return c16VHR[bool](rKind, rec, ret, err)
	case "dbl":
		return c16VHR[float64](rKind, rec, ret, err)
	case "str":
		return c16VHR[string](rKind, rec, ret, err)
	}
	return nil
}

// ---------- the final consumers, as generated code writes them ----------

func c16ConsumeProc[R any](ret frugal.Results) string {
	if len(ret) != 2 {
		panic(fmt.Sprintf("Middleware returned %d arguments, expected 2", len(ret)))
	}
	var err error
	if ret[1] != nil {
		err = ret[1].(error)
	}
	if err != nil {
		return "errPath"
	}
	var retval R = ret[0].(R)
	_ = retval
	return "success"
}

func c16ConsumeClient[R any](ret frugal.Results) string {
	if len(ret) != 2 {
		panic(fmt.Sprintf("Middleware returned %d arguments, expected 2", len(ret)))
	}
	var r R
	var err error
	if ret[0] != nil {
		r = ret[0].(R)
	}
	if ret[1] != nil {
		err = ret[1].(error)
	}
	_, _ = r, err
	return "returned"
}

func c16ConsumeVoid(ret frugal.Results) string {
	if len(ret) != 1 {
		panic(fmt.Sprintf("Middleware returned %d arguments, expected 1", len(ret)))
	}
	var err error
	if ret[0] != nil {
		err = ret[0].(error)
	}
	if err != nil {
		return "errPath"
	}
	return "success"
}

func c16ConsumeR[R any](client bool, ret frugal.Results) string {
	if client {
		return c16ConsumeClient[R](ret)
	}
	return c16ConsumeProc[R](ret)
}

func c16Consume(rKind string, client bool, ret frugal.Results) (out string) {
	defer func() {
		if r := recover(); r != nil {
			out = "panic"
		}
	}()
	switch rKind {
	case "ptr":
		return c16ConsumeR[*c16Thing](client, ret)
	case "list":
		return c16ConsumeR[[]string](client, ret)
	case "map":
		return c16ConsumeR[map[string]int32](client, ret)
	case "bin":
		return c16ConsumeR[[]byte](client, ret)
	case "i32":
		return c16ConsumeR[int32](client, ret)
	case "i64":
		return c16ConsumeR[int64](client, ret)
	case "bool":
		return c16ConsumeR[bool](client, ret)
	case "dbl":
		return c16ConsumeR[float64](client, ret)
	case "str":
		return c16ConsumeR[string](client, ret)
	case "void":
		return c16ConsumeVoid(ret)
	}
	return "bad"
}

// ---------- middleware ----------

// Value-mode specs: o observe; R<c> replace result 0 by the declared kind's value <c>;
// U replace result 0 by the untyped nil; A<c> replace the argument; E<c> replace the error.
type c16VSpec struct {
	label int
	spec  string
}

func c16VSpecValid(spec, aKind, rKind string) bool {
	switch {
	case spec == "o":
		return true
	case spec == "U":
		return rKind != "void"
	case len(spec) == 2 && spec[0] == 'R':
		return rKind != "void" && c16Val(rKind, spec[1:]) != nil
	case len(spec) == 2 && spec[0] == 'A':
		return c16Val(aKind, spec[1:]) != nil
	case len(spec) == 2 && spec[0] == 'E':
		_, ok := c16ErrVal(spec[1:])
		return ok
	}
	return false
}

// c16VPost: what the middleware returns for what it got (on descriptions — used by the oracle).
func c16VPostDesc(spec, rKind string, got []string) []string {
	out := append([]string{}, got...)
	switch {
	case spec == "U":
		out[0] = "nil"
	case spec[0] == 'R':
		out[0] = c16Desc(c16Val(rKind, spec[1:]))
	case spec[0] == 'E':
		e, _ := c16ErrVal(spec[1:])
		out[len(out)-1] = c16DescStatic(e)
	}
	return out
}

func c16VPreDesc(spec, aKind string, got []string) []string {
	if spec[0] == 'A' {
		return []string{c16Desc(c16Val(aKind, spec[1:]))}
	}
	return got
}

func c16VMW(rec *c16VRec, label int, spec, aKind, rKind string, inPlace bool) frugal.ServiceMiddleware {
	return func(next frugal.InvocationHandler) frugal.InvocationHandler {
		return func(service reflect.Value, method reflect.Method, args frugal.Arguments) frugal.Results {
			rec.add(c16VEv{kind: 'e', label: label, vals: c16DescAll(args[1:]), ctx: c16Desc(args[0])})
			if spec[0] == 'A' {
				if !inPlace {
					args = append(frugal.Arguments{}, args...)
				}
				args[1] = c16Val(aKind, spec[1:])
			}
			results := next(service, method, args)
			rec.add(c16VEv{kind: 'x', label: label, vals: c16DescAll(results)})
			if spec == "o" || spec[0] == 'A' {
				return results
			}
			if !inPlace {
				results = append(frugal.Results{}, results...)
			}
			switch {
			case spec == "U":
				results[0] = nil
			case spec[0] == 'R':
				results[0] = c16Val(rKind, spec[1:])
			case spec[0] == 'E':
				e, _ := c16ErrVal(spec[1:])
				if e == nil {
					results.SetError(nil)
				} else {
					results.SetError(e)
				}
			}
			return results
		}
	}
}

func c16VBuild(rec *c16VRec, k int, specs []string, aKind, rKind string, extra int, style uint64) ([]frugal.ServiceMiddleware, []c16VSpec) {
	l := make([]frugal.ServiceMiddleware, 0, len(specs)+extra)
	var decl []c16VSpec
	for j, s := range specs {
		l = append(l, c16VMW(rec, k+j, s, aKind, rKind, style>>(uint(k+j)%60)&1 == 1))
		decl = append(decl, c16VSpec{k + j, s})
	}
	return l, decl
}

// ---------- oracle (independent of the model) ----------

// decl: innermost first. Every layer sees exactly what the next outer one passed in
// and what the next inner one returned, by dynamic type, nil-ness and contents; the
// function received the arguments with their types; the innermost middleware (or the
// caller) got exactly what the function returned; the consumer does not panic unless a
// middleware put the untyped nil into a value position.
func c16VOracle(decl []c16VSpec, evs []c16VEv, aKind, rKind string, argDesc string, final []string, consumed string) string {
	n := len(decl)
	if len(evs) != 2*n+2 {
		return fmt.Sprintf("%d events for %d middleware", len(evs), n)
	}
	cur := []string{argDesc}
	for j := 0; j < n; j++ {
		d, e := decl[n-1-j], evs[j]
		if e.kind != 'e' || e.label != d.label {
			return fmt.Sprintf("position %d: want enter %d", j, d.label)
		}
		if e.ctx != "ctx" {
			return fmt.Sprintf("middleware %d did not get the FContext first", d.label)
		}
		if strings.Join(e.vals, "/") != strings.Join(cur, "/") {
			return fmt.Sprintf("middleware %d saw argument %s, the outer side passed %s", d.label, strings.Join(e.vals, "/"), strings.Join(cur, "/"))
		}
		cur = c16VPreDesc(d.spec, aKind, cur)
	}
	b, h := evs[n], evs[n+1]
	if b.kind != 'b' || h.kind != 'h' {
		return "the proxied function did not run once in the middle"
	}
	if b.ctx != "ctx" || strings.Join(b.vals, "/") != strings.Join(cur, "/") {
		return fmt.Sprintf("the function received %s, the innermost side passed %s", strings.Join(b.vals, "/"), strings.Join(cur, "/"))
	}
	res := h.vals // what the function returned, by declared type
	injected := false
	for j := 0; j < n; j++ {
		d, e := decl[j], evs[n+2+j]
		if e.kind != 'x' || e.label != d.label {
			return fmt.Sprintf("position %d: want exit %d", n+2+j, d.label)
		}
		if strings.Join(e.vals, " ") != strings.Join(res, " ") {
			return fmt.Sprintf("middleware %d got (%s) back, the inner side returned (%s)", d.label, strings.Join(e.vals, ", "), strings.Join(res, ", "))
		}
		res = c16VPostDesc(d.spec, rKind, res)
		if d.spec == "U" {
			injected = true
		} else if d.spec[0] == 'R' {
			injected = false
		}
	}
	if strings.Join(final, " ") != strings.Join(res, " ") {
		return fmt.Sprintf("the caller got (%s), the outermost side returned (%s)", strings.Join(final, ", "), strings.Join(res, ", "))
	}
	if consumed == "panic" && !injected {
		return fmt.Sprintf("generated-style consumer panicked on (%s), which a function of the declared signature can return", strings.Join(final, ", "))
	}
	return ""
}

func c16VRender(evs []c16VEv, final []string, consumed string) string {
	var parts []string
	for _, e := range evs {
		switch e.kind {
		case 'e':
			parts = append(parts, fmt.Sprintf("e%d:%s", e.label, strings.Join(e.vals, "/")))
		case 'b':
			parts = append(parts, "b:"+strings.Join(e.vals, "/"))
		case 'x':
			parts = append(parts, fmt.Sprintf("x%d:%s", e.label, strings.Join(e.vals, "/")))
		}
	}
	return strings.Join(parts, ";") + " R=" + strings.Join(final, "/") + " consume=" + consumed
}

// ---------- op mwv ----------

// mwv <site> <aKind>:<aCode> <rKind>:<rCode> <err> <specs1> <specs2>
// site method:     NewMethod(list specs1) + Method.AddMiddleware(specs2), processor-style consumer
//
//	processor:  NewFBaseProcessorFunction(NewMethod(ctor specs1)) + AddMiddleware(specs2) + InvokeMethod
//	client / publisher / subscriber: generated wiring append(ctor specs1, provider(specs2).GetMiddleware()...)
//
// rKind void (rCode -) = a function returning only error (void methods, publish, subscriber callbacks).
func realMWV(args []string) (string, bool) {
	if len(args) != 6 {
		return "bad-op", true
	}
	site, errCode, s1, s2 := args[0], args[3], c16Specs(args[4]), c16Specs(args[5])
	ak := strings.SplitN(args[1], ":", 2)
	rk := strings.SplitN(args[2], ":", 2)
	if len(ak) != 2 || len(rk) != 2 {
		return "bad-op", true
	}
	aKind, rKind := ak[0], rk[0]
	argV := c16Val(aKind, ak[1])
	var retV interface{}
	if rKind == "void" {
		if rk[1] != "-" {
			return "bad-op", true
		}
	} else if retV = c16Val(rKind, rk[1]); retV == nil {
		return "bad-op", true
	}
	errV, ok := c16ErrVal(errCode)
	if argV == nil || !ok {
		return "bad-op", true
	}
	for _, s := range append(append([]string{}, s1...), s2...) {
		if !c16VSpecValid(s, aKind, rKind) {
			return "bad-op", true
		}
	}
	switch site {
	case "method", "processor", "client":
	case "publisher", "subscriber":
		if rKind != "void" {
			return "bad-op", true
		}
	default:
		return "bad-op", true
	}
	rec := &c16VRec{}
	fn := c16VHandler(aKind, rKind, rec, retV, errV)
	l1, decl := c16VBuild(rec, 0, s1, aKind, rKind, c16Extra, c16Style)
	l2, d2 := c16VBuild(rec, len(s1), s2, aKind, rKind, 0, c16Style)
	decl = append(decl, d2...)
	var out string
	fine := true
	o := c16Guard(func() {
		h := &c16Handler{rec: &c16Rec{}}
		var invoke func(frugal.Arguments) frugal.Results
		switch site {
		case "method":
			m := frugal.NewMethod(h, fn, "handle", l1)
			for _, a := range l2 {
				m.AddMiddleware(a)
			}
			invoke = m.Invoke
		case "processor":
			var mu sync.Mutex
			pf := frugal.NewFBaseProcessorFunction(&mu, frugal.NewMethod(h, fn, "handle", l1))
			for _, a := range l2 {
				pf.AddMiddleware(a)
			}
			invoke = func(a frugal.Arguments) frugal.Results { return pf.InvokeMethod(a) }
		case "client":
			p := frugal.NewFServiceProvider(nil, binFactory, l2...)
			mw := func(provider *frugal.FServiceProvider, middleware ...frugal.ServiceMiddleware) []frugal.ServiceMiddleware {
				middleware = append(middleware, provider.GetMiddleware()...)
				return middleware
			}(p, l1...)
			invoke = frugal.NewMethod(h, fn, "handle", mw).Invoke
		case "publisher":
			p := frugal.NewFScopeProvider(nil, nil, binFactory, l2...)
			mw := func(provider *frugal.FScopeProvider, middleware ...frugal.ServiceMiddleware) []frugal.ServiceMiddleware {
				middleware = append(middleware, provider.GetMiddleware()...)
				return middleware
			}(p, l1...)
			invoke = frugal.NewMethod(h, fn, "handle", mw).Invoke
		case "subscriber":
			p := frugal.NewFScopeProvider(nil, nil, binFactory, l2...)
			l := func(provider *frugal.FScopeProvider, middleware ...frugal.ServiceMiddleware) *c16GenSub {
				middleware = c16CtorAppend(c16GenForm(), middleware, provider.GetMiddleware())
				return &c16GenSub{provider: provider, middleware: middleware}
			}(p, l1...)
			invoke = frugal.NewMethod(l, fn, "SubscribeOp", l.middleware).Invoke
		}
		ret := invoke(frugal.Arguments{frugal.NewFContext(""), argV})
		final := c16DescAll(ret)
		consumed := c16Consume(rKind, site == "client", ret)
		out = "ok " + c16VRender(rec.evs, final, consumed)
		if why := c16VOracle(decl, rec.evs, aKind, rKind, c16Desc(argV), final, consumed); why != "" {
			fine = false
			out += " !" + strings.ReplaceAll(why, " ", "_")
		}
	})
	if o != "" {
		return o, false
	}
	return out, fine
}

// ---------- generation ----------

func c16GenVSpecs(r *Rng, max int, aKind, rKind string) []string {
	n := r.Intn(max + 1)
	out := make([]string, n)
	for i := range out {
		switch k := r.Intn(10); {
		case k < 5:
			out[i] = "o"
		case k < 7 && rKind != "void":
			cs := c16KindCodes[rKind]
			out[i] = "R" + cs[r.Intn(len(cs))]
		case k == 7 && rKind != "void":
			out[i] = "U"
		case k == 8:
			cs := c16KindCodes[aKind]
			out[i] = "A" + cs[r.Intn(len(cs))]
		default:
			out[i] = "E" + []string{"-", "p", "x", "t"}[r.Intn(4)]
		}
	}
	return out
}

func c16GenMWV(r *Rng) {
	site := []string{"method", "processor", "client", "publisher", "subscriber"}[r.Intn(5)]
	aKind := c16Kinds[r.Intn(len(c16Kinds))]
	ac := c16KindCodes[aKind]
	rKind, rCode := "void", "-"
	if site != "publisher" && site != "subscriber" && !r.Chance(10) {
		rKind = c16Kinds[r.Intn(len(c16Kinds))]
		if r.Chance(35) {
			rKind = "ptr"
		}
		rc := c16KindCodes[rKind]
		rCode = rc[r.Intn(len(rc))]
	}
	errCode := "-"
	if r.Chance(35) {
		errCode = []string{"p", "x", "t"}[r.Intn(3)]
	}
	s1, s2 := c16GenVSpecs(r, 3, aKind, rKind), c16GenVSpecs(r, 3, aKind, rKind)
	Stat("mwv:site=" + site)
	Stat("mwv:result=" + rKind + ":" + rCode)
	Stat("mwv:arg=" + aKind)
	Stat("mwv:err=" + errCode)
	Stat(fmt.Sprintf("mwv:len=%d", len(s1)+len(s2)))
	c16Emit("mwv", []string{site, aKind + ":" + ac[r.Intn(len(ac))], rKind + ":" + rCode, errCode, c16SpecsArg(s1), c16SpecsArg(s2)}, realMWV)
}

func init() {
	lineOps["mwv"] = realMWV
}
