package main

// C05 (e) — the HTTP CLIENT response path: FStandardClient.Call / .Oneway over the REAL fHTTPTransport
// (lib/go/http_transport.go Request/makeRequest) against an in-process HTTP server that answers with
// generated responses.
//
// Real code under test: FStandardClient.Call/Oneway → fHTTPTransport.Request → makeRequest (net/http round
// trip, status 413 → RESPONSE_TOO_LARGE, status ≥ 300 → transport exception, base64 decode) → the frame-size
// cases of Request (fewer than 4 bytes, exactly 4 bytes zero / non-zero, otherwise the bytes behind the
// prefix — the prefix itself is never compared with the length) → processReply (as in recv_client.go).
// One transport and one client serve ALL cases of a run: every case is "the next call on the same client".
//
// Property oracle (independent of the model): Call/Oneway never panic (recover in the harness) and return
// within the watchdog; Call returns nil only for a response that is 2xx, valid base64, longer than 4 bytes and
// whose bytes behind the prefix are a REPLY for the method with a readable result; everything else is an
// error; `_opid` is never overwritten; a well-formed response is accepted right after any other.
//
// Op:  htc <c|o> <limit> <method> <status> <body> <decoded|!>
//        body = the raw HTTP body; decoded = what base64.StdEncoding makes of it (`!` = not base64) — computed by
//        the harness (Go's base64 package is environment) and the only form the model sees.
//      output  call:   `req:<class>` | `stage=… hdrs=…` (as op prp)      oneway: `ok` | `req:<class>`

import (
	"encoding/base64"
	"fmt"
	"io"
	"net/http"
	"net/http/httptest"
	"strconv"
	"strings"
	"sync"
	"time"

	frugal "github.com/Workiva/frugal/lib/go"
	"github.com/apache/thrift/lib/go/thrift"
)

type htcServer struct {
	mu     sync.Mutex
	status int
	body   []byte
	limit  string // X-Frugal-Payload-Limit of the last request
	srv    *httptest.Server
}

var (
	htcMu   sync.Mutex
	htcSrv  *htcServer
	htcCli  = map[uint]*htcClient{}
	htcHTTP = &http.Client{}
)

type htcClient struct {
	tr     frugal.FTransport
	client *frugal.FStandardClient
	st     *spyState
}

func htcSetup(limit uint) (*htcServer, *htcClient) {
	if htcSrv == nil {
		s := &htcServer{status: 200}
		s.srv = httptest.NewServer(http.HandlerFunc(func(w http.ResponseWriter, r *http.Request) {
			io.Copy(io.Discard, r.Body)
			s.mu.Lock()
			st, b := s.status, s.body
			s.limit = r.Header.Get("x-frugal-payload-limit")
			s.mu.Unlock()
			w.Header().Set("Content-Type", "application/x-frugal")
			w.WriteHeader(st)
			w.Write(b)
		}))
		htcSrv = s
	}
	c := htcCli[limit]
	if c == nil {
		c = &htcClient{st: &spyState{}}
		b := frugal.NewFHTTPTransportBuilder(htcHTTP, htcSrv.srv.URL)
		if limit > 0 {
			b = b.WithResponseSizeLimit(limit)
		}
		c.tr = b.Build()
		c.tr.Open()
		pf := frugal.NewFProtocolFactory(&spyFactory{inner: thrift.NewTBinaryProtocolFactoryConf(nil), st: c.st})
		c.client = frugal.NewFStandardClient(frugal.NewFServiceProvider(c.tr, pf))
		htcCli[limit] = c
	}
	return htcSrv, c
}

// bodyless: statuses for which net/http sends no body.
func htcEffectiveBody(status int, body []byte) []byte {
	if status == 204 || status == 304 {
		return nil
	}
	return body
}

func decodedArg(body []byte) (string, []byte, bool) {
	d, err := base64.StdEncoding.DecodeString(string(body))
	if err != nil {
		return "!", nil, false
	}
	return hx(d), d, true
}

type htcRun struct {
	out  string
	viol []string
}

func realHTC(oneway bool, limit uint, method string, status int, body []byte) htcRun {
	htcMu.Lock()
	defer htcMu.Unlock()
	srv, c := htcSetup(limit)
	body = htcEffectiveBody(status, body)
	srv.mu.Lock()
	srv.status, srv.body = status, body
	srv.mu.Unlock()
	_, dec, isB64 := decodedArg(body)
	acceptable := status >= 200 && status < 300 && isB64 && len(dec) > 4
	r := htcCallAndReport(c, oneway, method, 10*time.Second, acceptable)
	if strings.HasPrefix(r.out, "panic") || r.out == "blocked" {
		return r
	}
	srv.mu.Lock()
	gotLimit := srv.limit
	srv.mu.Unlock()
	if want := ""; true {
		if limit > 0 {
			want = strconv.FormatUint(uint64(limit), 10)
		}
		if gotLimit != want {
			r.viol = append(r.viol, fmt.Sprintf("the request announced the response limit %q, the transport was built with %d", gotLimit, limit))
		}
	}
	return r
}

// htcCallAndReport makes one call on the client (recover + watchdog) and reports what came of it.
// acceptable = the response is one from which a reply may be read (2xx, base64, longer than its prefix).
func htcCallAndReport(c *htcClient, oneway bool, method string, timeout time.Duration, acceptable bool) htcRun {
	*c.st = spyState{}
	fctx := frugal.NewFContext("cid")
	fctx.SetTimeout(timeout)
	opidBefore, _ := fctx.RequestHeader("_opid")
	var r htcRun
	var err error
	res := &c05PingResult{}
	what := "FStandardClient.Call"
	if oneway {
		what = "FStandardClient.Oneway"
	}
	if o := guard(20*time.Second, func() {
		if oneway {
			err = c.client.Oneway(fctx, method, &c05PingArgs{S: "x"})
		} else {
			err = c.client.Call(fctx, method, &c05PingArgs{S: "x"}, res)
		}
	}); o != "" {
		r.out = o
		r.viol = append(r.viol, what+" over the HTTP transport "+o+" on a received response")
		if o == "blocked" { // the goroutine is still inside the client: start over with fresh ones
			htcCli = map[uint]*htcClient{}
		}
		return r
	}
	if oneway {
		if err == nil {
			r.out = "ok"
		} else {
			r.out = "req:" + strings.TrimPrefix(errClass(err), "err:")
		}
		if c.st.protocols > 1 {
			r.viol = append(r.viol, "a one-way call read a reply")
		}
		return r
	}
	if c.st.protocols < 2 { // processReply was not entered: the transport refused the response
		r.out = "req:" + strings.TrimPrefix(errClass(err), "err:")
		if err == nil {
			r.viol = append(r.viol, "Call returned nil although no reply was handed to the client")
		}
		if acceptable {
			r.viol = append(r.viol, "a 2xx response with a frame behind its 4-byte prefix was refused by the transport: "+errClass(err))
		}
		return r
	}
	stage, hdrs, viol := classifyReply(c.st, method, err, fctx, opidBefore)
	r.viol = append(r.viol, viol...)
	if !acceptable {
		r.viol = append(r.viol, "a reply was read from a response that is not a 2xx base64 frame longer than its prefix")
	}
	if err == nil && stage != "reply" {
		r.viol = append(r.viol, "Call returned nil at stage "+stage)
	}
	r.out = fmt.Sprintf("stage=%s hdrs=%s", stage, hdrs)
	return r
}

// ---------- generator ----------

func b64(b []byte) []byte { return []byte(base64.StdEncoding.EncodeToString(b)) }

func genHTTPResponse(r *Rng, method string) (status int, body []byte, why string) {
	status = r.Pick(200, 200, 200, 200, 200, 200, 201, 204, 299, 300, 400, 404, 413, 500, 503)
	opid := strconv.Itoa(r.Intn(1 << 20))
	good := c05Reply(method, thrift.REPLY, opid, smallHeaders(r), resultBody("pong"))
	switch r.Intn(16) {
	case 0:
		return status, b64(framed(good)), "valid"
	case 1: // fewer than 4 bytes
		return status, b64(r.Bytes(r.Intn(4))), "short"
	case 2: // exactly the 4-byte prefix, zero: the answer a server gives to a one-way
		return status, b64([]byte{0, 0, 0, 0}), "four-zero"
	case 3: // exactly 4 bytes, non-zero
		return status, b64(be32(uint32(r.Pick(1, 5, 255, 1<<24, 1<<31, 1<<32-1)))), "four-nonzero"
	case 4: // wrong prefix (short / long / huge / zero) in front of a well-formed reply
		v := r.Pick(0, 1, len(good)-1, len(good)+1, len(good)+100, framedMax, 1<<31-1, 1<<31, 1<<32-1)
		return status, b64(append(be32(uint32(v)), good...)), "wrong-prefix"
	case 5: // correct prefix, arbitrary bytes behind it
		g := tameHead(r.Bytes(1 + r.Intn(40)))
		return status, b64(framed(g)), "garbage-frame"
	case 6: // any prefix, arbitrary bytes
		g := tameHead(r.Bytes(1 + r.Intn(40)))
		return status, b64(append(r.Bytes(4), g...)), "garbage-prefix-and-frame"
	case 7: // a mutated reply (all the mutations of c05cli) behind a correct prefix
		_, reply, why := genReply(r)
		return status, b64(framed(tameHead(reply))), "reply:" + why
	case 8: // not base64
		bad := [][]byte{[]byte("!!!!"), []byte("AAAAAA="), []byte("AAAAA"), []byte("AAAA AAAA"), []byte("AAAA\x00"), r.Bytes(1 + r.Intn(20)), []byte("=AAA"), []byte("AA==AA==")}
		return status, bad[r.Intn(len(bad))], "not-base64"
	case 9: // empty body
		return status, nil, "empty"
	case 10: // base64 with line breaks (Go's decoder skips \r and \n)
		e := b64(framed(good))
		k := r.Intn(len(e) + 1)
		return status, append(append(append([]byte{}, e[:k]...), '\r', '\n'), e[k:]...), "base64-linebreak"
	case 11: // very large
		n := r.Pick(70000, 200000)
		if r.Bool() {
			return status, b64(framed(append(append([]byte{}, good...), make([]byte, n)...))), "large-valid-then-zeros"
		}
		return status, b64(append(be32(uint32(n)), tameHead(r.Bytes(n))...)), "large-garbage"
	case 12: // plain text error page
		return r.Pick(200, 400, 500, 502), []byte("<html>Bad Gateway</html>"), "text"
	case 13: // an EXCEPTION reply, well-formed
		ex := thrift.NewTApplicationException(int32(r.Pick(0, 1, 6, 7, 100, 101, 102)), "boom")
		return status, b64(framed(c05Reply(method, thrift.EXCEPTION, opid, nil, func(p thrift.TProtocol) { ex.Write(c14Bg, p) }))), "exception"
	case 14: // truncated base64 of a valid frame
		e := b64(framed(good))
		return status, e[:r.Intn(len(e)+1)], "base64-truncated"
	default: // valid frame cut anywhere before encoding
		f := framed(good)
		return status, b64(f[:r.Intn(len(f)+1)]), "frame-truncated"
	}
}

func htcLine(oneway bool, limit uint, method string, status int, body []byte) string {
	mode := "c"
	if oneway {
		mode = "o"
	}
	d, _, _ := decodedArg(htcEffectiveBody(status, body))
	return fmt.Sprintf("htc %s %d %s %d %s %s", mode, limit, hx([]byte(method)), status, hx(body), d)
}

func runC05HTTPC(r *Rng, n int) {
	validBody := b64(framed(c05Reply("ping", thrift.REPLY, "1", nil, resultBody("pong"))))
	for i := 0; i < n; i++ {
		method := r.PickS("ping", "ping", "ping", "ping", "p", "")
		limit := uint(r.Pick(0, 0, 64, 4096))
		oneway := r.Chance(20)
		status, body, why := genHTTPResponse(r, method)
		run := realHTC(oneway, limit, method, status, body)
		line := htcLine(oneway, limit, method, status, body)
		Case(line, run.out)
		Stat("htc:mutation:" + why)
		Stat(fmt.Sprintf("htc:status=%d", status))
		Stat(fmt.Sprintf("htc:oneway=%v", oneway))
		if j := strings.Index(run.out, " hdrs="); j > 0 {
			Stat("htc:" + run.out[:j])
		} else {
			Stat("htc:" + clip(run.out))
		}
		if i < 3 {
			Sample(map[string]interface{}{"op": "htc", "mutation": why, "status": status, "body_len": len(body), "oneway": oneway, "real": clip(run.out)})
		}
		if len(run.viol) > 0 {
			OracleFail("HTTP client response path: "+run.viol[0], map[string]interface{}{"op": "htc", "line": line, "mutation": why, "status": status, "body": clip(string(body)), "got": clip(run.out), "all": run.viol})
		}
		// the next call on the same client and transport, with a well-formed response, succeeds
		if i%8 == 0 {
			ok := realHTC(false, limit, "ping", 200, validBody)
			if ok.out != "stage=reply hdrs=-" || len(ok.viol) > 0 {
				OracleFail("HTTP client response path: a well-formed response is not accepted after "+why+": "+clip(ok.out), map[string]interface{}{"op": "htc", "line": htcLine(false, limit, "ping", 200, validBody), "got": clip(ok.out)})
			}
		}
		Stat("evaluations")
	}
}

func realHTCLine(args []string) (string, bool) {
	if len(args) != 6 || (args[0] != "c" && args[0] != "o") {
		return "bad-op", true
	}
	limit, err1 := strconv.ParseUint(args[1], 10, 32)
	status, err2 := strconv.Atoi(args[3])
	if err1 != nil || err2 != nil || status < 200 || status > 599 {
		return "bad-op", true
	}
	body := unhx(args[4])
	if d, _, _ := decodedArg(htcEffectiveBody(status, body)); d != args[5] {
		return "bad-op", true // the line's decoded form is not what base64 makes of its body
	}
	r := realHTC(args[0] == "o", uint(limit), string(unhx(args[2])), status, body)
	return r.out, len(r.viol) == 0
}

func init() {
	suites["c05httpc"] = runC05HTTPC
	lineOps["htc"] = realHTCLine
}
