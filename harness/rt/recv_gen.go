package main

// C05 — generators shared by the connection-oriented receiver suites (recv_adapter.go, recv_simple.go):
// a peer's byte stream on a socket = valid traffic (1..4 size-prefixed frames) + ONE mutation, or raw bytes.

import (
	"fmt"
	"sort"
)

const framedMax = 16384000 // defaultMaxLength of lib/go/framed_transport.go (checked by the suites: a frame of framedMax+1 is refused)

// genStream builds a stream out of frames made by mk (mk(i) = the i-th frame WITHOUT its size prefix).
// It returns the stream and the name of the mutation applied ("valid" = none).
func genStream(r *Rng, mk func(i int) []byte) ([]byte, string) {
	if r.Chance(8) {
		return r.Bytes(r.Intn(65)), "raw"
	}
	nf := 1 + r.Intn(4)
	frames := make([][]byte, nf)
	for i := range frames {
		frames[i] = mk(i)
	}
	join := func() []byte {
		var s []byte
		for _, f := range frames {
			s = append(s, framed(f)...)
		}
		return s
	}
	if r.Chance(12) {
		return join(), "valid"
	}
	k := r.Intn(nf)
	switch r.Intn(13) {
	case 0: // the stream ends anywhere (inside a size prefix, inside a body, between frames)
		s := join()
		return s[:r.Intn(len(s)+1)], "stream-truncate"
	case 1: // a size prefix with a boundary value in front of frame k
		v := r.Pick(0, 1, 2, 3, 4, 5, framedMax-1, framedMax, framedMax+1, 1<<24, 1<<31-1, 1<<31, 1<<31+1, 1<<32-1, 1<<32-2)
		var s []byte
		for i, f := range frames {
			if i == k {
				s = append(append(s, be32(uint32(v))...), f...)
			} else {
				s = append(s, framed(f)...)
			}
		}
		return s, fmt.Sprintf("frame-size=%s", sizeBucket(v))
	case 2: // size prefix off by a little: larger/smaller than the body that follows
		d := r.Pick(-5, -4, -3, -2, -1, 1, 2, 3, 4, 5, 9, 64)
		var s []byte
		for i, f := range frames {
			if i == k {
				n := len(f) + d
				if n < 0 {
					n = 0
				}
				s = append(append(s, be32(uint32(n))...), f...)
			} else {
				s = append(s, framed(f)...)
			}
		}
		return s, "frame-size-off"
	case 3: // 1..3 bytes of a size prefix, then the peer hangs up
		s := join()
		return append(s, r.Bytes(1+r.Intn(3))...), "dangling-prefix"
	case 4: // an empty frame
		frames[k] = nil
		return join(), "empty-frame"
	case 5: // valid size, garbage body
		frames[k] = tameHead(r.Bytes(r.Intn(40)))
		return join(), "garbage-body"
	case 6: // one byte in front of an otherwise well-formed frame (the rest of the frame is a well-formed request)
		frames[k] = append([]byte{byte(r.Pick(1, 1, 2, 0x80, 0xff, 0))}, frames[k]...)
		return join(), "prefixed-byte"
	case 7: // a well-formed request glued behind garbage inside ONE frame
		frames[k] = append(tameHead(r.Bytes(1+r.Intn(12))), frames[k]...)
		return join(), "garbage-then-request"
	case 8: // trailing bytes behind a well-formed request inside the frame
		frames[k] = append(frames[k], tameHead(r.Bytes(1+r.Intn(12)))...)
		return join(), "request-then-garbage"
	case 10: // an empty frame directly in front of a refused size prefix and more bytes (TFramedTransport.Read's tmp branch)
		var s []byte
		for i, f := range frames {
			if i == k {
				s = append(s, 0, 0, 0, 0)
				s = append(s, be32(uint32(r.Pick(framedMax+1, 1<<31, 1<<32-1)))...)
			}
			s = append(s, framed(f)...)
		}
		return s, "empty-then-refused-size"
	case 9: // headers without an op id / with an op id that is not a number
		frames[k] = mutateOpID(r, frames[k])
		return join(), "opid"
	default: // header-level mutation of frame k (size fields, version, bit flip, splice, truncate+pad), size prefix kept consistent or not
		fr := framed(frames[k])
		offs := []int{0}
		if len(fr) >= 9 && fr[4] == 0 {
			if hs := int(uint32(fr[5])<<24 | uint32(fr[6])<<16 | uint32(fr[7])<<8 | uint32(fr[8])); hs >= 0 && 9+hs <= len(fr) {
				offs = sizeFieldOffsets(fr)
			}
		}
		m, why := mutate(r, fr, offs)
		if r.Bool() && len(m) >= 4 { // re-frame: the size prefix matches the mutated body
			m = framed(m[4:])
			why += "+reframed"
		}
		var s []byte
		for i, f := range frames {
			if i == k {
				s = append(s, m...)
			} else {
				s = append(s, framed(f)...)
			}
		}
		// keep allocations small: a header size above 64 MiB inside a frame cannot be satisfied anyway
		return s, "frame:" + why
	}
}

func sizeBucket(v int) string {
	switch {
	case v <= 5:
		return fmt.Sprint(v)
	case v < framedMax:
		return "<max"
	case v == framedMax:
		return "max"
	case v == framedMax+1:
		return "max+1"
	case v < 1<<31:
		return "<2^31"
	}
	return ">=2^31"
}

// mutateOpID rewrites the frame's header block so that _opid is missing or not a uint64.
func mutateOpID(r *Rng, frame []byte) []byte {
	if len(frame) < 5 || frame[0] != 0 {
		return frame
	}
	l, payload, ok := specDecode(frame)
	if !ok {
		return frame
	}
	m := map[string]string{}
	for _, p := range l {
		m[p.k] = p.v
	}
	switch r.Intn(4) {
	case 0:
		delete(m, "_opid")
	case 1:
		m["_opid"] = ""
	case 2:
		m["_opid"] = r.PickS("-1", "1x", "18446744073709551616", " 1", "0x10", "1e3")
	default:
		m["_opid"] = "18446744073709551615"
	}
	return append(marshalSorted(m), payload...)
}

// marshalSorted is the documented v0 layout with the pairs in key order (deterministic bytes).
func marshalSorted(m map[string]string) []byte {
	keys := make([]string, 0, len(m))
	for k := range m {
		keys = append(keys, k)
	}
	sort.Strings(keys)
	var body []byte
	for _, k := range keys {
		body = append(append(body, be32(uint32(len(k)))...), k...)
		body = append(append(body, be32(uint32(len(m[k])))...), m[k]...)
	}
	return append(append([]byte{0}, be32(uint32(len(body)))...), body...)
}

// tameAlloc keeps `readHeader`'s `make([]byte, size)` small where a header block starts: at the start of
// every frame of the stream (sequential split by the size prefixes) a version byte 0 followed by a 4-byte
// header size above 1 MiB is cut down below 1 MiB. The stream path allocates the declared
// header size before reading it (up to 2 GiB for 5 bytes received: sampled and reported in the evidence by
// c05pure, not a crash); here thousands of streams are run per check.
func tameAlloc(s []byte) []byte {
	for p := 0; p+4 <= len(s); {
		n := int(uint32(s[p])<<24 | uint32(s[p+1])<<16 | uint32(s[p+2])<<8 | uint32(s[p+3]))
		if n > framedMax {
			break
		}
		tameHead(s[p+4:])
		p += 4 + n
	}
	return s
}

// tameHead does the same for one byte string that may be read as a header block.
func tameHead(g []byte) []byte {
	if len(g) >= 3 && g[0] == 0 && g[1] < 0x80 && (g[1] != 0 || g[2] >= 0x10) { // 0 < size, size >= 1 MiB
		g[1] = 0
		g[2] &= 0x0f
	}
	return g
}

// smallHeaders: 0..4 pairs of short strings (now and then one of 300 bytes): the streams of these suites
// hold several frames and every case is one driver line.
func smallHeaders(r *Rng) map[string]string {
	n := r.Pick(0, 0, 1, 1, 2, 3, 4)
	m := make(map[string]string, n+1)
	str := func() string {
		if r.Chance(2) {
			return string(r.Bytes(300))
		}
		k := r.Intn(9)
		if r.Chance(25) {
			return string(r.Bytes(k)) // arbitrary bytes, incl. 0x00 and invalid UTF-8
		}
		b := make([]byte, k)
		for i := range b {
			b[i] = "abcdefghijklmnopqrstuvwxyz_-0123456789"[r.Intn(38)]
		}
		return string(b)
	}
	for len(m) < n {
		m[str()] = str()
	}
	return m
}

func smallPayload(r *Rng) []byte {
	return r.Bytes(r.Pick(0, 1, 3, 4, 5, 12, 30, 64))
}
