package main

// C16, WHEN and FROM WHAT a chain is composed. Op "mwl": a script over ONE
// caller-owned slice `arr[:k]` (cap = k+extra) that is passed variadically
// (`arr[:k]...`) to several constructions — generated-style client / publisher
// constructors (with their own providers), NewMethod directly, a processor
// function — interleaved with the caller overwriting elements of its array
// (visible or spare part), appending to its slice, AddMiddleware before / after
// first use, single calls and concurrently issued first calls.
// Oracle (independent of the model): every call on an object is intercepted exactly
// once by each middleware declared for THAT object when it was constructed (the
// slice's values then, the provider's list, later AddMiddleware on it) in declared
// order, and by nothing else.

import (
	"fmt"
	"runtime"
	"strconv"
	"strings"
	"sync"
	"sync/atomic"

	frugal "github.com/Workiva/frugal/lib/go"
)

type c16Obj struct {
	invoke func(frugal.Arguments) frugal.Results
	add    func(frugal.ServiceMiddleware)
	decl   []c16Decl // declared at construction (+ additions), innermost first
	name   string
}

func c16StepSpecs(s string) []string {
	if s == "" {
		return nil
	}
	return strings.Split(s, "_")
}

// mwl <extra> <ctorSpecs> <base> <arg> <script>
// script: steps joined by '+':
//
//	Nc:<s_s> Np:<s_s>  generated-style client / publisher constructor (provider with these middleware)
//	Nm: Nr:            NewMethod(h, fn, name, arr[:k]) directly / processor function (constructor middleware only)
//	W<j>:<s>           caller: arr[:cap][j] = foreign middleware
//	P:<s>              caller: append(arr[:k], foreign middleware)
//	A<i>:<s>           AddMiddleware on object i (m and r objects)
//	C<i>               one call on object i
//	G<i>x<n>           n calls on object i issued concurrently
//
// labels: constructor slice 0..k-1; provider of object i: 20*(i+1)+j; W/P: 200+step; A: 300+step.
func realMWL(args []string) (string, bool) {
	if len(args) != 5 {
		return "bad-op", true
	}
	extra, err := strconv.Atoi(args[0])
	if err != nil || extra < 0 || extra > 16 {
		return "bad-op", true
	}
	ctorS, base, arg, script := c16Specs(args[1]), args[2], args[3], strings.Split(args[4], "+")
	if strings.ContainsAny(arg, ".@") {
		return "bad-op", true
	}
	k := len(ctorS)
	rec := &c16Rec{}
	arr, visible := c16Build(rec, 0, ctorS, extra, c16Style) // visible: descriptors of arr[:k] as the caller last set them
	full := arr[:cap(arr)]
	var objs []*c16Obj
	var outs []string
	fine, bad := true, false
	fail := func(o *string, why string) {
		fine = false
		*o += " !" + strings.ReplaceAll(why, " ", "_")
	}
	o := c16Guard(func() {
		for si, st := range script {
			if st == "" {
				bad = true
				return
			}
			body := st[1:]
			colon := strings.IndexByte(body, ':')
			switch st[0] {
			case 'N':
				if colon != 1 {
					bad = true
					return
				}
				site, provS := body[0], c16StepSpecs(body[2:])
				oi := len(objs)
				prov, pdecl := c16Build(rec, 20*(oi+1), provS, 0, c16Style)
				h := &c16Handler{rec: rec, fail: base == "f", yield: true, mark: strconv.Itoa(oi)}
				obj := &c16Obj{name: "handle"}
				obj.decl = append(append([]c16Decl{}, visible...), pdecl...)
				switch site {
				case 'c':
					p := frugal.NewFServiceProvider(nil, binFactory, prov...)
					m := func(provider *frugal.FServiceProvider, middleware ...frugal.ServiceMiddleware) *frugal.Method {
						middleware = append(middleware, provider.GetMiddleware()...)
						return frugal.NewMethod(h, h.handle, "handle", middleware)
					}(p, arr[:k]...)
					obj.invoke = m.Invoke
				case 'p':
					p := frugal.NewFScopeProvider(nil, nil, binFactory, prov...)
					m := func(provider *frugal.FScopeProvider, middleware ...frugal.ServiceMiddleware) *frugal.Method {
						middleware = append(middleware, provider.GetMiddleware()...)
						return frugal.NewMethod(h, h.handle, "handle", middleware)
					}(p, arr[:k]...)
					obj.invoke = m.Invoke
				case 'm':
					if len(provS) != 0 {
						bad = true
						return
					}
					m := frugal.NewMethod(h, h.handle, "handle", arr[:k])
					obj.invoke, obj.add = m.Invoke, m.AddMiddleware
				case 'r':
					if len(provS) != 0 {
						bad = true
						return
					}
					var mu sync.Mutex
					pf := func(middleware ...frugal.ServiceMiddleware) *frugal.FBaseProcessorFunction {
						return frugal.NewFBaseProcessorFunction(&mu, frugal.NewMethod(h, h.Handle, "Handle", middleware))
					}(arr[:k]...)
					obj.name = "Handle"
					obj.invoke = func(a frugal.Arguments) frugal.Results { return pf.InvokeMethod(a) }
					obj.add = pf.AddMiddleware
				default:
					bad = true
					return
				}
				objs = append(objs, obj)
			case 'W', 'P':
				if colon < 0 {
					bad = true
					return
				}
				j := k
				if st[0] == 'W' {
					var e error
					if j, e = strconv.Atoi(body[:colon]); e != nil || j < 0 {
						bad = true
						return
					}
				} else if colon != 0 {
					bad = true
					return
				}
				spec := body[colon+1:]
				mw := c16MW(rec, 200+si, spec, false)
				if st[0] == 'P' {
					_ = append(arr[:k], mw) // the caller's own append: in place when there is spare capacity
				} else if j < len(full) {
					full[j] = mw
				}
				if j < k && st[0] == 'W' {
					visible = append([]c16Decl{}, visible...)
					visible[j] = c16Decl{200 + si, spec}
				}
			case 'A':
				if colon < 0 {
					bad = true
					return
				}
				i, e := strconv.Atoi(body[:colon])
				if e != nil || i < 0 || i >= len(objs) || objs[i].add == nil {
					bad = true
					return
				}
				spec := body[colon+1:]
				objs[i].add(c16MW(rec, 300+si, spec, false))
				objs[i].decl = append(append([]c16Decl{}, objs[i].decl...), c16Decl{300 + si, spec})
			case 'C':
				i, e := strconv.Atoi(body)
				if e != nil || i < 0 || i >= len(objs) {
					bad = true
					return
				}
				rec.mu.Lock()
				rec.evs = nil
				rec.mu.Unlock()
				ctx := frugal.NewFContext("")
				r := objs[i].invoke(frugal.Arguments{ctx, arg})
				res, es := r[0].(string), c16ErrStr(r.Error())
				out := c16Render(rec.evs, res, es)
				if why := c16Oracle(objs[i].decl, rec.evs, arg, ctx.CorrelationID(), objs[i].name, res, es); why != "" {
					fail(&out, fmt.Sprintf("object %d: %s", i, why))
				}
				outs = append(outs, out)
			case 'G':
				x := strings.IndexByte(body, 'x')
				if x < 0 {
					bad = true
					return
				}
				i, e1 := strconv.Atoi(body[:x])
				n, e2 := strconv.Atoi(body[x+1:])
				if e1 != nil || e2 != nil || i < 0 || i >= len(objs) || n < 1 || n > 16 {
					bad = true
					return
				}
				rec.mu.Lock()
				rec.evs = nil
				rec.mu.Unlock()
				calls := make([]c16ConcCall, n)
				panics := make([]string, n)
				var arrived, abort int32
				var wg sync.WaitGroup
				for g := 0; g < n; g++ {
					wg.Add(1)
					go func(g int) {
						defer wg.Done()
						defer func() {
							if r := recover(); r != nil {
								panics[g] = fmt.Sprint(r)
								atomic.StoreInt32(&abort, 1)
							}
						}()
						a := fmt.Sprintf("%sg%d.", arg, g)
						ctx := frugal.NewFContext("")
						atomic.AddInt32(&arrived, 1)
						for atomic.LoadInt32(&arrived) < int32(n) && atomic.LoadInt32(&abort) == 0 {
							runtime.Gosched()
						}
						r := objs[i].invoke(frugal.Arguments{ctx, a})
						calls[g] = c16ConcCall{a, ctx.CorrelationID(), r[0].(string), c16ErrStr(r.Error())}
					}(g)
				}
				wg.Wait()
				byKey := map[string][]c16Ev{}
				for _, e := range rec.evs {
					key := c16Key(e.arg)
					if e.kind == 'x' {
						key = c16Key(e.res)
					}
					byKey[key] = append(byKey[key], e)
				}
				uniform, mixed, why := "", false, ""
				for g, c := range calls {
					if panics[g] != "" {
						why = fmt.Sprintf("object %d: concurrent caller %d panicked: %s", i, g, panics[g])
						break
					}
					t := strings.ReplaceAll(c16Render(byKey[c.arg], c.res, c.err), c.arg, "@")
					if uniform == "" {
						uniform = t
					} else if t != uniform {
						mixed = true
					}
					if w := c16Oracle(objs[i].decl, byKey[c.arg], c.arg, c.cid, objs[i].name, c.res, c.err); w != "" && why == "" {
						why = fmt.Sprintf("object %d, concurrent call %s: %s", i, c.arg, w)
					}
				}
				out := fmt.Sprintf("calls=%d uniform %s", n, uniform)
				if mixed {
					out = fmt.Sprintf("calls=%d mixed %s", n, uniform)
				}
				if why != "" {
					fail(&out, why)
				}
				outs = append(outs, out)
			default:
				bad = true
				return
			}
		}
	})
	if bad {
		return "bad-op", true
	}
	if o != "" {
		return o, false
	}
	if len(outs) == 0 {
		return "ok .", fine
	}
	return "ok " + strings.Join(outs, " | "), fine
}

// ---------- generation ----------

func c16GenMWL(r *Rng) {
	ctor := c16GenSpecs(r, 3)
	k := len(ctor)
	extra := r.Pick(0, 1, 2, 2, 3, 4, 6)
	var steps []string
	type ob struct {
		site  byte
		calls int
	}
	var objs []ob
	one := func() string { return c16Letters[r.Intn(len(c16Letters))] }
	construct := func() {
		site := "cpmr"[r.Intn(4)]
		if r.Chance(50) {
			site = "cp"[r.Intn(2)]
		}
		s := "N" + string(site) + ":"
		if site == 'c' || site == 'p' {
			s += strings.Join(c16GenSpecs(r, 3), "_")
		}
		steps = append(steps, s)
		objs = append(objs, ob{site: site})
	}
	construct()
	n := 2 + r.Intn(8)
	for i := 0; i < n; i++ {
		switch c := r.Intn(10); {
		case c < 2 && len(objs) < 4:
			construct()
		case c < 4:
			steps = append(steps, fmt.Sprintf("W%d:%s", r.Intn(k+extra+1), one()))
		case c == 4:
			steps = append(steps, "P:"+one())
		case c == 5:
			var cand []int
			for i, o := range objs {
				if o.site == 'm' || o.site == 'r' {
					cand = append(cand, i)
				}
			}
			if len(cand) > 0 {
				i := cand[r.Intn(len(cand))]
				steps = append(steps, fmt.Sprintf("A%d:%s", i, one()))
				if objs[i].calls == 0 {
					Stat("mwl:add-before-first-use")
				} else {
					Stat("mwl:add-after-first-use")
				}
			}
		case c < 9:
			i := r.Intn(len(objs))
			if objs[i].calls == 0 {
				Stat("mwl:first-calls")
			}
			objs[i].calls++
			steps = append(steps, "C"+strconv.Itoa(i))
		default:
			i := r.Intn(len(objs))
			if objs[i].calls == 0 {
				Stat("mwl:concurrent-first-calls")
			}
			objs[i].calls++
			steps = append(steps, fmt.Sprintf("G%dx%d", i, 2+r.Intn(7)))
		}
	}
	// every object gets called at least once, at the end
	for i, o := range objs {
		if o.calls == 0 {
			steps = append(steps, "C"+strconv.Itoa(i))
		}
	}
	base := "k"
	if r.Chance(25) {
		base = "f"
	}
	Stat(fmt.Sprintf("mwl:objects=%d", len(objs)))
	Stat(fmt.Sprintf("mwl:extra=%d", extra))
	c16Emit("mwl", []string{strconv.Itoa(extra), c16SpecsArg(ctor), base, c16GenArg(r), strings.Join(steps, "+")}, realMWL)
}

func init() {
	lineOps["mwl"] = realMWL
}
