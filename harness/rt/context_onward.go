package main

// C09: the ORDER of a handler's actions on its inbound context. Method "s" of the shared service runs
// a script: AddResponseHeader / AddRequestHeader / onward two-way call with the inbound context itself
// or with a Clone of it (the downstream handler runs the sub-script), nested to depth 3, several
// onward calls per handler, same and other header names at every hop. Links: mem and http.
//
// Oracle (the property, computed by a plain simulation of the documented semantics, not by the model):
// the caller of every hop sees exactly the response headers the handler of that hop set (last write
// wins) plus what ReadResponseHeader merged in from its own onward calls made with the inbound context,
// whatever onward calls were made in between; a downstream handler sees exactly the request headers its
// caller's context held at the time of the call; all handler op ids are distinct.
// Tie: op `c9onw` = FV.callScript (the model runs the same script through the wire).

import (
	"fmt"
	"strconv"
	"strings"
	"sync"
	"sync/atomic"
	"time"

	frugal "github.com/Workiva/frugal/lib/go"
)

type c9Act struct {
	kind byte // 'P' AddResponseHeader, 'Q' AddRequestHeader, 'C' onward call with the context, 'K' with a Clone
	k, v string
	sub  []c9Act
}

func c9ScriptString(a []c9Act) string {
	if len(a) == 0 {
		return "-"
	}
	var toks []string
	var walk func(a []c9Act)
	walk = func(a []c9Act) {
		for _, x := range a {
			switch x.kind {
			case 'P', 'Q':
				toks = append(toks, fmt.Sprintf("%c.%x.%x", x.kind, x.k, x.v))
			default:
				toks = append(toks, string(x.kind))
				walk(x.sub)
				toks = append(toks, "E")
			}
		}
	}
	walk(a)
	return strings.Join(toks, ",")
}

// c9ParseActs mirrors Driver.parseActs (same leniency: a missing closing E is accepted).
func c9ParseActs(fuel int, toks []string) ([]c9Act, []string, bool) {
	if fuel == 0 {
		return nil, nil, false
	}
	if len(toks) == 0 {
		return nil, nil, true
	}
	tok, rest := toks[0], toks[1:]
	switch {
	case tok == "E":
		return nil, rest, true
	case tok == "C" || tok == "K":
		sub, r1, ok := c9ParseActs(fuel-1, rest)
		if !ok {
			return nil, nil, false
		}
		t, r2, ok := c9ParseActs(fuel-1, r1)
		if !ok {
			return nil, nil, false
		}
		return append([]c9Act{{kind: tok[0], sub: sub}}, t...), r2, true
	}
	f := strings.Split(tok, ".")
	if len(f) != 3 || (f[0] != "P" && f[0] != "Q") {
		return nil, nil, false
	}
	k, ok1 := c9Unhex(f[1])
	v, ok2 := c9Unhex(f[2])
	if !ok1 || !ok2 {
		return nil, nil, false
	}
	t, r, ok := c9ParseActs(fuel-1, rest)
	if !ok {
		return nil, nil, false
	}
	return append([]c9Act{{kind: f[0][0], k: k, v: v}}, t...), r, true
}

func c9Unhex(s string) (string, bool) {
	if len(s)%2 != 0 {
		return "", false
	}
	b := make([]byte, len(s)/2)
	for i := range b {
		n, err := strconv.ParseUint(s[2*i:2*i+2], 16, 8)
		if err != nil {
			return "", false
		}
		b[i] = byte(n)
	}
	return string(b), true
}

func c9ParseScript(s string) ([]c9Act, bool) {
	if s == "-" {
		return nil, true
	}
	toks := strings.Split(s, ",")
	a, rest, ok := c9ParseActs(len(toks)+1, toks)
	return a, ok && len(rest) == 0
}

// ---------- the real handler ----------

type c9Chain struct {
	mu   sync.Mutex
	link string
	next []c9Act // script of the next handler invocation of this chain (calls are synchronous: a stack discipline)
	seen []map[string]string
	fail string
}

var c9Chains sync.Map // cid -> *c9Chain

func c9ScriptHandler(fctx frugal.FContext) {
	v, ok := c9Chains.Load(fctx.CorrelationID())
	if !ok {
		atomic.AddInt64(&c9Stray, 1)
		return
	}
	ch := v.(*c9Chain)
	ch.mu.Lock()
	script := ch.next
	ch.seen = append(ch.seen, fctx.RequestHeaders())
	ch.mu.Unlock()
	for _, a := range script {
		switch a.kind {
		case 'P':
			fctx.AddResponseHeader(a.k, a.v)
		case 'Q':
			fctx.AddRequestHeader(a.k, a.v)
		default:
			cc := fctx
			if a.kind == 'K' {
				cc = frugal.Clone(fctx)
			}
			l, err := c9GetLink(ch.link)
			if err == nil {
				ch.mu.Lock()
				ch.next = a.sub
				ch.mu.Unlock()
				err = l.client.Call(cc, "s", c9Empty{}, &c9Empty{})
			}
			if err != nil {
				ch.mu.Lock()
				ch.fail = "onward call failed"
				ch.mu.Unlock()
			}
		}
	}
}

// ---------- the documented semantics, simulated (oracle) ----------

func c9NoOp(m map[string]string) map[string]string {
	c := copyMap(m)
	delete(c, "_opid")
	return c
}

// c9Simulate: the handler given request headers req (op id ignored) and initial response headers
// {_cid} runs script; returns its final response headers (without _opid) and appends to *seen the
// request maps (without _opid) every handler of the chain must observe, depth first.
func c9Simulate(script []c9Act, req map[string]string, seen *[]map[string]string) map[string]string {
	*seen = append(*seen, c9NoOp(req))
	req = copyMap(req)
	resp := map[string]string{}
	if req["_cid"] != "" {
		resp["_cid"] = req["_cid"]
	}
	for _, a := range script {
		switch a.kind {
		case 'P':
			resp[a.k] = a.v
		case 'Q':
			req[a.k] = a.v
		default:
			down := c9Simulate(a.sub, req, seen)
			if a.kind == 'C' { // ReadResponseHeader merges the reply into the calling context
				for k, v := range down {
					resp[k] = v
				}
			}
		}
	}
	return resp
}

// ---------- one scripted call ----------

type c9OnwResult struct {
	out, why string
	callerOp string
	base     uint64
}

func c9OnwCall(link, cid, forceOpid string, U map[string]string, d time.Duration, script []c9Act, lineCtr *uint64) c9OnwResult {
	var res c9OnwResult
	l, err := c9GetLink(link)
	if err != nil {
		res.why = "harness: " + err.Error()
		return res
	}
	ch := &c9Chain{link: link, next: script}
	c9Chains.Store(cid, ch)
	defer c9Chains.Delete(cid)
	ctx := frugal.NewFContext(cid)
	if forceOpid != "" {
		ctx.AddRequestHeader("_opid", forceOpid)
	}
	for _, k := range sortedKeys(U) {
		ctx.AddRequestHeader(k, U[k])
	}
	ctx.SetTimeout(d)
	H := ctx.RequestHeaders()
	res.callerOp = H["_opid"]
	var cerr error
	res.base = frugal.VerifCtx09OpIDCounter()
	o := guard(d+20*time.Second, func() { cerr = l.client.Call(ctx, "s", c9Empty{}, &c9Empty{}) })
	ch.mu.Lock()
	defer ch.mu.Unlock()
	after := ctx.ResponseHeaders()
	if o != "" || cerr != nil || ch.fail != "" {
		c9DropLink(link)
		res.why = "scripted call failed"
		return res
	}
	var wantSeen []map[string]string
	wantAfter := c9Simulate(script, H, &wantSeen)
	ops := map[string]bool{res.callerOp: true}
	switch {
	case len(ch.seen) != len(wantSeen):
		res.why = "not every handler of the chain ran exactly once"
	case !mapsEqual(after, wantAfter):
		res.why = "caller's response headers are not what the handler set plus what its onward calls merged in"
		for k, v := range wantAfter {
			if w, has := after[k]; !has || w != v {
				res.why = "a response header set by the handler is not visible on the caller's context"
			}
		}
	case !mapsEqual(H, ctx.RequestHeaders()):
		res.why = "caller's request headers changed during the call"
	}
	lc := res.base
	if lineCtr != nil {
		lc = *lineCtr
	}
	shown := make([]string, len(ch.seen))
	for i, m := range ch.seen {
		if res.why == "" && !mapsEqual(c9NoOp(m), wantSeen[i]) {
			res.why = "a downstream handler does not see exactly the request headers its caller's context held"
		}
		if ops[m["_opid"]] && res.why == "" {
			res.why = "two contexts of one call chain share an op id"
		}
		ops[m["_opid"]] = true
		mm := copyMap(m)
		if n, e := strconv.ParseUint(mm["_opid"], 10, 64); e == nil && n > res.base {
			mm["_opid"] = strconv.FormatUint(n-res.base+lc, 10)
		}
		shown[i] = pairs(mm)
	}
	res.out = fmt.Sprintf("ok after=%s seen=%s", pairs(after), strings.Join(shown, "|"))
	return res
}

// ---------- generator ----------

var c9OnwNames = []string{"a", "b", "c", "served-by", "_x", "x-trace", "Z"}

func c9GenScript(r *Rng, depth int) []c9Act {
	n := r.Pick(0, 1, 2, 3, 3, 4, 6)
	var s []c9Act
	for i := 0; i < n; i++ {
		switch k := r.Intn(10); {
		case k < 5:
			name := c9OnwNames[r.Intn(len(c9OnwNames))]
			if r.Chance(15) {
				name = genString(r, true)
				if c9Reserved(name) {
					name = "n"
				}
			}
			s = append(s, c9Act{kind: 'P', k: name, v: genString(r, true)})
		case k < 7:
			name := c9OnwNames[r.Intn(len(c9OnwNames))] + "q"
			s = append(s, c9Act{kind: 'Q', k: name, v: genString(r, false)})
		default:
			if depth >= 3 {
				continue
			}
			kind := byte('C')
			if r.Chance(35) {
				kind = 'K'
			}
			s = append(s, c9Act{kind: kind, sub: c9GenScript(r, depth+1)})
		}
	}
	return s
}

func c9ScriptShape(s []c9Act, depth int, maxDepth *int, calls *int) {
	if depth > *maxDepth {
		*maxDepth = depth
	}
	for _, a := range s {
		if a.kind == 'C' || a.kind == 'K' {
			*calls++
			c9ScriptShape(a.sub, depth+1, maxDepth, calls)
		}
	}
}

func c9OnwLine(cid, link, opid string, d time.Duration, ctr uint64, U map[string]string, script []c9Act) string {
	return fmt.Sprintf("c9onw %s %s %s %d %d %s %s", hx([]byte(cid)), link, opid, int64(d), ctr, pairs(U), c9ScriptString(script))
}

func runC09Onward(r *Rng, n int) {
	for i := 0; i < n; i++ {
		Stat("evaluations")
		link := []string{"mem", "http"}[r.Intn(2)] + "/" + c9Factories[r.Intn(len(c9Factories))].name
		script := c9GenScript(r, 1)
		U := map[string]string{}
		for j := r.Intn(3); j > 0; j-- {
			U["u"+strconv.Itoa(j)] = genString(r, true)
		}
		cid := fmt.Sprintf("onw#%d", atomic.AddUint64(&c9CallSeq, 1))
		d := time.Duration(8000+r.Intn(4000)) * time.Millisecond
		depth, calls := 1, 0
		c9ScriptShape(script, 1, &depth, &calls)
		Stat("link:" + link)
		Stat(fmt.Sprintf("depth=%d", depth))
		Stat(fmt.Sprintf("onward-calls=%d", calls))
		Sample(map[string]interface{}{"link": link, "script": c9ScriptString(script)})
		res := c9OnwCall(link, cid, "", U, d, script, nil)
		line := c9OnwLine(cid, link, res.callerOp, d, res.base, U, script)
		if res.out != "" {
			Case(line, res.out)
		}
		if res.why != "" {
			OracleFail(res.why, map[string]interface{}{"line": line, "got": clip(res.out)})
		}
	}
}

func init() {
	suites["c09onw"] = runC09Onward
	lineOps["c9onw"] = func(args []string) (string, bool) {
		if len(args) != 7 {
			return "bad-op", true
		}
		cid := string(unhx(args[0]))
		ns, _ := strconv.ParseInt(args[3], 10, 64)
		ctr, _ := strconv.ParseUint(args[4], 10, 64)
		script, ok := c9ParseScript(args[6])
		if !ok || cid == "" || ns <= 0 || !(strings.HasPrefix(args[1], "mem") || strings.HasPrefix(args[1], "http")) {
			return "bad-op", true
		}
		res := c9OnwCall(args[1], cid, args[2], c9MapOf(args[5]), time.Duration(ns), script, &ctr)
		if res.why != "" {
			OracleFail(res.why, map[string]interface{}{"line": "c9onw " + strings.Join(args, " "), "replayed": true})
		}
		if res.out == "" {
			return "err:call", res.why == ""
		}
		return res.out, res.why == ""
	}
}
