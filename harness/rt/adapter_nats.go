package main

// C15 for the NATS client transport (fNatsTransport): `nct <history hex>`, one byte per action
// (byte mod 7): 0 O Open, 1 C Close, 2 I IsOpen, 3 Q Request (a responder answers on the subject),
// 4 K the application closes the nats.Conn (closed for good), 5 D the broker is shut down
// (connection goes to RECONNECTING), 6 U the broker comes back on the same address (reconnect).
// Real in-process nats-server, real nats.Conn, real frugal.NewFNatsTransport. The transport has no
// lock and no goroutine of its own, so histories are sequential; every call runs under recover +
// watchdog (a panic / a hang is an outcome).

import (
	"fmt"
	"net"
	"strings"
	"time"

	frugal "github.com/Workiva/frugal/lib/go"
	natsd "github.com/nats-io/nats-server/v2/server"
	"github.com/nats-io/nats.go"
)

const nctWatch = 3 * time.Second

type nctRun struct {
	srv    *natsd.Server
	port   int
	conn   *nats.Conn // the transport's connection
	rconn  *nats.Conn // the responder's connection
	tr     frugal.FTransport
	incs   []<-chan error
	vals   [][]string
	closed []bool
	viol   []string
	// tracked from real observations only
	open       bool // the last Open that returned nil has not been followed by a Close that returned nil
	connClosed bool
	brokerUp   bool
}

func (r *nctRun) violate(s string) { r.viol = append(r.viol, s) }

func startNatsd(port int) (*natsd.Server, error) {
	s, err := natsd.NewServer(&natsd.Options{Host: "127.0.0.1", Port: port, NoLog: true, NoSigs: true})
	if err != nil {
		return nil, err
	}
	go s.Start()
	if !s.ReadyForConnections(5 * time.Second) {
		return nil, fmt.Errorf("nats-server not ready")
	}
	return s, nil
}

func nctConnect(url string) (*nats.Conn, error) {
	return nats.Connect(url, nats.ReconnectWait(2*time.Millisecond), nats.MaxReconnects(-1),
		nats.ReconnectJitter(0, 0), nats.Timeout(2*time.Second), nats.RetryOnFailedConnect(false))
}

func waitStatus(c *nats.Conn, want func(nats.Status) bool) bool {
	for w := newWd(nctWatch); !w.Expired(); time.Sleep(200 * time.Microsecond) {
		if want(c.Status()) {
			return true
		}
	}
	return false
}

func (r *nctRun) poll(k int) {
	for !r.closed[k] {
		select {
		case v, ok := <-r.incs[k]:
			if !ok {
				r.closed[k] = true
			} else if v == nil {
				r.vals[k] = append(r.vals[k], "nil")
			} else {
				r.vals[k] = append(r.vals[k], "err")
			}
		default:
			return
		}
	}
}

func nctActName(b byte) string { return string("OCIQKDU"[b%7 : b%7+1]) }

func runNct(hist []byte) (string, []string) {
	r := &nctRun{brokerUp: true}
	srv, err := startNatsd(-1)
	if err != nil {
		return "err:broker", []string{"cannot start nats-server"}
	}
	r.srv = srv
	r.port = srv.Addr().(*net.TCPAddr).Port
	url := fmt.Sprintf("nats://127.0.0.1:%d", r.port)
	if r.conn, err = nctConnect(url); err != nil {
		srv.Shutdown()
		return "err:connect", []string{"cannot connect"}
	}
	if r.rconn, err = nctConnect(url); err != nil {
		r.conn.Close()
		srv.Shutdown()
		return "err:connect", []string{"cannot connect"}
	}
	defer func() {
		r.conn.Close()
		r.rconn.Close()
		if r.srv != nil {
			r.srv.Shutdown()
			r.srv.WaitForShutdown()
		}
	}()
	subject := "c15.svc"
	r.rconn.Subscribe(subject, func(m *nats.Msg) { r.rconn.Publish(m.Reply, m.Data) })
	r.rconn.Flush()
	r.tr = frugal.NewFNatsTransport(r.conn, subject, "")

	call := func(f func() string) string {
		res := ""
		if o := laGuard(nctWatch, func() { res = f() }); o != "" {
			return o
		}
		return res
	}
	var outs []string
	for _, b := range hist {
		var o string
		switch b % 7 {
		case 0:
			o = call(func() string {
				err := r.tr.Open()
				if err == nil {
					r.incs = append(r.incs, r.tr.Closed())
					r.vals = append(r.vals, nil)
					r.closed = append(r.closed, false)
				}
				return retClass(err)
			})
			connected := !r.connClosed && r.brokerUp
			switch o {
			case "ok":
				if r.open {
					r.violate("Open returned nil on an open transport")
				}
				r.open = true
			case "already":
				if !r.open {
					r.violate("Open reported ALREADY_OPEN on a closed transport")
				}
			default:
				if connected && !r.open {
					r.violate("Open of a closed transport on a connected connection failed (reopen does not work)")
				}
			}
		case 1:
			before := -1
			if n := len(r.incs); n > 0 {
				r.poll(n - 1)
				before = len(r.vals[n-1])
			}
			o = call(func() string { return retClass(r.tr.Close()) })
			if n := len(r.incs); n > 0 {
				k := n - 1
				wasClosed := r.closed[k]
				r.poll(k)
				switch {
				case o == "ok" && r.open:
					if len(r.vals[k]) != before+1 || !r.closed[k] {
						r.violate("a clean Close of an open transport did not publish exactly one value and close Closed()")
					}
				case o != "ok" && !strings.HasPrefix(o, "panic") && o != "blocked":
					if len(r.vals[k]) != before || (r.closed[k] && !wasClosed) {
						r.violate("a FAILED Close published a close cause / closed the Closed() channel")
					}
				case o == "ok" && !r.open:
					if len(r.vals[k]) != before {
						r.violate("Close of a closed transport published a value")
					}
				}
			}
			if o == "ok" {
				r.open = false
			} else if o == "notopen" && r.open {
				r.violate("Close reported NOT_OPEN on an open transport")
			}
		case 2:
			o = call(func() string { return fmt.Sprint(r.tr.IsOpen()) })
			if want := r.open && !r.connClosed && r.brokerUp; o == "true" != want && (o == "true" || o == "false") {
				r.violate("IsOpen=" + o + " disagrees with the observed life cycle")
			}
		case 3:
			o = call(func() string {
				ctx := frugal.NewFContext("")
				ctx.SetTimeout(20 * time.Second)
				id, _ := ctx.RequestHeader("_opid")
				var op uint64
				fmt.Sscan(id, &op)
				fr := goodFrame(op, 3)
				res, err := r.tr.Request(ctx, fr)
				if err != nil {
					if c := retClass(err); c != "other" {
						return c
					}
					if errClass(err) == "err:transport" && strings.Contains(err.Error(), "timed out") {
						return "timedout"
					}
					return "other"
				}
				buf := make([]byte, len(fr))
				n, _ := res.Read(buf)
				if string(buf[:n]) != string(fr[4:]) {
					return "wrongreply"
				}
				return "ok"
			})
			usable := r.open && !r.connClosed && r.brokerUp
			if usable && o != "ok" {
				r.violate("Request on an open transport was not answered: " + o)
			}
			if !usable && o != "notopen" {
				r.violate("Request on a transport that is not open reported " + o + ", not NOT_OPEN")
			}
		case 4:
			r.conn.Close()
			r.connClosed = true
			o = "env"
		case 5:
			if !r.brokerUp {
				o = "skip"
				break
			}
			r.srv.Shutdown()
			r.srv.WaitForShutdown()
			r.srv = nil
			r.brokerUp = false
			ok := r.connClosed || waitStatus(r.conn, func(s nats.Status) bool { return s != nats.CONNECTED })
			ok = waitStatus(r.rconn, func(s nats.Status) bool { return s != nats.CONNECTED }) && ok
			if !ok {
				r.violate("harness: connection did not notice the broker going away")
			}
			o = "env"
		case 6:
			if r.brokerUp {
				o = "skip"
				break
			}
			s, err := startNatsd(r.port)
			if err != nil {
				r.violate("harness: cannot restart the broker on its port")
				o = "skip"
				break
			}
			r.srv = s
			r.brokerUp = true
			ok := r.connClosed || waitStatus(r.conn, func(s nats.Status) bool { return s == nats.CONNECTED })
			ok = waitStatus(r.rconn, func(s nats.Status) bool { return s == nats.CONNECTED }) && ok
			if !ok {
				r.violate("harness: connection did not reconnect to the restarted broker")
			}
			r.rconn.Flush()
			if !r.connClosed {
				r.conn.Flush()
			}
			o = "env"
		}
		if strings.HasPrefix(o, "panic") {
			r.violate(fmt.Sprintf("%s panicked (%s)", nctActName(b), o))
		} else if o == "blocked" {
			r.violate(fmt.Sprintf("%s did not return", nctActName(b)))
		}
		outs = append(outs, nctActName(b)+"="+o)
	}
	fin := call(func() string { return fmt.Sprint(r.tr.IsOpen()) })
	var incs []string
	for k := range r.incs {
		r.poll(k)
		v := strings.Join(r.vals[k], "&")
		if v == "" {
			if r.closed[k] {
				v = "closed-empty"
			} else {
				v = "-"
			}
		}
		incs = append(incs, v)
		n := len(r.vals[k])
		last := k == len(r.incs)-1
		switch {
		case n > 1:
			r.violate("more than one value on Closed() for one Open")
		case (!last || !r.open) && (n != 1 || !r.closed[k]):
			r.violate("a closed incarnation did not publish exactly one value / close its Closed() channel")
		case last && r.open && (n != 0 || r.closed[k]):
			r.violate("the open incarnation has published a close cause")
		}
	}
	if len(incs) == 0 {
		incs = []string{"."}
	}
	return strings.Join(outs, ";") + "|open=" + fin + " inc=" + strings.Join(incs, "/"), r.viol
}

func genNct(r *Rng) []byte {
	n := 1 + r.Intn(12)
	w := []int{14, 14, 6, 5, 3, 3, 4}
	tot := 0
	for _, x := range w {
		tot += x
	}
	h := []byte{0}
	if r.Chance(10) {
		h = h[:0]
	}
	for len(h) < n {
		x := r.Intn(tot)
		a := 0
		for x >= w[a] {
			x -= w[a]
			a++
		}
		h = append(h, byte(a)+7*byte(r.Intn(30)))
	}
	return h
}

func realNctLine(args []string) (string, bool) {
	if len(args) != 1 {
		return "bad-op", true
	}
	h := unhx(args[0])
	if len(h) > 64 {
		return "bad-op", true
	}
	o, viol := runNct(h)
	if len(viol) > 0 {
		OracleFail("C15 nats: "+viol[0], map[string]interface{}{"op": "nct", "line": "nct " + args[0], "in": args[0], "got": o, "all": viol})
	}
	return o, true
}

func runC15Nats(r *Rng, n int) {
	for i := 0; i < n; i++ {
		h := genNct(r)
		o, viol := runNct(h)
		line := "nct " + hx(h)
		Case(line, o)
		Stat("evaluations")
		for _, b := range h {
			Stat("action:" + nctActName(b))
		}
		for _, t := range strings.Split(strings.SplitN(o, "|", 2)[0], ";") {
			Stat("outcome:" + t)
		}
		if i < 2 {
			Sample(map[string]interface{}{"line": line, "real": o})
		}
		if len(viol) > 0 {
			OracleFail("C15 nats: "+viol[0], map[string]interface{}{"op": "nct", "line": line, "in": hx(h), "got": o, "all": viol})
		}
	}
}

func init() {
	suites["c15nats"] = runC15Nats
	lineOps["nct"] = realNctLine
}
