package main

// C16 — middleware intercepts every call exactly once, in the declared order.
//
// Suite "c16": random lists of tracing middleware (observing, or rewriting
// arguments / results / error in a tagged way) applied through the real API:
// frugal.NewMethod(...).Invoke, Method.AddMiddleware, NewF{Service,Scope}Provider
// + GetMiddleware with the append the generator emits, FBaseProcessor with
// hand-written processor functions (AddToProcessorMap, AddMiddleware, Process on
// real frames). The real trace is compared with the Lean model's; the oracle
// (c16Oracle) is the property, evaluated on the real trace without the model.
// A static part reads the Go generator's emitted-text templates and reports how
// every NewMethod( emission gets its middleware list.

import (
	"context"
	"errors"
	"fmt"
	"go/ast"
	"go/parser"
	"go/token"
	"os"
	"reflect"
	"regexp"
	"runtime"
	"sort"
	"strconv"
	"strings"
	"sync"
	"sync/atomic"
	"time"

	frugal "github.com/Workiva/frugal/lib/go"
	"github.com/apache/thrift/lib/go/thrift"
)

// ---------- tracing middleware ----------

type c16Ev struct {
	kind  byte // 'e' enter, 'b' base, 'x' exit
	label int
	arg   string // enter/base: the string argument seen
	res   string // exit: result seen
	err   string // exit: error seen ("-" = nil)
	cid   string // correlation id of the FContext seen (enter/base)
	mname string // reflect.Method.Name seen (enter)
}

type c16Rec struct {
	mu  sync.Mutex
	evs []c16Ev
}

func (r *c16Rec) add(e c16Ev) {
	r.mu.Lock()
	r.evs = append(r.evs, e)
	r.mu.Unlock()
}

func c16ErrStr(e error) string {
	if e == nil {
		return "-"
	}
	return e.Error()
}

// c16Spec: letters of one middleware. a: append "a<label>" to the argument;
// r: append "r<label>" to the result; c: clear the error; s: set the error to
// "E<label>"; t: append "t<label>" to a non-nil error (precedence c > s > t); o: nothing.
func c16Pre(label int, spec, a string) string {
	if strings.ContainsRune(spec, 'a') {
		return a + "a" + strconv.Itoa(label)
	}
	return a
}

func c16Post(label int, spec, res, err string) (string, string) {
	if strings.ContainsRune(spec, 'r') {
		res += "r" + strconv.Itoa(label)
	}
	switch {
	case strings.ContainsRune(spec, 'c'):
		err = "-"
	case strings.ContainsRune(spec, 's'):
		err = "E" + strconv.Itoa(label)
	case strings.ContainsRune(spec, 't'):
		if err != "-" {
			err += "t" + strconv.Itoa(label)
		}
	}
	return res, err
}

// c16MW builds the real middleware. It calls next exactly once (hypothesis H).
// inPlace: rewrite the Arguments/Results slices it was given instead of fresh ones
// (both are legal middleware styles; the model does not distinguish them).
func c16MW(rec *c16Rec, label int, spec string, inPlace bool) frugal.ServiceMiddleware {
	return func(next frugal.InvocationHandler) frugal.InvocationHandler {
		return func(service reflect.Value, method reflect.Method, args frugal.Arguments) frugal.Results {
			a := args[1].(string)
			rec.add(c16Ev{kind: 'e', label: label, arg: a, cid: args.Context().CorrelationID(), mname: method.Name})
			na := c16Pre(label, spec, a)
			if na != a {
				if inPlace {
					args[1] = na
				} else {
					args = frugal.Arguments{args[0], na}
				}
			}
			results := next(service, method, args)
			res := results[0].(string)
			es := c16ErrStr(results.Error())
			rec.add(c16Ev{kind: 'x', label: label, res: res, err: es})
			nres, nerr := c16Post(label, spec, res, es)
			if nres != res || nerr != es {
				if !inPlace {
					results = frugal.Results{results[0], results[1]}
				}
				results[0] = nres
				if nerr == "-" {
					results.SetError(nil)
				} else if nerr != es {
					results.SetError(errors.New(nerr))
				}
			}
			return results
		}
	}
}

func c16Render(evs []c16Ev, res, err string) string {
	parts := make([]string, 0, len(evs))
	for _, e := range evs {
		switch e.kind {
		case 'e':
			parts = append(parts, fmt.Sprintf("e%d:%s", e.label, e.arg))
		case 'b':
			parts = append(parts, "b:"+e.arg)
		case 'x':
			parts = append(parts, fmt.Sprintf("x%d:%s/%s", e.label, e.res, e.err))
		}
	}
	t := strings.Join(parts, ";")
	if t == "" {
		t = "."
	}
	return t + " R=" + res + "/" + err
}

// ---------- the proxied handler ----------

type c16Handler struct {
	rec   *c16Rec
	fail  bool
	mark  string // appended after "|" so different functions are distinguishable
	yield bool
}

func (h *c16Handler) Handle(ctx frugal.FContext, s string) (string, error) { return h.handle(ctx, s) }
func (h *c16Handler) handle(ctx frugal.FContext, s string) (string, error) {
	h.rec.add(c16Ev{kind: 'b', arg: s, cid: ctx.CorrelationID()})
	if h.yield {
		runtime.Gosched() // concurrent mode: let the other callers in
	}
	if h.fail {
		return s + "|" + h.mark, errors.New("B")
	}
	return s + "|" + h.mark, nil
}

// SubscribeOp exists so that NewMethod(l, handler, "SubscribeOp", …) resolves as in generated code.
type c16GenSub struct {
	provider   *frugal.FScopeProvider
	middleware []frugal.ServiceMiddleware
}

func (l *c16GenSub) SubscribeOp() {}

func c16MethodSet(v interface{}) []string {
	t := reflect.TypeOf(v)
	var out []string
	for i := 0; i < t.NumMethod(); i++ {
		out = append(out, t.Method(i).Name)
	}
	sort.Strings(out)
	return out
}

// ---------- the property oracle (independent of the model) ----------

type c16Decl struct {
	label int
	spec  string
}

// c16Oracle checks one invocation's real trace against the property: `decl` is the
// declared nesting, innermost first. Each declared middleware entered exactly once
// and left exactly once, nobody else; nesting as declared; each sees what the next
// outer one passed on / what the next inner one returned; the base sees the composed
// arguments; the caller sees the composed results; FContext and method name intact.
func c16Oracle(decl []c16Decl, evs []c16Ev, arg, cid, mname string, gotRes, gotErr string) string {
	n := len(decl)
	enters, exits, bases := map[int]int{}, map[int]int{}, 0
	for _, e := range evs {
		switch e.kind {
		case 'e':
			enters[e.label]++
		case 'x':
			exits[e.label]++
		case 'b':
			bases++
		}
	}
	declared := map[int]bool{}
	for _, d := range decl {
		declared[d.label] = true
		if enters[d.label] != 1 || exits[d.label] != 1 {
			return fmt.Sprintf("middleware %d entered %d times, left %d times (want 1, 1)", d.label, enters[d.label], exits[d.label])
		}
	}
	for l := range enters {
		if !declared[l] {
			return fmt.Sprintf("middleware %d was not declared for this object but was entered", l)
		}
	}
	if bases != 1 {
		return fmt.Sprintf("proxied function ran %d times", bases)
	}
	if len(evs) != 2*n+1 {
		return "trace length"
	}
	// nesting order: outermost (last declared) first
	cur := arg
	for j := 0; j < n; j++ {
		d := decl[n-1-j]
		e := evs[j]
		if e.kind != 'e' || e.label != d.label {
			return fmt.Sprintf("position %d: want enter %d, got %c%d", j, d.label, e.kind, e.label)
		}
		if e.arg != cur {
			return fmt.Sprintf("middleware %d saw argument %q, the outer side passed %q", d.label, e.arg, cur)
		}
		if e.cid != cid {
			return fmt.Sprintf("middleware %d saw another FContext", d.label)
		}
		if e.mname != mname {
			return fmt.Sprintf("middleware %d saw method name %q, want %q", d.label, e.mname, mname)
		}
		cur = c16Pre(d.label, d.spec, cur)
	}
	b := evs[n]
	if b.kind != 'b' || b.arg != cur {
		return fmt.Sprintf("proxied function saw %q, want the composed rewrite %q", b.arg, cur)
	}
	if b.cid != cid {
		return "proxied function saw another FContext"
	}
	// the way out: innermost first; the first exit shows what the base returned
	var res, err string
	for j := 0; j < n; j++ {
		d := decl[j]
		e := evs[n+1+j]
		if e.kind != 'x' || e.label != d.label {
			return fmt.Sprintf("position %d: want exit %d, got %c%d", n+1+j, d.label, e.kind, e.label)
		}
		if j == 0 {
			if !strings.HasPrefix(e.res, cur+"|") {
				return fmt.Sprintf("innermost middleware got %q back, not the proxied function's result for %q", e.res, cur)
			}
		} else if e.res != res || e.err != err {
			return fmt.Sprintf("middleware %d got %s/%s back, the inner side returned %s/%s", d.label, e.res, e.err, res, err)
		}
		res, err = c16Post(d.label, d.spec, e.res, e.err)
	}
	if n == 0 {
		if !strings.HasPrefix(gotRes, cur+"|") {
			return "caller got " + gotRes
		}
	} else if gotRes != res || gotErr != err {
		return fmt.Sprintf("caller got %s/%s, the outermost middleware returned %s/%s", gotRes, gotErr, res, err)
	}
	return ""
}

// ---------- helpers ----------

func c16Specs(s string) []string {
	if s == "." || s == "" {
		return nil
	}
	return strings.Split(s, ",")
}

func c16SpecsArg(l []string) string {
	if len(l) == 0 {
		return "."
	}
	return strings.Join(l, ",")
}

// c16Build makes the real middleware for specs, labelled from k, in a slice with
// `extra` spare capacity; style bit j of `style` chooses in-place rewriting.
func c16Build(rec *c16Rec, k int, specs []string, extra int, style uint64) ([]frugal.ServiceMiddleware, []c16Decl) {
	l := make([]frugal.ServiceMiddleware, 0, len(specs)+extra)
	var decl []c16Decl
	for j, s := range specs {
		l = append(l, c16MW(rec, k+j, s, style>>(uint(k+j)%60)&1 == 1))
		decl = append(decl, c16Decl{k + j, s})
	}
	return l, decl
}

// c16Guard: recover with the two panic classes NewMethod has.
func c16Guard(f func()) (outcome string) {
	return guardWith(20*time.Second, f)
}

func guardWith(d time.Duration, f func()) string {
	done := make(chan string, 1)
	go func() {
		defer func() {
			if r := recover(); r != nil {
				s := fmt.Sprint(r)
				switch {
				case strings.Contains(s, "no such method"):
					done <- "panic:nosuchmethod"
				default:
					done <- "panic:" + panicClass(r)
				}
			}
		}()
		f()
		done <- ""
	}()
	select {
	case o := <-done:
		return o
	case <-time.After(d):
		return "blocked"
	}
}

var c16Style uint64 // set by the generator; replays use 0 (the model output does not depend on it)
var c16Extra int    // spare capacity given to constructor slices

// ---------- op mwi: NewMethod + AddMiddleware + Invoke ----------

// mwi <mset> <name> <specs> <added> <reps> <base k|f> <arg>
func realMWI(args []string) (string, bool) {
	if len(args) != 7 {
		return "bad-op", true
	}
	name, specs, added, base, arg := args[1], c16Specs(args[2]), c16Specs(args[3]), args[5], args[6]
	if name == "-" {
		name = ""
	}
	reps, _ := strconv.Atoi(args[4])
	rec := &c16Rec{}
	h := &c16Handler{rec: rec, fail: base == "f"}
	if strings.Join(c16MethodSet(h), ",") != args[0] {
		return "bad-op", true // the line was made for another handler type
	}
	list, decl := c16Build(rec, 0, specs, c16Extra, c16Style)
	addl, adecl := c16Build(rec, len(specs), added, 0, c16Style)
	decl = append(decl, adecl...)
	var outs []string
	fine := true
	o := c16Guard(func() {
		var fn interface{} = h.Handle
		if name != "" && name[0] >= 'a' && name[0] <= 'z' {
			fn = h.handle
		}
		m := frugal.NewMethod(h, fn, name, list)
		for _, a := range addl {
			m.AddMiddleware(a)
		}
		for i := 0; i < reps; i++ {
			rec.evs = nil
			ctx := frugal.NewFContext("")
			r := m.Invoke(frugal.Arguments{ctx, arg})
			res, es := r[0].(string), c16ErrStr(r.Error())
			outs = append(outs, c16Render(rec.evs, res, es))
			if why := c16Oracle(decl, rec.evs, arg, ctx.CorrelationID(), name, res, es); why != "" {
				fine = false
				outs[len(outs)-1] += " !" + strings.ReplaceAll(why, " ", "_")
			}
		}
	})
	if o != "" {
		// NewMethod's documented panics are not property violations; anything else is
		return o, o == "panic:index" && name == "" || o == "panic:nosuchmethod"
	}
	return "ok " + strings.Join(outs, " | "), fine
}

// ---------- op mww: generated wiring for client / publisher / subscriber ----------

// c16CtorAppend is the statement the generator emits in the constructors, in the
// form the static analysis of generator.go found ("alias" = plain append on the
// variadic slice, "copy" = append onto a copy).
func c16CtorAppend(form string, middleware []frugal.ServiceMiddleware, provided []frugal.ServiceMiddleware) []frugal.ServiceMiddleware {
	if form == "copy" {
		return append(append([]frugal.ServiceMiddleware{}, middleware...), provided...)
	}
	return append(middleware, provided...)
}

// mww <site> <ctorSpecs> <provSpecs> <base> <arg>
func realMWW(args []string) (string, bool) {
	if len(args) != 5 {
		return "bad-op", true
	}
	site, ctorS, provS, base, arg := args[0], c16Specs(args[1]), c16Specs(args[2]), args[3], args[4]
	rec := &c16Rec{}
	h := &c16Handler{rec: rec, fail: base == "f"}
	ctor, decl := c16Build(rec, 0, ctorS, c16Extra, c16Style)
	prov, pdecl := c16Build(rec, len(ctorS), provS, 0, c16Style)
	decl = append(decl, pdecl...)
	var out string
	fine := true
	o := c16Guard(func() {
		var m *frugal.Method
		name := "handle"
		switch site {
		case "client":
			p := frugal.NewFServiceProvider(nil, binFactory, prov...)
			mw := func(provider *frugal.FServiceProvider, middleware ...frugal.ServiceMiddleware) []frugal.ServiceMiddleware {
				middleware = append(middleware, provider.GetMiddleware()...)
				return middleware
			}(p, ctor...)
			m = frugal.NewMethod(h, h.handle, name, mw)
		case "publisher":
			p := frugal.NewFScopeProvider(nil, nil, binFactory, prov...)
			mw := func(provider *frugal.FScopeProvider, middleware ...frugal.ServiceMiddleware) []frugal.ServiceMiddleware {
				middleware = append(middleware, provider.GetMiddleware()...)
				return middleware
			}(p, ctor...)
			m = frugal.NewMethod(h, h.handle, name, mw)
		case "subscriber":
			p := frugal.NewFScopeProvider(nil, nil, binFactory, prov...)
			l := func(provider *frugal.FScopeProvider, middleware ...frugal.ServiceMiddleware) *c16GenSub {
				middleware = c16CtorAppend(c16GenForm(), middleware, provider.GetMiddleware())
				return &c16GenSub{provider: provider, middleware: middleware}
			}(p, ctor...)
			name = "SubscribeOp"
			m = frugal.NewMethod(l, h.handle, name, l.middleware)
		default:
			out = "bad-op"
			return
		}
		ctx := frugal.NewFContext("")
		r := m.Invoke(frugal.Arguments{ctx, arg})
		res, es := r[0].(string), c16ErrStr(r.Error())
		out = "ok " + c16Render(rec.evs, res, es)
		if why := c16Oracle(decl, rec.evs, arg, ctx.CorrelationID(), name, res, es); why != "" {
			fine = false
			out += " !" + strings.ReplaceAll(why, " ", "_")
		}
	})
	if o != "" {
		return o, false
	}
	return out, fine
}

// ---------- op mws: two subscribers constructed from one caller slice ----------

// mws <extraCap> <ctorSpecs> <provA> <provB> <base> <arg>
// Subscriber 1 is constructed with provider A, then subscriber 2 with provider B
// from the SAME caller slice (len = |ctor|, cap = |ctor|+extraCap); then subscriber
// 1 subscribes and gets one delivery. Provider B's middleware are labelled 100+j.
// The constructors append the way the generator currently emits it (c16GenForm).
func realMWS(args []string) (string, bool) {
	if len(args) != 6 {
		return "bad-op", true
	}
	return c16TwoSubs(c16GenForm(), args, true)
}

// mwx <form> <extraCap> <ctorSpecs> <provA> <provB> <base> <arg>: the same with an
// explicit append form — ties the model of Go's append (both forms) to Go. The
// property oracle applies only to the form the generator emits.
func realMWX(args []string) (string, bool) {
	if len(args) != 7 || (args[0] != "alias" && args[0] != "copy") {
		return "bad-op", true
	}
	return c16TwoSubs(args[0], args[1:], args[0] == c16GenForm())
}

func c16TwoSubs(form string, args []string, judge bool) (string, bool) {
	ctorS, aS, bS, base, arg := c16Specs(args[1]), c16Specs(args[2]), c16Specs(args[3]), args[4], args[5]
	extra, _ := strconv.Atoi(args[0])
	if extra < 0 || extra > 64 {
		return "bad-op", true
	}
	rec := &c16Rec{}
	h := &c16Handler{rec: rec, fail: base == "f"}
	ctor, decl := c16Build(rec, 0, ctorS, extra, c16Style)
	pa, adecl := c16Build(rec, len(ctorS), aS, 0, c16Style)
	pb, _ := c16Build(rec, 100, bS, 0, c16Style)
	decl = append(decl, adecl...)
	var out string
	fine := true
	o := c16Guard(func() {
		newSub := func(provider *frugal.FScopeProvider, middleware ...frugal.ServiceMiddleware) *c16GenSub {
			middleware = c16CtorAppend(form, middleware, provider.GetMiddleware())
			return &c16GenSub{provider: provider, middleware: middleware}
		}
		s1 := newSub(frugal.NewFScopeProvider(nil, nil, binFactory, pa...), ctor...)
		_ = newSub(frugal.NewFScopeProvider(nil, nil, binFactory, pb...), ctor...)
		m := frugal.NewMethod(s1, h.handle, "SubscribeOp", s1.middleware)
		ctx := frugal.NewFContext("")
		r := m.Invoke(frugal.Arguments{ctx, arg})
		res, es := r[0].(string), c16ErrStr(r.Error())
		out = "ok " + c16Render(rec.evs, res, es)
		if !judge {
			return
		}
		if why := c16Oracle(decl, rec.evs, arg, ctx.CorrelationID(), "SubscribeOp", res, es); why != "" {
			fine = false
			out += " !" + strings.ReplaceAll(why, " ", "_")
		}
	})
	if o != "" {
		return o, false
	}
	return out, fine
}

// ---------- op mwp: processor of an extends chain, through Process on real frames ----------

type c16Reply struct{ res, err string }

func (r *c16Reply) Write(ctx context.Context, p thrift.TProtocol) error {
	if err := p.WriteString(ctx, r.res); err != nil {
		return err
	}
	return p.WriteString(ctx, r.err)
}
func (r *c16Reply) Read(ctx context.Context, p thrift.TProtocol) (err error) {
	if r.res, err = p.ReadString(ctx); err != nil {
		return err
	}
	r.err, err = p.ReadString(ctx)
	return err
}

// c16ProcFn is what a generated processor function is: it embeds
// *FBaseProcessorFunction (AddMiddleware, InvokeMethod, SendReply) and implements Process.
type c16ProcFn struct {
	*frugal.FBaseProcessorFunction
	name string
}

func (p *c16ProcFn) Process(fctx frugal.FContext, iprot, oprot *frugal.FProtocol) error {
	ctx, cancel := frugal.ToContext(fctx)
	defer cancel()
	s, err := iprot.ReadString(ctx)
	iprot.ReadMessageEnd(ctx)
	if err != nil {
		return p.SendError(fctx, oprot, frugal.APPLICATION_EXCEPTION_PROTOCOL_ERROR, p.name, err.Error())
	}
	ret := p.InvokeMethod([]interface{}{fctx, s})
	if len(ret) != 2 {
		panic(fmt.Sprintf("Middleware returned %d arguments, expected 2", len(ret)))
	}
	return p.SendReply(fctx, oprot, p.name, &c16Reply{ret[0].(string), c16ErrStr(ret.Error())})
}

func c16ParseChain(s string) [][]string {
	var out [][]string
	for _, lv := range strings.Split(s, "/") {
		if lv == "." || lv == "" {
			out = append(out, nil)
		} else {
			out = append(out, strings.Split(lv, ","))
		}
	}
	return out
}

// c16Call sends one request through FBaseProcessor.Process and decodes the reply.
func c16Call(p frugal.FProcessor, name, arg string) (cid, res, es string, unknown bool, err error) {
	in := thrift.NewTMemoryBuffer()
	w := binFactory.GetProtocol(in)
	fctx := frugal.NewFContext("")
	ctx, cancel := frugal.ToContext(fctx)
	defer cancel()
	w.WriteRequestHeader(fctx)
	w.WriteMessageBegin(ctx, name, thrift.CALL, 0)
	w.WriteString(ctx, arg)
	w.WriteMessageEnd(ctx)
	w.Flush(ctx)
	outBuf := thrift.NewTMemoryBuffer()
	if err = p.Process(binFactory.GetProtocol(in), binFactory.GetProtocol(outBuf)); err != nil {
		return
	}
	rd := binFactory.GetProtocol(outBuf)
	if err = rd.ReadResponseHeader(fctx); err != nil {
		return
	}
	_, typ, _, e := rd.ReadMessageBegin(ctx)
	if e != nil {
		err = e
		return
	}
	if typ == thrift.EXCEPTION {
		unknown = true
		return
	}
	rep := &c16Reply{}
	err = rep.Read(ctx, rd)
	return fctx.CorrelationID(), rep.res, rep.err, false, err
}

// mwp <chain root-first: n,n/n,n> <ctorSpecs> <added> <base> <arg>
// Output: for every distinct name (sorted) `name=<trace R=…>`, then `zz=unknown`.
func realMWP(args []string) (string, bool) {
	if len(args) != 5 {
		return "bad-op", true
	}
	chain, ctorS, added, base, arg := c16ParseChain(args[0]), c16Specs(args[1]), c16Specs(args[2]), args[3], args[4]
	rec := &c16Rec{}
	var outs []string
	fine := true
	o := c16Guard(func() {
		ctor, decl := c16Build(rec, 0, ctorS, c16Extra, c16Style)
		addl, adecl := c16Build(rec, len(ctorS), added, 0, c16Style)
		decl = append(decl, adecl...)
		// NewF<Child>Processor(handler, middleware...) -> NewF<Parent>Processor(handler, middleware...) -> one FBaseProcessor
		bp := frugal.NewFBaseProcessor()
		names := map[string]int{}
		for lv, level := range chain {
			for _, n := range level {
				h := &c16Handler{rec: rec, fail: base == "f", mark: n + strconv.Itoa(lv)}
				middleware := ctor // variadic pass-through: same slice at every level
				bp.AddToProcessorMap(n, &c16ProcFn{frugal.NewFBaseProcessorFunction(bp.GetWriteMutex(), frugal.NewMethod(h, h.Handle, "Handle", middleware)), n})
				names[n] = lv
			}
		}
		var proc frugal.FProcessor = bp
		for _, a := range addl {
			proc.AddMiddleware(a)
		}
		var keys []string
		for n := range names {
			keys = append(keys, n)
		}
		sort.Strings(keys)
		for _, n := range keys {
			rec.evs = nil
			cid, res, es, unknown, err := c16Call(proc, n, arg)
			if err != nil || unknown {
				outs = append(outs, n+"=failed")
				fine = false
				continue
			}
			o := n + "=" + c16Render(rec.evs, res, es)
			why := c16Oracle(decl, rec.evs, arg, cid, "Handle", res, es)
			// the function that ran is the one of the deepest level defining the name
			if why == "" {
				want := "|" + n + strconv.Itoa(names[n])
				if i := strings.Index(res, "|"); i < 0 || !strings.HasPrefix(res[i:], want) {
					why = "dispatched to another level's function"
				}
			}
			if why != "" {
				fine = false
				o += " !" + strings.ReplaceAll(why, " ", "_")
			}
			outs = append(outs, strings.ReplaceAll(o, " ", "~"))
		}
		rec.evs = nil
		_, _, _, unknown, err := c16Call(proc, "zz", arg)
		if err == nil && unknown && len(rec.evs) == 0 {
			outs = append(outs, "zz=unknown")
		} else {
			outs = append(outs, "zz=handled")
			fine = false
		}
	})
	if o != "" {
		return o, false
	}
	return "ok " + strings.Join(outs, " "), fine
}

// ---------- op mwc: concurrent invocations of ONE Method ----------

// c16Key: the call an observed value belongs to — every call's argument is
// "<prefix>g<g>n<k>." and rewrites only append, so the key is the text up to the first '.'.
func c16Key(s string) string {
	if i := strings.IndexByte(s, '.'); i >= 0 {
		return s[:i+1]
	}
	return "?" + s
}

type c16ConcCall struct {
	arg, cid, res, err string
}

// mwc <G> <K> <R> <specs> <base> <prefix>
// R rounds of: G goroutines x K calls each on one frugal.Method, released together
// by a barrier before every Invoke; every call has its own argument and FContext.
// Output: `ok calls=N uniform <trace with the call's argument written @>` when every
// call's own trace is the same up to its argument (the model's trace for "@").
// Oracle (per call, from what the middleware/handler recorded under that call's
// key): c16Oracle — entered once each, nesting, base saw the composed rewrite of
// THAT call's argument with that call's FContext, caller got the result computed
// from its own argument; and nothing was recorded under a key that is no call's.
func realMWC(args []string) (string, bool) {
	if len(args) != 6 {
		return "bad-op", true
	}
	G, _ := strconv.Atoi(args[0])
	K, _ := strconv.Atoi(args[1])
	R, _ := strconv.Atoi(args[2])
	specs, base, prefix := c16Specs(args[3]), args[4], args[5]
	if G < 1 || G > 16 || K < 1 || K > 1000 || R < 1 || R > 100 || strings.ContainsAny(prefix, ".@") {
		return "bad-op", true
	}
	uniform, why := "", ""
	mixed := false
	o := c16Guard(func() {
		for round := 0; round < R && why == ""; round++ {
			rec := &c16Rec{}
			h := &c16Handler{rec: rec, fail: base == "f", yield: true}
			list, decl := c16Build(rec, 0, specs, c16Extra, c16Style)
			m := frugal.NewMethod(h, h.handle, "handle", list)
			calls := make([][]c16ConcCall, G)
			var arrived, abort int32
			var wg sync.WaitGroup
			panics := make([]string, G)
			for g := 0; g < G; g++ {
				wg.Add(1)
				go func(g int) {
					defer wg.Done()
					defer func() {
						if r := recover(); r != nil {
							panics[g] = fmt.Sprint(r)
							atomic.StoreInt32(&abort, 1)
						}
					}()
					for k := 0; k < K; k++ {
						arg := fmt.Sprintf("%sg%dn%d.", prefix, g, k)
						ctx := frugal.NewFContext("")
						// barrier: all G callers enter Invoke together
						atomic.AddInt32(&arrived, 1)
						for atomic.LoadInt32(&arrived) < int32((k+1)*G) && atomic.LoadInt32(&abort) == 0 {
							runtime.Gosched()
						}
						r := m.Invoke(frugal.Arguments{ctx, arg})
						calls[g] = append(calls[g], c16ConcCall{arg, ctx.CorrelationID(), r[0].(string), c16ErrStr(r.Error())})
					}
				}(g)
			}
			wg.Wait()
			for g, p := range panics {
				if p != "" {
					why = fmt.Sprintf("goroutine %d panicked: %s", g, p)
					return
				}
			}
			byKey := map[string][]c16Ev{}
			for _, e := range rec.evs {
				k := c16Key(e.arg)
				if e.kind == 'x' {
					k = c16Key(e.res)
				}
				byKey[k] = append(byKey[k], e)
			}
			known := map[string]bool{}
			for g := 0; g < G; g++ {
				for _, c := range calls[g] {
					known[c.arg] = true
					t := strings.ReplaceAll(c16Render(byKey[c.arg], c.res, c.err), c.arg, "@")
					if uniform == "" {
						uniform = t
					} else if t != uniform {
						mixed = true
					}
					if w := c16Oracle(decl, byKey[c.arg], c.arg, c.cid, "handle", c.res, c.err); w != "" && why == "" {
						why = "call " + c.arg + ": " + w
					}
				}
			}
			for k := range byKey {
				if !known[k] && why == "" {
					why = "something was observed that belongs to no call: " + k
				}
			}
		}
	})
	if o != "" {
		return o, false
	}
	out := fmt.Sprintf("ok calls=%d ", G*K*R)
	if mixed {
		out += "mixed "
	} else {
		out += "uniform "
	}
	out += uniform
	if why != "" {
		return out + " !" + strings.ReplaceAll(why, " ", "_"), false
	}
	return out, true
}

// ---------- static tie to the generator: how NewMethod( emissions get their list ----------

const c16GeneratorPath = "/repo/compiler/generator/golang/generator.go"

var c16Static struct {
	done   bool
	err    string
	wiring map[string]string // site -> ctor-then-provider | provider-then-ctor | ctor | unknown:…
	form   map[string]string // site -> alias | copy | none
	lazy   string            // subscriber: where NewMethod gets its list from
	sites  string            // census of NewMethod( emissions
}

// c16Templates returns the text the generator emits, as far as it is written as
// string literals: all string literals of the file, unquoted, in source order.
func c16Templates(path string) (string, error) {
	fset := token.NewFileSet()
	f, err := parser.ParseFile(fset, path, nil, 0)
	if err != nil {
		return "", err
	}
	var sb strings.Builder
	ast.Inspect(f, func(n ast.Node) bool {
		if bl, ok := n.(*ast.BasicLit); ok && bl.Kind == token.STRING {
			if s, err := strconv.Unquote(bl.Value); err == nil {
				sb.WriteString(s)
			}
		}
		return true
	})
	return sb.String(), nil
}

// c16ClassifyAppend: `expr` is the right-hand side assigned to the variadic
// parameter `param`. Returns the order and whether the caller's array can be written.
func c16ClassifyAppend(expr, param string) (order, form string) {
	e, err := parser.ParseExpr(expr)
	if err != nil {
		return "unknown:unparsable", "none"
	}
	call, ok := e.(*ast.CallExpr)
	if !ok || len(call.Args) != 2 || !call.Ellipsis.IsValid() {
		return "unknown:not-append", "none"
	}
	if id, ok := call.Fun.(*ast.Ident); !ok || id.Name != "append" {
		return "unknown:not-append", "none"
	}
	isProvider := func(x ast.Expr) bool {
		c, ok := x.(*ast.CallExpr)
		if !ok || len(c.Args) != 0 {
			return false
		}
		sel, ok := c.Fun.(*ast.SelectorExpr)
		if !ok || sel.Sel.Name != "GetMiddleware" {
			return false
		}
		id, ok := sel.X.(*ast.Ident)
		return ok && id.Name == "provider"
	}
	// what the first/second argument is built from
	var ctorForm func(x ast.Expr) string
	ctorForm = func(x ast.Expr) string {
		switch v := x.(type) {
		case *ast.Ident:
			if v.Name == param {
				return "alias"
			}
		case *ast.SliceExpr: // middleware[:len(middleware):len(middleware)]
			if id, ok := v.X.(*ast.Ident); ok && id.Name == param && v.Slice3 && v.Max != nil {
				return "copy"
			}
		case *ast.CallExpr: // append([]T{}, middleware...) / append([]T(nil), middleware...)
			if id, ok := v.Fun.(*ast.Ident); ok && id.Name == "append" && len(v.Args) == 2 && v.Ellipsis.IsValid() {
				if inner, ok := v.Args[1].(*ast.Ident); ok && inner.Name == param {
					switch v.Args[0].(type) {
					case *ast.CompositeLit, *ast.CallExpr:
						return "copy"
					}
				}
			}
		}
		return ""
	}
	if f := ctorForm(call.Args[0]); f != "" && isProvider(call.Args[1]) {
		return "ctor-then-provider", f
	}
	if isProvider(call.Args[0]) && ctorForm(call.Args[1]) != "" {
		return "provider-then-ctor", "copy"
	}
	return "unknown:" + strings.Join(strings.Fields(expr), ""), "none"
}

var (
	c16ReCtor = map[string]*regexp.Regexp{
		"client":     regexp.MustCompile(`(?s)func NewF%sClient\(\s*provider \*frugal\.FServiceProvider,\s*(\w+) \.\.\.frugal\.ServiceMiddleware\)(.*?)\n}\n`),
		"publisher":  regexp.MustCompile(`(?s)func New%sPublisher\(\s*provider \*frugal\.FScopeProvider,\s*(\w+) \.\.\.frugal\.ServiceMiddleware\)(.*?)\n}\n`),
		"subscriber": regexp.MustCompile(`(?s)func New%s(?:Errorable)?Subscriber\(\s*provider \*frugal\.FScopeProvider,\s*(\w+) \.\.\.frugal\.ServiceMiddleware\)(.*?)\n}\n`),
		"processor":  regexp.MustCompile(`(?s)func NewF%sProcessor\(\s*handler F%s,\s*(\w+) \.\.\.frugal\.ServiceMiddleware\)(.*?)\n}\n`),
	}
	c16ReNewMethod = regexp.MustCompile(`frugal\.NewMethod\(([^\n]*)\)`)
	c16ReStored    = regexp.MustCompile(`Subscriber\{[^}\n]*\bmiddleware:\s*(\w+)\s*[,}]`)
)

// c16ExprEnd: the end of the expression starting at `from` — the end of the line on
// which all parentheses/brackets/braces opened since `from` are closed again.
func c16ExprEnd(s string, from int) int {
	depth := 0
	for i := from; i < len(s); i++ {
		switch s[i] {
		case '(', '[', '{':
			depth++
		case ')', ']', '}':
			depth--
		case '\n':
			if depth <= 0 {
				return i
			}
		}
	}
	return len(s)
}

// lastArg of a NewMethod( emission (the text up to the matching parenthesis).
func c16NewMethodLastArg(s string) string {
	depth, end := 0, -1
	for i, c := range s {
		if c == '(' {
			depth++
		} else if c == ')' {
			if depth == 0 {
				end = i
				break
			}
			depth--
		}
	}
	if end < 0 {
		end = len(s)
	}
	parts := strings.Split(s[:end], ",")
	return strings.TrimSpace(parts[len(parts)-1])
}

func c16Analyze() {
	if c16Static.done {
		return
	}
	c16Static.done = true
	c16Static.wiring, c16Static.form = map[string]string{}, map[string]string{}
	path := c16GeneratorPath
	if p := os.Getenv("VERIF_C16_GENERATOR"); p != "" { // development-time validation on a scratch copy
		path = p
	}
	text, err := c16Templates(path)
	if err != nil {
		c16Static.err = err.Error()
		return
	}
	total := len(regexp.MustCompile(`frugal\.NewMethod\(`).FindAllStringIndex(text, -1))
	accounted := 0
	var sites []string
	for _, site := range []string{"client", "processor", "publisher", "subscriber"} {
		ms := c16ReCtor[site].FindAllStringSubmatch(text, -1)
		if len(ms) == 0 {
			c16Static.wiring[site] = "unknown:no-constructor"
			c16Static.form[site] = "none"
			continue
		}
		verdict, form := "", ""
		for _, m := range ms {
			param, body := m[1], m[2]
			// the (last) assignment to the parameter before it is used
			reAssign := regexp.MustCompile(`(?m)^\s*` + regexp.QuoteMeta(param) + `\s*=\s*`)
			as := reAssign.FindAllStringIndex(body, -1)
			v, f := "ctor", "none"
			listPos := 0
			if len(as) == 1 {
				end := c16ExprEnd(body, as[0][1])
				v, f = c16ClassifyAppend(strings.TrimSpace(body[as[0][1]:end]), param)
				listPos = end
			} else if len(as) > 1 {
				v = "unknown:reassigned"
			}
			// every NewMethod( in the constructor takes the parameter, after the assignment
			for _, nm := range c16ReNewMethod.FindAllStringSubmatchIndex(body, -1) {
				accounted++
				if c16NewMethodLastArg(body[nm[2]:]) != param {
					v = "unknown:newmethod-takes-" + c16NewMethodLastArg(body[nm[2]:])
				} else if nm[0] < listPos {
					v = "unknown:newmethod-before-append"
				}
			}
			if site == "subscriber" {
				st := c16ReStored.FindStringSubmatch(body)
				if st == nil || st[1] != param {
					v = "unknown:list-not-stored"
				} else if loc := c16ReStored.FindStringIndex(body); loc[0] < listPos {
					v = "unknown:stored-before-append"
				}
			}
			if verdict == "" {
				verdict, form = v, f
			} else if verdict != v || form != f {
				verdict, form = "unknown:constructors-differ", "none"
			}
		}
		c16Static.wiring[site] = verdict
		c16Static.form[site] = form
		sites = append(sites, site)
	}
	// the subscriber composes at Subscribe<Op> time from the stored list
	c16Static.lazy = "unknown"
	for _, nm := range c16ReNewMethod.FindAllStringSubmatch(text, -1) {
		if last := c16NewMethodLastArg(nm[1] + ")"); strings.HasSuffix(last, ".middleware") {
			accounted++
			if last == "l.middleware" && strings.HasPrefix(strings.TrimSpace(nm[1]), "l,") {
				c16Static.lazy = "stored-list"
			}
		}
	}
	c16Static.sites = fmt.Sprintf("%s accounted=%v", strings.Join(sites, ","), accounted == total)
}

// c16GenForm: the append form the generator emits in subscriber constructors.
func c16GenForm() string {
	c16Analyze()
	if f := c16Static.form["subscriber"]; f == "copy" {
		return "copy"
	}
	return "alias"
}

// wiring <what>
func realWiring(args []string) (string, bool) {
	if len(args) != 1 {
		return "bad-op", true
	}
	c16Analyze()
	if c16Static.err != "" {
		return "err:" + strings.ReplaceAll(c16Static.err, " ", "_"), true
	}
	switch args[0] {
	case "client", "publisher", "subscriber", "processor":
		return c16Static.wiring[args[0]], true
	case "subscriber-list":
		return c16Static.lazy, true
	case "subscriber-append":
		return c16Static.form["subscriber"], true
	case "newmethod-sites":
		return c16Static.sites, true
	}
	return "bad-op", true
}

// ---------- generation ----------

var c16Letters = []string{"o", "o", "a", "r", "ar", "c", "s", "t", "as", "rt", "art", "ac"}

func c16GenSpecs(r *Rng, max int) []string {
	n := r.Intn(max + 1)
	out := make([]string, n)
	for i := range out {
		out[i] = c16Letters[r.Intn(len(c16Letters))]
	}
	return out
}

func c16GenArg(r *Rng) string {
	const al = "abcxyz019"
	n := 1 + r.Intn(4)
	b := make([]byte, n)
	for i := range b {
		b[i] = al[r.Intn(len(al))]
	}
	return string(b)
}

func c16Clip(o string) string {
	if len(o) > 300 {
		return o[:300] + "…"
	}
	return o
}

func c16Emit(op string, args []string, f func([]string) (string, bool)) {
	line := op + " " + strings.Join(args, " ")
	o, fine := f(args)
	Case(line, o)
	Stat("op:" + op)
	if !fine {
		why := o
		if i := strings.Index(o, " !"); i >= 0 {
			why = o[i+2:]
			if j := strings.Index(why, " "); j >= 0 {
				why = why[:j]
			}
			why = strings.ReplaceAll(why, "_", " ")
		}
		OracleFail("C16 "+op+": "+c16Clip(why), map[string]interface{}{"op": op, "line": line, "got": c16Clip(o)})
	}
	Sample(map[string]interface{}{"line": line, "real": c16Clip(o)})
}

func runC16(r *Rng, n int) {
	// static part first: one Case per site
	for _, w := range []string{"client", "publisher", "subscriber", "processor", "subscriber-list", "subscriber-append", "newmethod-sites"} {
		o, _ := realWiring([]string{w})
		Case("wiring "+w, o)
		Stat("op:wiring")
	}
	form := c16GenForm()
	Stat("generator-subscriber-append:" + form)
	mset := strings.Join(c16MethodSet(&c16Handler{}), ",")
	for i := 0; i < n; i++ {
		c16Style = r.U64()
		c16Extra = r.Pick(0, 0, 1, 2, 5)
		base := "k"
		if r.Chance(30) {
			base = "f"
		}
		arg := c16GenArg(r)
		switch k := r.Intn(16); {
		case k >= 14:
			c16GenMWL(r) // when and from what the chain is composed (middleware_lifetime.go)
		case k >= 11:
			c16GenMWV(r) // the value dimension (middleware_values.go)
		case k == 10:
			G, K := 2+r.Intn(7), r.Pick(1, 5, 20, 40)
			specs := c16GenSpecs(r, 3)
			Stat(fmt.Sprintf("mwc:G=%d", G))
			Stat(fmt.Sprintf("mwc:K=%d", K))
			Stat(fmt.Sprintf("mwc:len=%d", len(specs)))
			StatN("mwc:calls", G*K*2)
			c16Emit("mwc", []string{strconv.Itoa(G), strconv.Itoa(K), "2", c16SpecsArg(specs), base, c16GenArg(r)}, realMWC)
		case k < 4:
			specs, added := c16GenSpecs(r, 6), c16GenSpecs(r, 3)
			name := "handle"
			switch r.Intn(12) {
			case 0:
				name = "-"
			case 1:
				name = "Missing"
			case 2, 3, 4, 5:
				name = "Handle"
			}
			Stat(fmt.Sprintf("mwi:len=%d", len(specs)))
			Stat(fmt.Sprintf("mwi:added=%d", len(added)))
			Stat("mwi:name=" + name)
			c16Emit("mwi", []string{mset, name, c16SpecsArg(specs), c16SpecsArg(added), strconv.Itoa(1 + r.Intn(3)), base, arg}, realMWI)
		case k < 6:
			site := []string{"client", "publisher", "subscriber"}[r.Intn(3)]
			ctor, prov := c16GenSpecs(r, 4), c16GenSpecs(r, 4)
			Stat("mww:site=" + site)
			Stat(fmt.Sprintf("mww:ctor=%d,prov=%d", len(ctor), len(prov)))
			c16Emit("mww", []string{site, c16SpecsArg(ctor), c16SpecsArg(prov), base, arg}, realMWW)
		case k < 8:
			levels := 1 + r.Intn(3)
			pool := []string{"ping", "get", "put", "del", "list"}
			var chain []string
			for l := 0; l < levels; l++ {
				m := r.Intn(4)
				var names []string
				seen := map[string]bool{}
				for j := 0; j < m; j++ {
					nm := pool[r.Intn(len(pool))]
					if !seen[nm] {
						seen[nm] = true
						names = append(names, nm)
					}
				}
				chain = append(chain, c16SpecsArg(names))
			}
			ctor, added := c16GenSpecs(r, 4), c16GenSpecs(r, 3)
			Stat(fmt.Sprintf("mwp:levels=%d", levels))
			Stat(fmt.Sprintf("mwp:ctor=%d,added=%d", len(ctor), len(added)))
			c16Emit("mwp", []string{strings.Join(chain, "/"), c16SpecsArg(ctor), c16SpecsArg(added), base, arg}, realMWP)
		default:
			ctor, pa, pb := c16GenSpecs(r, 4), c16GenSpecs(r, 3), c16GenSpecs(r, 3)
			extra := r.Pick(0, 1, 1, 2, 3, 4, 6)
			Stat(fmt.Sprintf("mws:extra=%d", extra))
			Stat(fmt.Sprintf("mws:provA=%d,provB=%d", len(pa), len(pb)))
			if r.Chance(60) {
				c16Emit("mws", []string{strconv.Itoa(extra), c16SpecsArg(ctor), c16SpecsArg(pa), c16SpecsArg(pb), base, arg}, realMWS)
			} else {
				c16Emit("mwx", []string{[]string{"alias", "copy"}[r.Intn(2)], strconv.Itoa(extra), c16SpecsArg(ctor), c16SpecsArg(pa), c16SpecsArg(pb), base, arg}, realMWX)
			}
		}
		Stat("evaluations")
	}
	c16Style, c16Extra = 0, 0
}

func init() {
	suites["c16"] = runC16
	lineOps["mwi"] = realMWI
	lineOps["mww"] = realMWW
	lineOps["mwp"] = realMWP
	lineOps["mws"] = realMWS
	lineOps["mwx"] = realMWX
	lineOps["mwc"] = realMWC
	lineOps["wiring"] = realWiring
}
