package main

// C12: every runtime helper of lib/go/encoder.go (used by code generated with `-gen go:slim` for every
// field) must hand a failed write back as what it is: when the transport rejects a write with the
// too-large transport exception, the helper's error must still satisfy frugal.IsErrTooLarge (the client
// returns it as REQUEST_TOO_LARGE, the server's trapError turns it into RESPONSE_TOO_LARGE only then).
// Each helper is called on a binary, compact and JSON protocol over a transport that fails its k-th
// operation (k = 0, 1, 2, …) with the buffer's own error. Oracle only (no model line).

import (
	"context"
	"fmt"
	"time"

	frugal "github.com/Workiva/frugal/lib/go"
	"github.com/apache/thrift/lib/go/thrift"
)

// c12FailAt is a TRichTransport whose k-th write operation fails like TMemoryOutputBuffer does.
type c12FailAt struct {
	c12Recorder
	k, n int
}

func (t *c12FailAt) fail() error {
	t.n++
	if t.n-1 == t.k {
		return thrift.NewTTransportException(frugal.TRANSPORT_EXCEPTION_REQUEST_TOO_LARGE, "Buffer size reached (test)")
	}
	return nil
}
func (t *c12FailAt) Write(p []byte) (int, error) {
	if err := t.fail(); err != nil {
		return 0, err
	}
	return len(p), nil
}
func (t *c12FailAt) WriteByte(c byte) error { return t.fail() }
func (t *c12FailAt) WriteString(s string) (int, error) {
	if err := t.fail(); err != nil {
		return 0, err
	}
	return len(s), nil
}

var _ thrift.TRichTransport = (*c12FailAt)(nil)

type c12Helper struct {
	name string
	call func(ctx context.Context, p thrift.TProtocol) error
}

func c12Helpers() []c12Helper {
	inner := &c12Shape{fields: []c12Field{{"string", 3}, {"i64", 1}}}
	return []c12Helper{
		{"WriteString", func(ctx context.Context, p thrift.TProtocol) error { return frugal.WriteString(p, "abc", "f", 1) }},
		{"WriteStringWithContext", func(ctx context.Context, p thrift.TProtocol) error {
			return frugal.WriteStringWithContext(ctx, p, "abc", "f", 1)
		}},
		{"WriteBool", func(ctx context.Context, p thrift.TProtocol) error { return frugal.WriteBool(p, true, "f", 1) }},
		{"WriteBoolWithContext", func(ctx context.Context, p thrift.TProtocol) error {
			return frugal.WriteBoolWithContext(ctx, p, true, "f", 1)
		}},
		{"WriteByte", func(ctx context.Context, p thrift.TProtocol) error { return frugal.WriteByte(p, 7, "f", 1) }},
		{"WriteByteWithContext", func(ctx context.Context, p thrift.TProtocol) error {
			return frugal.WriteByteWithContext(ctx, p, 7, "f", 1)
		}},
		{"WriteDouble", func(ctx context.Context, p thrift.TProtocol) error { return frugal.WriteDouble(p, 1.5, "f", 1) }},
		{"WriteDoubleWithContext", func(ctx context.Context, p thrift.TProtocol) error {
			return frugal.WriteDoubleWithContext(ctx, p, 1.5, "f", 1)
		}},
		{"WriteI16", func(ctx context.Context, p thrift.TProtocol) error { return frugal.WriteI16(p, 300, "f", 1) }},
		{"WriteI16WithContext", func(ctx context.Context, p thrift.TProtocol) error {
			return frugal.WriteI16WithContext(ctx, p, 300, "f", 1)
		}},
		{"WriteI32", func(ctx context.Context, p thrift.TProtocol) error { return frugal.WriteI32(p, 70000, "f", 1) }},
		{"WriteI32WithContext", func(ctx context.Context, p thrift.TProtocol) error {
			return frugal.WriteI32WithContext(ctx, p, 70000, "f", 1)
		}},
		{"WriteI64", func(ctx context.Context, p thrift.TProtocol) error { return frugal.WriteI64(p, 1<<40, "f", 1) }},
		{"WriteI64WithContext", func(ctx context.Context, p thrift.TProtocol) error {
			return frugal.WriteI64WithContext(ctx, p, 1<<40, "f", 1)
		}},
		{"WriteBinary", func(ctx context.Context, p thrift.TProtocol) error {
			return frugal.WriteBinary(p, []byte{1, 2, 3}, "f", 1)
		}},
		{"WriteBinaryWithContext", func(ctx context.Context, p thrift.TProtocol) error {
			return frugal.WriteBinaryWithContext(ctx, p, []byte{1, 2, 3}, "f", 1)
		}},
		{"WriteStruct", func(ctx context.Context, p thrift.TProtocol) error { return frugal.WriteStruct(p, inner, "f", 1) }},
		{"WriteStructWithContext", func(ctx context.Context, p thrift.TProtocol) error {
			return frugal.WriteStructWithContext(ctx, p, inner, "f", 1)
		}},
	}
}

// c12HelperCheck runs every helper against every failing position on every protocol.
func c12HelperCheck() {
	ctx := context.Background()
	for _, h := range c12Helpers() {
		for _, proto := range c12Protos {
			// number of transport operations of the helper on this protocol
			rec := &c12Recorder{}
			p0 := c12ProtoFactory(proto).GetProtocol(rec)
			h.call(ctx, p0)
			p0.Flush(ctx)
			nops := len(rec.ops)
			for k := 0; k < nops; k++ {
				var err error
				ft := &c12FailAt{k: k}
				o := guard(10*time.Second, func() {
					p := c12ProtoFactory(proto).GetProtocol(ft)
					err = h.call(ctx, p)
					if err == nil {
						err = p.Flush(ctx)
					}
				})
				Stat("helpers:evaluations")
				bad := ""
				switch {
				case o != "":
					bad = o
				case err == nil:
					bad = "the failed write is not reported at all"
				case !frugal.IsErrTooLarge(err):
					bad = fmt.Sprintf("the transport's too-large error comes back as %T (%v): not a TTransportException of the too-large class", err, err)
				}
				if bad != "" {
					OracleFail("a lib/go/encoder.go helper does not preserve the too-large transport error", map[string]interface{}{
						"op": "c12helper", "helper": h.name, "protocol": proto, "failing_op": k, "why": "frugal." + h.name + ": " + bad})
					break
				}
			}
		}
	}
}
