package main

// C13 at the low end of "every positive timeout": timeouts below the wire's resolution (the `_timeout` header
// counts whole milliseconds) and around it — 1 ns, 1 µs, 500 µs, 999 µs, 1 ms, 1.5 ms, 2 ms — against a peer
// that never answers, for Request and Oneway on the adapter, HTTP and NATS client transports. A positive
// timeout must never turn into "no deadline".
//
// Op:  rqt <transport> <nanoseconds> <oneway 0/1>   ->  outcome=timedOut | outcome=ok (a oneway whose write is accepted)

import (
	"fmt"
	"net/http"
	"net/http/httptest"
	"strconv"
	"sync/atomic"
	"time"

	frugal "github.com/Workiva/frugal/lib/go"
	"github.com/apache/thrift/lib/go/thrift"
	"github.com/nats-io/nats.go"
)

var tinyTimeouts = []int64{1, 1000, 500000, 999000, 999999, 1000000, 1000001, 1500000, 2000000}

func runTinyTimeoutCase(transport string, ns int64, oneway bool) (string, bool, string) {
	timeout := time.Duration(ns)
	var tr frugal.FTransport
	switch transport {
	case "adapter":
		tr = frugal.NewAdapterTransport(newScriptedPeer())
	case "http":
		release := make(chan struct{})
		srv := httptest.NewServer(http.HandlerFunc(func(w http.ResponseWriter, r *http.Request) { <-release }))
		defer srv.Close()
		defer close(release)
		tr = frugal.NewFHTTPTransportBuilder(&http.Client{}, srv.URL).Build()
	case "nats":
		url, err := c20Broker()
		if err != nil {
			return "no-broker", false, err.Error()
		}
		conn, err := nats.Connect(url)
		if err != nil {
			return "no-conn", false, err.Error()
		}
		defer conn.Close()
		peer, err := nats.Connect(url)
		if err != nil {
			return "no-conn", false, err.Error()
		}
		defer peer.Close()
		subject := fmt.Sprintf("verif.c13tiny.%d", atomic.AddUint64(&natsReqSeq, 1))
		peer.Subscribe(subject, func(m *nats.Msg) {}) // a listener that never answers
		peer.Flush()
		tr = frugal.NewFNatsTransport(conn, subject, "")
	default:
		return "bad-op", true, ""
	}
	if err := tr.Open(); err != nil {
		return "open-failed", false, err.Error()
	}
	defer tr.Close()
	ctx := frugal.NewFContext("")
	ctx.SetTimeout(timeout)
	start := time.Now()
	done := make(chan error, 1)
	go func() {
		if oneway {
			done <- tr.Oneway(ctx, []byte{0, 0, 0, 1, 0})
		} else {
			_, err := tr.Request(ctx, []byte{0, 0, 0, 1, 0})
			done <- err
		}
	}()
	var err error
	select {
	case err = <-done:
	case <-time.After(timeout + 2*time.Second):
		return "outcome=hung", false, fmt.Sprintf("a call on the %s transport with the POSITIVE FContext timeout %v against a silent peer had not returned 2 s after its timeout (the timeout became no deadline)", transport, timeout)
	}
	elapsed := time.Since(start)
	outcome := "ok"
	if te, ok := err.(thrift.TTransportException); ok && te.TypeId() == frugal.TRANSPORT_EXCEPTION_TIMED_OUT {
		outcome = "timedOut"
	} else if err != nil {
		outcome = "err:" + errClass(err)
	}
	why := ""
	if elapsed > timeout+allowance {
		why = fmt.Sprintf("call returned after %v with timeout %v (allowance %v)", elapsed.Round(time.Millisecond), timeout, allowance)
	}
	// a oneway whose write the transport accepted may report success; everything else must be TIMED_OUT
	if outcome != "timedOut" && !(oneway && outcome == "ok" && transport != "http") && why == "" {
		why = fmt.Sprintf("%s call with timeout %v against a silent peer reported %s, expected TIMED_OUT", transport, timeout, outcome)
	}
	return "outcome=" + outcome, why == "", why
}

func init() {
	suites["c13tiny"] = func(r *Rng, n int) {
		for i := 0; i < n; i++ {
			transport := []string{"adapter", "http", "nats"}[r.Intn(3)]
			ns := tinyTimeouts[r.Intn(len(tinyTimeouts))]
			ow := r.Intn(3) == 0
			obs, fine, why := retryTiming(func() (string, bool, string) { return runTinyTimeoutCase(transport, ns, ow) })
			line := fmt.Sprintf("rqt %s %d %d", transport, ns, map[bool]int{false: 0, true: 1}[ow])
			Case(line, obs)
			Stat("transport:" + transport)
			Stat(fmt.Sprintf("ns=%d", ns))
			if !fine {
				OracleFail(why, map[string]interface{}{"op": "rqt", "line": line, "got": obs})
			}
			Stat("evaluations")
		}
	}
	lineOps["rqt"] = func(a []string) (string, bool) {
		if len(a) != 3 {
			return "bad-op", true
		}
		ns, _ := strconv.ParseInt(a[1], 10, 64)
		obs, fine, _ := runTinyTimeoutCase(a[0], ns, a[2] == "1")
		return obs, fine
	}
}
