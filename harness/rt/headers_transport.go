package main

// C04 — the TRANSPORT UNDER the FProtocol as a dimension of the read side (suite c04tr).
//
// FProtocolFactory is documented to compose with "any existing Thrift transports"; readHeader takes an
// io.Reader. What a reader may rely on is Read; everything else a transport offers (thrift.ReadSizeProvider's
// RemainingBytes, the size of the pieces Read hands out) is advisory: transports that decode or buffer report
// what is left UNDERNEATH them, or 0, or "unknown". So the header block that was written must be read back
// as exactly the written map — whatever transport delivers the bytes, in whatever pieces, whatever it
// reports as remaining — for header blocks on both sides of every size constant of the code.
//
//   tpq <hex> <kind>:<k>           ReadRequestHeader over a transport of <kind> that delivers the bytes
//                                  -> as prq
//   tps <hex> <pairs> <kind>:<k>   ReadResponseHeader(ctx holding <pairs>) -> as prs
//   tpg <q|s> <kind>:<k> <where> <padLen> <payloadLen> <seed>
//                                  generated big case (never sent to the model: up to 16 MB): a small map plus
//                                  one name or value of padLen bytes, written with Write{Request,Response}Header,
//                                  carried by the transport, read back -> ok size=<block> n=<pairs> rest=<len>
//
// <kind> (k = bytes per underlying Read / frame payload / piece, as the kind uses it):
//   mem     thrift.TMemoryBuffer                                  remaining = unread length (exact)
//   ffr     frugal.TFramedTransport (written through its write side, one frame)   rest of the frame
//   tfr     thrift.NewTFramedTransportConf, the bytes in frames of k bytes        rest of the CURRENT frame
//   bufs    thrift.NewTBufferedTransport(16 bytes) over a transport that returns 1..k bytes per Read
//   bufl    thrift.NewTBufferedTransport(64 KiB) over the same           what is left UNDER the buffer
//   bufm    thrift.NewTBufferedTransport(4096) over a TMemoryBuffer      what is left UNDER the buffer
//   bufr    thrift.NewTBufferedTransport(4096) over StreamTransport over a reader returning 1..k bytes
//   zlib    thrift.NewTZlibTransport: written through the compressing side, read through the inflating side
//                                                                        COMPRESSED bytes not yet consumed
//   pipe    thrift.StreamTransport over an io.Pipe fed in pieces of 1..k bytes    max-uint64
//   fill    a TMemoryBuffer that is being filled (k bytes at a time) while it is read   what has arrived
//   rem0 / rem1 / remx / remmax   hand-written TTransport, 1..k bytes per Read, RemainingBytes() = 0 / 1 /
//                                 exact / max-uint64
//   (thrift 0.19's TTransport interface includes RemainingBytes, so every transport has one)
//
// Oracle (the property, independent of the model): the map read back is exactly the map that was written
// (request: apart from the fresh _opid; response: every written header visible with the written value, the
// context's other headers unchanged) and the payload behind the block is delivered untouched.

import (
	"bytes"
	"context"
	"fmt"
	"go/ast"
	"go/parser"
	"go/token"
	"io"
	"os"
	"path/filepath"
	"reflect"
	"runtime"
	"sort"
	"strconv"
	"strings"
	"time"

	frugal "github.com/Workiva/frugal/lib/go"
	"github.com/apache/thrift/lib/go/thrift"
)

// ---------- hand-written transports ----------

// pieceLen: how many bytes the Read at offset pos hands out at most (1..k, a function of the position so that
// a replayed line sees the same pieces).
func pieceLen(pos, k int) int {
	if k <= 1 {
		return 1
	}
	return 1 + (pos*7+3)%k
}

// shortReader: an io.Reader returning 1..k bytes per Read.
type shortReader struct {
	data []byte
	pos  int
	k    int
}

func (s *shortReader) Read(p []byte) (int, error) {
	if len(p) == 0 {
		return 0, nil
	}
	if s.pos >= len(s.data) {
		return 0, io.EOF
	}
	n := pieceLen(s.pos, s.k)
	if n > len(p) {
		n = len(p)
	}
	if n > len(s.data)-s.pos {
		n = len(s.data) - s.pos
	}
	copy(p, s.data[s.pos:s.pos+n])
	s.pos += n
	return n, nil
}

// userTransport: the body of a TTransport somebody wrote: short reads.
type userTransport struct{ shortReader }

func (u *userTransport) Open() error                     { return nil }
func (u *userTransport) IsOpen() bool                    { return true }
func (u *userTransport) Close() error                    { return nil }
func (u *userTransport) Write(p []byte) (int, error)     { return len(p), nil }
func (u *userTransport) Flush(ctx context.Context) error { return nil }

// remTransport: the same with an advisory RemainingBytes.
type remTransport struct {
	userTransport
	mode string
}

func (t *remTransport) RemainingBytes() uint64 {
	switch t.mode {
	case "rem0":
		return 0
	case "rem1":
		return 1
	case "remmax":
		return ^uint64(0)
	}
	return uint64(len(t.data) - t.pos)
}

// fillTransport: a TMemoryBuffer that is still being filled while it is read (the producer is k bytes ahead
// at most); RemainingBytes is the TMemoryBuffer's own.
type fillTransport struct {
	*thrift.TMemoryBuffer
	pending []byte
	k       int
}

func (f *fillTransport) Read(p []byte) (int, error) {
	if f.TMemoryBuffer.Len() == 0 && len(f.pending) > 0 {
		n := f.k
		if n > len(f.pending) {
			n = len(f.pending)
		}
		f.TMemoryBuffer.Write(f.pending[:n])
		f.pending = f.pending[n:]
	}
	return f.TMemoryBuffer.Read(p)
}

var c04Kinds = []string{"mem", "ffr", "tfr", "bufs", "bufl", "bufm", "bufr", "zlib", "pipe", "fill", "rem0", "rem1", "remx", "remmax"}

func c04KindKnown(kind string) bool {
	for _, k := range c04Kinds {
		if k == kind {
			return true
		}
	}
	return false
}

// c04Carry makes a transport of the kind deliver exactly `in`. cleanup must be called when done.
func c04Carry(kind string, k int, in []byte) (tr thrift.TTransport, cleanup func(), err error) {
	cleanup = func() {}
	if k < 1 {
		k = 1
	}
	ctx := context.Background()
	switch kind {
	case "mem":
		m := thrift.NewTMemoryBuffer()
		m.Write(in)
		return m, cleanup, nil
	case "ffr":
		m := thrift.NewTMemoryBuffer()
		w := frugal.NewTFramedTransport(m)
		if _, err = w.Write(in); err == nil {
			err = w.Flush(ctx)
		}
		return frugal.NewTFramedTransport(m), cleanup, err
	case "tfr":
		m := thrift.NewTMemoryBuffer()
		w := thrift.NewTFramedTransportConf(m, &thrift.TConfiguration{})
		for off := 0; off < len(in) && err == nil; off += k {
			end := off + k
			if end > len(in) {
				end = len(in)
			}
			if _, err = w.Write(in[off:end]); err == nil {
				err = w.Flush(ctx)
			}
		}
		return thrift.NewTFramedTransportConf(m, &thrift.TConfiguration{}), cleanup, err
	case "bufs":
		return thrift.NewTBufferedTransport(&remTransport{userTransport{shortReader{data: in, k: k}}, "remx"}, 16), cleanup, nil
	case "bufl":
		return thrift.NewTBufferedTransport(&remTransport{userTransport{shortReader{data: in, k: k}}, "remx"}, 65536), cleanup, nil
	case "bufm":
		m := thrift.NewTMemoryBuffer()
		m.Write(in)
		return thrift.NewTBufferedTransport(m, 4096), cleanup, nil
	case "bufr":
		return thrift.NewTBufferedTransport(thrift.NewStreamTransportR(&shortReader{data: in, k: k}), 4096), cleanup, nil
	case "zlib":
		m := thrift.NewTMemoryBuffer()
		var w *thrift.TZlibTransport
		if w, err = thrift.NewTZlibTransport(m, 1+k%9); err != nil {
			return nil, cleanup, err
		}
		if _, err = w.Write(in); err == nil {
			err = w.Flush(ctx)
		}
		if err != nil {
			return nil, cleanup, err
		}
		rd, e := thrift.NewTZlibTransport(m, 1+k%9)
		return rd, cleanup, e
	case "pipe":
		pr, pw := io.Pipe()
		go func() {
			for pos := 0; pos < len(in); {
				n := pieceLen(pos, k)
				if n > len(in)-pos {
					n = len(in) - pos
				}
				if _, e := pw.Write(in[pos : pos+n]); e != nil {
					return
				}
				pos += n
			}
			pw.Close()
		}()
		return thrift.NewStreamTransportR(pr), func() { pr.Close() }, nil
	case "fill":
		return &fillTransport{TMemoryBuffer: thrift.NewTMemoryBuffer(), pending: in, k: k}, cleanup, nil
	case "rem0", "rem1", "remx", "remmax":
		return &remTransport{userTransport{shortReader{data: in, k: k}}, kind}, cleanup, nil
	}
	return nil, cleanup, fmt.Errorf("unknown transport kind %q", kind)
}

// c04Drain reads what the transport still delivers.
func c04Drain(kind string, tr thrift.TTransport) []byte {
	var out []byte
	if kind == "ffr" { // frugal's framed transport refuses a Read beyond the frame: ask for exactly the rest
		n := tr.RemainingBytes()
		if n > 1<<26 {
			return nil
		}
		buf := make([]byte, n)
		got, _ := io.ReadFull(tr, buf)
		return buf[:got]
	}
	buf := make([]byte, 32768)
	zero := 0
	for zero < 3 {
		n, err := tr.Read(buf)
		out = append(out, buf[:n]...)
		if err != nil {
			break
		}
		if n == 0 {
			zero++
		}
	}
	return out
}

func parseKind(s string) (string, int, bool) {
	i := strings.IndexByte(s, ':')
	if i < 0 {
		return "", 0, false
	}
	k, err := strconv.Atoi(s[i+1:])
	if err != nil || k < 1 || !c04KindKnown(s[:i]) {
		return "", 0, false
	}
	return s[:i], k, true
}

// realTP: Read{Request,Response}Header over a transport of the kind delivering `in`.
// request: the request map without `_opid`; response: the context's response headers afterwards.
func realTP(request bool, kind string, k int, in []byte, pre []kv) (string, map[string]string, []byte) {
	tr, cleanup, err := c04Carry(kind, k, in)
	defer cleanup()
	if err != nil {
		return "carry-failed", nil, nil
	}
	var ctx frugal.FContext
	if !request {
		ctx = frugal.NewFContext("c04")
		for _, p := range pre {
			ctx.AddResponseHeader(p.k, p.v)
		}
	}
	var rest []byte
	if o := guard(30*time.Second, func() {
		if request {
			ctx, err = protoOver(tr).ReadRequestHeader()
		} else {
			err = protoOver(tr).ReadResponseHeader(ctx)
		}
		if err == nil {
			rest = c04Drain(kind, tr)
		}
	}); o != "" {
		return o, nil, nil
	}
	if err != nil {
		return errClass(err), nil, nil
	}
	if request {
		req := without(ctx.RequestHeaders(), opIDName)
		return "ok req=" + pairs(req) + " resp=" + pairs(ctx.ResponseHeaders()) + " rest=" + hx(rest), req, rest
	}
	resp := ctx.ResponseHeaders()
	return "ok resp=" + pairs(resp) + " rest=" + hx(rest), resp, rest
}

// ---------- the size constants of the code ----------

// c04LibDir: the directory of the lib/go that is linked into this binary.
func c04LibDir() string {
	if f := runtime.FuncForPC(reflect.ValueOf(frugal.NewFProtocolFactory).Pointer()); f != nil {
		if file, _ := f.FileLine(f.Entry()); file != "" {
			if _, err := os.Stat(file); err == nil {
				return filepath.Dir(file)
			}
		}
	}
	repo := os.Getenv("VERIF_REPO")
	if repo == "" {
		repo = "/repo"
	}
	return filepath.Join(repo, "lib", "go")
}

func c04ConstVal(e ast.Expr) (int64, bool) {
	switch x := e.(type) {
	case *ast.BasicLit:
		if x.Kind == token.INT {
			v, err := strconv.ParseInt(strings.ReplaceAll(x.Value, "_", ""), 0, 64)
			return v, err == nil
		}
	case *ast.ParenExpr:
		return c04ConstVal(x.X)
	case *ast.BinaryExpr:
		a, ok1 := c04ConstVal(x.X)
		b, ok2 := c04ConstVal(x.Y)
		if ok1 && ok2 {
			switch x.Op {
			case token.MUL:
				return a * b, true
			case token.SHL:
				if b >= 0 && b < 40 {
					return a << uint(b), true
				}
			}
		}
	}
	return 0, false
}

const c04MaxConst = 20 << 20

// c04SizeConstants: every integer constant between 1 KiB and 20 MiB in the non-test sources of lib/go
// (literals and products / shifts of literals), plus the constants of what lies under frugal: bufio's and
// thrift's buffer sizes, 2^16, thrift's default frame limit.
func c04SizeConstants() []int {
	set := map[int]bool{4096: true, 1 << 16: true, thrift.DEFAULT_MAX_FRAME_SIZE: true}
	dir := c04LibDir()
	files, _ := filepath.Glob(filepath.Join(dir, "*.go"))
	parsed := 0
	fset := token.NewFileSet()
	for _, path := range files {
		if strings.HasSuffix(path, "_test.go") {
			continue
		}
		f, err := parser.ParseFile(fset, path, nil, 0)
		if err != nil {
			continue
		}
		parsed++
		ast.Inspect(f, func(n ast.Node) bool {
			if e, ok := n.(ast.Expr); ok {
				if v, ok := c04ConstVal(e); ok && v >= 1024 && v <= c04MaxConst {
					set[int(v)] = true
				}
			}
			return true
		})
	}
	StatN("c04tr-sources-scanned", parsed)
	var out []int
	for v := range set {
		out = append(out, v)
	}
	sort.Ints(out)
	return out
}

// ---------- generation ----------

// padTo adds one header whose name or value is long enough to bring the v0 block (the value of the 4-byte
// size field, Σ 8+|k|+|v|) to exactly `size`; false when the map is already too big for that.
func padTo(r *Rng, m map[string]string, size int) bool {
	cur := 0
	for k, v := range m {
		cur += 8 + len(k) + len(v)
	}
	name := "pad"
	for _, dup := m[name]; dup; _, dup = m[name] {
		name += "_"
	}
	need := size - cur - 8 - len(name)
	if need < 0 {
		return false
	}
	fill := c04Fill(need, r.Intn(4), int(r.U64()&0xffff))
	if r.Chance(20) { // the long string is the NAME
		long := name + fill
		if _, dup := m[long]; dup {
			return false
		}
		m[long] = ""
		return true
	}
	m[name] = fill
	return true
}

// c04Fill: n bytes of content class `class` (0 one letter, 1 pseudo-random bytes, 2 printable text, 3 UTF-8).
func c04Fill(n, class, seed int) string {
	b := make([]byte, n)
	switch class {
	case 0:
		for i := range b {
			b[i] = 'x'
		}
	case 1:
		s := uint32(seed)*2654435761 + 12345
		for i := range b {
			s = s*1664525 + 1013904223
			b[i] = byte(s >> 24)
		}
	case 2:
		const text = "Bearer eyJhbGciOiJSUzI1NiIsInR5cCI6IkpXVCJ9. the quick brown fox; k=v,"
		for i := range b {
			b[i] = text[(i+seed)%len(text)]
		}
	default:
		u := []byte("дані-データ-✓ ")
		for i := range b {
			b[i] = u[i%len(u)]
		}
	}
	return string(b)
}

func c04BlockSize(m map[string]string) int {
	n := 0
	for k, v := range m {
		n += 8 + len(k) + len(v)
	}
	return n
}

func sizeClass(n int, consts []int) string {
	below := 0
	for _, c := range consts {
		if n > c {
			below = c
		}
	}
	return fmt.Sprintf("block>%d", below)
}

// runTPG: the generated big case (see the head of the file). Returns the canonical output and whether the
// property held.
func runTPG(a []string) (string, bool) {
	if len(a) != 6 || (a[0] != "q" && a[0] != "s") {
		return "bad-op", true
	}
	kind, k, ok := parseKind(a[1])
	padLen, e1 := strconv.Atoi(a[3])
	payLen, e2 := strconv.Atoi(a[4])
	seed, e3 := strconv.Atoi(a[5])
	if !ok || e1 != nil || e2 != nil || e3 != nil || padLen < 0 || payLen < 0 || padLen > 64<<20 || payLen > 64<<20 {
		return "bad-op", true
	}
	request := a[0] == "q"
	m := map[string]string{opIDName: "7", "_cid": "c04tr", "user-agent": "verif", "порожній": ""}
	fill := c04Fill(padLen, seed%4, seed/4)
	if a[2] == "name" {
		m["pad"+fill] = "v"
	} else {
		m["pad"] = fill
	}
	_, written := realPWBytes(request, m)
	if written == nil {
		return "write-failed", false
	}
	p := []byte(c04Fill(payLen, 1, seed+1))
	in := append(written, p...)
	o, got, rest := realTP(request, kind, k, in, nil)
	held := got != nil && mapsEqual(got, without(m, opIDName)) && bytes.Equal(rest, p)
	if got == nil {
		return o, held
	}
	return fmt.Sprintf("ok size=%d n=%d rest=%d", c04BlockSize(m), len(got), len(rest)), held
}

// realPWBytes: Write{Request,Response}Header of a foreign context holding exactly m, over a TMemoryBuffer.
func realPWBytes(request bool, m map[string]string) (string, []byte) {
	buf := thrift.NewTMemoryBuffer()
	ctx := &foreignCtx{req: map[string]string{}, resp: map[string]string{}}
	for k, v := range m {
		if request {
			ctx.req[k] = v
		} else {
			ctx.resp[k] = v
		}
	}
	var err error
	if o := guard(30*time.Second, func() {
		if request {
			err = protoOver(buf).WriteRequestHeader(ctx)
		} else {
			err = protoOver(buf).WriteResponseHeader(ctx)
		}
	}); o != "" {
		return o, nil
	}
	if err != nil {
		return errClass(err), nil
	}
	return "ok", append([]byte{}, buf.Bytes()...)
}

func pickK(r *Rng) int { return r.Pick(1, 2, 3, 7, 64, 1000, 4096, 70000) }

// framedLimit: the largest message a framed transport carries (its documented limit, not a defect).
func framedLimit(kind string) int {
	if kind == "ffr" || kind == "tfr" {
		return thrift.DEFAULT_MAX_FRAME_SIZE
	}
	return 1 << 30
}

func runC04Tr(r *Rng, n int) {
	consts := c04SizeConstants()
	for _, c := range consts {
		Stat(fmt.Sprintf("const:%d", c))
	}
	var modelConsts, bigConsts []int // the model is given blocks up to ~70 KB (and a few of ~1 MiB); above: oracle only
	for _, c := range consts {
		if c <= 70000 {
			modelConsts = append(modelConsts, c)
		} else {
			bigConsts = append(bigConsts, c)
		}
	}
	deltas := []int{-1, 0, 1}
	bigModelLeft := 1 + n/1000
	for i := 0; i < n; i++ {
		kind := c04Kinds[i%len(c04Kinds)]
		k := pickK(r)
		request := r.Bool()
		m := genProtoHeaders(r)
		if request {
			m[opIDName] = fmt.Sprint(r.U64() >> uint(r.Intn(64)))
		}
		p := genPayload(r)
		cls := "natural"
		if len(modelConsts) > 0 && r.Chance(55) {
			for k := range m { // keep the natural part small so that the target is reachable
				if len(k)+len(m[k]) > 600 && k != opIDName {
					delete(m, k)
				}
			}
			c := modelConsts[r.Intn(len(modelConsts))]
			if c > 8192 && r.Chance(50) { // the 64 KiB ones make long lines: half as often
				c = modelConsts[r.Intn(len(modelConsts))]
			}
			d := deltas[r.Intn(3)]
			if r.Chance(25) {
				d = r.Intn(41) - 20
			}
			target := c + d
			switch r.Intn(4) {
			case 0: // the whole header block incl. version byte and size field
				target -= 5
				cls = "near-const(5+block)"
			case 1: // the whole message
				target -= 5 + len(p)
				cls = "near-const(message)"
			default:
				cls = "near-const(block)"
			}
			if target < 0 || !padTo(r, m, target) {
				cls = "natural"
			}
		}
		_, written := realPWBytes(request, m)
		if written == nil {
			OracleFail("Write…Header failed on a context's map", map[string]interface{}{"op": "pwq", "line": "pwq " + pairs(m)})
			continue
		}
		in := append(written, p...)
		Stat("kind:" + kind)
		Stat("class:" + cls)
		Stat(sizeClass(c04BlockSize(m), consts))
		c04Emit(r, request, kind, k, m, p, in)
		Stat("evaluations")

		// blocks around the constants above 70 KB (1 MiB, the frame limits, …): the property only, except a few
		// ~1 MiB ones that also go to the model
		if len(bigConsts) > 0 && i%8 == 0 {
			c := bigConsts[r.Intn(len(bigConsts))]
			if c > 2<<20 && i%64 != 0 { // the multi-megabyte ones cost ~0.1 s each
				c = bigConsts[0]
			}
			kind := c04Kinds[r.Intn(len(c04Kinds))]
			payLen := r.Pick(0, 1, 7, 300)
			fixed := c04BlockSize(map[string]string{opIDName: "7", "_cid": "c04tr", "user-agent": "verif", "порожній": "", "pad": ""})
			block := c + deltas[r.Intn(3)]
			if r.Chance(30) {
				block += r.Intn(2001) - 1000
			}
			if r.Chance(25) {
				block -= 5 + payLen // the whole message at the constant
			}
			if i == 0 { // every run: one block ABOVE the largest constant, over a transport without a frame limit
				c = bigConsts[len(bigConsts)-1]
				block = c + 1
				for kind == "ffr" || kind == "tfr" {
					kind = c04Kinds[r.Intn(len(c04Kinds))]
				}
			}
			if lim := framedLimit(kind); 5+block+payLen > lim {
				block = lim - 5 - payLen // the largest message the framed transport carries
			}
			padLen := block - fixed
			if padLen < 0 {
				continue
			}
			where := "value"
			if r.Chance(15) {
				where = "name"
				padLen--
			}
			q := "s"
			if r.Bool() {
				q = "q"
			}
			args := []string{q, fmt.Sprintf("%s:%d", kind, r.Pick(1000, 4096, 70000, 1<<20)), where, fmt.Sprint(padLen), fmt.Sprint(payLen), fmt.Sprint(r.Intn(1 << 16))}
			if kind == "pipe" && padLen > 2<<20 {
				args[1] = "pipe:1048576"
			}
			line := "tpg " + strings.Join(args, " ")
			o, held := runTPG(args)
			Stat("big-kind:" + kind)
			Stat(sizeClass(block, consts))
			if !held {
				OracleFail("a header block that was written is not read back as the written map over a "+kind+" transport (block around the constant "+fmt.Sprint(c)+")",
					map[string]interface{}{"op": "tpg", "line": line, "got": clip(o), "kind": kind, "block": block})
			}
			Stat("evaluations")
			if c <= 2<<20 && bigModelLeft > 0 { // one of ~1 MiB through the model as well
				bigModelLeft--
				mm := map[string]string{opIDName: "9", "_cid": "big"}
				if padTo(r, mm, c+deltas[r.Intn(3)]) {
					if _, w := realPWBytes(true, mm); w != nil {
						pp := []byte("payload")
						c04Emit(r, true, kind, 70000, mm, pp, append(w, pp...))
						Stat("evaluations")
					}
				}
			}
		}
	}
}

// c04Emit: one tpq / tps case (model + property).
func c04Emit(r *Rng, request bool, kind string, k int, m map[string]string, p, in []byte) {
	ks := fmt.Sprintf("%s:%d", kind, k)
	if request {
		o, req, rest := realTP(true, kind, k, in, nil)
		line := "tpq " + hx(in) + " " + ks
		Case(line, o)
		if _, hasOp := m[opIDName]; hasOp {
			if req == nil || !mapsEqual(req, without(m, opIDName)) || !bytes.Equal(rest, p) {
				OracleFail("ReadRequestHeader over a "+kind+" transport: the context's headers are not exactly the written ones (apart from the fresh _opid) / payload touched",
					map[string]interface{}{"op": "tpq", "line": line, "headers": clip(pairs(m)), "got": clip(o), "kind": kind, "block": c04BlockSize(m)})
			}
		}
		return
	}
	var pre []kv
	if r.Chance(50) {
		pre = append(pre, kv{"kept", genString(r, true)})
	}
	if r.Chance(30) && len(m) > 0 {
		for k := range m {
			pre = append(pre, kv{k, "old"})
			break
		}
	}
	preMap := map[string]string{}
	for _, q := range pre {
		preMap[q.k] = q.v
	}
	o, resp, rest := realTP(false, kind, k, in, pre)
	line := "tps " + hx(in) + " " + pairs(preMap) + " " + ks
	Case(line, o)
	good := resp != nil && bytes.Equal(rest, p)
	if good {
		for k, v := range m {
			if k == opIDName {
				continue
			}
			if w, ok := resp[k]; !ok || w != v {
				good = false
			}
		}
		for k, v := range preMap {
			if _, written := m[k]; (!written || k == opIDName) && resp[k] != v {
				good = false
			}
		}
	}
	if !good {
		OracleFail("ReadResponseHeader over a "+kind+" transport: a written header is not visible with the written value / an unrelated header changed / payload touched",
			map[string]interface{}{"op": "tps", "line": line, "headers": clip(pairs(m)), "got": clip(o), "kind": kind, "block": c04BlockSize(m)})
	}
}

func init() {
	suites["c04tr"] = runC04Tr
	// replay oracle (real against real, no model): what a transport of the kind delivers is read exactly as
	// the same bytes are read from a TMemoryBuffer
	lineOps["tpq"] = func(a []string) (string, bool) {
		if len(a) != 2 {
			return "bad-op", true
		}
		kind, k, ok := parseKind(a[1])
		if !ok {
			return "bad-op", true
		}
		o, _, _ := realTP(true, kind, k, unhx(a[0]), nil)
		ref, _, _ := realPRQ(unhx(a[0]))
		return o, o == ref || (strings.HasPrefix(o, "err:") && strings.HasPrefix(ref, "err:"))
	}
	lineOps["tps"] = func(a []string) (string, bool) {
		if len(a) != 3 {
			return "bad-op", true
		}
		kind, k, ok := parseKind(a[2])
		if !ok {
			return "bad-op", true
		}
		o, _, _ := realTP(false, kind, k, unhx(a[0]), parsePairs(a[1]))
		ref, _, _ := realPRS(unhx(a[0]), parsePairs(a[1]))
		return o, o == ref || (strings.HasPrefix(o, "err:") && strings.HasPrefix(ref, "err:"))
	}
	lineOps["tpg"] = runTPG
}
