package main

// C05 (f) — the SIZE of header values in received requests, on every server entry point.
//
// A server echoes the request's `_opid` and `_cid` into the response headers. A peer can size them so that
// the request still fits the transport while the ECHOED response headers alone reach or exceed the
// server's output limit (NATS server: NewTMemoryOutputBuffer(1 MiB); HTTP handler: the x-frugal-payload-limit
// request header, checked after the fact; simple server: none). The reply path's error handling then runs:
// SendReply → (too large) → trapError → sendError(RESPONSE_TOO_LARGE) whose own writes may fail as well.
//
// Real code under test: FNatsServerBuilder(...).Build().Serve() on an in-process nats-server (default
// max_payload 1 MiB, and raised to 4 MiB) fed by a RAW NATS peer; NewFrugalHandlerFunc; FSimpleServer.accept —
// each with the real FBaseProcessor and a `ping` processor function with the structure of the emitted code
// (SendReply / SendError), for {valid call, handler error, unreadable args, unknown method}.
//
// The model (FV.Recv5) is parameterised by the sizes of the writes the protocol makes for the attempt(s)
// (Thrift's writers are environment): the harness records them by running the same request through the
// same processor with an unbounded recording transport, and the model says what ends up published.
//
// Property oracle (independent of the model): the worker returns (the NEXT well-formed request on the same
// server is answered within the watchdog — with one worker that is the same goroutine, and every reply
// needs the processor's write mutex), no panic, at most one reply per request, a reply never exceeds the
// output limit.
//
// Op:  big <entry> <limit> <scenario> <cid-len> <opid-len> <writes> <fallback-writes>
//        entry n1 = NATS/1 MiB broker, n4 = NATS/4 MiB broker, ht = HTTP handler, ss = simple server
//        scenario r = valid call, e = handler error, a = unreadable args, u = unknown method
//      output  `published=<bytes>|none`   (HTTP: `status=<code> published=<bytes>|none`)

import (
	"bytes"
	"context"
	"encoding/base64"
	"errors"
	"fmt"
	"net/http/httptest"
	"strconv"
	"strings"
	"sync"
	"time"

	frugal "github.com/Workiva/frugal/lib/go"
	"github.com/apache/thrift/lib/go/thrift"
	natsd "github.com/nats-io/nats-server/v2/server"
	"github.com/nats-io/nats.go"
)

const bigNatsLimit = 1024 * 1024 // natsMaxMessageSize of lib/go

// ---------- the service ----------

type bigHandler struct{}

func (bigHandler) Ping(fctx frugal.FContext, s string) (string, error) {
	if s == "fail" {
		return "", errors.New("boom")
	}
	return "pong:" + s, nil
}

func newBigProcessor() *frugal.FBaseProcessor {
	p := frugal.NewFBaseProcessor()
	h := bigHandler{}
	p.AddToProcessorMap("ping", &c14FPing{frugal.NewFBaseProcessorFunction(p.GetWriteMutex(), frugal.NewMethod(h, h.Ping, "Ping", nil))})
	return p
}

// bigRequest: the request WITHOUT the frame size: headers {_opid, _cid?} and the message of the scenario.
func bigRequest(scenario byte, opid, cid string) []byte {
	m := map[string]string{"_opid": opid}
	if cid != "" {
		m["_cid"] = cid
	}
	buf := thrift.NewTMemoryBuffer()
	p := thrift.NewTBinaryProtocolFactoryConf(nil).GetProtocol(buf)
	method, arg := "ping", "x"
	switch scenario {
	case 'e':
		arg = "fail"
	case 'u':
		method = "nope"
	}
	p.WriteMessageBegin(c14Bg, method, thrift.CALL, 0)
	p.WriteStructBegin(c14Bg, "ping_args")
	p.WriteFieldBegin(c14Bg, "s", thrift.STRING, 1)
	if scenario == 'a' {
		p.WriteI32(c14Bg, -5) // a string of negative length: the arguments cannot be read
	} else {
		p.WriteString(c14Bg, arg)
		p.WriteFieldEnd(c14Bg)
		p.WriteFieldStop(c14Bg)
		p.WriteStructEnd(c14Bg)
	}
	p.WriteMessageEnd(c14Bg)
	p.Flush(c14Bg)
	return append(marshalSorted(m), buf.Bytes()...)
}

// ---------- recording the write sizes of the attempts ----------

type sizeRec struct{ sizes []int }

func (t *sizeRec) Write(p []byte) (int, error)     { t.sizes = append(t.sizes, len(p)); return len(p), nil }
func (t *sizeRec) Read(p []byte) (int, error)      { return 0, errors.New("write-only") }
func (t *sizeRec) Open() error                     { return nil }
func (t *sizeRec) Close() error                    { return nil }
func (t *sizeRec) IsOpen() bool                    { return true }
func (t *sizeRec) Flush(ctx context.Context) error { return nil }
func (t *sizeRec) RemainingBytes() uint64          { return 0 }

// markProtocol notes where WriteMessageBegin starts and ends in the recorder's list of writes: a protocol
// call is the unit that stops at its first failed write.
type markProtocol struct {
	thrift.TProtocol
	rec        *sizeRec
	mbLo, mbHi int
}

func (p *markProtocol) WriteMessageBegin(ctx context.Context, name string, t thrift.TMessageType, seq int32) error {
	p.mbLo = len(p.rec.sizes)
	err := p.TProtocol.WriteMessageBegin(ctx, name, t, seq)
	p.mbHi = len(p.rec.sizes)
	return err
}

type markFactory struct {
	rec  *sizeRec
	last *markProtocol
}

func (f *markFactory) GetProtocol(t thrift.TTransport) thrift.TProtocol {
	f.last = &markProtocol{TProtocol: thrift.NewTBinaryProtocolFactoryConf(nil).GetProtocol(t), rec: f.rec}
	return f.last
}

// groups: header block | WriteMessageBegin | the struct (one Write call of the exception / result)
func (p *markProtocol) groups() [][]int {
	s := p.rec.sizes
	if p.mbHi == 0 || p.mbLo > len(s) {
		return [][]int{s}
	}
	return [][]int{s[:p.mbLo], s[p.mbLo:p.mbHi], s[p.mbHi:]}
}

func groupsArg(gs [][]int) string {
	if len(gs) == 0 {
		return "."
	}
	parts := make([]string, 0, len(gs))
	for _, g := range gs {
		if len(g) == 0 {
			continue
		}
		w := make([]string, len(g))
		for i, v := range g {
			w[i] = strconv.Itoa(v)
		}
		parts = append(parts, strings.Join(w, ","))
	}
	if len(parts) == 0 {
		return "."
	}
	return strings.Join(parts, ";")
}

// bigWrites runs the request through the real processor with an unbounded recording output: the writes of
// the first attempt, grouped by protocol call (response header block first). fallback = the writes of
// sendError(RESPONSE_TOO_LARGE) for this request and this limit (same header block, then the exception).
func bigWrites(req []byte, limit int) (primary, fallback [][]int) {
	rec := &sizeRec{}
	mf := &markFactory{rec: rec}
	in := &thrift.TMemoryBuffer{Buffer: bytes.NewBuffer(append([]byte{}, req...))}
	newBigProcessor().Process(binFactory.GetProtocol(in), frugal.NewFProtocolFactory(mf).GetProtocol(rec))
	primary = mf.last.groups()
	if len(rec.sizes) == 0 || limit <= 0 {
		return primary, nil
	}
	// the message of the too-large error, from the real buffer
	probe := frugal.NewTMemoryOutputBuffer(uint(limit))
	_, tooLarge := probe.Write(make([]byte, limit))
	rec2 := &sizeRec{}
	mf2 := &markFactory{rec: rec2}
	p := mf2.GetProtocol(rec2)
	p.WriteMessageBegin(c14Bg, "ping", thrift.EXCEPTION, 0)
	thrift.NewTApplicationException(frugal.APPLICATION_EXCEPTION_RESPONSE_TOO_LARGE, tooLarge.Error()).Write(c14Bg, p)
	p.WriteMessageEnd(c14Bg)
	g := mf2.last.groups()
	return primary, [][]int{{rec.sizes[0]}, g[1], g[2]}
}

// ---------- NATS ----------

type bigNats struct {
	broker *natsd.Server
	sconn  *nats.Conn
	peer   *nats.Conn
	srv    frugal.FServer
	subj   string
	gen    int
	broken int
}

var (
	bigMu   sync.Mutex
	bigEnvs = map[int]*bigNats{}
)

func bigNatsEnv(maxPayload int) (*bigNats, error) {
	e := bigEnvs[maxPayload]
	if e == nil {
		opts := &natsd.Options{Host: "127.0.0.1", Port: -1, NoLog: true, NoSigs: true}
		if maxPayload != bigNatsLimit {
			opts.MaxPayload = int32(maxPayload)
			opts.MaxPending = int64(maxPayload) * 16
		}
		b, err := natsd.NewServer(opts)
		if err != nil {
			return nil, err
		}
		go b.Start()
		if !b.ReadyForConnections(20 * time.Second) {
			return nil, errors.New("nats-server not ready")
		}
		e = &bigNats{broker: b}
		if e.peer, err = nats.Connect(b.ClientURL()); err != nil {
			return nil, err
		}
		bigEnvs[maxPayload] = e
	}
	if e.srv == nil {
		var err error
		if e.sconn, err = nats.Connect(e.broker.ClientURL()); err != nil {
			return nil, err
		}
		e.gen++
		e.subj = fmt.Sprintf("c05big.%d.%d", maxPayload, e.gen)
		e.srv = frugal.NewFNatsServerBuilder(e.sconn, newBigProcessor(), binFactory, []string{e.subj}).WithWorkerCount(1).Build()
		go e.srv.Serve()
		// wait until the subscription is in place
		ok := false
		for dl := time.Now().Add(10 * time.Second); time.Now().Before(dl) && !ok; {
			if m, err := e.peer.Request(e.subj, framed(bigRequest('r', "1", "")), 200*time.Millisecond); err == nil && len(m.Data) > 4 {
				ok = true
			}
		}
		if !ok {
			e.srv = nil
			return nil, errors.New("frugal NATS server did not come up")
		}
	}
	return e, nil
}

type bigRun struct {
	out  string
	viol []string
}

func realBigNats(maxPayload int, req []byte) bigRun {
	var r bigRun
	e, err := bigNatsEnv(maxPayload)
	if err != nil {
		r.out = "err:setup"
		r.viol = append(r.viol, "harness: "+err.Error())
		return r
	}
	inbox := nats.NewInbox()
	sub, err := e.peer.SubscribeSync(inbox + ".*")
	if err != nil {
		r.out = "err:setup"
		r.viol = append(r.viol, "harness: "+err.Error())
		return r
	}
	defer sub.Unsubscribe()
	if err := e.peer.PublishRequest(e.subj, inbox+".1", framed(req)); err != nil {
		r.out = "err:publish"
		r.viol = append(r.viol, "harness: the request does not fit the broker: "+err.Error())
		return r
	}
	// one worker, one publishing connection: the reply to the follow-up is behind the reply to the request
	e.peer.PublishRequest(e.subj, inbox+".2", framed(bigRequest('r', "2", "")))
	var first *nats.Msg
	extra, served := 0, false
	deadline := time.Now().Add(4 * time.Second)
	for time.Now().Before(deadline) && !served {
		m, err := sub.NextMsg(time.Until(deadline))
		if err != nil {
			break
		}
		switch {
		case strings.HasSuffix(m.Subject, ".2"):
			served = len(m.Data) > 4
		case first == nil:
			first = m
		default:
			extra++
		}
	}
	if !served {
		r.viol = append(r.viol, "a well-formed request sent after this one was not answered within 4 s (the worker did not return, or holds the processor's write mutex)")
		// this server is lost: the cases that follow get a new one (a few times)
		old := e.srv
		go old.Stop()
		e.srv = nil
		e.broken++
	}
	if extra > 0 {
		r.viol = append(r.viol, fmt.Sprintf("%d replies for one request", extra+1))
	}
	if first == nil {
		r.out = "published=none"
	} else {
		r.out = fmt.Sprintf("published=%d", len(first.Data))
		if len(first.Data) > bigNatsLimit {
			r.viol = append(r.viol, "a reply larger than the server's output limit was published")
		}
	}
	return r
}

// ---------- HTTP handler, simple server ----------

func realBigHTTP(limit int, req []byte) bigRun {
	var r bigRun
	h := frugal.NewFrugalHandlerFunc(newBigProcessor(), binFactory)
	status, n := 0, 0
	if o := guard(20*time.Second, func() {
		hr := httptest.NewRequest("POST", "/frugal", strings.NewReader(base64.StdEncoding.EncodeToString(framed(req))))
		if limit > 0 {
			hr.Header.Set("x-frugal-payload-limit", strconv.Itoa(limit))
		}
		rec := httptest.NewRecorder()
		h(rec, hr)
		status = rec.Code
		if status == 200 {
			d, err := base64.StdEncoding.DecodeString(rec.Body.String())
			if err != nil {
				r.viol = append(r.viol, "the 200 response body is not base64")
			}
			n = len(d)
		}
	}); o != "" {
		r.out = o
		r.viol = append(r.viol, "HTTP handler "+o+" on a request with large header values")
		return r
	}
	if status == 200 {
		r.out = fmt.Sprintf("status=200 published=%d", n)
		if limit > 0 && n-4 > limit {
			r.viol = append(r.viol, "a response larger than the announced limit was sent with status 200")
		}
	} else {
		r.out = fmt.Sprintf("status=%d published=none", status)
	}
	return r
}

func realBigSimple(req []byte) bigRun {
	var r bigRun
	stream := append(framed(req), framed(bigRequest('r', "2", ""))...)
	conn := &c05Conn{in: bytes.NewReader(stream), chunk: 0}
	var err error
	if o := guard(20*time.Second, func() { err = frugal.VerifSimpleServerAccept(newBigProcessor(), binFactory, conn) }); o != "" {
		r.out = o
		r.viol = append(r.viol, "FSimpleServer.accept "+o+" on a request with large header values")
		return r
	}
	out := conn.out.Bytes()
	nf := wholeFrames(out)
	if nf < 0 {
		r.viol = append(r.viol, "the replies written are not a sequence of whole frames")
	}
	if err != nil {
		r.viol = append(r.viol, "accept gave up the connection: "+errClass(err))
	}
	follow := len(framed(bigRequest('r', "2", ""))) // same length class as its reply? no: measure the frames
	_ = follow
	// first frame = reply to the request (if any), last frame = reply to the follow-up
	var lens []int
	for rest := out; len(rest) >= 4; {
		n := int(uint32(rest[0])<<24 | uint32(rest[1])<<16 | uint32(rest[2])<<8 | uint32(rest[3]))
		if n > len(rest)-4 {
			break
		}
		lens = append(lens, 4+n)
		rest = rest[4+n:]
	}
	switch len(lens) {
	case 2:
		r.out = fmt.Sprintf("published=%d", lens[0])
	case 1:
		r.out = "published=none"
	default:
		r.out = fmt.Sprintf("published=?%d", len(lens))
		r.viol = append(r.viol, fmt.Sprintf("%d reply frames for two requests", len(lens)))
	}
	if len(lens) == 0 {
		r.viol = append(r.viol, "the well-formed request behind this one was not answered")
	}
	return r
}

// ---------- one case ----------

func realBig(entry string, limit int, scenario byte, cidLen, opidLen int) (bigRun, [][]int, [][]int) {
	bigMu.Lock()
	defer bigMu.Unlock()
	opid := "7"
	if opidLen > 1 {
		opid = strings.Repeat("7", opidLen)
	}
	req := bigRequest(scenario, opid, strings.Repeat("c", cidLen))
	modelLimit := limit
	if entry == "n1" || entry == "n4" {
		modelLimit = bigNatsLimit
	}
	primary, fallback := bigWrites(req, modelLimit)
	var r bigRun
	switch entry {
	case "n1":
		r = realBigNats(bigNatsLimit, req)
	case "n4":
		r = realBigNats(4*bigNatsLimit, req)
	case "ht":
		r = realBigHTTP(limit, req)
	case "ss":
		r = realBigSimple(req)
	default:
		r.out = "bad-op"
	}
	return r, primary, fallback
}

func bigLine(entry string, limit int, scenario byte, cidLen, opidLen int, primary, fallback [][]int) string {
	return fmt.Sprintf("big %s %d %c %d %d %s %s", entry, limit, scenario, cidLen, opidLen, groupsArg(primary), groupsArg(fallback))
}

func runC05Big(r *Rng, n int) {
	lost := 0
	for i := 0; i < n; i++ {
		entry := r.PickS("n1", "n1", "n1", "n4", "n4", "ht", "ht", "ss")
		scenario := "reau"[r.Intn(4)]
		limit := 0
		// where the echoed headers meet the limit: base = request size with an empty _cid
		base := len(bigRequest(scenario, "7", "")) + 4
		var cidLen, opidLen int
		switch entry {
		case "n1": // the request must fit max_payload (1 MiB): the last bytes below it are the interesting ones
			limit = bigNatsLimit
			room := bigNatsLimit - base - 12 // 12 = the _cid pair's own overhead
			cidLen = room - r.Pick(0, 0, 1, 2, 5, 10, 20, 30, 37, 40, 45, 60, 100, 1000, 500000, room-1, room)
		case "n4": // raised max_payload: anything around and above the 1 MiB output limit
			limit = bigNatsLimit
			cidLen = bigNatsLimit + r.Pick(-2000, -100, -60, -45, -40, -37, -30, -20, -10, -5, -1, 0, 1, 5, 100, 4096, 300000, 1500000)
		case "ht":
			limit = r.Pick(0, 64, 1000, 100000)
			cidLen = r.Pick(0, 1, 10, 40, 900, 990, 1000, 1010, 99900, 100000, 100100)
		case "ss":
			cidLen = r.Pick(0, 1, 1000, 100000, 2000000)
		}
		if cidLen < 0 {
			cidLen = 0
		}
		if r.Chance(15) { // the size in _opid instead (echoed as a string, never parsed by the server)
			opidLen, cidLen = cidLen, r.Pick(0, 3)
		}
		if entry == "n1" { // whatever was drawn, the request has to fit the broker's max_payload
			over := base + 12 + cidLen - bigNatsLimit
			if opidLen > 0 {
				over = base - 1 + opidLen - bigNatsLimit
				if cidLen > 0 {
					over += 12 + cidLen
				}
			}
			if over > 0 && opidLen > 0 {
				opidLen -= over
			} else if over > 0 {
				cidLen -= over
			}
		}
		if (entry == "n1" || entry == "n4") && lost >= 3 {
			Stat("big:skipped-after-3-lost-servers")
			Stat("evaluations")
			continue
		}
		run, primary, fallback := realBig(entry, limit, scenario, cidLen, opidLen)
		line := bigLine(entry, limit, scenario, cidLen, opidLen, primary, fallback)
		Case(line, run.out)
		Stat("big:entry:" + entry)
		Stat("big:scenario:" + string(scenario))
		Stat("big:" + entry + ":" + strings.Split(run.out, "=")[0] + "=" + map[bool]string{true: "none", false: "some"}[strings.HasSuffix(run.out, "none")])
		if i < 3 {
			Sample(map[string]interface{}{"op": "big", "entry": entry, "scenario": string(scenario), "cid_len": cidLen, "opid_len": opidLen, "real": run.out})
		}
		if len(run.viol) > 0 {
			if strings.Contains(run.viol[0], "not answered within") {
				lost++
			}
			OracleFail("large header values: "+run.viol[0], map[string]interface{}{"op": "big", "line": line, "entry": entry, "scenario": string(scenario), "cid_len": cidLen, "opid_len": opidLen, "got": run.out, "all": run.viol})
		}
		Stat("evaluations")
	}
}

func realBigLine(args []string) (string, bool) {
	if len(args) != 7 || len(args[2]) != 1 || !strings.Contains("reau", args[2]) {
		return "bad-op", true
	}
	limit, e1 := strconv.Atoi(args[1])
	cidLen, e2 := strconv.Atoi(args[3])
	opidLen, e3 := strconv.Atoi(args[4])
	if e1 != nil || e2 != nil || e3 != nil || cidLen < 0 || opidLen < 0 || cidLen > 8<<20 || opidLen > 8<<20 {
		return "bad-op", true
	}
	switch args[0] {
	case "n1", "n4", "ht", "ss":
	default:
		return "bad-op", true
	}
	run, primary, fallback := realBig(args[0], limit, args[2][0], cidLen, opidLen)
	if groupsArg(primary) != args[5] || groupsArg(fallback) != args[6] {
		return "bad-op", true // the line's write sizes are not what the protocol writes for this request
	}
	return run.out, len(run.viol) == 0
}

func init() {
	suites["c05big"] = runC05Big
	lineOps["big"] = realBigLine
}
