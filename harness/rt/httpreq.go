package main

import (
	"encoding/base64"
	"fmt"
	"io"
	"net/http"
	"net/http/httptest"
	"strconv"
	"sync"
	"time"

	frugal "github.com/Workiva/frugal/lib/go"
	"github.com/apache/thrift/lib/go/thrift"
)

// ---------- C13 over the HTTP client transport: every stall pattern must end in TIMED_OUT on time ----------

var httpKinds = []string{"early", "silent", "lateheaders", "stallbody0", "stallbodyN", "stallbodyN"}

func runHTTPCase(kind string, timeoutMs int, oneway bool) (string, bool, string) {
	timeout := time.Duration(timeoutMs) * time.Millisecond
	release := make(chan struct{})
	reply := frameOf(frugal.VerifMarshalHeaders(map[string]string{"_opid": "0"}), []byte{1, 2, 3})
	enc := []byte(base64.StdEncoding.EncodeToString(reply))
	srv := httptest.NewServer(http.HandlerFunc(func(w http.ResponseWriter, r *http.Request) {
		io.Copy(io.Discard, r.Body)
		fl, _ := w.(http.Flusher)
		switch kind {
		case "early":
			w.Write(enc)
		case "silent":
			<-release
		case "lateheaders":
			select {
			case <-release:
			case <-time.After(timeout + 60*time.Millisecond):
			}
			w.Write(enc)
		case "stallbody0": // headers in time, then nothing
			w.Header().Set("Content-Length", strconv.Itoa(len(enc)))
			w.WriteHeader(200)
			if fl != nil {
				fl.Flush()
			}
			<-release
		case "stallbodyN": // headers and part of the body in time, then a stall
			w.Header().Set("Content-Length", strconv.Itoa(len(enc)))
			w.WriteHeader(200)
			w.Write(enc[:len(enc)/2])
			if fl != nil {
				fl.Flush()
			}
			<-release
		}
	}))
	defer srv.Close()
	defer close(release)
	tr := frugal.NewFHTTPTransportBuilder(&http.Client{}, srv.URL).Build()
	tr.Open()
	ctx := frugal.NewFContext("")
	ctx.SetTimeout(timeout)
	start := time.Now()
	var err error
	var res thrift.TTransport
	if o := guard(timeout*3+3*time.Second, func() {
		if oneway {
			err = tr.Oneway(ctx, []byte{0, 0, 0, 1, 0})
		} else {
			res, err = tr.Request(ctx, []byte{0, 0, 0, 1, 0})
		}
	}); o != "" {
		return "outcome=" + o, false, "HTTP " + o + ": the call did not return within 3x its timeout"
	}
	elapsed := time.Since(start)
	outcome := ""
	if err == nil {
		outcome = "ok"
		_ = res
	} else if te, ok := err.(thrift.TTransportException); ok && te.TypeId() == frugal.TRANSPORT_EXCEPTION_TIMED_OUT {
		outcome = "timedOut"
	} else {
		outcome = "err:" + errClass(err)
	}
	why := ""
	if elapsed > timeout+allowance {
		why = fmt.Sprintf("HTTP call returned after %v with timeout %v (allowance %v)", elapsed.Round(time.Millisecond), timeout, allowance)
	}
	want := "timedOut"
	if kind == "early" {
		want = "ok"
	}
	if outcome != want && why == "" {
		why = fmt.Sprintf("HTTP call with peer behaviour %q reported %s, expected %s (a response that did not arrive in time must be TIMED_OUT)", kind, outcome, want)
	}
	return "outcome=" + outcome, why == "", why
}

func runHTTPReqSuite(r *Rng, n int) {
	var wg sync.WaitGroup
	sem := make(chan struct{}, 6)
	for i := 0; i < n; i++ {
		kind := httpKinds[r.Intn(len(httpKinds))]
		to := 30 + r.Intn(120)
		oneway := r.Chance(30)
		wg.Add(1)
		sem <- struct{}{}
		go func() {
			defer wg.Done()
			defer func() { <-sem }()
			obs, fine, why := retryTiming(func() (string, bool, string) { return runHTTPCase(kind, to, oneway) })
			line := fmt.Sprintf("hrq %s %d %s", kind, to, boolS(oneway))
			Case(line, obs)
			Stat("kind:" + kind)
			Stat("outcome:" + obs)
			if !fine {
				OracleFail(why, map[string]interface{}{"op": "hrq", "line": line, "got": obs})
			}
			Stat("evaluations")
		}()
	}
	wg.Wait()
}

func init() {
	suites["c13http"] = runHTTPReqSuite
	lineOps["hrq"] = func(args []string) (string, bool) {
		to, _ := strconv.Atoi(args[1])
		obs, fine, _ := runHTTPCase(args[0], to, args[2] == "1")
		return obs, fine
	}
}
