package main

// C15 — adapter transport life cycle (Open / Close / IsOpen / read loop / monitor) under
// forced schedules. A history is a byte string: low nibble = action, high nibble = parameter.
//
//	0 O user Open          4 E feed EOF                 8 T feed cut-off frame then EOF    c p arm: next closer parks before the closeSignal send
//	1 C user Close         5 R feed read error          9 U feed cut-off frame then error  d q release the closer parked there
//	2 I user IsOpen        6 Z feed oversized header    a h arm: next failing read parks   e x next underlying Open fails
//	3 F feed a good frame  7 G feed garbage frame           before the closeSignal select  f m let the monitor run
//	                                                    b r release the oldest parked loop
//
// Everything the controller waits for is an event of the real system (a call returned, a yield
// point was reached, a reader arrived at the scripted transport, a monitor callback ran); a
// watchdog (adpWatch) turns "no event" into the outcome `blocked`.

import (
	"context"
	"errors"
	"fmt"
	"io"
	"os"
	"runtime"
	"sort"
	"strconv"
	"strings"
	"sync"
	"sync/atomic"
	"time"

	frugal "github.com/Workiva/frugal/lib/go"
	"github.com/apache/thrift/lib/go/thrift"
	"github.com/sirupsen/logrus"
)

// adpWatch is the watchdog, in time during which this process was demonstrably being scheduled
// (see wdT): on a machine that is overloaded by other work a goroutine that is merely starved is
// not reported as blocked.
const adpWatch = 2 * time.Second

var (
	healthTicks int64 // 10 ms sleeps of the health goroutine that were served within 25 ms
	healthOnce  sync.Once
)

func startHealth() {
	healthOnce.Do(func() {
		go func() {
			for {
				t0 := time.Now()
				time.Sleep(10 * time.Millisecond)
				if time.Since(t0) < 25*time.Millisecond {
					atomic.AddInt64(&healthTicks, 1)
				}
			}
		}()
	})
}

// wdT is one wait's watchdog: it expires once adpWatch has passed AND at least three quarters of
// that much time was served to this process promptly since the wait began (hard cap: 45 x adpWatch).
type wdT struct {
	ticks int64
	wall  time.Time
	d     time.Duration
}

func newWd(d time.Duration) *wdT {
	startHealth()
	return &wdT{ticks: atomic.LoadInt64(&healthTicks), wall: time.Now(), d: d}
}

func (w *wdT) C() <-chan time.Time { return time.After(w.d / 4) }

func (w *wdT) Expired() bool {
	el := time.Since(w.wall)
	if el < w.d {
		return false
	}
	served := time.Duration(atomic.LoadInt64(&healthTicks)-w.ticks) * 10 * time.Millisecond
	return served >= w.d*3/4 || el > 45*w.d
}

// laRecv receives from ch under the load-aware watchdog; ok=false: the watchdog expired.
func laRecv[T any](ch <-chan T, d time.Duration) (v T, ok bool) {
	for w := newWd(d); ; {
		select {
		case v = <-ch:
			return v, true
		case <-w.C():
			if w.Expired() {
				return v, false
			}
		}
	}
}

// laGuard is guard() (recover + watchdog) with the load-aware watchdog.
func laGuard(d time.Duration, f func()) string {
	done := make(chan string, 1)
	go func() {
		defer func() {
			if r := recover(); r != nil {
				done <- "panic:" + panicClass(r)
			}
		}()
		f()
		done <- ""
	}()
	if o, ok := laRecv(done, d); ok {
		return o
	}
	return "blocked"
}

var adpDebug = os.Getenv("ADPDEBUG") != ""

func goid() int64 {
	var b [40]byte
	n := runtime.Stack(b[:], false)
	s := string(b[:n])
	s = strings.TrimPrefix(s, "goroutine ")
	if i := strings.IndexByte(s, ' '); i > 0 {
		s = s[:i]
	}
	g, _ := strconv.ParseInt(s, 10, 64)
	return g
}

// ---------- scripted thrift.TTransport ----------

type scriptT struct {
	mu         sync.Mutex
	cond       *sync.Cond
	open       bool
	gen        int
	buf        []byte
	term       error
	openScript []byte // outcome of the next underlying Opens: 'f' refused, 'd' accepted and the connection dies at once
	lastFlap   bool   // the connection made by the last successful Open dies at once
	woken      int
	blocked    int
	arrive     chan int64 // goid of a goroutine that starts blocking in Read with nothing to read
	consumed   chan struct{}
}

func newScriptT() *scriptT {
	t := &scriptT{arrive: make(chan int64, 64), consumed: make(chan struct{}, 1)}
	t.cond = sync.NewCond(&t.mu)
	return t
}

func (t *scriptT) Open() error {
	t.mu.Lock()
	defer t.mu.Unlock()
	flap := false
	if len(t.openScript) > 0 {
		o := t.openScript[0]
		t.openScript = t.openScript[1:]
		if o == 'f' {
			return errors.New("scripted: open failed")
		}
		flap = true
	}
	if t.open {
		return thrift.NewTTransportException(thrift.ALREADY_OPEN, "scripted: already open")
	}
	t.open = true
	t.gen++
	t.buf, t.term = nil, nil
	t.lastFlap = flap
	if flap {
		t.term = errScriptedRead // connection lifetime 0: the first read fails
	}
	return nil
}

func (t *scriptT) IsOpen() bool {
	t.mu.Lock()
	defer t.mu.Unlock()
	return t.open
}

func (t *scriptT) Close() error {
	t.mu.Lock()
	defer t.mu.Unlock()
	if t.open {
		t.open = false
		t.woken += t.blocked
		t.cond.Broadcast()
	}
	return nil
}

func (t *scriptT) Read(p []byte) (int, error) {
	t.mu.Lock()
	defer t.mu.Unlock()
	g := t.gen
	first := true
	for {
		if !t.open || t.gen != g {
			return 0, thrift.NewTTransportException(thrift.NOT_OPEN, "scripted: closed")
		}
		if len(t.buf) > 0 {
			n := copy(p, t.buf)
			t.buf = t.buf[n:]
			if len(t.buf) == 0 && t.term == nil {
				t.signalConsumed()
			}
			return n, nil
		}
		if t.term != nil {
			e := t.term
			t.term = nil
			t.signalConsumed()
			return 0, e
		}
		if first {
			first = false
			select {
			case t.arrive <- goid():
			default:
			}
		}
		t.blocked++
		t.cond.Wait()
		t.blocked--
	}
}

func (t *scriptT) Write(p []byte) (int, error)     { return len(p), nil }
func (t *scriptT) Flush(ctx context.Context) error { return nil }
func (t *scriptT) RemainingBytes() uint64          { return ^uint64(0) }

// feed hands bytes and/or a terminal error to the reader; false when nobody can read (closed).
func (t *scriptT) feed(b []byte, term error) bool {
	t.mu.Lock()
	defer t.mu.Unlock()
	if !t.open {
		return false
	}
	t.buf = append(t.buf, b...)
	if term != nil {
		t.term = term
	}
	t.cond.Broadcast()
	return true
}

func (t *scriptT) signalConsumed() {
	select {
	case t.consumed <- struct{}{}:
	default:
	}
}

// feedWait feeds and waits until the reader has taken everything (false: closed or watchdog).
func (t *scriptT) feedWait(b []byte, term error) bool {
	select {
	case <-t.consumed:
	default:
	}
	if !t.feed(b, term) {
		return false
	}
	_, ok := laRecv(t.consumed, adpWatch)
	return ok
}

func (t *scriptT) takeWoken() int {
	t.mu.Lock()
	defer t.mu.Unlock()
	n := t.woken
	t.woken = 0
	return n
}

func (t *scriptT) armFail() { t.mu.Lock(); t.openScript = append(t.openScript, 'f'); t.mu.Unlock() }

func (t *scriptT) armFlap() { t.mu.Lock(); t.openScript = append(t.openScript, 'd'); t.mu.Unlock() }

func (t *scriptT) wasFlap() bool { t.mu.Lock(); defer t.mu.Unlock(); return t.lastFlap }

// waitReader waits until a reader is blocked in Read (watchdog: false).
func (t *scriptT) waitReader() bool {
	for w := newWd(adpWatch); !w.Expired(); time.Sleep(100 * time.Microsecond) {
		t.mu.Lock()
		b := t.blocked
		t.mu.Unlock()
		if b > 0 {
			return true
		}
	}
	return false
}

// failBudget: how many of the next Opens are refused before one is accepted.
func (t *scriptT) failBudget() int {
	t.mu.Lock()
	defer t.mu.Unlock()
	n := 0
	for n < len(t.openScript) && t.openScript[n] == 'f' {
		n++
	}
	return n
}

var errScriptedRead = thrift.NewTTransportException(thrift.UNKNOWN_TRANSPORT_EXCEPTION, "scripted: read error")

func scriptedEOF() error { return thrift.NewTTransportExceptionFromError(io.EOF) }

// ---------- controller ----------

type hookEv struct {
	point  string
	g      int64
	parked bool
}

type monEv struct {
	kind string // "arrive", "log"
	tok  string
	term bool
	succ bool
	ch   <-chan error
}

type callRes struct {
	g   int64
	res string
	ch  <-chan error
}

// entity = one goroutine of the real system the controller follows
type adpEnt struct {
	isLoop   bool
	idx      int    // loop: incarnation number (1-based); call: step index
	kind     byte   // call: 'O','C','I'
	st       string // run | closing | herr | hpre | wait | done | blocked
	res      string // call result / loop: "x" silent exit, "c" closed
	reported string
	deferred bool
	pastErr  bool
	bound    bool
	fed      bool // real-socket mode: the peer made this loop's read fail
	counted  bool
	preSeen  bool
	incIdx   int // incarnation that was current when this closer passed the presignal point
	gate     chan struct{}
}

type adpCtl struct {
	tr          *scriptT
	sock        *sockPeer // real-TSocket mode (adapter_sock.go): tr is nil
	curLoop     *adpEnt
	logGate     chan struct{} // the runner is held at its "successfully re-opened" log line
	flapLoop    *adpEnt       // read loop of a connection that dies at once
	flapPending bool          // that incarnation is not yet in c.incs
	orphans     []*adpEnt     // read loops seen at a yield point before the controller knew their incarnation
	incByApp    []bool        // per incarnation: opened by the application (not by the monitor)
	manualRace  bool          // the application called Open while a close report was pending at the monitor
	exits       int32         // read loops that have returned (counted even after abort)
	monRunning  int32
	ft          frugal.FTransport
	evq         chan interface{} // hookEv | monEv | callRes, in the order the real system produced them

	hmu      sync.Mutex
	armErr   bool
	armPre   bool
	aborted  bool
	known    map[int64]bool
	hookGate map[int64]chan struct{}
	monGate  chan struct{}

	ents      map[int64]*adpEnt
	order     []*adpEnt
	readerG   int64 // goid of the loop currently reading
	nLoops    int
	parkedQ   []*adpEnt
	holder    *adpEnt
	waiter    *adpEnt
	expectErr int
	incs      []<-chan error
	incVals   [][]string
	incClosed []bool
	incFail   []string // per incarnation: failure kinds fed ("n" clean kind, "e" unclean) and 'C' for user Close calls
	monState  string   // none | idle | parked | busy | term
	monExpect bool
	monEarly  int // notifications seen before the close that caused them was seen as completed
	buffered  bool
	monLog    []string
	stepMon   []string
	note      string
	// oracle tracking (from real observations only)
	viol     []string
	maxAtt   int
	maxWait  int
	attempts int
	nextOp   uint64
}

var adpCur atomic.Pointer[adpCtl]
var adpHookOnce sync.Once

// adpLogHook: the runner's log line between a successful Open() and its IsOpen() sanity check is
// the one place where the controller can hold the runner (no yield point there): used only when the
// connection just opened dies at once, to let that death happen BEFORE the sanity check.
type adpLogHook struct{}

func (adpLogHook) Levels() []logrus.Level { return logrus.AllLevels }

func (adpLogHook) Fire(e *logrus.Entry) error {
	if strings.Contains(e.Message, "successfully re-opened") {
		if c := adpCur.Load(); c != nil {
			c.monReopened()
		}
	}
	return nil
}

func (c *adpCtl) monReopened() {
	if c.tr == nil || !c.tr.wasFlap() {
		return
	}
	c.hmu.Lock()
	if c.aborted {
		c.hmu.Unlock()
		return
	}
	gate := make(chan struct{})
	c.logGate = gate
	c.hmu.Unlock()
	c.evq <- monEv{kind: "reopened"}
	<-gate
}

func adpInstallHook() {
	adpHookOnce.Do(func() {
		l := logrus.New()
		l.Out = io.Discard
		l.AddHook(adpLogHook{})
		frugal.SetLogger(l)
		frugal.SetVerifYield(func(point string, id uint64) {
			if c := adpCur.Load(); c != nil {
				c.hook(point)
			}
		})
	})
}

func (c *adpCtl) hook(point string) {
	g := goid()
	if point == "adapter.readloop.exit" {
		atomic.AddInt32(&c.exits, 1)
	}
	c.hmu.Lock()
	if c.aborted {
		c.hmu.Unlock()
		return
	}
	park := false
	switch point {
	case "adapter.readloop.onerror":
		if c.armErr {
			c.armErr, park = false, true
		}
	case "adapter.close.presignal":
		if c.armPre && atomic.LoadInt32(&c.monRunning) == 0 {
			// (nobody is held at this point while the monitor runs: its IsOpen would wait for the held closer)
			c.armPre, park = false, true
		}
	case "adapter.readloop.exit":
	default:
		c.hmu.Unlock()
		return
	}
	var gate chan struct{}
	if park {
		gate = make(chan struct{})
		c.hookGate[g] = gate
	}
	c.hmu.Unlock()
	c.evq <- hookEv{point, g, park}
	if park {
		<-gate
	}
}

func (c *adpCtl) know(g int64) { c.hmu.Lock(); c.known[g] = true; c.hmu.Unlock() }

func (c *adpCtl) release(g int64) {
	c.hmu.Lock()
	gate := c.hookGate[g]
	delete(c.hookGate, g)
	c.hmu.Unlock()
	if gate != nil {
		close(gate)
	}
}

func (c *adpCtl) violate(s string) { c.viol = append(c.viol, s) }

func retClass(err error) string {
	if err == nil {
		return "ok"
	}
	if e, ok := err.(thrift.TTransportException); ok {
		switch e.TypeId() {
		case frugal.TRANSPORT_EXCEPTION_ALREADY_OPEN:
			return "already"
		case frugal.TRANSPORT_EXCEPTION_NOT_OPEN:
			return "notopen"
		}
	}
	return "other"
}

// loopEnt returns the entity of the read-loop goroutine g (created at its first event).
func (c *adpCtl) loopEnt(g int64) *adpEnt {
	if e, ok := c.ents[g]; ok {
		return e
	}
	if c.sock != nil && c.curLoop != nil && !c.curLoop.bound {
		// real-socket mode: the only read loop alive is the one of the latest incarnation
		c.curLoop.bound = true
		c.ents[g] = c.curLoop
		return c.curLoop
	}
	if c.flapLoop != nil && !c.flapLoop.bound {
		c.flapLoop.bound = true
		c.ents[g] = c.flapLoop
		return c.flapLoop
	}
	e := &adpEnt{isLoop: true, idx: len(c.incs) + 1, st: "run", bound: true}
	c.ents[g] = e
	c.order = append(c.order, e)
	c.orphans = append(c.orphans, e)
	return e
}

// flapOpened: an Open succeeded on a connection that dies at once; its read loop never blocks in
// Read, it is followed from its first yield point (which may already have been seen).
func (c *adpCtl) flapOpened() {
	c.nLoops++
	c.flapPending = true
	if n := len(c.orphans); n > 0 {
		c.flapLoop = c.orphans[n-1]
		c.orphans = c.orphans[:n-1]
		return
	}
	c.flapLoop = &adpEnt{isLoop: true, idx: len(c.incs) + 1, st: "run"}
	c.order = append(c.order, c.flapLoop)
}

func (c *adpCtl) running() bool {
	if c.expectErr > 0 || c.monExpect {
		return true
	}
	for _, e := range c.order {
		if (e.st == "run" || e.st == "closing") && !e.deferred {
			return true
		}
	}
	return false
}

// opened: a new incarnation exists (Open returned nil); wait for its read loop to start reading.
func (c *adpCtl) opened(ch <-chan error, byApp bool) {
	c.incByApp = append(c.incByApp, byApp)
	if c.obsOpen() {
		c.violate("Open returned nil on an open transport")
	}
	c.incs = append(c.incs, ch)
	c.incVals = append(c.incVals, nil)
	c.incClosed = append(c.incClosed, false)
	c.incFail = append(c.incFail, "")
	if c.sock != nil {
		c.nLoops++
		c.curLoop = &adpEnt{isLoop: true, idx: len(c.incs), st: "read"}
		c.order = append(c.order, c.curLoop)
		if !c.sock.awaitAccept() {
			c.violate("Open returned nil but the peer saw no connection")
		}
		return
	}
	if c.flapPending || c.tr.wasFlap() {
		if !c.flapPending {
			c.flapOpened()
		}
		c.flapPending = false
		c.flapLoop.idx = len(c.incs)
		c.incFail[len(c.incFail)-1] += "e" // the connection died at once: an unclean failure of this incarnation
		return
	}
	for {
		g, ok := laRecv(c.tr.arrive, adpWatch)
		if !ok {
			c.violate("no read loop started reading after Open returned nil")
			return
		}
		if _, old := c.ents[g]; old {
			continue
		}
		c.readerG = g
		c.know(g)
		c.nLoops++
		e := &adpEnt{isLoop: true, idx: len(c.incs), st: "read"}
		c.ents[g] = e
		c.order = append(c.order, e)
		return
	}
}

// backInRead waits until the reading loop blocks in Read again (after a delivered frame).
func (c *adpCtl) backInRead() bool {
	for {
		g, ok := laRecv(c.tr.arrive, adpWatch)
		if !ok {
			return false
		}
		if g == c.readerG {
			return true
		}
	}
}

// poll drains what incarnation k has published on Closed() so far (values stay cached).
func (c *adpCtl) poll(k int) {
	for !c.incClosed[k] {
		select {
		case v, ok := <-c.incs[k]:
			if !ok {
				c.incClosed[k] = true
			} else if v == nil {
				c.incVals[k] = append(c.incVals[k], "nil")
			} else {
				c.incVals[k] = append(c.incVals[k], "err")
			}
		default:
			return
		}
	}
}

// obsOpen: the last successful Open has not yet published/closed its Closed() channel.
func (c *adpCtl) obsOpen() bool {
	if len(c.incs) == 0 {
		return false
	}
	k := len(c.incs) - 1
	c.poll(k)
	return !c.incClosed[k] && len(c.incVals[k]) == 0
}

// healedByMonitor: the transport is open and it was the monitor that (re)opened it, with no
// application Open racing a close report anywhere in this history.
func (c *adpCtl) healedByMonitor() bool {
	n := len(c.incByApp)
	return c.obsOpen() && n > 0 && !c.incByApp[n-1] && !c.manualRace
}

func (c *adpCtl) closeCompleted() {
	for _, e := range c.order {
		if !e.isLoop && e.kind == 'O' && e.st != "done" {
			c.manualRace = true // an application Open is already waiting for the mutex: it reopens before the monitor handles this close
		}
	}
	if c.sock != nil {
		if c.curLoop != nil && !c.curLoop.fed && !c.curLoop.counted {
			c.curLoop.counted = true
			c.expectErr++ // its Read on the closed socket fails: it comes through the onerror point
		}
	} else {
		c.expectErr += c.tr.takeWoken()
	}
	if c.monEarly > 0 {
		c.monEarly--
		return
	}
	switch c.monState {
	case "idle":
		c.monExpect = true
	case "parked", "busy":
		c.buffered = true
	}
}

// settle processes events of the real system until nothing the controller follows can move.
func (c *adpCtl) settle() {
	for c.running() {
		x, ok := laRecv(c.evq, adpWatch)
		if ok {
			c.dispatch(x)
			continue
		}
		{
			for _, e := range c.order {
				if e.st == "run" || e.st == "closing" {
					if c.holder != nil || len(c.parkedQ) > 0 {
						e.st = "wait"
					} else {
						e.st = "blocked"
					}
				}
			}
			if c.expectErr > 0 {
				c.note += "!lostloop"
				c.expectErr = 0
			}
			if c.monExpect {
				c.monExpect = false
				c.stepMon = append(c.stepMon, "!-")
				c.violate("monitor not notified of a close")
			}
			return
		}
	}
}

func (c *adpCtl) dispatch(x interface{}) {
	if adpDebug {
		fmt.Fprintf(os.Stderr, "ADPDEBUG ev %#v expectErr=%d\n", x, c.expectErr)
	}
	switch v := x.(type) {
	case hookEv:
		c.onHook(v)
	case callRes:
		c.onDone(v)
	case monEv:
		c.onMon(v)
	}
}

func (c *adpCtl) onHook(ev hookEv) {
	switch ev.point {
	case "adapter.readloop.onerror":
		e := c.loopEnt(ev.g)
		if e.st == "read" {
			// woken from Read by a close of the transport (not by a fed failure); this event may
			// be seen before the event that reports the close as completed
			c.expectErr--
		}
		if ev.g == c.readerG {
			c.readerG = 0
		}
		if ev.parked {
			e.st = "herr"
			c.parkedQ = append(c.parkedQ, e)
		} else {
			e.st = "run"
		}
		e.pastErr = true
	case "adapter.close.presignal":
		e, ok := c.ents[ev.g]
		if !ok {
			e = c.loopEnt(ev.g)
		}
		if ev.g == c.readerG {
			c.readerG = 0
		}
		e.preSeen = true
		e.incIdx = len(c.incs) - 1
		if ev.parked {
			e.st = "hpre"
			c.holder = e
		} else {
			e.st = "closing"
		}
	case "adapter.readloop.exit":
		e := c.loopEnt(ev.g)
		if ev.g == c.readerG {
			c.readerG = 0
		}
		e.st = "done"
		if e.preSeen {
			e.res = "c"
			c.closeCompleted()
		} else {
			e.res = "x"
		}
	}
}

func (c *adpCtl) onDone(r callRes) {
	e := c.ents[r.g]
	if e == nil {
		return
	}
	e.st, e.res = "done", r.res
	switch e.kind {
	case 'O':
		switch r.res {
		case "ok":
			if c.monState == "parked" || c.monState == "busy" || c.buffered || c.monExpect {
				c.manualRace = true // the application reopened the transport itself while a close report was on its way to / at the monitor
			}
			c.opened(r.ch, true)
		case "already":
			if !c.obsOpen() {
				c.violate("Open reported ALREADY_OPEN on a closed transport")
			}
		}
	case 'C':
		switch r.res {
		case "ok":
			if !e.preSeen {
				c.note += "!nopresignal"
			}
			if e.preSeen && e.incIdx >= 0 && e.incIdx < len(c.incFail) {
				c.incFail[e.incIdx] += "C"
			}
			c.closeCompleted()
		case "notopen":
			if c.obsOpen() {
				c.violate("Close reported NOT_OPEN on an open transport")
			}
		default:
			c.violate("Close returned " + r.res)
		}
	case 'I':
		if (r.res == "true") != c.obsOpen() {
			c.violate("IsOpen=" + r.res + " disagrees with the observed life cycle")
		}
	}
}

func (c *adpCtl) onMon(m monEv) {
	switch m.kind {
	case "arrive":
		if !c.monExpect && c.monState == "idle" {
			c.monEarly++
		}
		c.monExpect = false
		c.monState = "parked"
		c.stepMon = append(c.stepMon, "!"+m.tok)
	case "reopened":
		c.flapOpened()
	case "log":
		c.monLog = append(c.monLog, m.tok)
		c.stepMon = append(c.stepMon, m.tok)
		if m.term {
			c.monState = "term"
			if m.tok != "C" && c.healedByMonitor() {
				c.violate("the monitor runner ended while the transport is open: the next failure will be neither reported nor healed")
			}
		} else if m.succ {
			c.opened(m.ch, false)
			if c.buffered {
				c.buffered = false
				c.monExpect = true
			} else {
				c.monState = "idle"
			}
		}
	}
}

// monitor with recorded callbacks; the first callback after a close parks until `m`.
type adpMon struct {
	c      *adpCtl
	stub   bool
	reopen bool
	base   frugal.BaseFTransportMonitor
}

func (m *adpMon) park(tok string) {
	c := m.c
	c.hmu.Lock()
	if c.aborted {
		c.hmu.Unlock()
		return
	}
	gate := make(chan struct{})
	c.monGate = gate
	c.hmu.Unlock()
	c.evq <- monEv{kind: "arrive", tok: tok}
	<-gate
}

func (m *adpMon) OnClosedCleanly() {
	m.park("C")
	m.c.evq <- monEv{kind: "log", tok: "C", term: true}
}

func ms(d time.Duration) int { return int(d / time.Millisecond) }

func (m *adpMon) OnClosedUncleanly(cause error) (bool, time.Duration) {
	m.park("U")
	r, w := m.base.OnClosedUncleanly(cause)
	if m.stub {
		r = m.reopen
	}
	m.c.hmu.Lock()
	ab := m.c.aborted
	m.c.hmu.Unlock()
	if ab {
		return false, 0
	}
	m.c.evq <- monEv{kind: "log", tok: fmt.Sprintf("U>%d:%d", b2i(r), ms(w)), term: !r}
	return r, w
}

func (m *adpMon) OnReopenFailed(prev uint, pw time.Duration) (bool, time.Duration) {
	r, w := m.base.OnReopenFailed(prev, pw)
	m.c.hmu.Lock()
	ab := m.c.aborted
	m.c.hmu.Unlock()
	if ab {
		return false, 0
	}
	m.c.evq <- monEv{kind: "log", tok: fmt.Sprintf("F%d:%d>%d:%d", prev, ms(pw), b2i(r), ms(w)), term: !r}
	return r, w
}

func (m *adpMon) OnReopenSucceeded() {
	ch := m.c.ft.Closed()
	m.c.evq <- monEv{kind: "log", tok: "S", succ: true, ch: ch}
}

func b2i(b bool) int {
	if b {
		return 1
	}
	return 0
}

// ---------- one history ----------

type adpCfg struct {
	kind          string // n | s | b
	reopen        bool
	max, init, mw int
}

func parseAdpCfg(s string) (adpCfg, bool) {
	p := strings.Split(s, ":")
	atoi := func(x string) int { n, _ := strconv.Atoi(x); return n }
	switch {
	case s == "n":
		return adpCfg{kind: "n"}, true
	case p[0] == "s" && len(p) == 3:
		return adpCfg{kind: "s", reopen: p[1] == "1", max: atoi(p[2])}, true
	case p[0] == "b" && len(p) == 4:
		return adpCfg{kind: "b", max: atoi(p[1]), init: atoi(p[2]), mw: atoi(p[3])}, true
	}
	return adpCfg{}, false
}

func (c *adpCtl) startCall(kind byte, idx int) *adpEnt {
	e := &adpEnt{kind: kind, idx: idx, st: "run"}
	ready := make(chan int64)
	start := make(chan struct{})
	go func() {
		g := goid()
		ready <- g
		<-start
		var res string
		var ch <-chan error
		defer func() {
			if r := recover(); r != nil {
				res = "panic:" + panicClass(r)
			}
			c.evq <- callRes{g, res, ch}
		}()
		switch kind {
		case 'O':
			err := c.ft.Open()
			res = retClass(err)
			if err == nil {
				ch = c.ft.Closed()
			}
		case 'C':
			res = retClass(c.ft.Close())
		case 'I':
			res = fmt.Sprint(c.ft.IsOpen())
		}
	}()
	g := <-ready
	c.know(g)
	c.ents[g] = e
	c.order = append(c.order, e)
	close(start)
	return e
}

func (e *adpEnt) show() string {
	switch e.st {
	case "done":
		return e.res
	case "herr":
		return "h"
	case "hpre":
		return "P"
	case "wait":
		return "w"
	case "blocked":
		return "blocked"
	case "read":
		return "rd"
	}
	return e.st
}

// report: primary result plus every other followed goroutine whose state changed in this step.
func (c *adpCtl) report(primary *adpEnt, head string) string {
	var sb strings.Builder
	sb.WriteString(head)
	if primary != nil {
		if primary.deferred {
			sb.WriteString("w")
		} else {
			sb.WriteString(primary.show())
			primary.reported = primary.show()
		}
	}
	for _, e := range c.order {
		if e == primary || e.deferred {
			continue
		}
		s := e.show()
		if e.reported == "" && (s == "rd" || s == "run") {
			e.reported = s
			continue
		}
		if s != e.reported {
			e.reported = s
			if e.isLoop {
				fmt.Fprintf(&sb, "+L%d:%s", e.idx, s)
			} else {
				fmt.Fprintf(&sb, "+K%d:%s", e.idx, s)
			}
		}
	}
	for _, t := range c.stepMon {
		if strings.HasPrefix(t, "!") {
			sb.WriteString(t)
		}
	}
	sb.WriteString(c.note)
	c.note = ""
	c.stepMon = nil
	return sb.String()
}

func goodFrame(op uint64, n int) []byte {
	hdr := frugal.VerifMarshalHeaders(map[string]string{"_opid": strconv.FormatUint(op, 10)})
	payload := make([]byte, n)
	for i := range payload {
		payload[i] = byte(i + 1)
	}
	return frameOf(hdr, payload)
}

func adpActName(a byte) string { return string("OCIFERZGTUhrpqxm"[a&15]) }

// runAdp executes one history against the real adapter transport.
func runAdp(hist []byte, cfg adpCfg) (string, []string) {
	adpInstallHook()
	c := &adpCtl{tr: newScriptT(), evq: make(chan interface{}, 1024),
		known: map[int64]bool{}, hookGate: map[int64]chan struct{}{}, ents: map[int64]*adpEnt{}, monState: "none", nextOp: 1 << 40}
	c.ft = frugal.NewAdapterTransport(c.tr)
	adpCur.Store(c)
	if cfg.kind != "n" {
		m := &adpMon{c: c, stub: cfg.kind == "s", reopen: cfg.reopen}
		m.base = frugal.BaseFTransportMonitor{MaxReopenAttempts: uint(cfg.max), InitialWait: time.Duration(cfg.init) * time.Millisecond, MaxWait: time.Duration(cfg.mw) * time.Millisecond}
		c.ft.SetMonitor(m)
		c.monState = "idle"
	}
	var outs []string
	step := func(i int, b byte) string {
		a, par := b&15, int(b>>4)
		held := c.holder != nil
		newRunnerOK := !held || c.waiter == nil
		asWaiter := func(e *adpEnt) {
			if held {
				e.deferred = true
				c.waiter = e
			}
		}
		switch a {
		case 0, 1, 2: // user calls
			if !newRunnerOK {
				return "skip"
			}
			if a == 0 && (c.monState == "parked" || c.monState == "busy" || c.buffered) {
				c.manualRace = true
			}
			e := c.startCall("OCI"[a], i)
			asWaiter(e)
			if !held {
				c.settle()
			}
			return c.report(e, "")
		case 3: // good frame, addressed to a registered context
			if c.readerG == 0 {
				return "skip"
			}
			c.nextOp++
			ctx := frugal.NewFContext("")
			ctx.AddRequestHeader("_opid", strconv.FormatUint(c.nextOp, 10))
			resC := make(chan []byte, 1)
			frugal.VerifAdapterRegister(c.ft, ctx, resC)
			fr := goodFrame(c.nextOp, par)
			if !c.tr.feedWait(fr, nil) {
				return "skip"
			}
			got, ok := laRecv(resC, adpWatch)
			if !ok {
				c.violate("a whole frame was not delivered")
				return "blocked"
			}
			if string(got) != string(fr[4:]) {
				c.violate("delivered frame differs from the frame sent")
				return "d?"
			}
			if !c.backInRead() {
				c.violate("read loop did not come back for the next frame")
				return "d!"
			}
			return "d"
		case 4, 5, 6, 7, 8, 9: // failures of the inbound stream
			if c.readerG == 0 || (!newRunnerOK && !(c.armErrSet() && a != 7)) {
				return "skip"
			}
			e := c.ents[c.readerG]
			var b []byte
			var term error
			kind := "e"
			switch a {
			case 4:
				term, kind = scriptedEOF(), "n"
			case 5:
				term = errScriptedRead
			case 6:
				b = be32(uint32(16384001 + par))
			case 7:
				if par%2 == 1 {
					b = be32(0)
				} else {
					b = append(be32(3), 1, 2, 3)
				}
			case 8, 9:
				fr := goodFrame(7, 6)
				b = fr[:1+par%(len(fr)-1)]
				if a == 8 {
					term, kind = scriptedEOF(), "n"
				} else {
					term = errScriptedRead
				}
			}
			armed := c.armErrSet() && a != 7
			c.incFail[e.idx-1] += kind
			e.st = "run"
			c.readerG = 0
			if !armed {
				asWaiter(e)
			}
			if !c.tr.feedWait(b, term) {
				c.violate("read loop did not take the fed bytes")
			}
			if a != 7 {
				// the failed read reaches the onerror point (event of the real system)
				for !e.pastErr {
					if x, ok := laRecv(c.evq, adpWatch); ok {
						c.dispatch(x)
					} else {
						c.note += "!lostloop"
						e.pastErr = true
					}
				}
			}
			if a == 7 {
				// Execute fails: the loop goes to close(err) without passing the onerror point
				if !held {
					c.settle()
				}
				return c.report(e, "")
			}
			if armed || !held {
				c.settle()
			}
			return c.report(e, "")
		case 10:
			c.hmu.Lock()
			c.armErr = true
			c.hmu.Unlock()
			return "a"
		case 11:
			if len(c.parkedQ) == 0 || !newRunnerOK {
				return "skip"
			}
			e := c.parkedQ[0]
			c.parkedQ = c.parkedQ[1:]
			e.st = "run"
			for _, x := range c.order {
				if x.st == "wait" && !x.deferred {
					x.st = "run"
				}
			}
			asWaiter(e)
			c.releaseEnt(e)
			if !held {
				c.settle()
			}
			return c.report(e, "")
		case 12:
			c.hmu.Lock()
			c.armPre = true
			c.hmu.Unlock()
			return "a"
		case 13:
			if c.holder == nil {
				return "skip"
			}
			e := c.holder
			c.holder = nil
			e.st = "closing"
			if w := c.waiter; w != nil {
				w.deferred = false
				c.waiter = nil
				if w.st == "wait" {
					w.st = "run"
				}
			}
			c.releaseEnt(e)
			c.settle()
			return c.report(e, "")
		case 14:
			if par >= 8 {
				c.tr.armFlap()
			} else {
				c.tr.armFail()
			}
			return "a"
		case 15:
			if c.monState != "parked" || held {
				return "skip"
			}
			budget, wasOpen := c.tr.failBudget(), c.obsOpen()
			if c.healedByMonitor() {
				c.violate("the monitor handles a close report although the transport is open and the application never reopened it (a failure reported twice / a report without a failure)")
			}
			c.monState = "busy"
			c.hmu.Lock()
			gate := c.monGate
			c.monGate = nil
			c.hmu.Unlock()
			atomic.StoreInt32(&c.monRunning, 1)
			close(gate)
			c.settleMon()
			atomic.StoreInt32(&c.monRunning, 0)
			toks := []string{}
			for _, t := range c.stepMon {
				if !strings.HasPrefix(t, "!") {
					toks = append(toks, t)
				}
			}
			c.checkOutage(toks, cfg, budget, wasOpen)
			return c.report(nil, strings.Join(toks, ","))
		}
		return "skip"
	}
	for i, b := range hist {
		outs = append(outs, adpActName(b)+"="+step(i, b))
	}
	// flush: nothing stays parked at a yield point
	c.hmu.Lock()
	c.armErr, c.armPre = false, false
	c.hmu.Unlock()
	var fl []string
	if c.holder != nil {
		fl = append(fl, "q="+step(len(hist), 13))
	}
	for len(c.parkedQ) > 0 {
		fl = append(fl, "r="+step(len(hist), 11))
	}
	return c.finish(len(hist), outs, fl, cfg)
}

// finish: final observables, the per-incarnation oracle, cleanup.
func (c *adpCtl) finish(nHist int, outs, fl []string, cfg adpCfg) (string, []string) {
	// final observables
	fin := c.startCall('I', nHist+1)
	c.settle()
	exited := 0
	for _, e := range c.order {
		if e.isLoop && e.st == "done" {
			exited++
		}
	}
	var incs []string
	for k := range c.incs {
		c.poll(k)
		vals := append([]string{}, c.incVals[k]...)
		if len(vals) == 0 {
			if c.incClosed[k] {
				vals = append(vals, "closed-empty")
			} else {
				vals = append(vals, "-")
			}
		}
		incs = append(incs, strings.Join(vals, "&"))
		c.checkInc(k, vals, k == len(c.incs)-1 && fin.res == "true")
	}
	if len(incs) == 0 {
		incs = []string{"."}
	}
	mon := strings.Join(c.monLog, ",")
	if mon == "" {
		mon = "."
	}
	final := fmt.Sprintf("open=%s inc=%s loops=%d/%d mon=%s", fin.show(), strings.Join(incs, "/"), exited, c.nLoops, mon)
	for _, e := range c.order {
		if e.st == "blocked" {
			if e.isLoop {
				c.violate("a read loop blocked (holding the transport mutex) in close()")
			} else {
				c.violate(fmt.Sprintf("user call %c did not return (blocked) although no other goroutine was being held", e.kind))
			}
		}
	}
	if cfg.kind == "b" {
		c.checkBase(cfg)
	}
	// cleanup: let every goroutine go
	c.hmu.Lock()
	c.aborted = true
	for g, gate := range c.hookGate {
		close(gate)
		delete(c.hookGate, g)
	}
	if c.monGate != nil {
		close(c.monGate)
		c.monGate = nil
	}
	if c.logGate != nil {
		close(c.logGate)
		c.logGate = nil
	}
	c.hmu.Unlock()
	if c.sock != nil {
		c.sock.shutdown()
		laGuard(adpWatch, func() { c.ft.Close() })
		// every read loop of this history has returned before the next history installs its controller
		for w := newWd(adpWatch); int(atomic.LoadInt32(&c.exits)) < c.nLoops && !w.Expired(); {
			time.Sleep(200 * time.Microsecond)
		}
	} else if fin.res == "true" {
		laGuard(adpWatch, func() { c.ft.Close() })
	} else {
		c.tr.Close()
	}
	if c.sock == nil {
		// every read loop of this history has returned before the next history installs its controller
		for w := newWd(adpWatch); int(atomic.LoadInt32(&c.exits)) < c.nLoops && !w.Expired(); {
			time.Sleep(100 * time.Microsecond)
		}
	}
	adpCur.Store(nil)
	sort.Strings(c.viol)
	return strings.Join(outs, ";") + "|" + strings.Join(fl, ";") + "|" + final, c.viol
}

func (c *adpCtl) armErrSet() bool { c.hmu.Lock(); defer c.hmu.Unlock(); return c.armErr }

func (c *adpCtl) releaseEnt(e *adpEnt) {
	for g, x := range c.ents {
		if x == e {
			c.release(g)
		}
	}
}

// settleMon: the monitor runs from its parked callback until it is idle, parked again or has terminated.
func (c *adpCtl) settleMon() {
	for c.monState == "busy" || c.monExpect || c.running() {
		if c.logGate != nil && c.flapLoop != nil && c.flapLoop.st != "run" && c.flapLoop.st != "closing" {
			c.hmu.Lock()
			gate := c.logGate
			c.logGate = nil
			c.hmu.Unlock()
			close(gate)
		}
		x, ok := laRecv(c.evq, adpWatch+200*time.Millisecond)
		if ok {
			c.dispatch(x)
			continue
		}
		{
			if c.monExpect {
				c.monExpect = false
				c.stepMon = append(c.stepMon, "!-")
				c.violate("monitor not notified of a close")
			}
			if c.monState == "busy" {
				c.monState = "stuck"
				c.note += "!monblocked"
				c.violate("monitor runner did not finish its reopen (blocked)")
			}
			return
		}
	}
}

// checkInc: the property for one incarnation, from what was really fed / called / received.
func (c *adpCtl) checkInc(k int, vals []string, stillOpen bool) {
	f := c.incFail[k]
	n := 0
	v := ""
	for _, x := range vals {
		if x == "nil" || x == "err" {
			n++
			v = x
		}
	}
	failed := strings.ContainsAny(f, "ne")
	switch {
	case n > 1:
		c.violate("more than one value on Closed() for one Open")
	case n == 0 && failed:
		c.violate("a failure of the inbound stream was not detected: nothing on Closed(), transport still reported open")
	case n == 0 && !stillOpen:
		c.violate("transport closed without a value on Closed()")
	case n == 1 && stillOpen:
		c.violate("transport reported open after publishing a close cause")
	case n == 1 && v == "nil" && !strings.ContainsAny(f, "nC"):
		c.violate("nil published on Closed() although the close was neither Close() nor EOF")
	case n == 1 && v == "err" && !strings.Contains(f, "e"):
		c.violate("error published on Closed() without an unclean failure")
	}
}

// checkOutage: the monitor's handling of ONE close, against what the policy allows — in both
// directions. `budget` = how many of the next underlying Opens were going to fail when the runner was
// released, `wasOpen` = somebody else had reopened the transport already (every attempt then fails
// with ALREADY_OPEN). Every outage starts afresh: waits at InitialWait, attempt counter at 1.
func outageViolations(toks []string, cfg adpCfg, budget int, wasOpen bool) (viol []string) {
	if len(toks) == 0 || !strings.HasPrefix(toks[0], "U>") {
		return nil // clean close (or nothing ran)
	}
	var r, w int
	fmt.Sscanf(toks[0], "U>%d:%d", &r, &w)
	wantR := cfg.max > 0
	if cfg.kind == "s" {
		wantR = cfg.reopen
	}
	if (r == 1) != wantR {
		viol = append(viol, "OnClosedUncleanly's reopen decision is not the policy's")
	}
	if w != cfg.init {
		viol = append(viol, "the first wait of an outage is not InitialWait")
	}
	stopAfter := 0
	if r == 1 {
		stopAfter = cfg.max
		if stopAfter < 1 {
			stopAfter = 1
		}
	}
	var fs []string
	succeeded := false
	for _, t := range toks[1:] {
		if strings.HasPrefix(t, "F") {
			fs = append(fs, t)
		} else if t == "S" {
			succeeded = true
		}
	}
	for i, f := range fs {
		var prev, pw, fr, fw int
		fmt.Sscanf(f, "F%d:%d>%d:%d", &prev, &pw, &fr, &fw)
		if prev != i+1 {
			viol = append(viol, fmt.Sprintf("OnReopenFailed was told %d previous attempts at the %d. failure of this outage (the count must restart with every outage)", prev, i+1))
		}
		if i == 0 && pw != cfg.init {
			viol = append(viol, "the wait sequence of an outage does not restart at InitialWait")
		}
	}
	heals := !wasOpen && budget < stopAfter
	switch {
	case heals && !succeeded:
		viol = append(viol, fmt.Sprintf("the monitor gave up an outage the policy allows it to heal (%d failing attempts, MaxReopenAttempts %d)", budget, cfg.max))
	case heals && len(fs) != budget:
		viol = append(viol, "the monitor did not reopen at the first Open that could succeed")
	case !heals && succeeded:
		viol = append(viol, "the monitor reported a successful reopen that could not have happened")
	case !heals && len(fs) != stopAfter:
		viol = append(viol, fmt.Sprintf("the monitor made %d failed attempts before giving up, the policy says %d", len(fs), stopAfter))
	}
	return viol
}

func (c *adpCtl) checkOutage(toks []string, cfg adpCfg, budget int, wasOpen bool) {
	for _, v := range outageViolations(toks, cfg, budget, wasOpen) {
		c.violate(v)
	}
}

func (c *adpCtl) checkBase(cfg adpCfg) {
	att := 0
	for _, t := range c.monLog {
		switch {
		case strings.HasPrefix(t, "U>"):
			att = 0
			c.checkWait(t, cfg)
			if strings.HasPrefix(t, "U>1") {
				att = 1
			}
		case strings.HasPrefix(t, "F"):
			c.checkWait(t, cfg)
			if strings.Contains(t, ">1:") {
				att++
			}
		}
		if att > cfg.max {
			c.violate("more reopen attempts than MaxReopenAttempts")
		}
	}
}

func (c *adpCtl) checkWait(tok string, cfg adpCfg) {
	i := strings.LastIndexByte(tok, ':')
	w, _ := strconv.Atoi(tok[i+1:])
	if cfg.init <= cfg.mw && w > cfg.mw {
		c.violate("monitor wait above MaxWait")
	}
}

// ---------- generator, suite, line op ----------

func adpCfgString(c adpCfg) string {
	switch c.kind {
	case "s":
		return fmt.Sprintf("s:%d:%d", b2i(c.reopen), c.max)
	case "b":
		return fmt.Sprintf("b:%d:%d:%d", c.max, c.init, c.mw)
	}
	return "n"
}

func genAdp(r *Rng) ([]byte, adpCfg) {
	var cfg adpCfg
	switch r.Intn(4) {
	case 0:
		cfg = adpCfg{kind: "n"}
	case 1, 2:
		cfg = adpCfg{kind: "s", reopen: r.Chance(80), max: r.Intn(4)}
	default:
		cfg = adpCfg{kind: "b", max: r.Intn(4), init: r.Intn(4), mw: 0}
		cfg.mw = cfg.init + r.Intn(6)
	}
	n := 1 + r.Intn(12)
	h := make([]byte, 0, n)
	// weights: the life-cycle actions dominate, races are armed now and then
	weights := []int{16, 10, 5, 6, 8, 8, 3, 4, 3, 3, 5, 7, 4, 6, 3, 9}
	if cfg.kind == "n" {
		weights[15] = 0
	}
	tot := 0
	for _, w := range weights {
		tot += w
	}
	h = append(h, 0) // start with Open most of the time
	if r.Chance(15) {
		h = h[:0]
	}
	for len(h) < n {
		x := r.Intn(tot)
		a := 0
		for x >= weights[a] {
			x -= weights[a]
			a++
		}
		h = append(h, byte(a)|byte(r.Intn(16))<<4)
	}
	return h, cfg
}

func adpLine(h []byte, cfg adpCfg) string { return "adp " + hx(h) + " " + adpCfgString(cfg) }

func realAdpLine(args []string) (string, bool) {
	if len(args) != 2 {
		return "bad-op", true
	}
	cfg, ok := parseAdpCfg(args[1])
	if !ok {
		return "bad-op", true
	}
	h := unhx(args[0])
	if len(h) > 64 {
		return "bad-op", true
	}
	o, viol := runAdp(h, cfg)
	if len(viol) > 0 {
		// same `what` as the suite reports, so that the shrinker recognises the failure
		OracleFail("C15: "+viol[0], map[string]interface{}{"op": "adp", "line": "adp " + strings.Join(args, " "), "in": args[0], "got": o, "all": viol})
	}
	return o, true
}

func runC15(r *Rng, n int) {
	for i := 0; i < n; i++ {
		h, cfg := genAdp(r)
		o, viol := runAdp(h, cfg)
		line := adpLine(h, cfg)
		Case(line, o)
		Stat("evaluations")
		Stat("monitor:" + cfg.kind)
		Stat(fmt.Sprintf("len=%02d", len(h)))
		for _, b := range h {
			Stat("action:" + adpActName(b))
		}
		for _, t := range strings.FieldsFunc(strings.SplitN(o, "|", 2)[0], func(r rune) bool { return r == ';' }) {
			if j := strings.IndexByte(t, '='); j > 0 {
				res := t[j+1:]
				if k := strings.IndexAny(res, "+!"); k >= 0 {
					res = res[:k]
				}
				if len(res) > 12 {
					res = "moncallbacks"
				}
				Stat("outcome:" + t[:j] + ":" + res)
			}
		}
		if i < 3 {
			Sample(map[string]interface{}{"line": line, "real": o})
		}
		if len(viol) > 0 {
			OracleFail("C15: "+viol[0], map[string]interface{}{"op": "adp", "line": line, "in": hx(h), "got": o, "all": viol})
		}
	}
}

// genOutages: ONE transport, ONE monitor, SEVERAL outages, each with its own number of failing
// reopen attempts drawn from 0..Max (Max-1 then success and exactly Max -> give up are favoured).
func genOutages(r *Rng) ([]byte, adpCfg) {
	var cfg adpCfg
	if r.Chance(75) {
		cfg = adpCfg{kind: "b", max: 1 + r.Intn(4), init: r.Intn(3)}
		cfg.mw = cfg.init + r.Intn(4)
	} else {
		cfg = adpCfg{kind: "s", reopen: true, max: 1 + r.Intn(4)}
	}
	h := []byte{0}
	n := 2 + r.Intn(3)
	for i := 0; i < n && len(h) < 44; i++ {
		k := r.Intn(cfg.max)
		switch {
		case r.Chance(40):
			k = cfg.max - 1
		case r.Chance(15):
			k = cfg.max
		}
		// a FLAPPING peer: some of the connections the monitor gets are accepted and die at once
		// (before its sanity check), 1..4 times in a row, alone or mixed with refused opens
		flaps := 0
		if r.Chance(45) {
			flaps = 1 + r.Intn(4)
		}
		refusedLeft := k
		for j := 0; j < k+flaps; j++ {
			if flaps > 0 && (refusedLeft == 0 || r.Chance(50)) {
				h = append(h, 14|0x80)
				flaps--
				refusedLeft = r.Intn(cfg.max) // refusals count afresh after every connection that was made
				if refusedLeft > k {
					refusedLeft = k
				}
			} else if refusedLeft > 0 {
				h = append(h, 14)
				refusedLeft--
			}
		}
		nm := 1 + strings.Count(string(h), "\x8e")
		h = append(h, byte(r.Pick(5, 6, 7, 9))|byte(r.Intn(16))<<4)
		if r.Chance(15) {
			h = append(h, 2)
		}
		for j := 0; j < nm && j < 6; j++ {
			h = append(h, 15)
		}
		if k >= cfg.max {
			h = append(h, 0) // the monitor has given up: the application reopens
		}
		if r.Chance(25) {
			h = append(h, 3)
		}
	}
	return h, cfg
}

func runC15Outage(r *Rng, n int) {
	for i := 0; i < n; i++ {
		h, cfg := genOutages(r)
		o, viol := runAdp(h, cfg)
		line := adpLine(h, cfg)
		Case(line, o)
		Stat("evaluations")
		Stat("monitor:" + cfg.kind)
		Stat(fmt.Sprintf("max=%d", cfg.max))
		Stat(fmt.Sprintf("outages=%d", strings.Count(o, "m=U")))
		Stat(fmt.Sprintf("healed=%d", strings.Count(o, ",S")))
		if i < 2 {
			Sample(map[string]interface{}{"line": line, "real": o})
		}
		if len(viol) > 0 {
			OracleFail("C15: "+viol[0], map[string]interface{}{"op": "adp", "line": line, "in": hx(h), "got": o, "all": viol})
		}
	}
}

func init() {
	suites["c15outage"] = runC15Outage
	suites["c15"] = runC15
	lineOps["adp"] = realAdpLine
}

// ---------- cut-anywhere family: `cut <stream hex> <k> <e|r>` ----------

// splitFrames: the whole frames of a byte stream (independent of frugal's framed transport).
func splitFrames(b []byte) (frames [][]byte) {
	for len(b) >= 4 {
		n := int(uint32(b[0])<<24 | uint32(b[1])<<16 | uint32(b[2])<<8 | uint32(b[3]))
		if n > 16384000 || len(b)-4 < n {
			return
		}
		frames = append(frames, b[4:4+n])
		b = b[4+n:]
	}
	return
}

// realCut runs the real adapter over stream[:k] followed by EOF or a read error.
// Returns the canonical output, the frames delivered, and oracle violations that need no reference.
func realCut(stream []byte, k int, eof bool, chunk int) (string, [][]byte, []string) {
	adpInstallHook()
	if k > len(stream) {
		k = len(stream)
	}
	var viol []string
	tr := newScriptT()
	ft := frugal.NewAdapterTransport(tr)
	// register a result channel for every op id that occurs in a whole frame of the stream
	chans := map[string]chan []byte{}
	var order []string
	for _, f := range splitFrames(stream) {
		h, err := frugal.VerifGetHeadersFromFrame(f)
		if err != nil {
			continue
		}
		id := h["_opid"]
		if _, err := strconv.ParseUint(id, 10, 64); err != nil {
			continue
		}
		if _, ok := chans[id]; !ok {
			ctx := frugal.NewFContext("")
			ctx.AddRequestHeader("_opid", id)
			ch := make(chan []byte, 16)
			if frugal.VerifAdapterRegister(ft, ctx, ch) == nil {
				chans[id] = ch
				order = append(order, id)
			}
		}
	}
	if err := ft.Open(); err != nil {
		return "err:open", nil, []string{"Open failed"}
	}
	closed := ft.Closed()
	var term error = errScriptedRead
	if eof {
		term = scriptedEOF()
	}
	cut := stream[:k]
	if chunk <= 0 {
		chunk = len(cut) + 1
	}
	for len(cut) > chunk {
		tr.feedWait(cut[:chunk], nil)
		cut = cut[chunk:]
	}
	tr.feed(cut, term)
	vals := []string{}
	timeout := time.After(2 * time.Second)
loop:
	for {
		select {
		case v, ok := <-closed:
			if !ok {
				break loop
			}
			if v == nil {
				vals = append(vals, "nil")
			} else {
				vals = append(vals, "err")
			}
		case <-timeout:
			viol = append(viol, "the transport did not close after the stream ended")
			break loop
		}
	}
	open := "blocked"
	if o := laGuard(adpWatch, func() { open = fmt.Sprint(ft.IsOpen()) }); o != "" {
		open = o
	}
	// frames delivered, in stream order per op id
	var got [][]byte
	n := 0
	for _, f := range splitFrames(stream) {
		h, err := frugal.VerifGetHeadersFromFrame(f)
		if err != nil {
			continue
		}
		ch := chans[h["_opid"]]
		if ch == nil {
			continue
		}
		select {
		case g := <-ch:
			got = append(got, g)
			if string(g) != string(f) {
				viol = append(viol, "a delivered frame differs from the frame sent")
			}
			n++
		default:
		}
	}
	for _, id := range order {
		select {
		case <-chans[id]:
			viol = append(viol, "a frame was delivered twice or out of order")
		default:
		}
	}
	c := "none"
	if len(vals) > 0 {
		c = vals[0]
	}
	if len(vals) != 1 {
		viol = append(viol, fmt.Sprintf("%d values on Closed() for one Open", len(vals)))
	}
	if open != "false" {
		viol = append(viol, "IsOpen="+open+" after the stream ended")
	}
	if open == "true" {
		laGuard(adpWatch, func() { ft.Close() })
	}
	return fmt.Sprintf("delivered=%d closed=%s values=%d open=%s", n, c, len(vals), open), got, viol
}

func realCutLine(args []string) (string, bool) {
	if len(args) != 3 || (args[2] != "e" && args[2] != "r") {
		return "bad-op", true
	}
	k, err := strconv.Atoi(args[1])
	if err != nil || k < 0 {
		return "bad-op", true
	}
	o, _, viol := realCut(unhx(args[0]), k, args[2] == "e", 0)
	if len(viol) > 0 {
		OracleFail("C15 cut: "+viol[0], map[string]interface{}{"op": "cut", "line": "cut " + strings.Join(args, " "), "in": args[0], "got": o, "all": viol})
	}
	return o, true
}

// runC15Cut: 1-3 well-formed frames with distinct op ids, cut at EVERY byte offset, EOF and error.
func runC15Cut(r *Rng, n int) {
	for i := 0; i < n; i++ {
		nf := 1 + r.Intn(3)
		var stream []byte
		var ends []int
		for j := 0; j < nf; j++ {
			stream = append(stream, goodFrame(uint64(1000+j), r.Pick(0, 1, 5, 40))...)
			ends = append(ends, len(stream))
		}
		chunk := r.Pick(0, 0, 1, 3, 7)
		for k := 0; k <= len(stream); k++ {
			for _, eof := range []bool{true, false} {
				mode := "r"
				if eof {
					mode = "e"
				}
				o, got, viol := realCut(stream, k, eof, chunk)
				line := fmt.Sprintf("cut %s %d %s", hx(stream), k, mode)
				Case(line, o)
				Stat("evaluations")
				Stat("cut:" + mode)
				// the property, independent of the model: frames wholly before the cut, then one close
				want := 0
				for _, e := range ends {
					if e <= k {
						want++
					}
				}
				if len(got) != want {
					viol = append(viol, fmt.Sprintf("delivered %d frames, %d lie wholly before the cut", len(got), want))
				}
				atBoundary := k == 0
				for _, e := range ends {
					atBoundary = atBoundary || e == k
				}
				Stat(fmt.Sprintf("cut-at-boundary:%v", atBoundary))
				if !eof && !strings.Contains(o, "closed=err") {
					viol = append(viol, "a read error was not published as the close cause")
				}
				if eof && atBoundary && !strings.Contains(o, "closed=nil") {
					viol = append(viol, "EOF between frames was not published as a clean close")
				}
				if len(viol) > 0 {
					OracleFail("C15 cut: "+viol[0], map[string]interface{}{"op": "cut", "line": line, "in": hx(stream), "got": o, "all": viol})
				}
			}
		}
		Stat(fmt.Sprintf("frames=%d", nf))
		Stat(fmt.Sprintf("chunk=%d", chunk))
	}
}

func init() {
	suites["c15cut"] = runC15Cut
	lineOps["cut"] = realCutLine
}
