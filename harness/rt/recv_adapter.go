package main

// C05 (a) — the adapter transport's read loop (lib/go/adapter_transport.go readLoop/readFrame over
// lib/go/framed_transport.go) as a receiver of an ARBITRARY byte stream from the peer of one connection.
//
// Real code under test: NewAdapterTransport(conn).Open() → readLoop → TFramedTransport.Read /
// readFrameHeader → registry.Execute → getHeadersFromFrame … → close(cause) → Closed().
// The connection is an in-memory thrift.TTransport whose reads are cut into chunks (`chunk` bytes at most,
// 0 = whatever is asked) and which reports the end of the stream the way thrift.TSocket does; every
// `sockEvery`-th case runs over a real loopback TCP socket (thrift.TSocket) instead.
// A second adapter transport (the bystander) is open in the same process all the time.
//
// Property oracle (independent of the model), for every stream:
//   no panic (a panic in the read loop would kill the process: the suite would not finish);
//   the transport closes within the watchdog once the peer has hung up: exactly one value on Closed(),
//   IsOpen() = false afterwards;
//   the value is nil only if every whole frame of the stream was accepted (reference split + Execute on a
//   separate registry) and no size prefix was refused — otherwise the cause is reported;
//   frames in front of the first refused one are delivered, none behind it;
//   the bystander is untouched: still open, nothing on its Closed(), and it delivers a frame sent to it
//   afterwards; a fresh transport over a fresh connection is served.
//
// Op:  arl <stream> <chunk>    output `delivered=<n> closed=<nil|err:class> values=<k> open=<bool>`

import (
	"bytes"
	"fmt"
	"net"
	"strconv"
	"strings"
	"sync"
	"time"

	frugal "github.com/Workiva/frugal/lib/go"
	"github.com/apache/thrift/lib/go/thrift"
)

const sockEvery = 8

func causeClass(err error) string {
	if err == nil {
		return "nil"
	}
	if _, isNum := err.(*strconv.NumError); isNum {
		return "err:badOpId"
	}
	return errClass(err)
}

// registerFrames registers a result channel for every op id that occurs in a whole frame of the stream
// (reference split), so that delivery can be observed.
func registerFrames(ft frugal.FTransport, stream []byte) (map[string]chan []byte, []string) {
	chans := map[string]chan []byte{}
	var order []string
	for _, f := range splitFrames(stream) {
		h, err := frugal.VerifGetHeadersFromFrame(f)
		if err != nil {
			continue
		}
		id := h["_opid"]
		if _, err := strconv.ParseUint(id, 10, 64); err != nil {
			continue
		}
		if _, ok := chans[id]; !ok {
			ctx := frugal.NewFContext("")
			ctx.AddRequestHeader("_opid", id)
			ch := make(chan []byte, 64)
			if frugal.VerifAdapterRegister(ft, ctx, ch) == nil {
				chans[id] = ch
				order = append(order, id)
			}
		}
	}
	return chans, order
}

// bystander: a second adapter transport that stays open while others receive garbage.
type bystander struct {
	tr   *scriptT
	ft   frugal.FTransport
	ch   chan []byte
	next uint64
}

var (
	byMu   sync.Mutex
	byOnce *bystander
)

func getBystander() *bystander {
	if byOnce == nil {
		b := &bystander{tr: newScriptT(), ch: make(chan []byte, 4)}
		b.ft = frugal.NewAdapterTransport(b.tr)
		ctx := frugal.NewFContext("")
		ctx.AddRequestHeader("_opid", "4242")
		frugal.VerifAdapterRegister(b.ft, ctx, b.ch)
		if err := b.ft.Open(); err != nil {
			panic("bystander: " + err.Error())
		}
		byOnce = b
	}
	return byOnce
}

// check returns "" when the bystander is open, has published nothing and delivers a frame now.
func (b *bystander) check() string {
	if !b.ft.IsOpen() {
		return "another transport of the process is no longer open"
	}
	select {
	case v, ok := <-b.ft.Closed():
		return fmt.Sprintf("another transport of the process published a close (%v, %v)", v, ok)
	default:
	}
	b.next++
	f := goodFrame(4242, int(b.next%7))
	b.tr.feed(f, nil)
	select {
	case g := <-b.ch:
		if string(g) != string(f[4:]) {
			return "another transport of the process delivered a different frame than it was sent"
		}
	case <-time.After(3 * time.Second):
		return "another transport of the process no longer delivers a well-formed frame"
	}
	return ""
}

type arlRun struct {
	out       string
	delivered int
	cause     string
	viol      []string
}

// realARL runs the real adapter transport over `stream` followed by the peer hanging up.
func realARL(stream []byte, chunk int, sock bool) arlRun {
	byMu.Lock()
	defer byMu.Unlock()
	adpInstallHook()
	by := getBystander()
	var r arlRun
	var conn thrift.TTransport
	var peerDone chan struct{}
	if sock {
		ln, err := net.Listen("tcp", "127.0.0.1:0")
		if err != nil {
			r.out = "err:listen"
			r.viol = append(r.viol, "harness: cannot listen on loopback")
			return r
		}
		defer ln.Close()
		peerDone = make(chan struct{})
		go func() {
			defer close(peerDone)
			c, err := ln.Accept()
			if err != nil {
				return
			}
			rest := stream
			for len(rest) > 0 {
				k := len(rest)
				if chunk > 0 && chunk < k {
					k = chunk
				}
				if _, err := c.Write(rest[:k]); err != nil {
					break
				}
				rest = rest[k:]
			}
			c.Close()
		}()
		conn = thrift.NewTSocketConf(ln.Addr().String(), &thrift.TConfiguration{ConnectTimeout: 2 * time.Second})
	} else {
		conn = &c05Conn{in: bytes.NewReader(exact(stream)), chunk: chunk}
	}
	ft := frugal.NewAdapterTransport(conn)
	chans, order := registerFrames(ft, stream)
	var closed <-chan error
	if o := guard(5*time.Second, func() {
		if err := ft.Open(); err != nil {
			r.viol = append(r.viol, "Open failed: "+err.Error())
			return
		}
		closed = ft.Closed()
	}); o != "" || closed == nil {
		r.out = "err:open" + o
		return r
	}
	var vals []string
	timeout := time.After(5 * time.Second)
loop:
	for {
		select {
		case v, ok := <-closed:
			if !ok {
				break loop
			}
			vals = append(vals, causeClass(v))
		case <-timeout:
			r.viol = append(r.viol, "the transport did not close after the peer hung up (read loop wedged)")
			break loop
		}
	}
	open := "blocked"
	if o := guard(3*time.Second, func() { open = fmt.Sprint(ft.IsOpen()) }); o != "" {
		open = o
	}
	// what was delivered, against the reference split
	frames := splitFrames(stream)
	firstBad := len(frames)
	ref := frugal.VerifNewRegistry()
	for i, f := range frames {
		if ref.Execute(exact(f)) != nil {
			firstBad = i
			break
		}
	}
	n := 0
	for i, f := range frames {
		h, err := frugal.VerifGetHeadersFromFrame(f)
		if err != nil {
			continue
		}
		ch := chans[h["_opid"]]
		if ch == nil {
			continue
		}
		select {
		case g := <-ch:
			n++
			if string(g) != string(f) {
				r.viol = append(r.viol, "a delivered frame differs from the frame sent")
			}
			if i > firstBad {
				r.viol = append(r.viol, "a frame behind a refused frame was delivered")
			}
		default:
			if i < firstBad {
				r.viol = append(r.viol, "a well-formed frame in front of the first refused one was not delivered")
			}
		}
	}
	for _, id := range order {
		select {
		case <-chans[id]:
			r.viol = append(r.viol, "a frame was delivered twice")
		default:
		}
	}
	c := "none"
	if len(vals) > 0 {
		c = vals[0]
	}
	if len(vals) != 1 {
		r.viol = append(r.viol, fmt.Sprintf("%d values on Closed() for one connection", len(vals)))
	}
	if open != "false" {
		r.viol = append(r.viol, "IsOpen="+open+" after the peer hung up")
		guard(3*time.Second, func() { ft.Close() })
	}
	// the cause is reported: nil only for a stream of accepted frames (plus a cut-off tail)
	consumed := 0
	for _, f := range frames {
		consumed += 4 + len(f)
	}
	refusedPrefix := false
	if rest := stream[consumed:]; len(rest) >= 4 {
		refusedPrefix = uint32(rest[0])<<24|uint32(rest[1])<<16|uint32(rest[2])<<8|uint32(rest[3]) > framedMax
	}
	if c == "nil" && (firstBad < len(frames) || refusedPrefix) {
		r.viol = append(r.viol, "the connection was closed because of what the peer sent, and no cause was reported")
	}
	if c != "nil" && c != "none" && firstBad == len(frames) && !refusedPrefix {
		r.viol = append(r.viol, "a stream of accepted frames ended with the cause "+c)
	}
	if strings.HasPrefix(c, "panic") {
		r.viol = append(r.viol, "panic")
	}
	if v := by.check(); v != "" {
		r.viol = append(r.viol, v)
		byOnce = nil // start a new one for the cases that follow
	}
	if peerDone != nil {
		select {
		case <-peerDone:
		case <-time.After(2 * time.Second):
		}
	}
	r.delivered, r.cause = n, c
	r.out = fmt.Sprintf("delivered=%d closed=%s values=%d open=%s", n, c, len(vals), open)
	return r
}

func genAdapterFrame(r *Rng) func(i int) []byte {
	return func(i int) []byte {
		m := smallHeaders(r)
		m["_opid"] = strconv.Itoa(1000 + i) // distinct ids: one result channel per frame
		p := smallPayload(r)
		return append(marshalSorted(m), p...)
	}
}

func runC05Adp(r *Rng, n int) {
	for i := 0; i < n; i++ {
		chunk := r.Pick(0, 0, 1, 2, 3, 5, 7, 64)
		stream, why := genStream(r, genAdapterFrame(r))
		sock := i%sockEvery == sockEvery-1
		run := realARL(stream, chunk, sock)
		line := fmt.Sprintf("arl %s %d", hx(stream), chunk)
		Case(line, run.out)
		Stat("arl:mutation:" + why)
		Stat("arl:closed:" + run.cause)
		Stat(fmt.Sprintf("arl:delivered=%d", run.delivered))
		Stat(fmt.Sprintf("arl:socket=%v", sock))
		if i < 3 {
			Sample(map[string]interface{}{"op": "arl", "mutation": why, "stream_len": len(stream), "chunk": chunk, "real": run.out})
		}
		if len(run.viol) > 0 {
			OracleFail("adapter read loop: "+run.viol[0], map[string]interface{}{"op": "arl", "line": line, "in": hx(stream), "mutation": why, "socket": sock, "got": run.out, "all": run.viol})
		}
		// a fresh transport over a fresh connection is served after whatever the previous ones did
		if i%16 == 0 {
			ok := realARL(framed(goodFrame(1000, 3)[4:]), 0, false)
			if ok.out != "delivered=1 closed=nil values=1 open=false" {
				OracleFail("adapter read loop: a fresh connection with one well-formed frame is not served: "+ok.out, map[string]interface{}{"op": "arl", "line": "arl " + hx(goodFrame(1000, 3)) + " 0", "got": ok.out})
			}
		}
		Stat("evaluations")
	}
}

func realARLLine(args []string) (string, bool) {
	if len(args) != 2 {
		return "bad-op", true
	}
	chunk, ok := parseChunk(args[1])
	if !ok {
		return "bad-op", true
	}
	r := realARL(unhx(args[0]), chunk, false)
	return r.out, len(r.viol) == 0
}

func init() {
	suites["c05adp"] = runC05Adp
	lineOps["arl"] = realARLLine
}
