package main

import (
	"bufio"
	"flag"
	"fmt"
	"os"
	"strings"
)

func main() {
	if len(os.Args) < 2 {
		fmt.Fprintln(os.Stderr, "usage: rt <suite> [-seed N] [-n N] [-lines file]")
		os.Exit(2)
	}
	suite := os.Args[1]
	fs := flag.NewFlagSet(suite, flag.ExitOnError)
	seed := fs.Uint64("seed", 1, "PRNG seed")
	n := fs.Int("n", 100, "number of cases")
	lines := fs.String("lines", "", "file of driver input lines to replay against the real code (corpus / replay)")
	fs.IntVar(&hugeBudget, "huge", 0, "stream reads with a declared size above 64 MiB to execute")
	fs.Parse(os.Args[2:])
	quietLogs()
	r := NewRng(*seed)
	if *lines != "" {
		replayLines(*lines)
		Finish()
		return
	}
	switch suite {
	case "c04":
		runC04(r, *n)
	case "c05pure":
		runC05Pure(r, *n)
	case "c05recv":
		runC05Recv(r, *n)
	default:
		fmt.Fprintln(os.Stderr, "unknown suite", suite)
		os.Exit(2)
	}
	Finish()
}

// replayLines: each line is a driver input line; it is executed against the real
// code and emitted as a correspondence case (and through the suite's oracle).
func replayLines(path string) {
	f, err := os.Open(path)
	if err != nil {
		fmt.Fprintln(os.Stderr, err)
		os.Exit(2)
	}
	defer f.Close()
	sc := bufio.NewScanner(f)
	sc.Buffer(make([]byte, 1<<20), 1<<28)
	for sc.Scan() {
		line := strings.TrimSpace(sc.Text())
		if line == "" || line[0] == '#' {
			continue
		}
		parts := strings.Split(line, " ")
		var o string
		switch parts[0] {
		case "hff", "ums", "umf", "exf", "exe", "ahf":
			o = replayHeaderLine(parts[0], parts[1:])
		case "pfr", "nsw":
			var fine bool
			o, fine = replayRecvLine(parts[0], parts[1:])
			if !fine && !strings.HasPrefix(o, "panic") && o != "blocked" {
				OracleFail("receiver "+parts[0]+" stopped serving", map[string]interface{}{"op": parts[0], "line": line, "got": o})
			}
		default:
			o = "bad-op"
		}
		Case(line, o)
		if (strings.HasPrefix(o, "panic") || o == "blocked") && parts[0] != "umf" {
			OracleFail("receiver "+parts[0]+" "+o+" on a received byte sequence", map[string]interface{}{"op": parts[0], "line": line, "got": o})
		}
		Stat("evaluations")
	}
}
