package main

// C05 (b) — FSimpleServer's per-connection loop (lib/go/simple_server.go `accept`) as a receiver of an
// ARBITRARY byte stream from one client connection.
//
// Real code under test: FSimpleServer.accept → TFramedTransport.Read/readFrameHeader →
// FBaseProcessor.Process → FProtocol.ReadRequestHeader → readHeader/unmarshalHeaders/readPairs, then
// Thrift's binary protocol and the hand-written per-method processor function of processor.go
// (`ping`, structure of the emitted code).
//
// Two processors:
//   * the DRAINING processor (`c05DrainProc`): reads the request header, then takes the rest of the
//     current frame off the framed transport (one frame = one request, nothing of Thrift in between).
//     Its runs are compared with the Lean model (`FV.Recv2.acceptLoop`), op `ssa`.
//   * the real FBaseProcessor with the `ping` method (oracle only, op `ssp`): frames whose tail is
//     itself a well-formed request are the interesting ones.
//
// Property oracle (independent of the model), for every stream:
//   no panic, accept returns (the stream ends with the peer's EOF);
//   if any Process call was rejected with an error other than END_OF_FILE then accept returns that
//   error — the cause is reported — and no handler runs for that connection afterwards;
//   a fresh connection is served afterwards; replies written are whole frames.
//
// Ops:  ssa <stream> <chunk>     draining processor; output `ret=<class> handled=<n> rejected=<n>`
//       ssp <stream> <chunk>     FBaseProcessor/ping; output `ret=<class> calls=<n> replies=<n> rejected=<n> late=<n>`

import (
	"bytes"
	"context"
	"fmt"
	"io"
	"strconv"
	"strings"
	"sync/atomic"
	"time"

	frugal "github.com/Workiva/frugal/lib/go"
	"github.com/apache/thrift/lib/go/thrift"
)

// c05Conn is one client connection: the server reads `in` in chunks of at most `chunk` bytes (0 = as
// much as asked) and then sees END_OF_FILE, typed the way thrift.TSocket types it.
type c05Conn struct {
	in     *bytes.Reader
	chunk  int
	out    bytes.Buffer
	closed int32
}

func (t *c05Conn) Read(p []byte) (int, error) {
	if t.chunk > 0 && len(p) > t.chunk {
		p = p[:t.chunk]
	}
	n, err := t.in.Read(p)
	return n, thrift.NewTTransportExceptionFromError(err)
}
func (t *c05Conn) Write(p []byte) (int, error)     { return t.out.Write(p) }
func (t *c05Conn) Open() error                     { return nil }
func (t *c05Conn) Close() error                    { atomic.AddInt32(&t.closed, 1); return nil }
func (t *c05Conn) IsOpen() bool                    { return atomic.LoadInt32(&t.closed) == 0 }
func (t *c05Conn) Flush(ctx context.Context) error { return nil }
func (t *c05Conn) RemainingBytes() uint64          { return ^uint64(0) }

// recProc wraps a processor and records what every Process call returned.
type recProc struct {
	inner    frugal.FProcessor
	results  []string // errClass of each call
	handled  *int64   // handler invocations so far (shared with the handler)
	rejectAt int64    // value of *handled when the first non-EOF error was returned; -1 = none
}

func (p *recProc) Process(in, out *frugal.FProtocol) error {
	err := p.inner.Process(in, out)
	c := errClass(err)
	p.results = append(p.results, c)
	if err != nil && c != "err:eof" && p.rejectAt < 0 {
		p.rejectAt = atomic.LoadInt64(p.handled)
	}
	return err
}
func (p *recProc) AddMiddleware(m frugal.ServiceMiddleware)  { p.inner.AddMiddleware(m) }
func (p *recProc) Annotations() map[string]map[string]string { return p.inner.Annotations() }
func (p *recProc) rejected() (n int) {
	for _, c := range p.results {
		if c != "ok" && c != "err:eof" {
			n++
		}
	}
	return
}

// c05DrainProc: request header, then the rest of the frame; one frame = one request.
type c05DrainProc struct{ handled *int64 }

func (d c05DrainProc) Process(in, out *frugal.FProtocol) error {
	if _, err := in.ReadRequestHeader(); err != nil {
		return err
	}
	ft := in.Transport().(*frugal.TFramedTransport)
	if n := ft.RemainingBytes(); n > 0 {
		// reads of at most what is left of the frame (io.LimitReader), nothing allocated by frame size
		if _, err := io.CopyN(io.Discard, ft, int64(n)); err != nil {
			return err
		}
	}
	atomic.AddInt64(d.handled, 1) // the "handler": runs once the whole request has been read
	return nil
}
func (c05DrainProc) AddMiddleware(frugal.ServiceMiddleware)    {}
func (c05DrainProc) Annotations() map[string]map[string]string { return nil }

// c05PingProc: FBaseProcessor with the hand-written `ping` processor function of processor.go and a
// counting handler.
type c05PingHandler struct{ handled *int64 }

func (h c05PingHandler) Ping(fctx frugal.FContext, s string) (string, error) {
	atomic.AddInt64(h.handled, 1)
	return "pong:" + s, nil
}

func newC05PingProc(handled *int64) *frugal.FBaseProcessor {
	p := frugal.NewFBaseProcessor()
	h := c05PingHandler{handled}
	p.AddToProcessorMap("ping", &c14FPing{frugal.NewFBaseProcessorFunction(p.GetWriteMutex(), frugal.NewMethod(h, h.Ping, "Ping", nil))})
	return p
}

// pingRequest is one well-formed request (without the frame size).
func pingRequest(opid uint64, arg string) []byte {
	buf := frugal.NewTMemoryOutputBuffer(0)
	prot := binFactory.GetProtocol(buf)
	fctx := frugal.NewFContext("c")
	fctx.AddRequestHeader("_opid", strconv.FormatUint(opid, 10))
	prot.WriteRequestHeader(fctx)
	prot.WriteMessageBegin(c14Bg, "ping", thrift.CALL, 0)
	prot.WriteStructBegin(c14Bg, "ping_args")
	prot.WriteFieldBegin(c14Bg, "s", thrift.STRING, 1)
	prot.WriteString(c14Bg, arg)
	prot.WriteFieldEnd(c14Bg)
	prot.WriteFieldStop(c14Bg)
	prot.WriteStructEnd(c14Bg)
	prot.WriteMessageEnd(c14Bg)
	prot.Flush(c14Bg)
	return append([]byte{}, buf.Bytes()[4:]...)
}

func framed(b []byte) []byte { return append(be32(uint32(len(b))), b...) }

// wholeFrames: number of size-prefixed frames `out` consists of; -1 when it is not a sequence of whole frames.
func wholeFrames(out []byte) int {
	n := 0
	for len(out) > 0 {
		if len(out) < 4 {
			return -1
		}
		sz := int(uint32(out[0])<<24 | uint32(out[1])<<16 | uint32(out[2])<<8 | uint32(out[3]))
		if sz > len(out)-4 {
			return -1
		}
		out = out[4+sz:]
		n++
	}
	return n
}

type ssaRun struct {
	ret      string
	handled  int64
	rejected int
	late     int64 // handler invocations after the first rejected Process call
	replies  int
	results  []string
}

func realAccept(stream []byte, chunk int, ping bool) ssaRun {
	var handled int64
	var inner frugal.FProcessor
	if ping {
		inner = newC05PingProc(&handled)
	} else {
		inner = c05DrainProc{&handled}
	}
	proc := &recProc{inner: inner, handled: &handled, rejectAt: -1}
	conn := &c05Conn{in: bytes.NewReader(exact(stream)), chunk: chunk}
	var err error
	o := guard(20*time.Second, func() { err = frugal.VerifSimpleServerAccept(proc, binFactory, conn) })
	r := ssaRun{ret: errClass(err), handled: atomic.LoadInt64(&handled), rejected: proc.rejected(), results: proc.results}
	if o != "" {
		r.ret = o
		return r
	}
	if proc.rejectAt >= 0 {
		r.late = r.handled - proc.rejectAt
	}
	r.replies = wholeFrames(conn.out.Bytes())
	return r
}

// ssaOracle evaluates the property on one run; "" = holds.
func ssaOracle(r ssaRun) string {
	switch {
	case strings.HasPrefix(r.ret, "panic"):
		return "FSimpleServer.accept " + r.ret + " on a received byte stream"
	case r.ret == "blocked":
		return "FSimpleServer.accept did not return after the peer's stream ended"
	case r.replies < 0:
		return "the replies written are not a sequence of whole frames"
	case r.rejected > 0 && r.ret == "ok":
		return "a request was rejected with an error that accept neither returned nor logged (cause never reported)"
	case r.late > 0:
		return "a handler ran on the connection after a frame of it had been rejected"
	case r.rejected > 1:
		return "the loop went on calling Process after a rejected frame"
	}
	return ""
}

func (r ssaRun) show(ping bool) string {
	if r.ret == "blocked" || strings.HasPrefix(r.ret, "panic") {
		return r.ret
	}
	if ping {
		return fmt.Sprintf("ret=%s calls=%d replies=%d rejected=%d late=%d", r.ret, r.handled, r.replies, r.rejected, r.late)
	}
	return fmt.Sprintf("ret=%s handled=%d rejected=%d", r.ret, r.handled, r.rejected)
}

func parseChunk(s string) (int, bool) {
	k, err := strconv.Atoi(s)
	return k, err == nil && k >= 0
}

func realSSALine(ping bool) func(args []string) (string, bool) {
	return func(args []string) (string, bool) {
		if len(args) != 2 {
			return "bad-op", true
		}
		chunk, ok := parseChunk(args[1])
		if !ok {
			return "bad-op", true
		}
		r := realAccept(unhx(args[0]), chunk, ping)
		if ping { // oracle only: what Thrift's readers make of the bytes is not modelled
			if v := ssaOracle(r); v != "" {
				return r.show(true), false
			}
			return "held", true
		}
		return r.show(ping), ssaOracle(r) == ""
	}
}

func init() {
	lineOps["ssa"] = realSSALine(false)
	lineOps["ssp"] = realSSALine(true)
}

// ---------- suite ----------

func genPingFrame(r *Rng, base int) func(i int) []byte {
	return func(i int) []byte { return pingRequest(uint64(base+i), string(r.Bytes(r.Intn(6)))) }
}

func genDrainFrame(r *Rng) func(i int) []byte {
	return func(i int) []byte {
		m := smallHeaders(r)
		m["_opid"] = strconv.Itoa(1 + r.Intn(1<<20))
		p := smallPayload(r)
		return append(marshalSorted(m), p...)
	}
}

func runC05Srv(r *Rng, n int) {
	for i := 0; i < n; i++ {
		chunk := r.Pick(0, 0, 1, 2, 3, 5, 7, 64)
		// draining processor: compared with the model
		stream, why := genStream(r, genDrainFrame(r))
		stream = tameAlloc(stream)
		run := realAccept(stream, chunk, false)
		line := fmt.Sprintf("ssa %s %d", hx(stream), chunk)
		Case(line, run.show(false))
		Stat("ssa:mutation:" + why)
		Stat("ssa:ret:" + run.ret)
		if v := ssaOracle(run); v != "" {
			OracleFail(v, map[string]interface{}{"op": "ssa", "line": line, "in": hx(stream), "mutation": why, "got": run.show(false), "process_results": run.results})
		}
		// the real FBaseProcessor with a method: oracle only (Thrift's readers are environment)
		stream, why = genStream(r, genPingFrame(r, 100*i))
		stream = tameAlloc(stream)
		run = realAccept(stream, chunk, true)
		line = fmt.Sprintf("ssp %s %d", hx(stream), chunk)
		Stat("ssp:mutation:" + why)
		Stat("ssp:ret:" + run.ret)
		Stat(fmt.Sprintf("ssp:calls=%d", run.handled))
		if i < 3 {
			Sample(map[string]interface{}{"op": "ssp", "mutation": why, "stream_len": len(stream), "real": run.show(true)})
		}
		if v := ssaOracle(run); v != "" {
			OracleFail(v, map[string]interface{}{"op": "ssp", "line": line, "in": hx(stream), "mutation": why, "got": run.show(true), "process_results": run.results})
		}
		// a fresh connection is served after whatever the previous ones did
		if i%16 == 0 {
			ok := realAccept(framed(pingRequest(7, "x")), 0, true)
			if ok.ret != "ok" || ok.handled != 1 || ok.replies != 1 {
				OracleFail("a fresh connection with one well-formed request is not served: "+ok.show(true), map[string]interface{}{"op": "ssp", "line": "ssp " + hx(framed(pingRequest(7, "x"))) + " 0", "got": ok.show(true)})
			}
		}
		Stat("evaluations")
	}
}

func init() { suites["c05srv"] = runC05Srv }
