package main

// C12: the HTTP handler's reading of the client-requested response limit.
//   c12hdr <hex of the raw x-frugal-payload-limit value, - = absent> <n = unframed reply size>
// The real NewFrugalHandlerFunc is called directly (net/http/httptest recorder: no wire, so the header
// value reaches the handler exactly as written) with a real processor answering with SendReply.
// Output `status=<code>`. Oracle (what the handler documents): no header / empty -> no limit; a decimal
// integer n > 0 -> 413 iff the reply is larger than n, else 200; an integer <= 0 -> no limit; anything
// that is not a decimal integer (spaces, hex, "+", empty sign, …) -> 400.
// Model: FV.handlerStatus (strconv.ParseInt(s, 10, 64) made explicit as FV.parseInt64).

import (
	"encoding/base64"
	"fmt"
	"math/big"
	"net/http/httptest"
	"os"
	"regexp"
	"strings"
	"time"

	frugal "github.com/Workiva/frugal/lib/go"
	"github.com/apache/thrift/lib/go/thrift"
)

// c12HandlerRun: one request through the handler with the raw header value; the result is a
// struct with one string of k bytes. Returns the status and the unframed reply size.
func c12HandlerRun(hdr string, present bool, k int) (status, n int, outcome string) {
	pf := frugal.NewFProtocolFactory(c12ProtoFactory("binary"))
	srv := &c12Server{result: &c12Shape{fields: []c12Field{{"string", k}}}, pf: pf}
	proc := frugal.NewFBaseProcessor()
	srv.base = frugal.NewFBaseProcessorFunction(proc.GetWriteMutex(), nil)
	proc.AddToProcessorMap("m", srv)
	h := frugal.NewFrugalHandlerFunc(proc, pf)
	frame := c12Frame(pf, c12Ctx(0), 0, thrift.CALL)
	body := base64.StdEncoding.EncodeToString(frame)
	req := httptest.NewRequest("POST", "/frugal", strings.NewReader(body))
	req.Header.Set("Content-Type", "application/x-frugal")
	if present {
		req.Header["X-Frugal-Payload-Limit"] = []string{hdr}
	}
	rec := httptest.NewRecorder()
	outcome = guard(20*time.Second, func() { h(rec, req) })
	srv.mu.Lock()
	n = c12Sum(srv.repOps)
	srv.mu.Unlock()
	return rec.Code, n, outcome
}

var c12IntRe = regexp.MustCompile(`^[+-]?[0-9]+$`)

// c12HdrWant: the documented status for a header value and a reply of n bytes.
func c12HdrWant(hdr string, present bool, n int) (want int, aboveInt64 bool) {
	if !present || hdr == "" {
		return 200, false
	}
	if !c12IntRe.MatchString(hdr) {
		return 400, false
	}
	v, _ := new(big.Int).SetString(strings.TrimPrefix(hdr, "+"), 10)
	lo, hi := new(big.Int).Lsh(big.NewInt(-1), 63), new(big.Int).Sub(new(big.Int).Lsh(big.NewInt(1), 63), big.NewInt(1))
	above := v.Cmp(lo) < 0 || v.Cmp(hi) > 0
	if v.Sign() > 0 && v.Cmp(big.NewInt(int64(n))) < 0 {
		return 413, above
	}
	return 200, above
}

func c12HdrJudge(hdr string, present bool, k int) (line, real, bad string, above bool) {
	status, n, o := c12HandlerRun(hdr, present, k)
	arg := "-"
	if present && hdr != "" {
		arg = fmt.Sprintf("%x", hdr)
	}
	line = fmt.Sprintf("c12hdr %s %d", arg, n)
	if o != "" {
		return line, o, "handler " + o, false
	}
	real = fmt.Sprintf("status=%d", status)
	want, above := c12HdrWant(hdr, present, n)
	if status != want {
		bad = fmt.Sprintf("x-frugal-payload-limit %q, reply of %d bytes: the handler answers %d, documented %d", hdr, n, status, want)
	}
	return line, real, bad, above
}

func c12GenHdr(r *Rng, n int) string {
	switch r.Intn(10) {
	case 0:
		return r.PickS("+5", "-1", " 5", "5 ", "0x10", "5_0", "+", "-", "--5", "5.0", "1e3", "five", "\t7", "0", "-0", "+0", "00012", "٥")
	case 1:
		return r.PickS("9223372036854775807", "-9223372036854775808", "+9223372036854775807", "4294967295", "4294967296", "2147483647", "2147483648", "2147483649", "1099511627776", "32768", "65536")
	case 2: // integers the handler's int64 cannot hold (known finding class limit-above-int64)
		return r.PickS("9223372036854775808", "18446744073709551615", "-9223372036854775809", strings.Repeat("9", 30), "1"+strings.Repeat("0", 40))
	case 3:
		return fmt.Sprint(c12LimitValues[r.Intn(len(c12LimitValues))])
	case 4:
		return "+" + fmt.Sprint(n-1+r.Intn(3))
	default:
		return fmt.Sprint(n - 8 + r.Intn(17))
	}
}

func c12HdrCase(r *Rng, i int) {
	k := r.Pick(0, 5, 40, 200, 1000)
	_, n0, _ := c12HandlerRun("", false, k) // the size of this reply
	present := !r.Chance(8)
	hdr := c12GenHdr(r, n0)
	if _, above := c12HdrWant(hdr, present, n0); above && os.Getenv("VERIF_C12_NOEXCL") == "" {
		hdr = "9223372036854775807"
		Stat("hdr:excluded-known-class(limit-above-int64)")
	}
	line, real, bad, _ := c12HdrJudge(hdr, present, k)
	Case(line, real)
	Stat("hdr:" + real)
	cls := "integer"
	if !present {
		cls = "absent"
	} else if hdr == "" {
		cls = "empty"
	} else if !c12IntRe.MatchString(hdr) {
		cls = "not-an-integer"
	} else if strings.HasPrefix(hdr, "-") || strings.Trim(hdr, "+0") == "" {
		cls = "integer<=0"
	}
	Stat("hdr:value:" + cls)
	if i < 60 {
		Sample(map[string]interface{}{"op": "c12hdr", "header": hdr, "present": present, "reply_bytes": n0, "real": real})
	}
	if bad != "" {
		OracleFail("HTTP handler: the client-requested response limit is not read as documented", map[string]interface{}{"op": "c12hdr", "line": line, "got": real, "why": bad})
	}
}

func init() {
	lineOps["c12hdr"] = func(a []string) (string, bool) {
		if len(a) != 2 {
			return "bad-op", true
		}
		hdr, present := "", a[0] != "-"
		if present {
			hdr = string(unhx(a[0]))
		}
		n := int(c12ParseLimit(a[1]))
		if n > 1<<22 {
			return "bad-op", true
		}
		// a result whose reply has n bytes: measure the overhead with k = n
		_, n0, _ := c12HandlerRun("", false, n)
		k := n - (n0 - n)
		if k < 0 {
			k = 0
		}
		_, real, bad, above := c12HdrJudge(hdr, present, k)
		if above && bad != "" {
			return real, true // known finding limit-above-int64 (reported by its witness)
		}
		return real, bad == ""
	}
}
