package main

import (
	"bytes"
	"encoding/base64"
	"fmt"
	"io"
	"net/http"
	"net/http/httptest"
	"strconv"
	"strings"
	"time"

	frugal "github.com/Workiva/frugal/lib/go"
)

// ---------- C05: the HTTP server request path and the HTTP client response path ----------

// realHTP hands a request body to the handler returned by NewFrugalHandlerFunc (directly, without
// net/http's own recover) and returns the status code.
func realHTP(body []byte) string {
	h := frugal.NewFrugalHandlerFunc(hdrOnlyProcessor{}, binFactory)
	status := 0
	if o := guard(10*time.Second, func() {
		req := httptest.NewRequest("POST", "/frugal", bytes.NewReader(body))
		rec := httptest.NewRecorder()
		h(rec, req)
		status = rec.Code
	}); o != "" {
		return o
	}
	return "status=" + strconv.Itoa(status)
}

// clientResponse lets the real FHTTPTransport process an arbitrary response body.
func clientResponse(status int, body []byte) string {
	srv := httptest.NewServer(http.HandlerFunc(func(w http.ResponseWriter, r *http.Request) {
		io.Copy(io.Discard, r.Body)
		w.WriteHeader(status)
		w.Write(body)
	}))
	defer srv.Close()
	tr := frugal.NewFHTTPTransportBuilder(&http.Client{}, srv.URL).Build()
	tr.Open()
	ctx := frugal.NewFContext("")
	ctx.SetTimeout(2 * time.Second)
	var err error
	if o := guard(10*time.Second, func() { _, err = tr.Request(ctx, []byte{0, 0, 0, 1, 0}) }); o != "" {
		return o
	}
	return errClass(err)
}

func runC05HTTP(r *Rng, n int) {
	for i := 0; i < n; i++ {
		// server side: valid base64 of (possibly malformed) frames — compared with the model
		var frame []byte
		why := "random"
		if r.Chance(25) {
			frame = r.Bytes(r.Intn(24))
		} else {
			m := genHeaders(r, true)
			if r.Chance(80) {
				m["_opid"] = strconv.Itoa(r.Intn(1 << 20))
			}
			frame = frameOf(frugal.VerifMarshalHeaders(m), genPayload(r))
			if r.Chance(70) {
				frame, why = mutate(r, frame, sizeFieldOffsets(frame))
			} else {
				why = "valid"
			}
		}
		if len(frame) >= 9 && frame[4] == 0 {
			if sz := int32(uint32(frame[5])<<24 | uint32(frame[6])<<16 | uint32(frame[7])<<8 | uint32(frame[8])); sz > 1<<24 {
				frame[5] = 0
			}
		}
		body := []byte(base64.StdEncoding.EncodeToString(frame))
		o := realHTP(body)
		Case("htp "+hx(frame), o)
		Stat("mutation:" + why)
		Stat("outcome:htp:" + o)
		if strings.HasPrefix(o, "panic") || o == "blocked" {
			OracleFail("HTTP server handler "+o+" on a received request body", map[string]interface{}{"op": "htp", "in": hx(frame), "got": o})
		}
		// server side: bodies that are not base64 at all (oracle only: rejected, never a panic)
		if i%3 == 0 {
			raw := r.Bytes(r.Intn(40))
			o := realHTP(raw)
			Stat("outcome:htpraw:" + o)
			if strings.HasPrefix(o, "panic") || o == "blocked" || o == "status=200" && len(raw) < 4 {
				OracleFail("HTTP server handler "+o+" on a non-base64 request body", map[string]interface{}{"op": "htpraw", "body": hx(raw), "got": o})
			}
		}
		// client side: arbitrary response bodies (oracle only: an error, never a panic or a hang)
		if i%5 == 0 {
			var resp []byte
			switch r.Intn(4) {
			case 0:
				resp = r.Bytes(r.Intn(30))
			case 1:
				resp = []byte(base64.StdEncoding.EncodeToString(r.Bytes(r.Intn(12))))
			case 2:
				fr := frameOf(frugal.VerifMarshalHeaders(map[string]string{"_opid": "1"}), genPayload(r))
				fr, _ = mutate(r, fr, sizeFieldOffsets(fr))
				resp = []byte(base64.StdEncoding.EncodeToString(fr))
			default:
				resp = []byte{}
			}
			status := r.Pick(200, 200, 200, 400, 413, 500)
			o := clientResponse(status, resp)
			Stat("outcome:httpclient:" + o)
			if strings.HasPrefix(o, "panic") || o == "blocked" {
				OracleFail("HTTP client transport "+o+" on a received response", map[string]interface{}{"op": "httpclient", "status": status, "body": hx(resp), "got": o})
			}
		}
		Stat("evaluations")
	}
	// keeps serving: after all of the above a well-formed request is still answered 200
	valid := frameOf(frugal.VerifMarshalHeaders(map[string]string{"_opid": "7"}), []byte{1})
	if o := realHTP([]byte(base64.StdEncoding.EncodeToString(valid))); o != "status=200" {
		OracleFail("HTTP server handler does not serve a well-formed request after malformed ones: "+o, map[string]interface{}{"op": "htp", "in": hx(valid), "got": o})
	}
}

func init() {
	suites["c05http"] = runC05HTTP
	lineOps["htp"] = func(args []string) (string, bool) {
		o := realHTP([]byte(base64.StdEncoding.EncodeToString(unhx(args[0]))))
		return o, !(strings.HasPrefix(o, "panic") || o == "blocked")
	}
	_ = fmt.Sprint
}
