package main

// C14, second part: what becomes of the reply on the OUTPUT side.
//
//   bounded  the processor's output protocol is over frugal.NewTMemoryOutputBuffer(limit) (the NATS
//            server's shape) with limits around the size of the request's normal reply: a REPLY
//            that does not fit must be replaced by exactly one RESPONSE_TOO_LARGE exception
//   fault    the output transport of some requests fails at its k-th Write or at Flush (the peer
//            is gone); the SAME processor must go on answering the following requests, which
//            come with fresh healthy transports — each Process call runs under a watchdog
//
// plus a fourth method of the hand-written service, `binary blob()`, whose result is written
// with WriteBinary (transport Write) where ping's string result goes through WriteString.

import (
	"bytes"
	"context"
	"errors"
	"fmt"
	"strconv"
	"strings"

	frugal "github.com/Workiva/frugal/lib/go"
	"github.com/apache/thrift/lib/go/thrift"
)

type c14BlobResult struct{ Success []byte }

func (p *c14BlobResult) Read(ctx context.Context, iprot thrift.TProtocol) error {
	return errors.New("not used by the server")
}

func (p *c14BlobResult) Write(ctx context.Context, oprot thrift.TProtocol) error {
	if err := oprot.WriteStructBegin(ctx, "blob_result"); err != nil {
		return err
	}
	if p.Success != nil {
		if err := oprot.WriteFieldBegin(ctx, "success", thrift.STRING, 0); err != nil {
			return err
		}
		if err := oprot.WriteBinary(ctx, p.Success); err != nil {
			return err
		}
		if err := oprot.WriteFieldEnd(ctx); err != nil {
			return err
		}
	}
	if err := oprot.WriteFieldStop(ctx); err != nil {
		return err
	}
	return oprot.WriteStructEnd(ctx)
}

func (c14Handler) Blob(fctx frugal.FContext) ([]byte, error) {
	s, err := c14Scripted(fctx)
	return []byte(s), err
}

type c14FBlob struct{ *frugal.FBaseProcessorFunction }

func (p *c14FBlob) Process(fctx frugal.FContext, iprot, oprot *frugal.FProtocol) error {
	ctx, cancelFn := frugal.ToContext(fctx)
	defer cancelFn()

	args := c14NopArgs{}
	err := args.Read(ctx, iprot)
	iprot.ReadMessageEnd(ctx)
	if err != nil {
		return p.SendError(fctx, oprot, frugal.APPLICATION_EXCEPTION_PROTOCOL_ERROR, "blob", err.Error())
	}
	result := c14BlobResult{}
	ret := p.InvokeMethod([]interface{}{fctx})
	if len(ret) != 2 {
		panic(fmt.Sprintf("Middleware returned %d arguments, expected 2", len(ret)))
	}
	if ret[1] != nil {
		err = ret[1].(error)
	}
	if err != nil {
		if typedError, ok := err.(thrift.TApplicationException); ok {
			p.SendError(fctx, oprot, typedError.TypeId(), "blob", typedError.Error())
			return nil
		}
		return p.SendError(fctx, oprot, frugal.APPLICATION_EXCEPTION_INTERNAL_ERROR, "blob", "Internal error processing blob: "+err.Error())
	} else {
		var retval []byte = ret[0].([]byte)
		result.Success = retval
	}
	return p.SendReply(fctx, oprot, "blob", &result)
}

// c14FaultTransport is an output transport whose peer goes away: the failAt-th Write
// (0-based) or the Flush returns an error. It also serves as the counting transport of the
// dry run (failAt < 0, failFlush false).
type c14FaultTransport struct {
	buf       bytes.Buffer
	writes    int
	failAt    int
	failFlush bool
	triggered bool
}

var errC14PeerGone = thrift.NewTTransportException(thrift.NOT_OPEN, "peer is gone")

func (t *c14FaultTransport) Write(p []byte) (int, error) {
	if t.failAt >= 0 && t.writes >= t.failAt {
		t.triggered = true
		return 0, errC14PeerGone
	}
	t.writes++
	return t.buf.Write(p)
}
func (t *c14FaultTransport) Flush(ctx context.Context) error {
	if t.failFlush || t.triggered {
		t.triggered = true
		return errC14PeerGone
	}
	return nil
}
func (t *c14FaultTransport) Read(p []byte) (int, error) { return 0, errors.New("write-only") }
func (t *c14FaultTransport) Open() error                { return nil }
func (t *c14FaultTransport) Close() error               { return nil }
func (t *c14FaultTransport) IsOpen() bool               { return true }
func (t *c14FaultTransport) RemainingBytes() uint64     { return 0 }

// c14Measure: size in bytes and number of Write calls of the request's reply on a healthy,
// unbounded output (fresh processor).
func c14Measure(proto string, q *c14Req) (size, writes int) {
	pf := frugal.NewFProtocolFactory(c14Factories[proto])
	out := &c14FaultTransport{failAt: -1}
	in := &thrift.TMemoryBuffer{Buffer: bytes.NewBuffer(c14Bytes(proto, q))}
	newC14Processor().Process(pf.GetProtocol(in), pf.GetProtocol(out))
	return out.buf.Len(), out.writes
}

// c14OutKind: "", "L" (bounded; limit, fits), "W" (k-th write fails), "FL".
func c14OutKind(q *c14Req) (kind string, n int, fits bool) {
	switch {
	case q.out == "" || q.out == "-":
		return "", 0, true
	case q.out == "FL":
		return "FL", 0, true
	case strings.HasPrefix(q.out, "P"):
		return "P", 0, true
	case strings.HasPrefix(q.out, "W"):
		k, _ := strconv.Atoi(q.out[1:])
		return "W", k, true
	case strings.HasPrefix(q.out, "L"):
		f := strings.Split(q.out[1:], ":")
		l, _ := strconv.Atoi(f[0])
		return "L", l, len(f) == 2 && f[1] == "1"
	}
	return "?", 0, true
}

func c14ValidOut(s string) bool {
	if s == "-" || s == "FL" {
		return true
	}
	if s == "Ph" || s == "Pb" || s == "Pa" || s == "Pr" {
		return true
	}
	if strings.HasPrefix(s, "Pw") {
		_, err := strconv.Atoi(s[2:])
		return err == nil
	}
	if strings.HasPrefix(s, "W") {
		_, err := strconv.Atoi(s[1:])
		return err == nil
	}
	if strings.HasPrefix(s, "L") {
		f := strings.Split(s[1:], ":")
		if len(f) != 2 || (f[1] != "0" && f[1] != "1") {
			return false
		}
		_, err := strconv.Atoi(f[0])
		return err == nil
	}
	return false
}

// c14GenOut decorates a generated request for the bounded / fault modes: big pieces in the
// reply (large first = correlation id header, middle = message of the declared exception,
// last = string / binary result), then the output condition.
func c14GenOut(r *Rng, proto, mode string, q *c14Req, first bool) string {
	h, ok := c14Headers(q)
	if !ok || !c14HeaderOK(q) || q.env != "1" {
		return "out:none"
	}
	_, known := c14Known[q.method]
	if (mode == "fault" || mode == "hsrv") && known && strings.HasPrefix(q.args, "ok") && r.Chance(30) {
		// a PANIC where user-supplied code runs inside the request path
		pos := r.PickS("h", "b", "a", "r", "w", "w", "w")
		switch {
		case pos == "r" && (q.method == "ping" || q.method == "fire"):
			q.args = "okp"
		case pos == "w" && q.method == "ping":
			pos = "w" + strconv.Itoa(r.Intn(4))
			q.outcome = "s:" + hx([]byte("unserialisable"))
			h["x-out"] = q.outcome
		case pos == "r" || pos == "w":
			pos = "h"
		}
		h["x-panic"] = pos
		q.hdrBlock = frugal.VerifMarshalHeaders(h)
		q.out = "P" + pos
		return "out:panic-" + pos[:1]
	}
	if mode == "hsrv" {
		return "out:healthy"
	}
	big := r.Pick(0, 0, 40, 300, 5000, 20000)
	where := "none"
	pick := r.Intn(4)
	if mode == "bounded" && (q.method == "ping" || q.method == "blob") && strings.HasPrefix(q.args, "ok") && r.Chance(70) {
		// a REPLY big enough that a limit can lie between it and the RESPONSE_TOO_LARGE exception
		big = r.Pick(300, 1000, 5000, 20000)
		pick = r.Pick(1, 2, 2)
		if q.method == "blob" {
			pick = 2
		}
	}
	if big > 0 {
		switch pick {
		case 0:
			h["_cid"] = strings.Repeat("c", big)
			where = "first"
		case 1:
			if q.method == "ping" {
				q.outcome = "d:1"
				h["x-big"] = strconv.Itoa(big)
				where = "middle"
			}
		case 2:
			if q.method == "ping" || q.method == "blob" {
				q.outcome = "s:" + hx(r.Bytes(big))
				where = "last"
			}
		case 3:
			if !known && big <= 5000 {
				q.method = strings.Repeat("u", big) // the unknown-method message echoes the name twice
				where = "name"
			}
		}
	}
	h["x-out"] = q.outcome
	q.hdrBlock = frugal.VerifMarshalHeaders(h)
	Stat("out:big-" + where)
	size, writes := c14Measure(proto, q)
	if size == 0 {
		return "out:none" // nothing is written for this request (oneway)
	}
	want, kind, _, _, _ := c14Expect(q)
	if mode == "fault" {
		if !(first && !known) && r.Chance(40) {
			return "out:healthy"
		}
		if r.Chance(20) {
			q.out = "FL"
			return "out:flush-fails"
		}
		q.out = "W" + strconv.Itoa(r.Intn(writes))
		return "out:write-fails"
	}
	// bounded: the buffer holds a 4-byte frame-size placeholder, then the reply
	limit := 4 + size + r.Pick(-1, -1, -1, 0, 0, 1, -size/2, -size/3, -size+1, 100, -7, -2)
	if known {
		resp := map[string]string{"_opid": h["_opid"]}
		if h["_cid"] != "" {
			resp["_cid"] = h["_cid"]
		}
		floor := 4 + len(frugal.VerifMarshalHeaders(resp)) + len(q.method) + 160 // RESPONSE_TOO_LARGE must fit
		if limit < floor {
			limit = floor
		}
		if (want == 1 && kind == "E") || want == -1 {
			if limit < 4+size { // exceptions are written without looking at errors: keep them within the limit
				limit = 4 + size
			}
		}
	}
	if limit < 5 {
		limit = 5
	}
	fit := "0"
	if 4+size <= limit {
		fit = "1"
	}
	q.out = fmt.Sprintf("L%d:%s", limit, fit)
	if fit == "1" {
		if limit == 4+size {
			return "out:bounded-fits-exactly"
		}
		return "out:bounded-fits"
	}
	if known {
		return "out:bounded-too-small"
	}
	return "out:bounded-too-small-unknown-method"
}
