package main

// C14, third part: between the socket and Process.
//
//   suite c14srv   the REAL FSimpleServer.Serve() on a real loopback listener
//                  (thrift.NewTServerSocket 127.0.0.1:0), raw TCP clients:
//                  N connections (1..16) opened in a burst before / while / after Serve starts,
//                  GOMAXPROCS default or 1; on each connection k requests (1..8) PIPELINED without
//                  waiting, frame sizes drawn so that size prefixes land on every offset around the
//                  4096-byte refill boundary of the server's bufio.Reader (plus small, > 4096 and
//                  > 8192 frames), written in one syscall, with a cut inside every prefix, or
//                  byte by byte; the last request of a connection is sent after the replies of the
//                  others were read (the connection must still be usable). Request kinds as in the
//                  in-process modes (unknown methods, missing required argument, every handler outcome).
//                  Oracle: every connection receives exactly its own replies (op id, payload echo,
//                  kind/type per the table), one whole reply per frame, in order, none missing within
//                  the watchdog, nothing else.
//                  op  srv - <proto> <gomaxprocs> <timing> <split> <conn>;<conn>;…
//   op frm         frugal.TFramedTransport's reading side over a transport that hands out the byte
//                  stream in the given chunks:  frm <maxLen> <chunk hex>,<chunk hex>,…

import (
	"context"
	"fmt"
	"io"
	"net"
	"runtime"
	"strconv"
	"strings"
	"sync"
	"time"

	frugal "github.com/Workiva/frugal/lib/go"
	"github.com/apache/thrift/lib/go/thrift"
)

const c14SrvWatchdog = 2 * time.Second

// ---------- the socket scenario ----------

type c14ConnResult struct {
	stream   []byte // bodies of the reply frames, concatenated
	frames   int
	problem  string // "" or what went wrong on this connection
	oneEach  bool   // every reply frame held exactly one whole reply
	leftover bool   // bytes arrived after the last expected reply
}

// c14WireOf renders the requests as size-prefixed frames and returns the offsets of the prefixes.
func c14WireOf(proto string, reqs []*c14Req) (wire []byte, prefixAt []int) {
	for _, q := range reqs {
		b := c14Bytes(proto, q)
		prefixAt = append(prefixAt, len(wire))
		wire = append(append(wire, be32(uint32(len(b)))...), b...)
	}
	return
}

func c14WriteSplit(c net.Conn, wire []byte, prefixAt []int, split string) error {
	switch split {
	case "pfx": // a cut inside every size prefix, the server gets time to read what is there
		at := 0
		for i, p := range prefixAt {
			cut := p + 1 + i%3
			if _, err := c.Write(wire[at:cut]); err != nil {
				return err
			}
			time.Sleep(400 * time.Microsecond)
			at = cut
		}
		_, err := c.Write(wire[at:])
		return err
	case "dribble":
		if len(wire) <= 1500 {
			for i := range wire {
				if _, err := c.Write(wire[i : i+1]); err != nil {
					return err
				}
				if i%16 == 15 {
					time.Sleep(50 * time.Microsecond)
				} else {
					runtime.Gosched()
				}
			}
			return nil
		}
		return c14WriteSplit(c, wire, prefixAt, "pfx")
	case "half":
		h := len(wire) / 2
		if _, err := c.Write(wire[:h]); err != nil {
			return err
		}
		time.Sleep(200 * time.Microsecond)
		_, err := c.Write(wire[h:])
		return err
	}
	_, err := c.Write(wire) // "one": one syscall
	return err
}

func c14ExpectedReplies(reqs []*c14Req) int {
	n := 0
	for _, q := range reqs {
		if c, _, _, _, _ := c14Expect(q); c > 0 {
			n += c
		}
	}
	return n
}

// c14ReadReplies reads `want` reply frames from the socket.
func c14ReadReplies(proto string, c net.Conn, want int, res *c14ConnResult) {
	for i := 0; i < want; i++ {
		c.SetReadDeadline(time.Now().Add(c14SrvWatchdog))
		var pre [4]byte
		if _, err := io.ReadFull(c, pre[:]); err != nil {
			res.problem = fmt.Sprintf("reply %d of the connection did not arrive within the watchdog (%v)", res.frames, errKind(err))
			return
		}
		n := int(uint32(pre[0])<<24 | uint32(pre[1])<<16 | uint32(pre[2])<<8 | uint32(pre[3]))
		if n > 1<<26 {
			res.problem = "reply frame with an absurd size prefix"
			return
		}
		body := make([]byte, n)
		if _, err := io.ReadFull(c, body); err != nil {
			res.problem = fmt.Sprintf("reply frame %d is cut short (%v)", res.frames, errKind(err))
			return
		}
		if one, err := c14ParseStream(proto, body); err != nil || len(one) != 1 {
			res.oneEach = false
		}
		res.stream = append(res.stream, body...)
		res.frames++
	}
}

func errKind(err error) string {
	if ne, ok := err.(net.Error); ok && ne.Timeout() {
		return "timeout"
	}
	if err == io.EOF || err == io.ErrUnexpectedEOF {
		return "connection closed"
	}
	return "read error"
}

// c14ServeCase runs the scenario and returns the canonical real output (one part per connection)
// and the oracle's verdict ("" = the property held).
func c14ServeCase(proto string, gmp int, timing, split string, conns [][]*c14Req) (string, string) {
	real, verdict, _ := c14ServeCaseRetry(proto, gmp, timing, split, conns)
	return real, verdict
}

// c14ServeCaseRetry: a reply that missed the watchdog must miss it twice to count (the machine
// may be busy; the defects this suite is for lose replies every time).
func c14ServeCaseRetry(proto string, gmp int, timing, split string, conns [][]*c14Req) (string, string, [][]*c14Reply) {
	real, verdict, replies := c14ServeCaseX(proto, gmp, timing, split, conns)
	if strings.Contains(verdict, "within the watchdog") {
		Stat("srv:watchdog-retry")
		return c14ServeCaseX(proto, gmp, timing, split, conns)
	}
	return real, verdict, replies
}

// c14ServeCaseX also returns the parsed replies per connection. timing "seq": the connections are
// served strictly one after the other (each fully answered before the next is opened).
func c14ServeCaseX(proto string, gmp int, timing, split string, conns [][]*c14Req) (string, string, [][]*c14Reply) {
	if gmp == 1 {
		old := runtime.GOMAXPROCS(1)
		defer runtime.GOMAXPROCS(old)
	}
	st, err := thrift.NewTServerSocket("127.0.0.1:0")
	if err != nil {
		return "harness:listen", "", nil
	}
	if err := st.Listen(); err != nil {
		return "harness:listen", "", nil
	}
	addr := st.Addr().String()
	srv := frugal.NewFSimpleServer(newC14Processor(), st, frugal.NewFProtocolFactory(c14Factories[proto]))
	served := make(chan struct{})
	serve := func() {
		go func() {
			srv.Serve()
			close(served)
		}()
	}
	socks := make([]net.Conn, len(conns))
	results := make([]*c14ConnResult, len(conns))
	// phase 1 of a connection: everything but its last request (all of it when it has one request)
	phase1 := func(i int) []*c14Req {
		if len(conns[i]) >= 2 {
			return conns[i][:len(conns[i])-1]
		}
		return conns[i]
	}
	open := func(i int) {
		results[i] = &c14ConnResult{oneEach: true}
		c, err := net.DialTimeout("tcp", addr, 2*time.Second)
		if err != nil {
			results[i].problem = "harness: dial failed"
			return
		}
		socks[i] = c
		wire, at := c14WireOf(proto, phase1(i))
		if err := c14WriteSplit(c, wire, at, split); err != nil {
			results[i].problem = "harness: write failed"
		}
	}
	before := 0
	switch timing {
	case "pre":
		before = len(conns)
	case "mid":
		before = (len(conns) + 1) / 2
	}
	for i := 0; i < before; i++ {
		open(i) // waits in the listen backlog: nobody accepts yet
	}
	serve()
	var wg sync.WaitGroup
	for i := range conns {
		wg.Add(1)
		run := func(i int) {
			defer wg.Done()
			if i >= before {
				open(i)
			}
			res := results[i]
			if res.problem != "" || socks[i] == nil {
				return
			}
			c := socks[i]
			c14ReadReplies(proto, c, c14ExpectedReplies(phase1(i)), res)
			if res.problem == "" && len(conns[i]) >= 2 {
				// the connection must still be usable: one more request, after the others were answered
				last := conns[i][len(conns[i])-1:]
				wire, at := c14WireOf(proto, last)
				if err := c14WriteSplit(c, wire, at, "one"); err != nil {
					res.problem = "harness: write failed"
					return
				}
				c14ReadReplies(proto, c, c14ExpectedReplies(last), res)
			}
			if res.problem == "" && i%4 == 0 {
				c.SetReadDeadline(time.Now().Add(8 * time.Millisecond))
				var b [1]byte
				if n, _ := c.Read(b[:]); n > 0 {
					res.leftover = true
				}
			}
		}
		if timing == "seq" {
			run(i)
		} else {
			go run(i)
		}
	}
	wg.Wait()
	srv.Stop()
	for _, c := range socks {
		if c != nil {
			c.Close()
		}
	}
	select {
	case <-served:
	case <-time.After(2 * time.Second):
	}
	parts := make([]string, len(conns))
	all := make([][]*c14Reply, len(conns))
	verdict := ""
	for i, res := range results {
		if strings.HasPrefix(res.problem, "harness:") {
			return res.problem, "", nil
		}
		replies, perr := c14ParseStream(proto, res.stream)
		all[i] = replies
		shown := make([]string, len(replies))
		for j, rp := range replies {
			shown[j] = rp.String()
		}
		o := "."
		if len(shown) > 0 {
			o = strings.Join(shown, "|")
		}
		if perr != nil {
			o = "corrupt"
		}
		parts[i] = "res=conn out=" + o
		if verdict != "" {
			continue
		}
		switch {
		case res.problem != "":
			verdict = fmt.Sprintf("a connection to the simple server (%d requests pipelined) was not answered: %s", len(conns[i]), res.problem)
		case !res.oneEach:
			verdict = "a reply frame of the simple server does not hold exactly one whole reply"
		case res.leftover:
			verdict = "the simple server sent more than the replies to the connection's own requests"
		default:
			if what := c14Oracle("sock", conns[i], replies, perr, parts[i]); what != "" {
				verdict = "on a connection to the simple server: " + what
			}
		}
	}
	return strings.Join(parts, " ; "), verdict, all
}

func c14SrvLine(proto string, gmp int, timing, split string, conns [][]*c14Req) string {
	cs := make([]string, len(conns))
	for i, reqs := range conns {
		toks := make([]string, len(reqs))
		for j, q := range reqs {
			toks[j] = q.token()
		}
		cs[i] = strings.Join(toks, ",")
		if len(toks) == 0 {
			cs[i] = "."
		}
	}
	return fmt.Sprintf("srv - %s %d %s %s %s", proto, gmp, timing, split, strings.Join(cs, ";"))
}

func c14ParseSrvLine(args []string) (proto string, gmp int, timing, split string, conns [][]*c14Req, ok bool) {
	if len(args) != 6 {
		return
	}
	proto, timing, split = args[1], args[3], args[4]
	gmp, err := strconv.Atoi(args[2])
	if _, has := c14Factories[proto]; !has || err != nil {
		return
	}
	for _, c := range strings.Split(args[5], ";") {
		var reqs []*c14Req
		if c != "." {
			for _, t := range strings.Split(c, ",") {
				q, good := c14ParseReq(t)
				if !good {
					return
				}
				reqs = append(reqs, q)
			}
		}
		conns = append(conns, reqs)
	}
	return proto, gmp, timing, split, conns, true
}

// c14SizedPing: a ping whose frame body has exactly `target` bytes when that is reachable
// (padding in a request header), answered with an identifiable payload.
func c14SizedPing(r *Rng, proto, opid string, target int) *c14Req {
	payload := append([]byte(opid+"#"), r.Bytes(r.Pick(0, 3, 8, 40))...)
	mk := func(pad int) *c14Req {
		q := &c14Req{env: "1", method: "ping", mtype: 1, seqid: 0, args: "ok0", outcome: "s:" + hx(payload)}
		h := map[string]string{"_opid": opid, "x-out": q.outcome, "x-pad": strings.Repeat("p", pad)}
		if r.Chance(30) {
			h["_cid"] = "cid-" + opid
		}
		q.hdrBlock = frugal.VerifMarshalHeaders(h)
		return q
	}
	// the _cid choice must be the same for both builds
	s := r.s
	q := mk(0)
	base := len(c14Bytes(proto, q))
	if target > base {
		r.s = s
		q = mk(target - base)
	}
	return q
}

func c14GenConn(r *Rng, proto string, ci, k int) []*c14Req {
	reqs := make([]*c14Req, 0, k)
	off := 0
	for j := 0; j < k; j++ {
		opid := fmt.Sprintf("%d.%d", ci, j)
		var q *c14Req
		switch sel := r.Intn(100); {
		case sel < 45 && k >= 2:
			// make the NEXT frame's size prefix start at 4096*m+d, d around the refill boundary
			d := r.Intn(9) - 6 // -6..+2
			m := (off+4+120)/4096 + 1
			target := 4096*m + d - off - 4
			q = c14SizedPing(r, proto, opid, target)
			Stat(fmt.Sprintf("srv:next-prefix-at-4096m%+d", d))
		case sel < 60:
			q = c14SizedPing(r, proto, opid, r.Pick(0, 0, 300, 4080+r.Intn(21), 5000, 8193, 9000+r.Intn(4000), 20000))
			Stat("srv:sized")
		case sel < 75:
			q = c14SizedPing(r, proto, opid, 0)
			Stat("srv:small")
		default:
			for {
				q, _ = c14GenReq(r, 0, true)
				h, _ := c14Headers(q)
				h["_opid"] = opid
				h["x-out"] = q.outcome
				q.hdrBlock = frugal.VerifMarshalHeaders(h)
				if c, _, _, _, _ := c14Expect(q); c >= 0 && len(q.hdrBlock) < 3000 {
					break
				}
			}
			Stat("srv:mixed-kind")
		}
		reqs = append(reqs, q)
		off += 4 + len(c14Bytes(proto, q))
	}
	return reqs
}

var c14SrvFailures int

func runC14Srv(r *Rng, n int) {
	for i := 0; i < n && c14SrvFailures < 3; i++ {
		proto := r.PickS("bin", "cmp")
		gmp := r.Pick(0, 0, 0, 1)
		timing := r.PickS("pre", "pre", "mid", "post")
		split := r.PickS("one", "one", "pfx", "pfx", "dribble", "half")
		nc := r.Pick(1, 1, 2, 3, 4, 6, 8, 12, 16)
		conns := make([][]*c14Req, nc)
		total := 0
		for ci := range conns {
			k := 1 + r.Intn(8)
			if nc > 8 {
				k = 1 + r.Intn(3)
			}
			conns[ci] = c14GenConn(r, proto, ci, k)
			total += k
			Stat(fmt.Sprintf("srv:pipelined=%d", k))
		}
		Stat(fmt.Sprintf("srv:connections=%d", nc))
		Stat("srv:timing=" + timing)
		Stat("srv:split=" + split)
		Stat(fmt.Sprintf("srv:gomaxprocs=%d", gmp))
		Stat("proto:" + proto)
		StatN("srv:requests", total)
		real, verdict := c14ServeCase(proto, gmp, timing, split, conns)
		if strings.HasPrefix(real, "harness:") {
			Stat("srv:" + real)
			continue
		}
		line := c14SrvLine(proto, gmp, timing, split, conns)
		Case(line, real)
		if i < 2 {
			Sample(map[string]interface{}{"line": clip(line), "real": clip(real)})
		}
		if verdict != "" {
			c14SrvFailures++
			min := c14SrvMinimise(proto, gmp, timing, split, conns)
			mreal, _ := c14ServeCase(proto, gmp, timing, split, min)
			nreq := 0
			for _, c := range min {
				nreq += len(c)
			}
			OracleFail(verdict, map[string]interface{}{"op": "srv", "line": c14SrvLine(proto, gmp, timing, split, min), "got": clip(mreal), "connections": len(min), "requests": nreq})
		}
		Stat("evaluations")
	}
}

// c14SrvMinimise drops connections, then requests, while the oracle still fails; every failing
// re-run may cost a watchdog period, so the effort is bounded in time.
func c14SrvMinimise(proto string, gmp int, timing, split string, conns [][]*c14Req) [][]*c14Req {
	deadline := time.Now().Add(8 * time.Second)
	fails := func(c [][]*c14Req) bool {
		if time.Now().After(deadline) || len(c) == 0 {
			return false
		}
		for rep := 0; rep < 2; rep++ { // scheduling-dependent failures: two tries
			if _, v := c14ServeCase(proto, gmp, timing, split, c); v != "" {
				return true
			}
		}
		return false
	}
	cur := conns
	for i := 0; i < len(cur) && len(cur) > 1; {
		cand := append(append([][]*c14Req{}, cur[:i]...), cur[i+1:]...)
		if fails(cand) {
			cur = cand
		} else {
			i++
		}
	}
	for ci := range cur {
		for j := 0; j < len(cur[ci]) && len(cur[ci]) > 1; {
			cand := append([][]*c14Req{}, cur...)
			cand[ci] = append(append([]*c14Req{}, cur[ci][:j]...), cur[ci][j+1:]...)
			if fails(cand) {
				cur = cand
			} else {
				j++
			}
		}
	}
	return cur
}

// ---------- the framed reader over a chunked stream ----------

type c14ChunkTransport struct {
	chunks [][]byte
}

func (t *c14ChunkTransport) Read(p []byte) (int, error) {
	for len(t.chunks) > 0 && len(t.chunks[0]) == 0 {
		t.chunks = t.chunks[1:]
	}
	if len(t.chunks) == 0 {
		return 0, thrift.NewTTransportExceptionFromError(io.EOF)
	}
	n := copy(p, t.chunks[0])
	t.chunks[0] = t.chunks[0][n:]
	return n, nil
}
func (t *c14ChunkTransport) Write(p []byte) (int, error)     { return len(p), nil }
func (t *c14ChunkTransport) Flush(ctx context.Context) error { return nil }
func (t *c14ChunkTransport) Open() error                     { return nil }
func (t *c14ChunkTransport) Close() error                    { return nil }
func (t *c14ChunkTransport) IsOpen() bool                    { return true }
func (t *c14ChunkTransport) RemainingBytes() uint64          { return 0 }

// c14RealDeframe pulls frame after frame out of frugal.TFramedTransport.
func c14RealDeframe(maxLen uint32, chunks [][]byte) (frames [][]byte, tail string) {
	total := 0
	cp := make([][]byte, len(chunks))
	for i, c := range chunks {
		cp[i] = append([]byte{}, c...)
		total += len(c)
	}
	fr := frugal.NewTFramedTransportMaxLength(&c14ChunkTransport{chunks: cp}, maxLen)
	consumed := 0
	var err error
	if o := guard(3*time.Second, func() {
		for {
			var one [1]byte
			var n int
			if n, err = fr.Read(one[:]); err != nil || n == 0 {
				return
			}
			body := make([]byte, int(fr.RemainingBytes()))
			if _, err = io.ReadFull(fr, body); err != nil {
				return
			}
			frames = append(frames, append(one[:1:1], body...))
			consumed += 4 + 1 + len(body)
		}
	}); o != "" {
		return frames, o
	}
	if err != nil && strings.Contains(err.Error(), "incorrect frame size") {
		return frames, "bad"
	}
	return frames, fmt.Sprintf("pending:%d", total-consumed)
}

func c14ShowFrames(frames [][]byte, tail string) string {
	parts := make([]string, len(frames))
	for i, f := range frames {
		sum := 0
		for _, b := range f {
			sum = (sum + int(b)) % 65536
		}
		parts[i] = fmt.Sprintf("%d.%d", len(f), sum)
	}
	fs := "."
	if len(parts) > 0 {
		fs = strings.Join(parts, ",")
	}
	return "frames=" + fs + " tail=" + tail
}

func c14ChunkArg(chunks [][]byte) string {
	if len(chunks) == 0 {
		return "."
	}
	parts := make([]string, len(chunks))
	for i, c := range chunks {
		parts[i] = hx(c)
	}
	return strings.Join(parts, ",")
}

// c14Frm: one generated case of the framed reader: frames, a chunking, the independent expectation.
func c14Frm(r *Rng) {
	maxLen := uint32(16384000)
	if r.Chance(15) {
		maxLen = uint32(r.Pick(8, 64, 300))
	}
	var frames [][]byte
	var stream []byte
	var prefixAt []int
	var want [][]byte
	stopped := "" // "bad" once an oversized frame was put on the stream
	nf := r.Pick(1, 2, 3, 5, 9)
	for j := 0; j < nf; j++ {
		size := r.Pick(1, 2, 5, 30, 200)
		if r.Chance(40) && maxLen > 9000 {
			// next prefix around a multiple of 4096
			d := r.Intn(9) - 6
			m := (len(stream)+5)/4096 + 1
			size = 4096*m + d - len(stream) - 4
		} else if r.Chance(10) && maxLen > 9000 {
			size = r.Pick(4096, 4097, 8192, 8200, 12000)
		}
		if size < 1 {
			size = 1
		}
		if r.Chance(8) && maxLen < 9000 {
			size = int(maxLen) + 1 + r.Intn(5)
		}
		f := r.Bytes(size)
		frames = append(frames, f)
		prefixAt = append(prefixAt, len(stream))
		stream = append(append(stream, be32(uint32(size))...), f...)
		if stopped == "" {
			if uint32(size) > maxLen {
				stopped = "bad"
			} else {
				want = append(want, f)
			}
		}
	}
	wantTail := "pending:0"
	if r.Chance(20) && stopped == "" { // the stream ends inside a frame
		cut := 1 + r.Intn(8)
		if cut > len(stream)-prefixAt[len(prefixAt)-1] {
			cut = 1
		}
		stream = stream[:len(stream)-cut]
		want = want[:len(want)-1]
		wantTail = fmt.Sprintf("pending:%d", len(stream)-prefixAt[len(prefixAt)-1])
	}
	if stopped != "" {
		wantTail = "bad"
	}
	// a chunking
	var chunks [][]byte
	kind := r.PickS("one", "prefix-cut", "prefix-cut", "dribble", "random", "refill")
	switch kind {
	case "one":
		chunks = [][]byte{stream}
	case "prefix-cut":
		at := 0
		for i, p := range prefixAt {
			cut := p + 1 + (i+r.Intn(3))%3
			if cut > len(stream) {
				break
			}
			chunks = append(chunks, stream[at:cut])
			at = cut
		}
		chunks = append(chunks, stream[at:])
	case "dribble":
		if len(stream) > 600 {
			kind = "refill"
			for at := 0; at < len(stream); at += 4096 {
				e := at + 4096
				if e > len(stream) {
					e = len(stream)
				}
				chunks = append(chunks, stream[at:e])
			}
		} else {
			for i := range stream {
				chunks = append(chunks, stream[i:i+1])
			}
		}
	case "random":
		for at := 0; at < len(stream); {
			e := at + 1 + r.Intn(r.Pick(3, 40, 5000))
			if e > len(stream) {
				e = len(stream)
			}
			chunks = append(chunks, stream[at:e])
			at = e
		}
	case "refill":
		for at := 0; at < len(stream); at += 4096 {
			e := at + 4096
			if e > len(stream) {
				e = len(stream)
			}
			chunks = append(chunks, stream[at:e])
		}
	}
	Stat("frm:chunking=" + kind)
	Stat(fmt.Sprintf("frm:frames=%d", nf))
	got, tail := c14RealDeframe(maxLen, chunks)
	real := c14ShowFrames(got, tail)
	line := fmt.Sprintf("frm %d %s", maxLen, c14ChunkArg(chunks))
	Case(line, real)
	if exp := c14ShowFrames(want, wantTail); exp != real {
		c14FrmFailures++
		OracleFail("the framed reader did not hand over exactly the frames that were written to the stream", map[string]interface{}{"op": "frm", "line": line, "got": clip(real), "want": clip(exp), "chunking": kind})
	}
}

var c14FrmFailures int

func runC14Frm(r *Rng, n int) {
	for i := 0; i < n && c14FrmFailures < 25; i++ { // established and reported
		c14Frm(r)
		Stat("evaluations")
	}
}

func init() {
	suites["c14srv"] = runC14Srv
	suites["c14frm"] = runC14Frm
	lineOps["srv"] = func(args []string) (string, bool) {
		proto, gmp, timing, split, conns, ok := c14ParseSrvLine(args)
		if !ok {
			return "bad-op", true
		}
		real, verdict := c14ServeCase(proto, gmp, timing, split, conns)
		return real, verdict == ""
	}
	lineOps["frm"] = func(args []string) (string, bool) {
		if len(args) != 2 {
			return "bad-op", true
		}
		ml, err := strconv.ParseUint(args[0], 10, 32)
		if err != nil {
			return "bad-op", true
		}
		var chunks [][]byte
		if args[1] != "." {
			for _, c := range strings.Split(args[1], ",") {
				chunks = append(chunks, unhx(c))
			}
		}
		got, tail := c14RealDeframe(uint32(ml), chunks)
		// replayed lines carry no record of what was written: the model is the reference there
		return c14ShowFrames(got, tail), !strings.HasPrefix(tail, "panic") && tail != "blocked"
	}
}
