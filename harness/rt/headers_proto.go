package main

// C04 — the FProtocol layer and the concurrent use of the codec.
//
// (a) c04proto: what a handler / a caller actually sees is the FContext that the REAL
// FProtocol.ReadRequestHeader / ReadResponseHeader build from the decoded map, and what goes on the wire
// is what WriteRequestHeader / WriteResponseHeader marshal from ANY FContext (also a third-party
// implementation whose maps lack `_cid` / `_timeout`). Ops (one line each, same for replay):
//
//   prq <hex>            ReadRequestHeader over a TMemoryBuffer holding the bytes
//                        -> ok req=<pairs without _opid> resp=<pairs> rest=<hex> | err:<class>
//   prs <hex> <pairs>    ReadResponseHeader(ctx) with ctx holding <pairs> as response headers
//                        -> ok resp=<pairs> rest=<hex> | err:<class>
//   pwq <pairs>          WriteRequestHeader(ctx) / pws: WriteResponseHeader(ctx), ctx = a foreign FContext
//                        -> ok <pairs decoded by the independent spec reader> | bad
//
// Oracle (property, independent of the model): for a written map m with distinct names that has an `_opid`
// and a payload p, the context read back has exactly m's headers under every name but `_opid` — nothing
// injected, nothing lost — and p is left on the transport; ReadResponseHeader makes every written header
// except `_opid` visible with the written value; the bytes written for a context are the documented layout
// of exactly its map.
//
// (b) c04conc: K goroutines read K DIFFERENT header blocks from K unrelated streams at the same time; the
// streams are lock-stepped (every Read of every stream completes before any goroutine continues), which
// forces the interleaving in which state shared between readers (a package-level scratch buffer, a
// marshaler singleton's field) is overwritten between a read and its use. Each goroutine's result is an
// ordinary `ums` case (so the model gives the sequential answer) and must be its own map and payload.

import (
	"bytes"
	"fmt"
	"strings"
	"sync"
	"time"

	frugal "github.com/Workiva/frugal/lib/go"
	"github.com/apache/thrift/lib/go/thrift"
)

const opIDName = "_opid"

// foreignCtx is a third-party FContext: its maps are exactly what it was given.
type foreignCtx struct {
	req, resp map[string]string
}

func (c *foreignCtx) CorrelationID() string { return c.req["_cid"] }
func (c *foreignCtx) AddRequestHeader(name, value string) frugal.FContext {
	c.req[name] = value
	return c
}
func (c *foreignCtx) RequestHeader(name string) (string, bool) { v, ok := c.req[name]; return v, ok }
func (c *foreignCtx) RequestHeaders() map[string]string {
	m := make(map[string]string, len(c.req))
	for k, v := range c.req {
		m[k] = v
	}
	return m
}
func (c *foreignCtx) AddResponseHeader(name, value string) frugal.FContext {
	c.resp[name] = value
	return c
}
func (c *foreignCtx) ResponseHeader(name string) (string, bool) { v, ok := c.resp[name]; return v, ok }
func (c *foreignCtx) ResponseHeaders() map[string]string {
	m := make(map[string]string, len(c.resp))
	for k, v := range c.resp {
		m[k] = v
	}
	return m
}
func (c *foreignCtx) SetTimeout(time.Duration) frugal.FContext { return c }
func (c *foreignCtx) Timeout() time.Duration                  { return 5 * time.Second }

func protoOver(buf thrift.TTransport) *frugal.FProtocol {
	return frugal.NewFProtocolFactory(thrift.NewTBinaryProtocolFactoryConf(nil)).GetProtocol(buf)
}

func without(m map[string]string, k string) map[string]string {
	o := make(map[string]string, len(m))
	for a, b := range m {
		if a != k {
			o[a] = b
		}
	}
	return o
}

// realPRQ: ReadRequestHeader. Returns the canonical output, the request map without `_opid`, the rest.
func realPRQ(in []byte) (string, map[string]string, []byte) {
	buf := thrift.NewTMemoryBuffer()
	buf.Write(in)
	var ctx frugal.FContext
	var err error
	if o := guard(20*time.Second, func() { ctx, err = protoOver(buf).ReadRequestHeader() }); o != "" {
		return o, nil, nil
	}
	if err != nil {
		return errClass(err), nil, nil
	}
	req := without(ctx.RequestHeaders(), opIDName)
	rest := buf.Bytes()
	return "ok req=" + pairs(req) + " resp=" + pairs(ctx.ResponseHeaders()) + " rest=" + hx(rest), req, rest
}

// realPRS: ReadResponseHeader on a context that already holds `pre` as response headers.
func realPRS(in []byte, pre []kv) (string, map[string]string, []byte) {
	buf := thrift.NewTMemoryBuffer()
	buf.Write(in)
	ctx := frugal.NewFContext("c04")
	for _, p := range pre {
		ctx.AddResponseHeader(p.k, p.v)
	}
	var err error
	if o := guard(20*time.Second, func() { err = protoOver(buf).ReadResponseHeader(ctx) }); o != "" {
		return o, nil, nil
	}
	if err != nil {
		return errClass(err), nil, nil
	}
	resp := ctx.ResponseHeaders()
	rest := buf.Bytes()
	return "ok resp=" + pairs(resp) + " rest=" + hx(rest), resp, rest
}

// realPW: Write{Request,Response}Header of a foreign context holding exactly m.
func realPW(request bool, m map[string]string) (string, []byte) {
	buf := thrift.NewTMemoryBuffer()
	ctx := &foreignCtx{req: map[string]string{}, resp: map[string]string{}}
	for k, v := range m {
		if request {
			ctx.req[k] = v
		} else {
			ctx.resp[k] = v
		}
	}
	var err error
	if o := guard(20*time.Second, func() {
		if request {
			err = protoOver(buf).WriteRequestHeader(ctx)
		} else {
			err = protoOver(buf).WriteResponseHeader(ctx)
		}
	}); o != "" {
		return o, nil
	}
	if err != nil {
		return errClass(err), nil
	}
	bs := buf.Bytes()
	l, rest, ok := specDecode(bs)
	dm, nodup := listToMap(l)
	if !ok || !nodup || len(rest) != 0 {
		return "bad", bs
	}
	return "ok " + pairs(dm), bs
}

// genProtoHeaders: maps as a peer may send them — with or without the reserved names, reserved names
// with arbitrary content.
func genProtoHeaders(r *Rng) map[string]string {
	m := genHeaders(r, true)
	for len(m) > 12 {
		for k := range m {
			delete(m, k)
			break
		}
	}
	if r.Chance(85) {
		switch r.Intn(4) {
		case 0:
			m[opIDName] = genString(r, true)
		default:
			m[opIDName] = fmt.Sprint(r.U64() >> uint(r.Intn(64)))
		}
	}
	if r.Chance(50) {
		if r.Chance(25) {
			m["_cid"] = ""
		} else {
			m["_cid"] = genString(r, false)
		}
	}
	if r.Chance(50) {
		switch r.Intn(3) {
		case 0:
			m["_timeout"] = genString(r, true)
		default:
			m["_timeout"] = fmt.Sprint(r.Intn(100000))
		}
	}
	return m
}

func runC04Proto(r *Rng, n int) {
	for i := 0; i < n; i++ {
		m := genProtoHeaders(r)
		p := genPayload(r)
		hdr := frugal.VerifMarshalHeaders(m)
		in := append(append([]byte{}, hdr...), p...)
		_, hasOp := m[opIDName]
		_, hasCid := m["_cid"]
		_, hasTmo := m["_timeout"]
		Stat(fmt.Sprintf("shape:opid=%v,cid=%v,timeout=%v", hasOp, hasCid, hasTmo))

		o, req, rest := realPRQ(in)
		Case("prq "+hx(in), o)
		if hasOp {
			if req == nil || !mapsEqual(req, without(m, opIDName)) || !bytes.Equal(rest, p) {
				OracleFail("ReadRequestHeader: the context's headers are not exactly the written ones (apart from the fresh _opid) / payload touched",
					map[string]interface{}{"op": "prq", "line": "prq " + hx(in), "headers": pairs(m), "got": o})
			}
		} else if req != nil {
			OracleFail("ReadRequestHeader accepted a request without _opid", map[string]interface{}{"op": "prq", "line": "prq " + hx(in), "got": o})
		}

		var pre []kv
		for k, v := range genHeaders(r, true) {
			if len(pre) < 4 {
				pre = append(pre, kv{k, v})
			}
		}
		if r.Chance(50) && len(m) > 0 { // a header the context already holds under a written name
			for k := range m {
				pre = append(pre, kv{k, genString(r, true)})
				break
			}
		}
		if r.Chance(30) {
			pre = append(pre, kv{opIDName, "77"})
		}
		preMap := map[string]string{}
		for _, q := range pre {
			preMap[q.k] = q.v
		}
		o, resp, rest := realPRS(in, pre)
		line := "prs " + hx(in) + " " + pairs(preMap)
		Case(line, o)
		good := resp != nil && bytes.Equal(rest, p)
		if good {
			for k, v := range m {
				if k == opIDName {
					continue
				}
				if w, ok := resp[k]; !ok || w != v {
					good = false
				}
			}
			for k, v := range preMap {
				if _, written := m[k]; (!written || k == opIDName) && resp[k] != v {
					good = false
				}
			}
		}
		if !good {
			OracleFail("ReadResponseHeader: a written header is not visible with the written value / an unrelated header changed / payload touched",
				map[string]interface{}{"op": "prs", "line": line, "headers": pairs(m), "got": o})
		}

		for _, request := range []bool{true, false} {
			op := "pws"
			if request {
				op = "pwq"
			}
			o, _ := realPW(request, m)
			Case(op+" "+pairs(m), o)
			if o != "ok "+pairs(m) {
				OracleFail("Write"+map[bool]string{true: "Request", false: "Response"}[request]+"Header: the bytes are not the documented layout of exactly the context's map",
					map[string]interface{}{"op": op, "line": op + " " + pairs(m), "got": o})
			}
		}
		Stat("evaluations")
	}
}

// ---------- lock-stepped concurrent readers ----------

// stepGroup makes its members proceed in rounds: a member that calls Step blocks until every current
// member has called Step (or left).
type stepGroup struct {
	mu      sync.Mutex
	cond    *sync.Cond
	members int
	waiting int
	round   int
}

func newStepGroup(n int) *stepGroup {
	g := &stepGroup{members: n}
	g.cond = sync.NewCond(&g.mu)
	return g
}

func (g *stepGroup) Step() {
	g.mu.Lock()
	defer g.mu.Unlock()
	g.waiting++
	if g.waiting >= g.members {
		g.waiting = 0
		g.round++
		g.cond.Broadcast()
		return
	}
	r := g.round
	for r == g.round {
		g.cond.Wait()
	}
}

func (g *stepGroup) Leave() {
	g.mu.Lock()
	defer g.mu.Unlock()
	g.members--
	if g.members > 0 && g.waiting >= g.members {
		g.waiting = 0
		g.round++
		g.cond.Broadcast()
	}
}

// stepReader: every Read completes (the destination is filled) BEFORE the reader waits for the others.
type stepReader struct {
	inner *bytes.Reader
	g     *stepGroup
}

func (s *stepReader) Read(p []byte) (int, error) {
	n, err := s.inner.Read(p)
	if err != nil {
		return n, err // as bytes.Buffer / TMemoryBuffer: the raw io.EOF
	}
	s.g.Step()
	return n, err
}

// lockstepRead reads every input with the real stream reader, all at once, in lock-step.
func lockstepRead(ins [][]byte) ([]string, []map[string]string, [][]byte) {
	k := len(ins)
	outs, maps, rests := make([]string, k), make([]map[string]string, k), make([][]byte, k)
	g := newStepGroup(k)
	var wg sync.WaitGroup
	for j := range ins {
		wg.Add(1)
		go func(j int) {
			defer wg.Done()
			defer g.Leave()
			rd := &stepReader{inner: bytes.NewReader(ins[j]), g: g}
			var m map[string]string
			var err error
			if o := guard(20*time.Second, func() { m, err = frugal.VerifReadHeader(rd) }); o != "" {
				outs[j] = o
				return
			}
			if err != nil {
				outs[j] = errClass(err)
				return
			}
			rest := make([]byte, rd.inner.Len())
			rd.inner.Read(rest)
			maps[j], rests[j] = m, rest
			outs[j] = "ok " + pairs(m) + " rest=" + hx(rest)
		}(j)
	}
	wg.Wait()
	return outs, maps, rests
}

func runC04Conc(r *Rng, n int) {
	for i := 0; i < n; i++ {
		k := 2 + r.Intn(3)
		type job struct {
			m    map[string]string
			p    []byte
			in   []byte
			out  string
			gm   map[string]string
			rest []byte
		}
		jobs := make([]*job, k)
		for j := range jobs {
			m := genHeaders(r, true)
			for len(m) > 6 {
				for key := range m {
					delete(m, key)
					break
				}
			}
			p := genPayload(r)
			in := append(append([]byte{}, frugal.VerifMarshalHeaders(m)...), p...)
			jobs[j] = &job{m: m, p: p, in: in}
		}
		rawIns := make([][]byte, k)
		for j, jb := range jobs {
			rawIns[j] = jb.in
		}
		o2, m2, r2 := lockstepRead(rawIns)
		for j, jb := range jobs {
			jb.out, jb.gm, jb.rest = o2[j], m2[j], r2[j]
		}
		ins, outs := make([]string, k), make([]string, k)
		bad := false
		for j, jb := range jobs {
			ins[j], outs[j] = hx(jb.in), jb.out
			if jb.gm == nil || !mapsEqual(jb.gm, jb.m) || !bytes.Equal(jb.rest, jb.p) {
				bad = true
			}
		}
		line := "umc " + strings.Join(ins, ",")
		Case(line, strings.Join(outs, "|"))
		if bad {
			OracleFail("concurrent stream readers on unrelated streams: a reader did not get its own map / payload (shared state between readers)",
				map[string]interface{}{"op": "umc", "line": line, "got": strings.Join(outs, "|"), "readers": k})
		}
		Stat(fmt.Sprintf("readers=%d", k))
		Stat("evaluations")
	}
}

func init() {
	suites["c04proto"] = runC04Proto
	suites["c04conc"] = runC04Conc
	lineOps["prq"] = func(a []string) (string, bool) {
		if len(a) != 1 {
			return "bad-op", true
		}
		o, _, _ := realPRQ(unhx(a[0]))
		return o, !(len(o) >= 5 && (o[:5] == "panic" || o == "blocked"))
	}
	lineOps["prs"] = func(a []string) (string, bool) {
		if len(a) != 2 {
			return "bad-op", true
		}
		o, _, _ := realPRS(unhx(a[0]), parsePairs(a[1]))
		return o, !(len(o) >= 5 && (o[:5] == "panic" || o == "blocked"))
	}
	lineOps["umc"] = func(a []string) (string, bool) {
		if len(a) != 1 {
			return "bad-op", true
		}
		var ins [][]byte
		for _, h := range strings.Split(a[0], ",") {
			ins = append(ins, unhx(h))
		}
		outs, _, _ := lockstepRead(ins)
		// oracle on replay: each reader's answer equals what the same bytes give when read alone
		fine := true
		for j, in := range ins {
			alone, _, _ := realUMS(in)
			if alone != outs[j] {
				fine = false
			}
		}
		return strings.Join(outs, "|"), fine
	}
	for _, op := range []string{"pwq", "pws"} {
		op := op
		lineOps[op] = func(a []string) (string, bool) {
			if len(a) != 1 {
				return "bad-op", true
			}
			m := map[string]string{}
			for _, p := range parsePairs(a[0]) {
				m[p.k] = p.v
			}
			o, _ := realPW(op == "pwq", m)
			return o, o == "ok "+pairs(m)
		}
	}
}
