package main

import (
	"fmt"
	"strconv"
	"sync"
	"sync/atomic"
	"time"

	frugal "github.com/Workiva/frugal/lib/go"
	"github.com/apache/thrift/lib/go/thrift"
	"github.com/nats-io/nats.go"
)

// ---------- C01/C06 over the real NATS client transport (in-process nats-server) ----------
//
// A scripted peer answers requests on the service subject. Scenarios force the interleaving
// lookup ∥ unregister ∥ send with the yield point registry.dispatch.presend: a duplicate response for
// request A is held after its registry lookup while A completes and unregisters and request B starts;
// then it is released. B must not complete with it.

var natsReqSeq uint64

type natsHold struct {
	opid    uint64
	seen    int32 // presend calls seen for opid
	holdAt  int32 // hold the k-th presend call (1-based); 0 = never
	arrived chan struct{}
	release chan struct{}
}

var (
	natsHoldMu sync.Mutex
	natsHolds  = map[uint64]*natsHold{}
)

func installNatsYield() {
	frugal.SetVerifYield(func(point string, id uint64) {
		if point != "registry.dispatch.presend" {
			return
		}
		natsHoldMu.Lock()
		h := natsHolds[id]
		natsHoldMu.Unlock()
		if h == nil {
			return
		}
		if n := atomic.AddInt32(&h.seen, 1); n == h.holdAt {
			h.arrived <- struct{}{}
			<-h.release
		}
	})
}

// runNatsCase: kinds
//
//	early     peer answers once                                    -> ok
//	dup3      peer answers three times back to back                -> ok (first), nothing wedged
//	silent    peer never answers                                   -> timedOut
//	foreign   peer answers with a never-issued op id               -> timedOut
//	reuse     peer answers A twice; the duplicate is held after its lookup while A returns and a
//	          second request B (peer silent for B) starts; then released -> A ok, B timedOut
func runNatsCase(kind string, timeoutMs int) (string, bool, string) {
	url, err := c20Broker()
	if err != nil {
		return "no-broker", false, err.Error()
	}
	client, err := nats.Connect(url)
	if err != nil {
		return "no-conn", false, err.Error()
	}
	defer client.Close()
	peer, err := nats.Connect(url)
	if err != nil {
		return "no-conn", false, err.Error()
	}
	defer peer.Close()
	subject := fmt.Sprintf("verif.c01.%d", atomic.AddUint64(&natsReqSeq, 1))
	var scriptMu sync.Mutex
	answers := map[uint64]int{} // op id -> number of responses the peer sends
	foreign := false
	type heldAnswer struct {
		id    uint64
		reply string
		seen  chan struct{}
	}
	var heldBack *heldAnswer
	peer.Subscribe(subject, func(m *nats.Msg) {
		if len(m.Data) < 5 {
			return
		}
		h, err := frugal.VerifGetHeadersFromFrame(m.Data[4:])
		if err != nil {
			return
		}
		id, _ := strconv.ParseUint(h["_opid"], 10, 64)
		scriptMu.Lock()
		n := answers[id]
		fg := foreign
		hb := heldBack
		scriptMu.Unlock()
		if hb != nil && id == hb.id {
			hb.reply = m.Reply
			hb.seen <- struct{}{}
			return
		}
		if fg {
			body := respFrame(1<<62+7, 1)
			peer.Publish(m.Reply, append(be32(uint32(len(body))), body...))
			return
		}
		for k := 0; k < n; k++ {
			body := respFrame(id, 7+k)
			peer.Publish(m.Reply, append(be32(uint32(len(body))), body...))
		}
		peer.Flush()
	})
	peer.Flush()
	tr := frugal.NewFNatsTransport(client, subject, "")
	if err := tr.Open(); err != nil {
		return "open-failed", false, err.Error()
	}
	defer tr.Close()
	timeout := time.Duration(timeoutMs) * time.Millisecond

	do := func(ctx frugal.FContext, opid uint64) string {
		hdr := frugal.VerifMarshalHeaders(map[string]string{"_opid": strconv.FormatUint(opid, 10)})
		payload := append(be32(uint32(len(hdr)+1)), append(hdr, 0)...)
		var r thrift.TTransport
		var err error
		if o := guard(timeout*3+3*time.Second, func() { r, err = tr.Request(ctx, payload) }); o != "" {
			return o
		}
		if err == nil && r != nil {
			buf := make([]byte, 4096)
			n, _ := r.Read(buf)
			id, tag, ok := frameIdent(buf[:n])
			if !ok {
				return "ok:garbled"
			}
			if id != opid {
				return "ok:foreign"
			}
			return "ok:" + strconv.Itoa(tag)
		}
		if te, ok := err.(thrift.TTransportException); ok && te.TypeId() == frugal.TRANSPORT_EXCEPTION_TIMED_OUT {
			return "timedOut"
		}
		return "err:" + errClass(err)
	}

	ctxA := frugal.NewFContext("")
	ctxA.SetTimeout(timeout)
	idA, _ := frugal.VerifGetOpID(ctxA)
	why := ""
	outB := "-"
	switch kind {
	case "early":
		answers[idA] = 1
	case "dup3":
		answers[idA] = 3
	case "silent":
	case "foreign":
		foreign = true
	case "reuse":
		answers[idA] = 2
	}
	if kind == "reopen" {
		// A is held back by the peer; the application closes and reopens the transport; B (after the reopen) is
		// answered; then the peer answers A on A's own reply subject: A must still complete with its response
		hb := &heldAnswer{id: idA, seen: make(chan struct{}, 1)}
		scriptMu.Lock()
		heldBack = hb
		scriptMu.Unlock()
		ctxA.SetTimeout(3 * time.Second) // A waits across the reopen: the scenario is about delivery, not about A's deadline
		doneA := make(chan string, 1)
		go func() { doneA <- do(ctxA, idA) }()
		select {
		case <-hb.seen:
		case <-time.After(2 * time.Second):
			return "A=not-sent B=- fresh=- reg=-", false, "request A did not reach the peer"
		}
		if err := tr.Close(); err != nil {
			return "A=close-failed B=- fresh=- reg=-", false, "Close failed: " + err.Error()
		}
		if err := tr.Open(); err != nil {
			return "A=reopen-failed B=- fresh=- reg=-", false, "reopen failed: " + err.Error()
		}
		ctxB := frugal.NewFContext("")
		ctxB.SetTimeout(timeout)
		idB, _ := frugal.VerifGetOpID(ctxB)
		scriptMu.Lock()
		answers[idB] = 1
		scriptMu.Unlock()
		outB = do(ctxB, idB)
		body := respFrame(idA, 7)
		peer.Publish(hb.reply, append(be32(uint32(len(body))), body...))
		peer.Flush()
		outA := <-doneA
		if outA != "ok:7" {
			why = "request A, in flight across a Close/Open of its transport and answered afterwards on its own reply subject, did not complete with its response: " + outA
		}
		if outB != "ok:7" && why == "" {
			why = "request B, issued after the reopen and answered, did not complete: " + outB
		}
		scriptMu.Lock()
		heldBack = nil
		scriptMu.Unlock()
		ctxF := frugal.NewFContext("")
		ctxF.SetTimeout(500 * time.Millisecond)
		idF, _ := frugal.VerifGetOpID(ctxF)
		scriptMu.Lock()
		answers[idF] = 1
		scriptMu.Unlock()
		fresh := do(ctxF, idF)
		if fresh != "ok:7" && why == "" {
			why = "a fresh request after the scenario was not served: " + fresh
		}
		reg := frugal.VerifNatsRegistrySize(tr)
		if reg != 0 && why == "" {
			why = fmt.Sprintf("%d registrations left behind", reg)
		}
		return fmt.Sprintf("A=%s B=%s fresh=%s reg=%d", outA, outB, fresh, reg), why == "", why
	}
	var hold *natsHold
	if kind == "reuse" {
		hold = &natsHold{opid: idA, holdAt: 2, arrived: make(chan struct{}, 1), release: make(chan struct{})}
		natsHoldMu.Lock()
		natsHolds[idA] = hold
		natsHoldMu.Unlock()
		defer func() {
			natsHoldMu.Lock()
			delete(natsHolds, idA)
			natsHoldMu.Unlock()
		}()
	}
	outA := do(ctxA, idA)
	if kind == "reuse" {
		// was the duplicate caught after its lookup (A still registered at that moment)?
		held := false
		select {
		case <-hold.arrived:
			held = true
		case <-time.After(30 * time.Millisecond):
		}
		ctxB := frugal.NewFContext("")
		ctxB.SetTimeout(timeout)
		idB, _ := frugal.VerifGetOpID(ctxB)
		doneB := make(chan string, 1)
		go func() { doneB <- do(ctxB, idB) }()
		time.Sleep(5 * time.Millisecond) // B registers
		if held {
			close(hold.release)
		}
		outB = <-doneB
		if !held {
			outB += ":window-missed"
		}
		if len(outB) >= 2 && outB[:2] == "ok" {
			why = "request B, which the peer never answered, completed successfully (" + outB + ") with a frame sent for request A"
		}
	}
	if len(outA) >= 5 && (outA[:5] == "panic" || outA == "blocked") {
		why = "NATS Request " + outA
	}
	if outA == "ok:foreign" || outA == "ok:garbled" {
		why = "request A completed with a frame that is not its own: " + outA
	}
	switch kind {
	case "early", "dup3", "reuse":
		if outA != "ok:7" && why == "" {
			why = "request A, answered in time, did not complete with its own response: " + outA
		}
	case "silent", "foreign":
		if outA != "timedOut" && why == "" {
			why = "request A, never answered, did not time out: " + outA
		}
	}
	// a fresh request is still served (inbound path not wedged)
	scriptMu.Lock()
	foreign = false
	scriptMu.Unlock()
	ctxF := frugal.NewFContext("")
	ctxF.SetTimeout(500 * time.Millisecond)
	idF, _ := frugal.VerifGetOpID(ctxF)
	scriptMu.Lock()
	answers[idF] = 1
	scriptMu.Unlock()
	fresh := do(ctxF, idF)
	if fresh != "ok:7" && why == "" {
		why = "a fresh request after the scenario was not served: " + fresh
	}
	reg := frugal.VerifNatsRegistrySize(tr)
	if reg != 0 && why == "" {
		why = fmt.Sprintf("%d registrations left behind", reg)
	}
	return fmt.Sprintf("A=%s B=%s fresh=%s reg=%d", outA, outB, fresh, reg), why == "", why
}

var natsKinds = []string{"early", "dup3", "silent", "foreign", "reuse", "reuse", "reopen"}

func runNatsReqSuite(r *Rng, n int) {
	installNatsYield()
	var wg sync.WaitGroup
	sem := make(chan struct{}, 8)
	for i := 0; i < n; i++ {
		kind := natsKinds[r.Intn(len(natsKinds))]
		to := 40 + r.Intn(80)
		wg.Add(1)
		sem <- struct{}{}
		go func() {
			defer wg.Done()
			defer func() { <-sem }()
			obs, fine, why := retryTiming(func() (string, bool, string) { return runNatsCase(kind, to) })
			line := fmt.Sprintf("nrq %s %d", kind, to)
			// the window of `reuse` is a race; a missed window is reported as such and the model follows
			Case(line+" "+boolS(len(obs) > 0 && containsStr(obs, "window-missed")), obs)
			Stat("kind:" + kind)
			Stat("outcome:" + obs)
			Sample(map[string]interface{}{"line": line, "real": obs})
			if !fine {
				OracleFail(why, map[string]interface{}{"op": "nrq", "line": line + " 0", "got": obs})
			}
			Stat("evaluations")
		}()
	}
	wg.Wait()
}

func boolS(b bool) string {
	if b {
		return "1"
	}
	return "0"
}

func containsStr(s, sub string) bool {
	for i := 0; i+len(sub) <= len(s); i++ {
		if s[i:i+len(sub)] == sub {
			return true
		}
	}
	return false
}

func init() {
	suites["c01nats"] = runNatsReqSuite
	lineOps["nrq"] = func(args []string) (string, bool) {
		installNatsYield()
		to, _ := strconv.Atoi(args[1])
		obs, fine, _ := runNatsCase(args[0], to)
		return obs, fine
	}
}
