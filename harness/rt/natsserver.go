package main

import (
	"context"
	"fmt"
	"sort"
	"strconv"
	"strings"
	"sync"
	"sync/atomic"
	"time"

	frugal "github.com/Workiva/frugal/lib/go"
	"github.com/apache/thrift/lib/go/thrift"
	natsd "github.com/nats-io/nats-server/v2/server"
	"github.com/nats-io/nats.go"
)

// ---------- C20: shutdown of the real FNatsServer on an in-process NATS broker ----------
//
// One configuration = (w workers, queue length q, a burst of requests with per-request handler
// durations, the position in the burst at which Stop() is called, the gap between publishes).
// The real server runs on its own connection to a broker shared by the process, on its own
// subject; a raw nats.go client publishes framed requests with per-request reply subjects.
//
// Events (all appended to one log under one mutex, so the log is a linearisation that respects
// happens-before):
//   E<i>  callback goroutine is about to send request i to workC   (yield point natsserver.enqueue, BEFORE the send)
//   D<i>  a worker received request i from workC                    (yield point natsserver.dequeue, AFTER the receive)
//   P<i>  the worker finished processFrame for i (reply published)  (yield point natsserver.replied)
//   SC    Stop() is about to be called        SR  Stop() returned        VR  Serve() returned
// Client-side observations (log positions of publish start / publish flushed, replies received
// per request, invocation counts of the processor) feed the oracle only.
//
// ORACLE (the property, evaluated on what the real system did; no model involved):
//   * no request is processed twice;
//   * every request whose callback had started, or whose publish had been flushed to the broker,
//     before Stop() was called is processed exactly once, finished before Serve returned, and
//     its reply reaches the client;
//   * no request published after Stop() returned is processed (nor enters the callback);
//   * each processed request gets exactly one reply carrying its own id, unprocessed ones none;
//   * Stop and Serve return nil within the watchdog, also when q < burst.

const (
	c20Watchdog   = 5 * time.Second
	c20LateExtras = 2 // requests always published after Stop returned
)

var (
	c20BrokerOnce sync.Once
	c20BrokerURL  string
	c20BrokerErr  error
	c20HookOnce   sync.Once
	c20Runs       sync.Map // run index -> *c20Run
	c20NextRun    uint64
)

func c20Broker() (string, error) {
	c20BrokerOnce.Do(func() {
		s, err := natsd.NewServer(&natsd.Options{Host: "127.0.0.1", Port: -1, NoLog: true, NoSigs: true})
		if err != nil {
			c20BrokerErr = err
			return
		}
		go s.Start()
		if !s.ReadyForConnections(10 * time.Second) {
			c20BrokerErr = fmt.Errorf("in-process nats-server not ready")
			return
		}
		c20BrokerURL = s.ClientURL()
	})
	return c20BrokerURL, c20BrokerErr
}

func c20InstallHook() {
	c20HookOnce.Do(func() {
		frugal.SetVerifYield(func(point string, id uint64) {
			v, ok := c20Runs.Load(id / 1000)
			if !ok {
				return
			}
			run := v.(*c20Run)
			i := int(id % 1000)
			tok := ""
			switch point {
			case "natsserver.enqueue":
				tok = "E"
			case "natsserver.dequeue":
				tok = "D"
			case "natsserver.replied":
				tok = "P"
			default:
				return
			}
			run.jitter(uint64(tok[0]), uint64(i), 0)
			run.log(tok + strconv.Itoa(i))
			run.jitter(uint64(tok[0]), uint64(i), 1)
		})
	})
}

type c20Cfg struct {
	w, q    int
	stopPos int   // Stop() is called once this many requests have been published (clipped to the burst)
	gapUs   int   // pause between two publishes
	delayUs int   // pause between reaching the stop position and the call of Stop()
	jitUs   int   // schedule perturbation: pseudo-random pauses up to this long at the yield points (0 = none)
	durs    []int // handler duration per request, in units of 100 µs
}

func (c c20Cfg) line() string {
	ds := make([]string, len(c.durs))
	for i, d := range c.durs {
		ds[i] = strconv.Itoa(d)
	}
	return fmt.Sprintf("nsrun %d %d %d %d %d %d %s", c.w, c.q, c.stopPos, c.gapUs, c.delayUs, c.jitUs, strings.Join(ds, ","))
}

func c20ParseCfg(args []string) (c20Cfg, bool) {
	var c c20Cfg
	if len(args) != 7 {
		return c, false
	}
	var err [6]error
	c.w, err[0] = strconv.Atoi(args[0])
	c.q, err[1] = strconv.Atoi(args[1])
	c.stopPos, err[2] = strconv.Atoi(args[2])
	c.gapUs, err[3] = strconv.Atoi(args[3])
	c.delayUs, err[4] = strconv.Atoi(args[4])
	c.jitUs, err[5] = strconv.Atoi(args[5])
	for _, e := range err {
		if e != nil {
			return c, false
		}
	}
	if c.w < 1 || c.w > 64 || c.q < 0 || c.q > 1024 || c.stopPos < 0 || c.gapUs < 0 || c.gapUs > 100000 || c.delayUs < 0 || c.delayUs > 100000 || c.jitUs < 0 || c.jitUs > 100000 {
		return c, false
	}
	for _, t := range strings.Split(args[6], ",") {
		d, e := strconv.Atoi(t)
		if e != nil || d < 0 || d > 1000 {
			return c, false
		}
		c.durs = append(c.durs, d)
	}
	if len(c.durs) == 0 || len(c.durs) > 900 {
		return c, false
	}
	return c, true
}

type c20Run struct {
	idx uint64
	cfg c20Cfg

	mu     sync.Mutex
	events []string
	pos    map[string]int // first log position of a token
	dupTok []string       // tokens logged more than once

	pubStart   []int // log length when the publish of request i started (-1: never)
	pubFlushed []int // log length when the publish of request i had been flushed to the broker
	procCount  []int // invocations of the processor per request
	procDoneAt []int // log length when the processor finished request i
	replies    []int // replies received by the client per request
	noResp     []int // "no responders" statuses the broker sent for request i
	badReply   []string
}

func (r *c20Run) log(tok string) {
	r.mu.Lock()
	if _, seen := r.pos[tok]; seen {
		r.dupTok = append(r.dupTok, tok)
	} else {
		r.pos[tok] = len(r.events)
	}
	r.events = append(r.events, tok)
	r.mu.Unlock()
}

// jitter pauses the calling goroutine for a pseudo-random time derived from the configuration
// (not from the clock): it widens the set of interleavings the real run goes through, before the
// event is logged (the action has happened, the log lags) and after it (the next action lags).
func (r *c20Run) jitter(kind, i, phase uint64) {
	if r.cfg.jitUs <= 0 {
		return
	}
	h := NewRng(kind*1000003 + i*7919 + phase*104729 + uint64(r.cfg.jitUs)*31 + uint64(len(r.cfg.durs))).U64()
	if h%3 == 0 { // a third of the points pause
		time.Sleep(time.Duration((h>>8)%uint64(r.cfg.jitUs+1)) * time.Microsecond)
	}
}

func (r *c20Run) clock() int {
	r.mu.Lock()
	defer r.mu.Unlock()
	return len(r.events)
}

// c20Proc is the hand-written FProcessor: reads the request header, records the request id it
// carries, works for the configured duration and writes a reply carrying the same id.
type c20Proc struct{ run *c20Run }

func (p *c20Proc) AddMiddleware(frugal.ServiceMiddleware)    {}
func (p *c20Proc) Annotations() map[string]map[string]string { return nil }
func (p *c20Proc) Process(in, out *frugal.FProtocol) error {
	fctx, err := in.ReadRequestHeader()
	if err != nil {
		return err
	}
	rid, _ := fctx.RequestHeader("rid")
	i, err := strconv.Atoi(rid)
	r := p.run
	if err != nil || i < 0 || i >= len(r.procCount) {
		return fmt.Errorf("c20: request without a usable rid header %q", rid)
	}
	r.mu.Lock()
	r.procCount[i]++
	d := 0
	if i < len(r.cfg.durs) {
		d = r.cfg.durs[i]
	}
	r.mu.Unlock()
	if d > 0 {
		time.Sleep(time.Duration(d) * 100 * time.Microsecond)
	}
	fctx.AddResponseHeader("rid", rid)
	if err := out.WriteResponseHeader(fctx); err != nil {
		return err
	}
	bg := context.Background()
	if err := out.WriteMessageBegin(bg, "c20", thrift.REPLY, 0); err != nil {
		return err
	}
	if err := out.WriteMessageEnd(bg); err != nil {
		return err
	}
	if err := out.Flush(bg); err != nil {
		return err
	}
	r.mu.Lock()
	r.procDoneAt[i] = len(r.events)
	r.mu.Unlock()
	return nil
}

func c20Frame(i int) []byte {
	hdr := frugal.VerifMarshalHeaders(map[string]string{"_opid": strconv.Itoa(i + 1), "rid": strconv.Itoa(i)})
	tr := thrift.NewTMemoryBuffer()
	pr := thrift.NewTBinaryProtocolConf(tr, nil)
	bg := context.Background()
	pr.WriteMessageBegin(bg, "c20", thrift.CALL, 0)
	pr.WriteMessageEnd(bg)
	pr.Flush(bg)
	return frugal.VerifPrependFrameSize(append(hdr, tr.Bytes()...))
}

type c20Result struct {
	trace  string // the server-side event log, comma separated
	end    string // observable at the end of the run
	why    string // "" or the oracle's complaint
	blockd bool   // the callback was blocked on a full queue when Stop was called
	nE     int
}

// c20Execute runs one configuration against the real server.
func c20Execute(cfg c20Cfg) c20Result {
	fail := func(s string) c20Result { return c20Result{end: "setup-failed", why: s} }
	url, err := c20Broker()
	if err != nil {
		return fail("broker: " + err.Error())
	}
	c20InstallHook()
	n := len(cfg.durs)
	total := n + c20LateExtras
	if total >= 1000 {
		return fail("burst too long for the id encoding")
	}
	stopPos := cfg.stopPos
	if stopPos > n {
		stopPos = n
	}
	run := &c20Run{idx: atomic.AddUint64(&c20NextRun, 1), cfg: cfg, pos: map[string]int{},
		pubStart: make([]int, total), pubFlushed: make([]int, total), procCount: make([]int, total),
		procDoneAt: make([]int, total), replies: make([]int, total), noResp: make([]int, total)}
	for i := range run.pubStart {
		run.pubStart[i], run.pubFlushed[i], run.procDoneAt[i] = -1, -1, -1
	}
	c20Runs.Store(run.idx, run)
	defer c20Runs.Delete(run.idx)

	sconn, err := nats.Connect(url, nats.Name("c20-server"))
	if err != nil {
		return fail("server connection: " + err.Error())
	}
	defer sconn.Close()
	cconn, err := nats.Connect(url, nats.Name("c20-client"))
	if err != nil {
		return fail("client connection: " + err.Error())
	}
	defer cconn.Close()

	reqSubject := fmt.Sprintf("c20q.%d", run.idx)
	replyPrefix := fmt.Sprintf("c20r.%d.", run.idx)
	var gotReplies int64
	if _, err := cconn.Subscribe(replyPrefix+"*", func(m *nats.Msg) {
		gid, e := strconv.ParseUint(m.Subject[len(replyPrefix):], 10, 64)
		i := int(gid % 1000)
		run.mu.Lock()
		defer run.mu.Unlock()
		if e != nil || gid/1000 != run.idx || i >= total {
			run.badReply = append(run.badReply, "reply on unexpected subject "+m.Subject)
			return
		}
		if len(m.Data) == 0 && m.Header.Get("Status") == "503" {
			run.noResp[i]++ // the broker's "no responders" status: nobody was subscribed when request i arrived
			return
		}
		run.replies[i]++
		atomic.AddInt64(&gotReplies, 1)
		if len(m.Data) < 4 {
			run.badReply = append(run.badReply, fmt.Sprintf("reply to %d is shorter than a frame", i))
			return
		}
		h, e := frugal.VerifGetHeadersFromFrame(m.Data[4:])
		if e != nil || h["rid"] != strconv.Itoa(i) || h["_opid"] != strconv.Itoa(i+1) {
			run.badReply = append(run.badReply, fmt.Sprintf("reply on the subject of request %d carries rid=%q opid=%q", i, h["rid"], h["_opid"]))
		}
	}); err != nil {
		return fail("client subscribe: " + err.Error())
	}
	if err := cconn.Flush(); err != nil {
		return fail("client flush: " + err.Error())
	}

	server := frugal.NewFNatsServerBuilder(sconn, &c20Proc{run}, binFactory, []string{reqSubject}).
		WithWorkerCount(uint(cfg.w)).WithQueueLength(uint(cfg.q)).Build()
	serveDone := make(chan error, 1)
	go func() {
		e := server.Serve()
		run.log("VR")
		serveDone <- e
	}()
	// Serve started: wait until its subscription is known to the broker
	deadline := time.Now().Add(2 * time.Second)
	for sconn.NumSubscriptions() < 1 {
		if time.Now().After(deadline) {
			return fail("Serve did not subscribe within 2s")
		}
		time.Sleep(50 * time.Microsecond)
	}
	if err := sconn.Flush(); err != nil {
		return fail("server flush: " + err.Error())
	}

	stopSignal := make(chan struct{})
	stopDone := make(chan error, 1)
	stopReturned := make(chan struct{})
	go func() {
		<-stopSignal
		if cfg.delayUs > 0 {
			time.Sleep(time.Duration(cfg.delayUs) * time.Microsecond)
		}
		run.log("SC")
		e := server.Stop()
		run.log("SR")
		close(stopReturned)
		stopDone <- e
	}()

	publish := func(i int) error {
		run.mu.Lock()
		run.pubStart[i] = len(run.events)
		run.mu.Unlock()
		if err := cconn.PublishRequest(reqSubject, replyPrefix+strconv.FormatUint(run.idx*1000+uint64(i), 10), c20Frame(i)); err != nil {
			return err
		}
		if err := cconn.Flush(); err != nil {
			return err
		}
		run.mu.Lock()
		run.pubFlushed[i] = len(run.events)
		run.mu.Unlock()
		return nil
	}
	pubDone := make(chan error, 1)
	go func() {
		if stopPos == 0 {
			close(stopSignal)
		}
		for i := 0; i < n; i++ {
			if err := publish(i); err != nil {
				pubDone <- err
				return
			}
			if i+1 == stopPos {
				close(stopSignal)
			}
			if cfg.gapUs > 0 {
				time.Sleep(time.Duration(cfg.gapUs) * time.Microsecond)
			}
		}
		select {
		case <-stopReturned:
		case <-time.After(c20Watchdog + time.Second):
			pubDone <- nil
			return
		}
		for i := n; i < total; i++ {
			if err := publish(i); err != nil {
				pubDone <- err
				return
			}
		}
		pubDone <- nil
	}()

	// watchdog on Stop and Serve
	var complaints []string
	<-stopSignalOrTimeout(stopSignal, c20Watchdog)
	watch := time.After(c20Watchdog)
	stopState, serveState := "hung", "hung"
	var stopErr, serveErr error
	for stopState == "hung" || serveState == "hung" {
		timedOut := false
		select {
		case stopErr = <-stopDone:
			stopState = "returned"
		case serveErr = <-serveDone:
			serveState = "returned"
		case <-watch:
			timedOut = true
		}
		if timedOut {
			break
		}
	}
	if stopState == "hung" {
		complaints = append(complaints, fmt.Sprintf("Stop did not return within %v", c20Watchdog))
	}
	if serveState == "hung" {
		complaints = append(complaints, fmt.Sprintf("Serve did not return within %v", c20Watchdog))
	}
	if stopErr != nil {
		complaints = append(complaints, "Stop returned "+stopErr.Error())
	}
	if serveErr != nil {
		complaints = append(complaints, "Serve returned "+serveErr.Error())
	}
	select {
	case e := <-pubDone:
		if e != nil {
			return fail("publish: " + e.Error())
		}
	case <-time.After(c20Watchdog + 2*time.Second):
		complaints = append(complaints, "publisher did not finish")
	}
	// replies are written into the server connection's buffer; give them time to reach the client
	expectReplies := func() int64 {
		run.mu.Lock()
		defer run.mu.Unlock()
		k := 0
		for _, c := range run.procCount {
			k += c
		}
		return int64(k)
	}
	sconn.Flush()
	deadline = time.Now().Add(2 * time.Second)
	for atomic.LoadInt64(&gotReplies) < expectReplies() && time.Now().Before(deadline) {
		time.Sleep(200 * time.Microsecond)
	}
	cconn.Flush()
	time.Sleep(3 * time.Millisecond) // anything processed or answered late would show up here

	// ---------- the oracle ----------
	run.mu.Lock()
	defer run.mu.Unlock()
	at := func(tok string) int {
		if p, ok := run.pos[tok]; ok {
			return p
		}
		return -1
	}
	sc, sr, vr := at("SC"), at("SR"), at("VR")
	for _, t := range run.dupTok {
		complaints = append(complaints, "event "+t+" happened more than once")
	}
	complaints = append(complaints, run.badReply...)
	nE, nD, nP, nProc, nRep := 0, 0, 0, 0, 0
	for i := 0; i < total; i++ {
		e, d, p := at("E"+strconv.Itoa(i)), at("D"+strconv.Itoa(i)), at("P"+strconv.Itoa(i))
		if e >= 0 {
			nE++
		}
		if d >= 0 {
			nD++
		}
		if p >= 0 {
			nP++
		}
		nProc += run.procCount[i]
		nRep += run.replies[i]
		if run.procCount[i] > 1 {
			complaints = append(complaints, fmt.Sprintf("request %d was processed %d times", i, run.procCount[i]))
		}
		before := sc >= 0 && ((e >= 0 && e < sc) || (run.pubFlushed[i] >= 0 && run.pubFlushed[i] <= sc))
		if before {
			if run.procCount[i] != 1 {
				complaints = append(complaints, fmt.Sprintf("request %d was received before Stop was called but processed %d times", i, run.procCount[i]))
			} else if serveState == "returned" && (p < 0 || p > vr || run.procDoneAt[i] < 0 || run.procDoneAt[i] > vr) {
				complaints = append(complaints, fmt.Sprintf("request %d was received before Stop was called but its processing had not finished when Serve returned", i))
			} else if run.replies[i] != 1 {
				complaints = append(complaints, fmt.Sprintf("request %d was received before Stop was called and processed, but the client got %d replies", i, run.replies[i]))
			}
		}
		if run.noResp[i] > 0 && (run.procCount[i] != 0 || e >= 0) {
			complaints = append(complaints, fmt.Sprintf("request %d had no responders according to the broker but was accepted by the server", i))
		}
		after := sr >= 0 && run.pubStart[i] > sr
		if after && (run.procCount[i] != 0 || e >= 0) {
			complaints = append(complaints, fmt.Sprintf("request %d was published after Stop returned and was accepted (callback %v, processed %d times)", i, e >= 0, run.procCount[i]))
		}
		if run.replies[i] != run.procCount[i] && run.procCount[i] <= 1 && !(before && run.replies[i] != 1) {
			complaints = append(complaints, fmt.Sprintf("request %d was processed %d times and got %d replies", i, run.procCount[i], run.replies[i]))
		}
		if serveState == "returned" && run.procCount[i] > 0 && (run.procDoneAt[i] < 0 || run.procDoneAt[i] > vr) && !before {
			complaints = append(complaints, fmt.Sprintf("request %d was still being processed when Serve returned", i))
		}
	}
	blocked := false
	if sc >= 0 {
		eb, db := 0, 0
		for _, t := range run.events[:sc] {
			switch t[0] {
			case 'E':
				eb++
			case 'D':
				db++
			}
		}
		blocked = eb-db > cfg.q
	}
	sort.Strings(complaints)
	res := c20Result{trace: strings.Join(run.events, ","), blockd: blocked, nE: nE,
		end: fmt.Sprintf("serve:%s,stop:%s,arrived:%d,processed:%d,replied:%d", serveState, stopState, nE, nProc, nRep)}
	if len(complaints) > 0 {
		res.why = complaints[0]
		if len(complaints) > 1 {
			res.why += fmt.Sprintf(" (+%d more)", len(complaints)-1)
		}
	}
	_, _ = nD, nP
	return res
}

// stopSignalOrTimeout returns a channel that is closed when Stop was triggered (or after d).
func stopSignalOrTimeout(sig <-chan struct{}, d time.Duration) <-chan struct{} {
	out := make(chan struct{})
	go func() {
		select {
		case <-sig:
		case <-time.After(d):
		}
		close(out)
	}()
	return out
}

func c20GenCfg(r *Rng) c20Cfg {
	c := c20Cfg{w: 1 + r.Intn(4), q: r.Intn(5)}
	n := 1 + r.Intn(40)
	if r.Chance(35) { // small bursts exercise the start and the end of the protocol more often
		n = 1 + r.Intn(6)
	}
	maxd := r.Pick(0, 5, 20, 50, 100) // handler durations 0 .. 10 ms
	for i := 0; i < n; i++ {
		c.durs = append(c.durs, r.Intn(maxd+1))
	}
	c.stopPos = r.Intn(n + 1)
	c.gapUs = r.Pick(0, 0, 0, 50, 300, 1500)
	c.delayUs = r.Pick(0, 0, 20, 200, 1000, 4000)
	c.jitUs = r.Pick(0, 0, 0, 100, 1000, 3000)
	return c
}

func c20ClassWhy(why string) string {
	// the class of a complaint without request numbers, so that shrinking keeps the same failure
	out := make([]rune, 0, len(why))
	for _, ch := range why {
		if ch >= '0' && ch <= '9' {
			continue
		}
		out = append(out, ch)
	}
	s := string(out)
	if i := strings.Index(s, " (+"); i >= 0 {
		s = s[:i]
	}
	return s
}

func runC20Suite(r *Rng, n int) {
	var wg sync.WaitGroup
	sem := make(chan struct{}, 8)
	for k := 0; k < n; k++ {
		cfg := c20GenCfg(r)
		wg.Add(1)
		sem <- struct{}{}
		go func() {
			defer wg.Done()
			defer func() { <-sem }()
			res := c20Execute(cfg)
			line := fmt.Sprintf("nstrace %d %d %s", cfg.w, cfg.q, orDot(res.trace))
			real := "ok end=" + res.end
			Case(line, real)
			Stat(fmt.Sprintf("w:%d", cfg.w))
			Stat(fmt.Sprintf("q:%d", cfg.q))
			Stat("burst:" + bucket(len(cfg.durs)))
			if cfg.q < len(cfg.durs) {
				Stat("queue-shorter-than-burst")
			}
			if res.blockd {
				Stat("callback-blocked-on-full-queue-at-stop")
			}
			switch {
			case cfg.stopPos == 0:
				Stat("stop:before-burst")
			case cfg.stopPos >= len(cfg.durs):
				Stat("stop:after-burst")
			default:
				Stat("stop:inside-burst")
			}
			if res.nE < len(cfg.durs) {
				Stat("some-requests-not-accepted")
			}
			Sample(map[string]interface{}{"config": cfg.line(), "real": real, "trace": clip(res.trace)})
			if res.why != "" {
				OracleFail(c20ClassWhy(res.why), map[string]interface{}{"op": "nsrun", "line": cfg.line(), "got": real, "detail": res.why, "trace": clip(res.trace)})
			}
			Stat("evaluations")
		}()
	}
	wg.Wait()
}

func orDot(s string) string {
	if s == "" {
		return "."
	}
	return s
}

func bucket(n int) string {
	switch {
	case n <= 2:
		return "1-2"
	case n <= 8:
		return "3-8"
	case n <= 20:
		return "9-20"
	}
	return "21-40"
}

// c20Projection computes the end observable from a recorded trace alone (used when a trace line
// is replayed: the recorded run is what the real system did).
func c20Projection(trace string) string {
	seen := map[string]bool{}
	nE, nD, nP := 0, 0, 0
	if trace != "." {
		for _, t := range strings.Split(trace, ",") {
			if t == "" || seen[t] {
				continue
			}
			seen[t] = true
			switch t[0] {
			case 'E':
				nE++
			case 'D':
				nD++
			case 'P':
				nP++
			}
		}
	}
	st := func(tok string) string {
		if seen[tok] {
			return "returned"
		}
		return "hung"
	}
	return fmt.Sprintf("serve:%s,stop:%s,arrived:%d,processed:%d,replied:%d", st("VR"), st("SR"), nE, nD, nP)
}

func init() {
	suites["c20"] = runC20Suite
	// nsrun: a configuration; executed (up to 3 times, timing varies) against the real server.
	lineOps["nsrun"] = func(args []string) (string, bool) {
		cfg, ok := c20ParseCfg(args)
		if !ok {
			return "bad-args", true
		}
		for try := 0; try < 3; try++ {
			res := c20Execute(cfg)
			if res.why != "" {
				OracleFail(c20ClassWhy(res.why), map[string]interface{}{"op": "nsrun", "line": cfg.line(), "got": res.end, "detail": res.why, "trace": clip(res.trace)})
				return "violated " + strings.Join(strings.Split(res.end, ",")[:2], ","), true // the failure was reported above, with its class
			}
		}
		return "ok serve:returned,stop:returned", true
	}
	// nstrace: a recorded trace; its observable is a projection of the recording, and the real
	// server is exercised again with the same (w, q) and a burst of the same length.
	lineOps["nstrace"] = func(args []string) (string, bool) {
		if len(args) != 3 {
			return "bad-args", true
		}
		w, e1 := strconv.Atoi(args[0])
		q, e2 := strconv.Atoi(args[1])
		if e1 != nil || e2 != nil || w < 1 || w > 64 || q < 0 || q > 1024 {
			return "bad-args", true
		}
		proj := c20Projection(args[2])
		n := 1 + strings.Count(args[2], "E")
		if n > 60 {
			n = 60
		}
		cfg := c20Cfg{w: w, q: q, stopPos: n / 2, gapUs: 0}
		for i := 0; i < n; i++ {
			cfg.durs = append(cfg.durs, (i*7)%20)
		}
		res := c20Execute(cfg)
		if res.why != "" {
			OracleFail(c20ClassWhy(res.why), map[string]interface{}{"op": "nsrun", "line": cfg.line(), "got": res.end, "detail": res.why})
		}
		return "ok end=" + proj, true
	}
}
