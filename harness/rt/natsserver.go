package main

import (
	"net"
	"reflect"
	"bytes"
	"os"
	"os/exec"
	"fmt"
	"sort"
	"strconv"
	"strings"
	"sync"
	"sync/atomic"
	"time"

	frugal "github.com/Workiva/frugal/lib/go"
	natsd "github.com/nats-io/nats-server/v2/server"
	"github.com/nats-io/nats.go"
)

// ---------- C20: shutdown of the real FNatsServer on an in-process NATS broker ----------
//
// One configuration = (w workers, queue length q, a burst of requests with per-request handler
// durations, the position in the burst at which Stop() is called, the gap between publishes).
// The real server runs on its own connection to a broker shared by the process, on its own
// subject; a raw nats.go client publishes framed requests with per-request reply subjects.
//
// Events (all appended to one log under one mutex, so the log is a linearisation that respects
// happens-before):
//   E<i>  callback goroutine is about to send request i to workC   (yield point natsserver.enqueue, BEFORE the send)
//   D<i>  a worker received request i from workC                    (yield point natsserver.dequeue, AFTER the receive)
//   P<i>  the worker finished processFrame for i (reply published)  (yield point natsserver.replied)
//   SC    Stop() is about to be called        SR  Stop() returned        VR  Serve() returned
// Client-side observations (log positions of publish start / publish flushed, replies received
// per request, invocation counts of the processor) feed the oracle only.
//
// ORACLE (the property, evaluated on what the real system did; no model involved):
//   * no request is processed twice;
//   * every request whose callback had started, or whose publish had been flushed to the broker,
//     before Stop() was called is processed exactly once, finished before Serve returned, and
//     its reply reaches the client;
//   * no request published after Stop() returned is processed (nor enters the callback);
//   * each processed request gets exactly one reply carrying its own id, unprocessed ones none;
//   * Stop and Serve return nil within the watchdog, also when q < burst.

const (
	c20Watchdog   = 30 * time.Second // only classifies a hang; generous, the machine may be heavily loaded
	c20StallFor   = 10600 * time.Millisecond // longer than nats.go's 10 s flush timeout
	c20LateExtras = 2 // requests always published after Stop returned
)

var (
	c20BrokerOnce sync.Once
	c20BrokerURL  string
	c20BrokerErr  error
	c20HookOnce   sync.Once
	c20Runs       sync.Map // run index -> *c20Run
	c20Servers    sync.Map // address of the fNatsServer -> *c20Run
	c20DrainSteps = map[string]int{"natsserver.drain.begin": 1, "natsserver.drain.unsubscribed": 2,
		"natsserver.drain.flushed": 3, "natsserver.drain.barrier": 4, "natsserver.serve.drained": 5}
	c20NextRun    uint64
)

func c20Broker() (string, error) {
	c20BrokerOnce.Do(func() {
		s, err := natsd.NewServer(&natsd.Options{Host: "127.0.0.1", Port: -1, NoLog: true, NoSigs: true})
		if err != nil {
			c20BrokerErr = err
			return
		}
		go s.Start()
		if !s.ReadyForConnections(60 * time.Second) {
			c20BrokerErr = fmt.Errorf("in-process nats-server not ready")
			return
		}
		c20BrokerURL = s.ClientURL()
	})
	return c20BrokerURL, c20BrokerErr
}

func c20InstallHook() {
	c20HookOnce.Do(func() {
		frugal.SetVerifYield(func(point string, id uint64) {
			if step, isDrain := c20DrainSteps[point]; isDrain {
				if v, ok := c20Servers.Load(id); ok {
					run := v.(*c20Run)
					if run.cfg.faultStep() == step && run.inject != nil {
						run.inject(point)
					}
				}
				return
			}
			v, ok := c20Runs.Load(id / 1000)
			if !ok {
				return
			}
			run := v.(*c20Run)
			i := int(id % 1000)
			tok := ""
			switch point {
			case "natsserver.enqueue":
				tok = "E"
			case "natsserver.dequeue":
				tok = "D"
			case "natsserver.replied":
				tok = "P"
			case "natsserver.dropped":
				tok = "X"
			default:
				return
			}
			run.jitter(uint64(tok[0]), uint64(i), 0)
			run.log(tok + strconv.Itoa(i))
			run.jitter(uint64(tok[0]), uint64(i), 1)
		})
	})
}

type c20Cfg struct {
	w, q    int
	stopPos int   // Stop() is called once this many requests have been published (clipped to the burst)
	gapUs   int   // pause between two publishes
	delayUs int   // pause between reaching the stop position and the call of Stop()
	jitUs   int   // schedule perturbation: pseudo-random pauses up to this long at the yield points (0 = none)
	pub2    int   // requests a SECOND client connection streams (unflushed) across the Stop() call (0 = none)
	fault   string // "-" or <kind><step>: kind c = the application closes the server's connection, b = the broker
	//                goes away (the connection gives up after two quick reconnect attempts), s = the link to the
	//                broker stalls for longer than the 10 s flush timeout, then recovers; step 0 = just before
	//                Stop() is called, 1 = before sub.Drain, 2 = before conn.Flush, 3 = before conn.Barrier,
	//                4 = before the wait on the barrier, 5 = after Stop has its result, before close(workC),
	//                6 = from another goroutine a pseudo-random 0..400 µs after Stop() was called
	opts    string // builder options: high watermark in ms or "d" (builder default, 5 s), then optional letters
	//                g = WithQueueGroup, h = WithRequestReceived/Started/FinishedEventHandler (own handlers)
	subj    string // subjects the server is built with, and how the requests are spread over them: <k><p>, k in
	//                1..4, p: s = round robin, f = all on the first, l = all on the last, u = three quarters on the
	//                first and every fourth request on the last
	durs    []int  // handler duration per request, in units of 100 µs
	kinds   []byte // what the handler does per request: r small reply (default), x declared exception,
	//                e undeclared error, u / a / o reply one byte under / exactly at / one byte over the NATS limit
}

// watermark: the WithHighWatermark argument, ok = false for the builder's default.
func (c c20Cfg) watermark() (time.Duration, bool) {
	o := strings.TrimRight(c.opts, "gh")
	if o == "" || o == "d" {
		return 0, false
	}
	ms, _ := strconv.Atoi(o)
	return time.Duration(ms) * time.Millisecond, true
}
func (c c20Cfg) optFlag(f byte) bool { return strings.IndexByte(strings.TrimLeft(c.opts, "d0123456789"), f) >= 0 }

func c20OptsOK(o string) bool {
	rest := strings.TrimRight(o, "gh")
	if rest != "d" {
		n, err := strconv.Atoi(rest)
		if err != nil || n < 0 || n > 600000 || (len(rest) > 1 && rest[0] == '0') || rest[0] == '+' || rest[0] == '-' {
			return false
		}
	}
	fl := o[len(rest):]
	return fl == "" || fl == "g" || fl == "h" || fl == "gh"
}

func (c c20Cfg) subjects() int {
	if len(c.subj) == 2 {
		return int(c.subj[0] - '0')
	}
	return 1
}

// subjectOf: the subject (index) request i is published on.
func (c c20Cfg) subjectOf(i int) int {
	k := c.subjects()
	if k <= 1 || len(c.subj) != 2 {
		return 0
	}
	switch c.subj[1] {
	case 'f':
		return 0
	case 'l':
		return k - 1
	case 'u':
		if i%4 == 3 {
			return k - 1
		}
		return 0
	}
	return i % k
}

func c20SubjOK(x string) bool {
	return len(x) == 2 && x[0] >= '1' && x[0] <= '4' && strings.IndexByte("sflu", x[1]) >= 0
}

func (c c20Cfg) faultKind() byte {
	if len(c.fault) == 2 {
		return c.fault[0]
	}
	return 0
}
func (c c20Cfg) faultStep() int {
	if len(c.fault) == 2 {
		return int(c.fault[1] - '0')
	}
	return -1
}
func (c c20Cfg) kindOf(i int) byte {
	if i < len(c.kinds) && c.kinds[i] != 0 {
		return c.kinds[i]
	}
	return 'r'
}

func (c c20Cfg) line() string {
	ds := make([]string, len(c.durs))
	for i, d := range c.durs {
		ds[i] = strconv.Itoa(d)
		if k := c.kindOf(i); k != 'r' {
			ds[i] += string(k)
		}
	}
	f := c.fault
	if f == "" {
		f = "-"
	}
	o := c.opts
	if o == "" {
		o = "d"
	}
	sj := c.subj
	if sj == "" {
		sj = "1s"
	}
	return fmt.Sprintf("nsrun %d %d %d %d %d %d %d %s %s %s %s", c.w, c.q, c.stopPos, c.gapUs, c.delayUs, c.jitUs, c.pub2, f, o, sj, strings.Join(ds, ","))
}

func c20ParseCfg(args []string) (c20Cfg, bool) {
	var c c20Cfg
	if len(args) != 11 {
		return c, false
	}
	var err [7]error
	c.w, err[0] = strconv.Atoi(args[0])
	c.q, err[1] = strconv.Atoi(args[1])
	c.stopPos, err[2] = strconv.Atoi(args[2])
	c.gapUs, err[3] = strconv.Atoi(args[3])
	c.delayUs, err[4] = strconv.Atoi(args[4])
	c.jitUs, err[5] = strconv.Atoi(args[5])
	c.pub2, err[6] = strconv.Atoi(args[6])
	for _, e := range err {
		if e != nil {
			return c, false
		}
	}
	if c.w < 1 || c.w > 64 || c.q < 0 || c.q > 1024 || c.stopPos < 0 || c.gapUs < 0 || c.gapUs > 100000 || c.delayUs < 0 || c.delayUs > 100000 || c.jitUs < 0 || c.jitUs > 100000 || c.pub2 < 0 || c.pub2 > 500 {
		return c, false
	}
	c.fault = args[7]
	if c.fault != "-" && !(len(c.fault) == 2 && strings.IndexByte("cbs", c.fault[0]) >= 0 && c.fault[1] >= '0' && c.fault[1] <= '6') {
		return c, false
	}
	c.opts = args[8]
	if !c20OptsOK(c.opts) {
		return c, false
	}
	c.subj = args[9]
	if !c20SubjOK(c.subj) {
		return c, false
	}
	for _, t := range strings.Split(args[10], ",") {
		k := byte('r')
		if n := len(t); n > 0 && strings.IndexByte("xeuao", t[n-1]) >= 0 {
			k, t = t[n-1], t[:n-1]
		}
		d, e := strconv.Atoi(t)
		if e != nil || d < 0 || d > 20000 || (len(t) > 0 && (t[0] == '+' || t[0] == '-')) {
			return c, false
		}
		c.durs = append(c.durs, d)
		c.kinds = append(c.kinds, k)
	}
	if len(c.durs) == 0 || len(c.durs) > 400 {
		return c, false
	}
	return c, true
}

type c20Run struct {
	idx uint64
	cfg c20Cfg

	mu     sync.Mutex
	events []string
	pos    map[string]int // first log position of a token
	dupTok []string       // tokens logged more than once

	pubStart   []int // log length when the publish of request i started (-1: never)
	pubFlushed []int // log length when the publish of request i had been flushed to the broker
	procCount  []int // invocations of the processor per request
	procDoneAt []int // log length when the processor finished request i
	replies    []int // replies received by the client per request
	noResp     []int // "no responders" statuses the broker sent for request i
	badReply   []string

	serverID uint64         // address of the fNatsServer (id of the drain yield points)
	inject   func(why string) // performs the configured fault (once)
}

// c20Work: what the handler asks of the run
func (r *c20Run) begin(i int) (byte, time.Duration, bool) {
	r.mu.Lock()
	defer r.mu.Unlock()
	if i < 0 || i >= len(r.procCount) {
		return 0, 0, false
	}
	r.procCount[i]++
	d := 0
	if i < len(r.cfg.durs) {
		d = r.cfg.durs[i]
	}
	return r.cfg.kindOf(i), time.Duration(d) * 100 * time.Microsecond, true
}
func (r *c20Run) end(i int) {
	r.mu.Lock()
	r.procDoneAt[i] = len(r.events)
	r.mu.Unlock()
}
func (r *c20Run) bigLen(rid, opid string, kind byte) int { return c20BigLen(rid, opid, kind) }

func (r *c20Run) log(tok string) {
	r.mu.Lock()
	if _, seen := r.pos[tok]; seen {
		r.dupTok = append(r.dupTok, tok)
	} else {
		r.pos[tok] = len(r.events)
	}
	r.events = append(r.events, tok)
	r.mu.Unlock()
}

// jitter pauses the calling goroutine for a pseudo-random time derived from the configuration
// (not from the clock): it widens the set of interleavings the real run goes through, before the
// event is logged (the action has happened, the log lags) and after it (the next action lags).
func (r *c20Run) jitter(kind, i, phase uint64) {
	if r.cfg.jitUs <= 0 {
		return
	}
	h := NewRng(kind*1000003 + i*7919 + phase*104729 + uint64(r.cfg.jitUs)*31 + uint64(len(r.cfg.durs))).U64()
	if h%3 == 0 { // a third of the points pause
		time.Sleep(time.Duration((h>>8)%uint64(r.cfg.jitUs+1)) * time.Microsecond)
	}
}

func (r *c20Run) clock() int {
	r.mu.Lock()
	defer r.mu.Unlock()
	return len(r.events)
}

type c20Result struct {
	trace  string // the server-side event log, comma separated
	end    string // observable at the end of the run
	why    string // "" or the oracle's complaint
	blockd bool   // the callback was blocked on a full queue when Stop was called
	nE     int
}

// c20Execute runs one configuration against the real server.
func c20Execute(cfg c20Cfg) c20Result {
	fail := func(s string) c20Result { return c20Result{end: "setup-failed", why: s} }
	url, err := c20Broker()
	if err != nil {
		return fail("broker: " + err.Error())
	}
	c20InstallHook()
	n := len(cfg.durs)
	total := n + c20LateExtras + cfg.pub2
	if total >= 1000 {
		return fail("burst too long for the id encoding")
	}
	// the watchdog allows for the work the configuration asks for: all handler time, sequentially
	wd := c20Watchdog
	for _, d := range cfg.durs {
		wd += 3 * time.Duration(d) * 100 * time.Microsecond
	}
	fk := cfg.faultKind()
	if fk == 's' {
		wd += c20StallFor + 2*time.Second // conn.Flush gives up after 10 s
	}
	// broker and link of the server's connection
	serverURL := url
	shutdownOwnBroker := func() {}
	if fk == 'b' { // a broker of its own, so that it can go away
		b, e := natsd.NewServer(&natsd.Options{Host: "127.0.0.1", Port: -1, NoLog: true, NoSigs: true})
		if e != nil {
			return fail("own broker: " + e.Error())
		}
		go b.Start()
		if !b.ReadyForConnections(60 * time.Second) {
			return fail("own broker not ready")
		}
		var once sync.Once
		shutdownOwnBroker = func() { once.Do(b.Shutdown) } // nats-server does not like two concurrent Shutdown calls
		defer shutdownOwnBroker()
		url, serverURL = b.ClientURL(), b.ClientURL()
	}
	var relay *c20Relay
	if fk == 's' {
		r, e := newC20Relay(strings.TrimPrefix(url, "nats://"))
		if e != nil {
			return fail("relay: " + e.Error())
		}
		defer r.close()
		relay, serverURL = r, r.url()
	}
	stopPos := cfg.stopPos
	if stopPos > n {
		stopPos = n
	}
	run := &c20Run{idx: atomic.AddUint64(&c20NextRun, 1), cfg: cfg, pos: map[string]int{},
		pubStart: make([]int, total), pubFlushed: make([]int, total), procCount: make([]int, total),
		procDoneAt: make([]int, total), replies: make([]int, total), noResp: make([]int, total)}
	for i := range run.pubStart {
		run.pubStart[i], run.pubFlushed[i], run.procDoneAt[i] = -1, -1, -1
	}
	c20Runs.Store(run.idx, run)
	defer c20Runs.Delete(run.idx)

	sopts := []nats.Option{nats.Name("c20-server"), nats.Timeout(60 * time.Second)}
	var faulted int32
	if fk == 'b' {
		// the broker is gone for good: two quick reconnect attempts, and nobody else's broker that happens
		// to get the freed port may answer them
		sopts = append(sopts, nats.MaxReconnects(2), nats.ReconnectWait(5*time.Millisecond),
			nats.SetCustomDialer(&c20Dialer{gone: &faulted}))
	}
	sconn, err := nats.Connect(serverURL, sopts...)
	if err != nil {
		return fail("server connection: " + err.Error())
	}
	defer sconn.Close()
	copts := []nats.Option{nats.Name("c20-client"), nats.Timeout(60 * time.Second)}
	if fk == 'b' { // the clients share the broker that goes away: they must fail fast then
		copts = append(copts, nats.NoReconnect())
	}
	cconn, err := nats.Connect(url, copts...)
	if err != nil {
		return fail("client connection: " + err.Error())
	}
	defer cconn.Close()
	var c2conn *nats.Conn
	if cfg.pub2 > 0 {
		if c2conn, err = nats.Connect(url, copts...); err != nil {
			return fail("second client connection: " + err.Error())
		}
		defer c2conn.Close()
	}

	nSubj := cfg.subjects()
	reqSubjects := make([]string, nSubj)
	for j := range reqSubjects {
		reqSubjects[j] = fmt.Sprintf("c20q.%d.%d", run.idx, j)
	}
	subjectFor := func(i int) string { return reqSubjects[cfg.subjectOf(i)] }
	replyPrefix := fmt.Sprintf("c20r.%d.", run.idx)
	var gotReplies int64
	if _, err := cconn.Subscribe(replyPrefix+"*", func(m *nats.Msg) {
		gid, e := strconv.ParseUint(m.Subject[len(replyPrefix):], 10, 64)
		i := int(gid % 1000)
		run.mu.Lock()
		defer run.mu.Unlock()
		if e != nil || gid/1000 != run.idx || i >= total {
			run.badReply = append(run.badReply, "reply on unexpected subject "+m.Subject)
			return
		}
		if len(m.Data) == 0 && m.Header.Get("Status") == "503" {
			run.noResp[i]++ // the broker's "no responders" status: nobody was subscribed when request i arrived
			return
		}
		run.replies[i]++
		atomic.AddInt64(&gotReplies, 1)
		rp, e := c20ParseReply(m.Data)
		if e != nil {
			run.badReply = append(run.badReply, fmt.Sprintf("reply to %d does not parse: %v", i, e))
			return
		}
		kind := cfg.kindOf(i)
		// an EXCEPTION written by sendError carries the response headers as they were before the handler ran
		if rp.opid != c20OpID(i) || (rp.rid != strconv.Itoa(i) && !(rp.rid == "" && rp.exception && kind != 'o')) {
			run.badReply = append(run.badReply, fmt.Sprintf("reply on the subject of request %d carries rid=%q opid=%q", i, rp.rid, rp.opid))
		}
		if want := c20ExpectedClass(kind); rp.class() != want {
			run.badReply = append(run.badReply, fmt.Sprintf("request %d of kind %c was answered with %s, expected %s", i, kind, rp.class(), want))
		}
		if rp.frameLen > c20NatsLimit {
			run.badReply = append(run.badReply, fmt.Sprintf("reply to %d is %d bytes, over the NATS limit", i, rp.frameLen))
		}
		if (kind == 'a' && rp.frameLen != c20NatsLimit) || (kind == 'u' && rp.frameLen != c20NatsLimit-1) {
			run.badReply = append(run.badReply, fmt.Sprintf("harness: reply to %d of kind %c is %d bytes (calibration off)", i, kind, rp.frameLen))
		}
	}); err != nil {
		return fail("client subscribe: " + err.Error())
	}
	if err := cconn.Flush(); err != nil {
		return fail("client flush: " + err.Error())
	}

	builder := frugal.NewFNatsServerBuilder(sconn, newC20Processor(run), binFactory, reqSubjects).
		WithWorkerCount(uint(cfg.w)).WithQueueLength(uint(cfg.q))
	if wm, set := cfg.watermark(); set {
		builder = builder.WithHighWatermark(wm)
	}
	if cfg.optFlag('g') {
		builder = builder.WithQueueGroup(fmt.Sprintf("c20g%d", run.idx))
	}
	var evReceived, evStarted, evFinished, evBad int64
	if cfg.optFlag('h') {
		builder = builder.WithRequestReceivedEventHandler(func(p map[interface{}]interface{}) {
			atomic.AddInt64(&evReceived, 1)
			p["c20"] = run.idx
		}).WithRequestStartedEventHandler(func(p map[interface{}]interface{}) {
			atomic.AddInt64(&evStarted, 1)
			if p["c20"] != run.idx {
				atomic.AddInt64(&evBad, 1)
			}
		}).WithRequestFinishedEventHandler(func(p map[interface{}]interface{}) {
			atomic.AddInt64(&evFinished, 1)
			if p["c20"] != run.idx {
				atomic.AddInt64(&evBad, 1)
			}
		})
	}
	server := builder.Build()
	run.serverID = uint64(reflect.ValueOf(server).Pointer())
	var injectOnce sync.Once
	if fk != 0 {
		run.inject = func(where string) {
			injectOnce.Do(func() {
				run.log("FC")
				atomic.StoreInt32(&faulted, 1)
				switch fk {
				case 'c':
					sconn.Close()
				case 'b':
					shutdownOwnBroker()
				case 's':
					relay.pause()
					go func() { time.Sleep(c20StallFor); relay.resume() }()
				}
			})
		}
	}
	c20Servers.Store(run.serverID, run)
	defer c20Servers.Delete(run.serverID)
	serveDone := make(chan error, 1)
	go func() {
		e := server.Serve()
		run.log("VR")
		serveDone <- e
	}()
	// Serve started: wait until its subscription is known to the broker
	deadline := time.Now().Add(60 * time.Second)
	for sconn.NumSubscriptions() < nSubj {
		if time.Now().After(deadline) {
			return fail("Serve did not subscribe within 60s")
		}
		time.Sleep(50 * time.Microsecond)
	}
	if err := sconn.Flush(); err != nil {
		return fail("server flush: " + err.Error())
	}

	stopSignal := make(chan struct{})
	asyncInjected := make(chan struct{}) // closed once the asynchronous fault (step 6) has been injected
	if cfg.faultStep() != 6 {
		close(asyncInjected)
	}
	stopDone := make(chan error, 1)
	stopReturned := make(chan struct{})
	go func() {
		<-stopSignal
		if cfg.delayUs > 0 {
			time.Sleep(time.Duration(cfg.delayUs) * time.Microsecond)
		}
		if cfg.faultStep() == 0 {
			run.inject("before Stop")
		}
		run.log("SC")
		if cfg.faultStep() == 6 {
			go func() {
				defer close(asyncInjected)
				h := NewRng(uint64(cfg.delayUs)*31 + uint64(n)*7 + uint64(cfg.q)).U64()
				time.Sleep(time.Duration(h%400) * time.Microsecond)
				run.inject("during Stop")
			}()
		}
		e := server.Stop()
		if e != nil {
			run.log("SRE")
		} else {
			run.log("SR")
		}
		close(stopReturned)
		stopDone <- e
	}()

	publish := func(i int) error {
		run.mu.Lock()
		run.pubStart[i] = len(run.events)
		run.mu.Unlock()
		if err := cconn.PublishRequest(subjectFor(i), replyPrefix+strconv.FormatUint(run.idx*1000+uint64(i), 10), c20Frame(i)); err != nil {
			return err
		}
		if err := cconn.FlushTimeout(60 * time.Second); err != nil {
			return err
		}
		run.mu.Lock()
		run.pubFlushed[i] = len(run.events)
		run.mu.Unlock()
		return nil
	}
	// the second connection streams requests WITHOUT waiting for the broker, from just before
	// Stop() is called until it has returned: requests are on the wire while Serve unsubscribes,
	// flushes and registers its barrier. Whether one of them is accepted is the broker's business;
	// the oracle only uses what is known (callback started / flushed before Stop, published after).
	pub2Done := make(chan error, 1)
	go func() {
		if cfg.pub2 == 0 {
			pub2Done <- nil
			return
		}
		<-stopSignal
		if lead := cfg.delayUs - 300; lead > 0 {
			time.Sleep(time.Duration(lead) * time.Microsecond)
		}
		first := n + c20LateExtras
		batch := first
		afterStop := 0
		for i := first; i < total; i++ {
			select {
			case <-stopReturned:
				afterStop++ // keep a few going after Stop returned as well, then stop streaming
			default:
			}
			if afterStop > 8 {
				break
			}
			run.mu.Lock()
			run.pubStart[i] = len(run.events)
			run.mu.Unlock()
			if err := c2conn.PublishRequest(subjectFor(i), replyPrefix+strconv.FormatUint(run.idx*1000+uint64(i), 10), c20Frame(i)); err != nil {
				pub2Done <- err
				return
			}
			if (i-first)%16 == 15 { // now and then learn what the broker has for sure
				if err := c2conn.FlushTimeout(60 * time.Second); err != nil {
					pub2Done <- err
					return
				}
				run.mu.Lock()
				for k := batch; k <= i; k++ {
					run.pubFlushed[k] = len(run.events)
				}
				run.mu.Unlock()
				batch = i + 1
			} else if cfg.pub2%3 == 1 {
				time.Sleep(10 * time.Microsecond)
			}
		}
		pub2Done <- c2conn.FlushTimeout(60 * time.Second)
	}()

	pubDone := make(chan error, 1)
	go func() {
		if stopPos == 0 {
			close(stopSignal)
		}
		for i := 0; i < n; i++ {
			if err := publish(i); err != nil {
				pubDone <- err
				return
			}
			if i+1 == stopPos {
				close(stopSignal)
			}
			if cfg.gapUs > 0 {
				time.Sleep(time.Duration(cfg.gapUs) * time.Microsecond)
			}
		}
		select {
		case <-stopReturned:
		case <-time.After(wd + time.Second):
			pubDone <- nil
			return
		}
		for i := n; i < n+c20LateExtras; i++ {
			if err := publish(i); err != nil {
				pubDone <- err
				return
			}
		}
		pubDone <- nil
	}()

	// watchdog on Stop and Serve
	var complaints []string
	<-stopSignalOrTimeout(stopSignal, 2*c20Watchdog)
	watch := time.After(wd)
	stopState, serveState := "hung", "hung"
	var stopErr, serveErr error
	for stopState == "hung" || serveState == "hung" {
		timedOut := false
		select {
		case stopErr = <-stopDone:
			stopState = "returned"
		case serveErr = <-serveDone:
			serveState = "returned"
		case <-watch:
			timedOut = true
		}
		if timedOut {
			break
		}
	}
	if stopState == "hung" {
		complaints = append(complaints, fmt.Sprintf("Stop did not return within %v", wd))
	}
	if serveState == "hung" {
		complaints = append(complaints, fmt.Sprintf("Serve did not return within %v", wd))
	}
	if stopState == "returned" { // (Stop was called, so the injector exists)
		<-asyncInjected
	}
	isFaulted := atomic.LoadInt32(&faulted) == 1
	if stopErr != nil && !(isFaulted && cfg.faultStep() != 5) {
		// the drain can only fail when the connection was hit before or while it ran
		complaints = append(complaints, "Stop returned "+stopErr.Error())
	}
	if serveErr != nil {
		complaints = append(complaints, "Serve returned "+serveErr.Error())
	}
	select {
	case e := <-pubDone:
		if e != nil && !(fk == 'b' && atomic.LoadInt32(&faulted) == 1) {
			return fail("publish: " + e.Error())
		}
	case <-time.After(wd + 2*time.Second):
		complaints = append(complaints, "publisher did not finish")
	}
	select {
	case e := <-pub2Done:
		if e != nil && !(fk == 'b' && atomic.LoadInt32(&faulted) == 1) {
			return fail("second publisher: " + e.Error())
		}
	case <-time.After(wd + 2*time.Second):
		complaints = append(complaints, "second publisher did not finish")
	}
	// replies are written into the server connection's buffer; give them time to reach the client
	expectReplies := func() int64 {
		run.mu.Lock()
		defer run.mu.Unlock()
		k := 0
		for _, c := range run.procCount {
			k += c
		}
		return int64(k)
	}
	isFaulted = atomic.LoadInt32(&faulted) == 1 // (an asynchronous fault may have come after Stop and Serve returned)
	connLost := isFaulted && (fk == 'c' || fk == 'b') // replies cannot be demanded of a connection that is gone
	if !connLost {
		sconn.FlushTimeout(c20StallFor + 2*time.Second)
		deadline = time.Now().Add(20 * time.Second)
		if fk == 's' {
			deadline = time.Now().Add(c20StallFor + 20*time.Second)
		}
		for atomic.LoadInt64(&gotReplies) < expectReplies() && time.Now().Before(deadline) {
			time.Sleep(200 * time.Microsecond)
		}
		cconn.Flush()
	}
	time.Sleep(3 * time.Millisecond) // anything processed or answered late would show up here

	// ---------- the oracle ----------
	run.mu.Lock()
	defer run.mu.Unlock()
	at := func(tok string) int {
		if p, ok := run.pos[tok]; ok {
			return p
		}
		return -1
	}
	sc, sr, vr, fp := at("SC"), at("SR"), at("VR"), at("FC")
	stopOK := sr >= 0 // Stop returned nil: the drain succeeded
	if sr < 0 {
		sr = at("SRE")
	}
	for _, t := range run.dupTok {
		complaints = append(complaints, "event "+t+" happened more than once")
	}
	complaints = append(complaints, run.badReply...)
	// The property under faults (what is demanded, and what is not):
	//  * always: nothing is processed twice; Stop and Serve return; the process survives; whatever the
	//    server took over — the callback reached the send to the work queue (E) — before Stop() was
	//    called is processed exactly once and finished when Serve returns;
	//  * requests only known to have reached the BROKER before Stop (flushed) must be processed only if
	//    the drain was not disturbed (no fault, or the fault came after Stop had its result): a
	//    connection that dies takes the messages nats.go had not yet handed to the callback with it;
	//  * replies must reach the caller unless the connection was lost (closed / broker gone); after a
	//    stall that recovers they must;
	//  * "nothing published after Stop returned is accepted" is demanded when Stop returned nil;
	//  * a request may be turned away by the handler (X) only when a fault was injected, after Stop() was
	//    called, and never one it had taken over. (The drain can fail — or, worse, "succeed" although the
	//    broker never acted on the UNSUB: a nats-server that is shutting down ignores UNSUB but still answers
	//    PING — and callbacks keep coming after the queue was closed.)
	drainUndisturbed := fp < 0 || cfg.faultStep() == 5
	nE, nD, nP, nProc, nRep, nX := 0, 0, 0, 0, 0, 0
	for i := 0; i < total; i++ {
		e, d, p, x := at("E"+strconv.Itoa(i)), at("D"+strconv.Itoa(i)), at("P"+strconv.Itoa(i)), at("X"+strconv.Itoa(i))
		if e >= 0 {
			nE++
		}
		if x >= 0 {
			nX++
		}
		if d >= 0 {
			nD++
		}
		if p >= 0 {
			nP++
		}
		nProc += run.procCount[i]
		nRep += run.replies[i]
		if run.procCount[i] > 1 {
			complaints = append(complaints, fmt.Sprintf("request %d was processed %d times", i, run.procCount[i]))
		}
		if run.replies[i] > 1 {
			complaints = append(complaints, fmt.Sprintf("request %d got %d replies", i, run.replies[i]))
		}
		if x >= 0 && (fp < 0 || (sc >= 0 && x < sc) || e >= 0) {
			complaints = append(complaints, fmt.Sprintf("request %d was dropped by the handler (fault: %v, drain failed: %v, taken over: %v)", i, fp >= 0, !stopOK, e >= 0))
		}
		before := sc >= 0 && ((e >= 0 && e < sc) || (drainUndisturbed && run.pubFlushed[i] >= 0 && run.pubFlushed[i] <= sc))
		if before {
			if run.procCount[i] != 1 {
				complaints = append(complaints, fmt.Sprintf("request %d was received before Stop was called but processed %d times", i, run.procCount[i]))
			} else if serveState == "returned" && (p < 0 || p > vr || run.procDoneAt[i] < 0 || run.procDoneAt[i] > vr) {
				complaints = append(complaints, fmt.Sprintf("request %d was received before Stop was called but its processing had not finished when Serve returned", i))
			} else if run.replies[i] != 1 && !connLost {
				complaints = append(complaints, fmt.Sprintf("request %d was received before Stop was called and processed, but the client got %d replies", i, run.replies[i]))
			}
		}
		if run.noResp[i] > 0 && (run.procCount[i] != 0 || e >= 0) {
			complaints = append(complaints, fmt.Sprintf("request %d had no responders according to the broker but was accepted by the server", i))
		}
		after := stopOK && run.pubStart[i] > sr
		if after && (run.procCount[i] != 0 || e >= 0) {
			complaints = append(complaints, fmt.Sprintf("request %d was published after Stop returned and was accepted (callback %v, processed %d times)", i, e >= 0, run.procCount[i]))
		}
		if !connLost && run.replies[i] != run.procCount[i] && run.procCount[i] <= 1 && !(before && run.replies[i] != 1) {
			complaints = append(complaints, fmt.Sprintf("request %d was processed %d times and got %d replies", i, run.procCount[i], run.replies[i]))
		}
		if connLost && run.replies[i] > run.procCount[i] {
			complaints = append(complaints, fmt.Sprintf("request %d was processed %d times and got %d replies", i, run.procCount[i], run.replies[i]))
		}
		if serveState == "returned" && run.procCount[i] > 0 && (run.procDoneAt[i] < 0 || run.procDoneAt[i] > vr || p < 0 || p > vr) && !before {
			complaints = append(complaints, fmt.Sprintf("request %d was still being processed when Serve returned", i))
		}
	}
	if connLost {
		nRep = nP // the observable counts the replies handed to the connection
	}
	if cfg.optFlag('h') && serveState == "returned" {
		rcv, st, fin, bad := atomic.LoadInt64(&evReceived), atomic.LoadInt64(&evStarted), atomic.LoadInt64(&evFinished), atomic.LoadInt64(&evBad)
		if bad != 0 || st != int64(nD) || fin != int64(nP) || rcv < int64(nE+nX) || (fp < 0 && rcv != int64(nE+nX)) { // (after a fault callbacks may still be coming)
			complaints = append(complaints, fmt.Sprintf("request event handlers: received %d (callbacks %d), started %d (dequeued %d), finished %d (processed %d), without the properties of their request %d", rcv, nE+nX, st, nD, fin, nP, bad))
		}
	}
	blocked := false
	if sc >= 0 {
		eb, db := 0, 0
		for _, t := range run.events[:sc] {
			switch t[0] {
			case 'E':
				eb++
			case 'D':
				db++
			}
		}
		blocked = eb-db > cfg.q
	}
	sort.Strings(complaints)
	// the trace names the subject (= subscription) of every request that enters a callback
	evs := make([]string, len(run.events))
	for k, t := range run.events {
		evs[k] = t
		if t[0] == 'E' || t[0] == 'X' {
			if i, err := strconv.Atoi(t[1:]); err == nil {
				evs[k] = t + "/" + strconv.Itoa(cfg.subjectOf(i))
			}
		}
	}
	res := c20Result{trace: strings.Join(evs, ","), blockd: blocked, nE: nE,
		end: fmt.Sprintf("serve:%s,stop:%s,arrived:%d,processed:%d,replied:%d,dropped:%d", serveState, stopState, nE, nProc, nRep, nX)}
	if len(complaints) > 0 {
		res.why = complaints[0]
		if len(complaints) > 1 {
			res.why += fmt.Sprintf(" (+%d more)", len(complaints)-1)
		}
	}
	_, _ = nD, nP
	return res
}

// c20Dialer refuses to connect once the broker has been taken away.
type c20Dialer struct{ gone *int32 }

func (d *c20Dialer) Dial(network, address string) (net.Conn, error) {
	if atomic.LoadInt32(d.gone) == 1 {
		return nil, fmt.Errorf("c20: the broker is gone")
	}
	return net.DialTimeout(network, address, 10*time.Second)
}

// stopSignalOrTimeout returns a channel that is closed when Stop was triggered (or after d).
func stopSignalOrTimeout(sig <-chan struct{}, d time.Duration) <-chan struct{} {
	out := make(chan struct{})
	go func() {
		select {
		case <-sig:
		case <-time.After(d):
		}
		close(out)
	}()
	return out
}

func c20GenCfg(r *Rng) c20Cfg {
	c := c20Cfg{w: 1 + r.Intn(4), q: r.Intn(5)}
	n := 1 + r.Intn(40)
	if r.Chance(35) { // small bursts exercise the start and the end of the protocol more often
		n = 1 + r.Intn(6)
	}
	maxd := r.Pick(0, 5, 20, 50, 100) // handler durations 0 .. 10 ms
	for i := 0; i < n; i++ {
		c.durs = append(c.durs, r.Intn(maxd+1))
	}
	c.stopPos = r.Intn(n + 1)
	c.gapUs = r.Pick(0, 0, 0, 50, 300, 1500)
	c.delayUs = r.Pick(0, 0, 20, 200, 1000, 4000)
	c.jitUs = r.Pick(0, 0, 0, 100, 1000, 3000)
	c.pub2 = r.Pick(0, 0, 40, 120, 300)
	c.fault = "-"
	// subjects: half of the servers have one, the others 2..4 with the traffic spread evenly or unevenly
	c.subj = "1s"
	if r.Chance(50) {
		c.subj = string([]byte{byte('2' + r.Intn(3)), "sflu"[r.Intn(4)]})
	}
	// builder options: the watermark below / around / far above the time the backlog needs (0 .. 400 ms here)
	c.opts = []string{"d", "d", "0", "1", "5", "20", "100", "1000"}[r.Intn(8)]
	if r.Chance(20) {
		c.opts += "g"
	}
	if r.Chance(30) {
		c.opts += "h"
	}
	// handler outcomes: mostly small replies; a third of the configurations mix in declared exceptions and
	// errors; one in twelve also one or two replies at the NATS limit (1 MiB on the wire each)
	c.kinds = make([]byte, n)
	if r.Chance(33) {
		for i := range c.kinds {
			c.kinds[i] = byte(r.Pick('r', 'r', 'r', 'x', 'e'))
		}
	}
	if r.Chance(8) {
		for k := 0; k < 1+r.Intn(2); k++ {
			c.kinds[r.Intn(n)] = byte(r.Pick('u', 'a', 'o', 'o'))
		}
	}
	// faults while Stop runs: the application closes the connection / the broker goes away, at each step
	if r.Chance(25) {
		c.fault = string([]byte{byte(r.Pick('c', 'c', 'b')), byte('0' + r.Intn(7))})
		c.pub2 = r.Pick(0, 0, 40)
	}
	return c
}

// c20SlowCfg: the slow-backlog family. Few requests with long handlers, a queue that holds the
// whole burst, Stop right after the burst was accepted: Stop returns quickly, and Serve has to
// wait for seconds of worker time AFTER it closed the queue. Shape 0 (the one a quick run
// executes) drains for a good 6 s; the others 2–3 s, ~10 s, and a queue shorter than the backlog
// (then it is Stop that waits). Returns the configuration and the nominal drain time in seconds.
func c20SlowCfg(r *Rng, k int) (c20Cfg, int) {
	mk := func(w, q, n, durMs int) c20Cfg {
		c := c20Cfg{w: w, q: q, stopPos: n, delayUs: 2000, fault: "-", opts: "d", subj: "1s"}
		for i := 0; i < n; i++ {
			c.durs = append(c.durs, durMs*10+r.Intn(200)) // + up to 20 ms
		}
		return c
	}
	switch k % 10 {
	case 1: // the backlog sits in the SUBSCRIPTION queue for longer than the default watermark (5 s): it is Stop
		// that waits (~7 s) while the handler feeds an unbuffered queue; 5 s into it several requests are still
		// pending behind the one the handler is sending
		c := mk(1, r.Intn(2), 11+r.Intn(2), 700)
		c.subj = []string{"1s", "2f", "3u"}[r.Intn(3)] // (with several subjects: the backlog is on the FIRST subscription)
		return c, 7
	case 8: // the same, far above every time constant of the code (5 s watermark, 10 s flush timeout)
		return mk(1, 1, 16, 750), 12
	case 9:
		return mk(1, 6, 5, 500), 2 // below any multi-second bound
	case 6: // the link stalls before conn.Flush: the flush times out after 10 s, the drain fails, the link recovers
		c := mk(2, 3, 10, 30)
		c.fault = "s2"
		c.pub2 = 40
		return c, 11
	case 7: // the link stalls before sub.Drain, with slow handlers and a backlog longer than the queue
		c := mk(1, 2, 8, 200)
		c.fault = "s1"
		return c, 11
	case 0:
		switch r.Intn(3) {
		case 0:
			return mk(1, 8+r.Intn(8), 8, 760), 6 // 1 worker, 8 x 0.76 s
		case 1:
			return mk(2, 16+r.Intn(8), 16, 760), 6 // 2 workers, 16 x 0.76 s
		}
		return mk(1, 4+r.Intn(4), 4, 1520), 6 // 1 worker, 4 x 1.52 s
	case 2:
		return mk(2, 12, 10, 1950), 10
	case 3:
		return mk(1, 2, 8, 800), 6 // queue shorter than the backlog: Stop itself waits ~4 s
	case 4:
		return mk(3, 32, 24, 800), 6
	}
	return mk(1, 0, 4, 900), 3 // unbuffered: everything goes through the hand-off
}

func c20ClassWhy(why string) string {
	// the class of a complaint without request numbers, so that shrinking keeps the same failure
	out := make([]rune, 0, len(why))
	for _, ch := range why {
		if ch >= '0' && ch <= '9' {
			continue
		}
		out = append(out, ch)
	}
	s := string(out)
	if i := strings.Index(s, " (+"); i >= 0 {
		s = s[:i]
	}
	return s
}

func c20FastGen(r *Rng) func(int) c20Cfg { return func(int) c20Cfg { return c20GenCfg(r) } }

func c20SlowGen(r *Rng, stat bool) func(int) c20Cfg {
	return func(k int) c20Cfg {
		cfg, secs := c20SlowCfg(r, k)
		if stat {
			Stat(fmt.Sprintf("slow-backlog:drain~%ds", secs))
		}
		return cfg
	}
}

// ---------- process isolation ----------
//
// A Go panic in a goroutine of the server (e.g. the nats.go callback goroutine sending on the
// closed workC) kills the whole process and cannot be recovered. The suites therefore run their
// batch of configurations in a CHILD process (same binary, suite name + "inproc"); when the child
// dies, the parent regenerates the same configurations from the same seed and runs them one per
// child to find the ones that kill the server, and reports each as an oracle failure with its
// replayable `nsrun` line. `nsrun` lines (replay, corpus, shrinking) are always executed in a
// child of their own (`nsrun1` is the in-process form the child runs).

func c20SeedArg() string {
	for i, a := range os.Args {
		if (a == "-seed" || a == "--seed") && i+1 < len(os.Args) {
			return os.Args[i+1]
		}
		if strings.HasPrefix(a, "-seed=") {
			return a[len("-seed="):]
		}
	}
	return "1"
}

func c20EmitRaw(text string) {
	outMu.Lock()
	defer outMu.Unlock()
	for _, l := range strings.Split(text, "\n") {
		if l != "" {
			fmt.Fprintln(out, l)
		}
	}
}

func c20PanicLine(stderr string) string {
	for _, l := range strings.Split(stderr, "\n") {
		if strings.HasPrefix(l, "panic: ") || strings.HasPrefix(l, "fatal error: ") {
			return strings.TrimSpace(l)
		}
	}
	return ""
}

func c20Child(timeout time.Duration, args ...string) (stdout, stderr string, err error) {
	exe, e := os.Executable()
	if e != nil {
		return "", "", e
	}
	cmd := exec.Command(exe, args...)
	var so, se bytes.Buffer
	cmd.Stdout, cmd.Stderr = &so, &se
	if e := cmd.Start(); e != nil {
		return "", "", e
	}
	done := make(chan error, 1)
	go func() { done <- cmd.Wait() }()
	select {
	case e = <-done:
	case <-time.After(timeout):
		cmd.Process.Kill()
		<-done
		e = fmt.Errorf("child timed out after %v", timeout)
	}
	return so.String(), se.String(), e
}

// c20Isolated executes one configuration in a child process. It returns the child's real output
// for the line, or reports the crash of the server process as an oracle failure.
func c20Isolated(cfg c20Cfg) string {
	f, err := os.CreateTemp("", "c20-line-*.txt")
	if err != nil {
		return "setup-failed"
	}
	defer os.Remove(f.Name())
	fmt.Fprintln(f, "nsrun1"+strings.TrimPrefix(cfg.line(), "nsrun"))
	f.Close()
	wd := 4*c20Watchdog + 60*time.Second
	for _, d := range cfg.durs {
		wd += 3 * time.Duration(d) * 100 * time.Microsecond
	}
	stdout, stderr, cerr := c20Child(wd, "c20", "-lines", f.Name())
	real := ""
	for _, l := range strings.Split(stdout, "\n") {
		switch {
		case strings.HasPrefix(l, "C\t"):
			if parts := strings.SplitN(l, "\t", 3); len(parts) == 3 {
				real = parts[2]
			}
		case strings.HasPrefix(l, "O\t"):
			c20EmitRaw(l)
		}
	}
	if cerr != nil {
		what := c20PanicLine(stderr)
		if what == "" {
			what = cerr.Error()
		}
		OracleFail("the process running the server died: "+what, map[string]interface{}{"op": "nsrun", "line": cfg.line(), "got": "crashed"})
		return "violated crashed"
	}
	if real == "" {
		return "setup-failed"
	}
	return real
}

// c20Parent runs the batch in a child; on a crash it falls back to one child per configuration.
func c20Parent(inproc string, n int, regen func(k int) c20Cfg) {
	timeout := time.Duration(n)*500*time.Millisecond + 3*time.Minute
	stdout, stderr, cerr := c20Child(timeout, inproc, "-seed", c20SeedArg(), "-n", strconv.Itoa(n))
	if cerr == nil {
		c20EmitRaw(stdout)
		return
	}
	Stat("batch-child-died")
	what := c20PanicLine(stderr)
	if what == "" {
		what = cerr.Error()
	}
	cfgs := make([]c20Cfg, n)
	for k := range cfgs {
		cfgs[k] = regen(k)
	}
	var wg sync.WaitGroup
	sem := make(chan struct{}, 8)
	var found int64
	for _, cfg := range cfgs {
		if atomic.LoadInt64(&found) >= 4 {
			break
		}
		cfg := cfg
		wg.Add(1)
		sem <- struct{}{}
		go func() {
			defer wg.Done()
			defer func() { <-sem }()
			real := c20Isolated(cfg)
			Case(cfg.line(), real)
			Stat("evaluations")
			if strings.HasPrefix(real, "violated") {
				atomic.AddInt64(&found, 1)
			}
		}()
	}
	wg.Wait()
	if atomic.LoadInt64(&found) == 0 {
		OracleFail("the process running the server died: "+what+" (not reproduced by one configuration alone)", map[string]interface{}{"op": "nsrun", "got": "crashed", "seed": c20SeedArg(), "n": n})
	}
}

func c20RunConfigs(n int, gen func(k int) c20Cfg) {
	var wg sync.WaitGroup
	sem := make(chan struct{}, 8)
	for k := 0; k < n; k++ {
		cfg := gen(k)
		wg.Add(1)
		sem <- struct{}{}
		go func() {
			defer wg.Done()
			defer func() { <-sem }()
			res := c20Execute(cfg)
			line := fmt.Sprintf("nstrace %d %d %d %s", cfg.w, cfg.q, cfg.subjects(), orDot(res.trace))
			real := "ok end=" + res.end
			Case(line, real)
			Stat(fmt.Sprintf("w:%d", cfg.w))
			Stat(fmt.Sprintf("q:%d", cfg.q))
			Stat("burst:" + bucket(len(cfg.durs)))
			if cfg.q < len(cfg.durs) {
				Stat("queue-shorter-than-burst")
			}
			if res.blockd {
				Stat("callback-blocked-on-full-queue-at-stop")
			}
			if cfg.pub2 > 0 {
				Stat("second-publisher-across-stop")
			}
			Stat("subjects:" + cfg.subj)
			if wm, set := cfg.watermark(); set {
				Stat("opt:watermark:" + wm.String())
			} else {
				Stat("opt:watermark:default")
			}
			if cfg.optFlag('g') {
				Stat("opt:queue-group")
			}
			if cfg.optFlag('h') {
				Stat("opt:event-handlers")
			}
			if cfg.fault != "-" && cfg.fault != "" {
				Stat("fault:" + cfg.fault[:1] + ":step" + cfg.fault[1:])
			}
			for _, k := range cfg.kinds {
				if k != 'r' && k != 0 {
					Stat("handler-outcome:" + string(k))
				}
			}
			switch {
			case cfg.stopPos == 0:
				Stat("stop:before-burst")
			case cfg.stopPos >= len(cfg.durs):
				Stat("stop:after-burst")
			default:
				Stat("stop:inside-burst")
			}
			if res.nE < len(cfg.durs) {
				Stat("some-requests-not-accepted")
			}
			Sample(map[string]interface{}{"config": cfg.line(), "real": real, "trace": clip(res.trace)})
			if res.why != "" {
				OracleFail(c20ClassWhy(res.why), map[string]interface{}{"op": "nsrun", "line": cfg.line(), "got": real, "detail": res.why, "trace": clip(res.trace)})
			}
			Stat("evaluations")
		}()
	}
	wg.Wait()
}

func orDot(s string) string {
	if s == "" {
		return "."
	}
	return s
}

func bucket(n int) string {
	switch {
	case n <= 2:
		return "1-2"
	case n <= 8:
		return "3-8"
	case n <= 20:
		return "9-20"
	}
	return "21-40"
}

// c20Projection computes the end observable from a recorded trace alone (used when a trace line
// is replayed: the recorded run is what the real system did).
func c20Projection(trace string) string {
	seen := map[string]bool{}
	nE, nD, nP, nX := 0, 0, 0, 0
	if trace != "." {
		for _, t := range strings.Split(trace, ",") {
			if t == "" || seen[t] {
				continue
			}
			seen[t] = true
			switch t[0] {
			case 'E':
				nE++
			case 'D':
				nD++
			case 'P':
				nP++
			case 'X':
				nX++
			}
		}
	}
	st := func(tok string) string {
		if seen[tok] {
			return "returned"
		}
		return "hung"
	}
	stop := st("SR")
	if seen["SRE"] {
		stop = "returned"
	}
	return fmt.Sprintf("serve:%s,stop:%s,arrived:%d,processed:%d,replied:%d,dropped:%d", st("VR"), stop, nE, nD, nP, nX)
}

func init() {
	suites["c20"] = func(r *Rng, n int) { c20Parent("c20inproc", n, c20FastGen(r)) }
	suites["c20slow"] = func(r *Rng, n int) { c20Parent("c20slowinproc", n, c20SlowGen(r, false)) }
	suites["c20inproc"] = func(r *Rng, n int) { c20RunConfigs(n, c20FastGen(r)) }
	suites["c20slowinproc"] = func(r *Rng, n int) { c20RunConfigs(n, c20SlowGen(r, true)) }
	// nsrun: a configuration; executed (up to 3 times, timing varies) against the real server.
	lineOps["nsrun"] = func(args []string) (string, bool) {
		cfg, ok := c20ParseCfg(args)
		if !ok {
			return "bad-args", true
		}
		return c20Isolated(cfg), true
	}
	lineOps["nsrun1"] = func(args []string) (string, bool) {
		cfg, ok := c20ParseCfg(args)
		if !ok {
			return "bad-args", true
		}
		tries, work := 3, 0
		for _, d := range cfg.durs {
			work += d
		}
		if work > 2000 { // more than 0.2 s of handler time: once
			tries = 1
		}
		for try := 0; try < tries; try++ {
			res := c20Execute(cfg)
			if res.why != "" {
				OracleFail(c20ClassWhy(res.why), map[string]interface{}{"op": "nsrun", "line": cfg.line(), "got": res.end, "detail": res.why, "trace": clip(res.trace)})
				parts := strings.Split(res.end, ",")
				if len(parts) > 2 {
					parts = parts[:2]
				}
				return "violated " + strings.Join(parts, ","), true // the failure was reported above, with its class
			}
		}
		return "ok serve:returned,stop:returned", true
	}
	// nstrace: a recorded trace; its observable is a projection of the recording, and the real
	// server is exercised again with the same (w, q) and a burst of the same length.
	lineOps["nstrace"] = func(args []string) (string, bool) {
		if len(args) != 4 {
			return "bad-args", true
		}
		w, e1 := strconv.Atoi(args[0])
		q, e2 := strconv.Atoi(args[1])
		k, e3 := strconv.Atoi(args[2])
		if e1 != nil || e2 != nil || e3 != nil || w < 1 || w > 64 || q < 0 || q > 1024 || k < 1 || k > 4 {
			return "bad-args", true
		}
		proj := c20Projection(args[3])
		n := 1 + strings.Count(args[3], "E")
		if n > 60 {
			n = 60
		}
		cfg := c20Cfg{w: w, q: q, stopPos: n / 2, gapUs: 0, fault: "-", opts: "d", subj: strconv.Itoa(k) + "s"}
		for i := 0; i < n; i++ {
			cfg.durs = append(cfg.durs, (i*7)%20)
		}
		res := c20Execute(cfg)
		if res.why != "" {
			OracleFail(c20ClassWhy(res.why), map[string]interface{}{"op": "nsrun", "line": cfg.line(), "got": res.end, "detail": res.why})
		}
		return "ok end=" + proj, true
	}
}
