package main

import (
	"fmt"
	"strconv"
	"strings"
	"sync/atomic"
	"time"

	frugal "github.com/Workiva/frugal/lib/go"
	"github.com/apache/thrift/lib/go/thrift"
)

// hdrOnlyProcessor reads the request header and nothing else, and writes no reply.
type hdrOnlyProcessor struct{}

func (hdrOnlyProcessor) Process(in, out *frugal.FProtocol) error {
	_, err := in.ReadRequestHeader()
	return err
}
func (hdrOnlyProcessor) AddMiddleware(frugal.ServiceMiddleware)    {}
func (hdrOnlyProcessor) Annotations() map[string]map[string]string { return nil }

var binFactory = frugal.NewFProtocolFactory(thrift.NewTBinaryProtocolFactoryConf(nil))

func realPFR(data []byte) string {
	var err error
	if o := guard(20*time.Second, func() {
		err = frugal.VerifNatsServerProcessFrame(hdrOnlyProcessor{}, binFactory, exact(data))
	}); o != "" {
		return o
	}
	return errClass(err)
}

// realNSW feeds the messages to one NATS subscriber worker, then one valid
// message, and reports how many callbacks ran and whether the last one did.
func realNSW(msgs [][]byte) (string, bool) {
	var count int64
	cb := func(tr thrift.TTransport) error {
		atomic.AddInt64(&count, 1)
		return nil
	}
	feed, stop, exited := frugal.VerifNatsSubscriberWorker(cb)
	defer stop()
	want := int64(0)
	for _, m := range msgs {
		if len(m) >= 4 {
			want++
		}
		feed(exact(m))
	}
	valid := frameOf(frugal.VerifMarshalHeaders(map[string]string{"_opid": "1"}), []byte{1, 2, 3})
	feed(valid)
	want++
	deadline := time.Now().Add(2 * time.Second)
	for atomic.LoadInt64(&count) < want && time.Now().Before(deadline) {
		select {
		case <-exited:
			deadline = time.Now()
		default:
			time.Sleep(200 * time.Microsecond)
		}
	}
	dead := false
	select {
	case <-exited:
		dead = true
	default:
	}
	got := atomic.LoadInt64(&count)
	return fmt.Sprintf("delivered=%d exited=%v", got, dead), got == want && !dead
}

func genMsgs(r *Rng) [][]byte {
	n := r.Intn(7)
	var msgs [][]byte
	for i := 0; i < n; i++ {
		switch r.Intn(4) {
		case 0:
			msgs = append(msgs, r.Bytes(r.Intn(4))) // shorter than the frame-size prefix
		case 1:
			msgs = append(msgs, r.Bytes(4+r.Intn(30)))
		default:
			m := genHeaders(r, true)
			m["_opid"] = strconv.Itoa(r.Intn(1000))
			fr := frameOf(frugal.VerifMarshalHeaders(m), genPayload(r))
			if r.Bool() {
				fr, _ = mutate(r, fr, sizeFieldOffsets(fr))
			}
			msgs = append(msgs, fr)
		}
	}
	return msgs
}

func msgsArg(msgs [][]byte) string {
	if len(msgs) == 0 {
		return "."
	}
	parts := make([]string, len(msgs))
	for i, m := range msgs {
		parts[i] = hx(m)
	}
	return strings.Join(parts, ",")
}

func parseMsgs(s string) [][]byte {
	if s == "." {
		return nil
	}
	var out [][]byte
	for _, p := range strings.Split(s, ",") {
		out = append(out, unhx(p))
	}
	return out
}

func runC05Recv(r *Rng, n int) {
	for i := 0; i < n; i++ {
		// server request path of the NATS server: one message
		var in []byte
		why := "random"
		if r.Chance(25) {
			in = r.Bytes(r.Intn(24))
		} else {
			m := genHeaders(r, true)
			if r.Chance(80) {
				m["_opid"] = strconv.Itoa(r.Intn(1 << 20))
			}
			fr := frameOf(frugal.VerifMarshalHeaders(m), genPayload(r))
			if r.Chance(70) {
				fr, why = mutate(r, fr, sizeFieldOffsets(fr))
			} else {
				why = "valid"
			}
			in = fr
		}
		if len(in) >= 9 && in[4] == 0 {
			if sz := int32(uint32(in[5])<<24 | uint32(in[6])<<16 | uint32(in[7])<<8 | uint32(in[8])); sz > 1<<26 {
				in[5] = 0 // keep allocations small here; the huge-size region is sampled by c05pure/ums
			}
		}
		o := realPFR(in)
		Case("pfr "+hx(in), o)
		Stat("mutation:" + why)
		Stat("outcome:pfr:" + o)
		if strings.HasPrefix(o, "panic") || o == "blocked" {
			OracleFail("NATS server processFrame "+o+" on a received message", map[string]interface{}{"op": "pfr", "in": hx(in), "got": o})
		}
		// subscriber path: a sequence of messages to one worker
		if i%4 == 0 {
			msgs := genMsgs(r)
			o, fine := realNSW(msgs)
			Case("nsw "+msgsArg(msgs), o)
			Stat(fmt.Sprintf("nsw:msgs=%d", len(msgs)))
			Sample(map[string]interface{}{"op": "nsw", "messages": msgsArg(msgs), "real": o})
			if !fine {
				OracleFail("NATS subscriber worker stopped serving after a received message sequence", map[string]interface{}{"op": "nsw", "line": "nsw " + msgsArg(msgs), "got": o})
			}
		}
		Stat("evaluations")
	}
}

func replayRecvLine(op string, args []string) (string, bool) {
	switch op {
	case "pfr":
		o := realPFR(unhx(args[0]))
		return o, !(strings.HasPrefix(o, "panic") || o == "blocked")
	case "nsw":
		return realNSW(parseMsgs(args[0]))
	}
	return "bad-op", true
}

func init() {
	suites["c05recv"] = runC05Recv
	lineOps["pfr"] = func(args []string) (string, bool) { return replayRecvLine("pfr", args) }
	lineOps["nsw"] = func(args []string) (string, bool) { return replayRecvLine("nsw", args) }
}
