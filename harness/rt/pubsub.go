package main

// C07 (runtime part, suite "c07rt"): the REAL pub/sub transports of lib/go on in-process brokers.
//
//   NATS   frugal.NewFNatsPublisherTransportFactory / NewFNatsSubscriberFactoryBuilder(...).WithWorkerCount(w)
//          over github.com/nats-io/nats-server/v2 (Port -1), one connection for the publisher, one for the subscriber
//   STOMP  frugal.NewFStompPublisherTransportFactoryBuilder / NewFStompSubscriberTransportFactoryBuilder
//          over the conforming in-process STOMP broker of pubsub_broker.go on a free port (go-stomp's own
//          server never answers UNSUBSCRIBE, see there), two go-stomp client connections
//
// One case = one scenario: subscribe, then a list of operations
//
//   V<tag>   valid message on the topic, published through the real publish path
//            (FScopeProvider -> NewFScopeClient -> FStandardClient.Publish -> FPublisherTransport.Publish)
//   R<hex>   raw bytes published on the topic (short messages, undecodable headers, garbage)
//   O<tag>   valid headers, envelope names ANOTHER operation
//   G<tag>   valid headers and envelope, payload struct truncated
//   F<tag>   valid message on a FOREIGN topic (suffix-extended, glued, truncated name)
//   B        barrier: wait until every callback owed so far has run
//   W        wait (briefly, no obligation) until one more callback has STARTED: what follows finds the
//            subscriber busy and the rest of the burst in flight
//   U        Unsubscribe (with a concurrent IsSubscribed), both under a watchdog
//
// The subscriber callback is the emitted `recv<Op>` pattern (header read, op-name check, payload read,
// handler); the handler records (tag, `_opid` of the publisher, `_cid`, user header, payload).
//
// Driver lines:
//   ps  <tr> <w> <delayUs> <ops>             every U is directly preceded by B: the outcome is determined,
//                                            the model prints the same `unsub=… delivered=… cb=… err=…`
//   psr <tr> <w> <delayUs> <observed> <ops>  U races the messages in flight: the model checks that the observed
//                                            delivery list is admissible (everything before the last barrier,
//                                            then a sub-sequence of what was in flight); output `ok`
//
// ORACLE (the property, evaluated on the real run, independent of the model):
//   * a callback-delivered tag is a V published on the topic before U was called: never a foreign-topic,
//     malformed, wrong-op message or one published after U returned;
//   * no tag twice; with one worker (and for STOMP) tags arrive in publish order;
//   * every V published before a barrier is delivered (a subscriber that stays subscribed gets every
//     message exactly once; a malformed message in between changes nothing);
//   * payload, `_cid`, user header equal to what was published; `_opid` response header = publisher's op id;
//   * Unsubscribe returns nil within the watchdog, IsSubscribed answers within the watchdog and is false after.
// Messages in flight when U is called may be dropped (both transports stop their workers on a quit
// signal that races the queue): at most once, in order — DESIGN.md §7 C07.

import (
	"bufio"
	"bytes"
	"context"
	"encoding/json"
	"fmt"
	"io"
	stdlog "log"
	"net"
	"os"
	"os/exec"
	"runtime"
	"sort"
	"strconv"
	"strings"
	"sync"
	"sync/atomic"
	"time"

	frugal "github.com/Workiva/frugal/lib/go"
	"github.com/apache/thrift/lib/go/thrift"
	"github.com/go-stomp/stomp"
	natsd "github.com/nats-io/nats-server/v2/server"
	"github.com/nats-io/nats.go"
)

const (
	c07Watchdog = 8 * time.Second // Unsubscribe / IsSubscribed / barrier: a hang, not a latency bound
	c07Stall    = 3 * time.Second // Unsubscribe / IsSubscribed without any callback progress for this long: hung
	c07Grace    = 25 * time.Millisecond
	c07Op       = "Evt"
	c07OtherOp  = "Other"
)

var (
	c07NatsOnce  sync.Once
	c07NatsURL   string
	c07NatsErr   error
	c07StompOnce sync.Once
	c07StompAddr string
	c07StompErr  error
	c07Seq       uint64
)

func c07Nats() (string, error) {
	c07NatsOnce.Do(func() {
		if u := os.Getenv("C07_NATS_URL"); u != "" {
			c07NatsURL = u
			return
		}
		s, err := natsd.NewServer(&natsd.Options{Host: "127.0.0.1", Port: -1, NoLog: true, NoSigs: true})
		if err != nil {
			c07NatsErr = err
			return
		}
		go s.Start()
		if !s.ReadyForConnections(10 * time.Second) {
			c07NatsErr = fmt.Errorf("in-process nats-server not ready")
			return
		}
		c07NatsURL = s.ClientURL()
	})
	return c07NatsURL, c07NatsErr
}

func c07Stomp() (string, error) {
	c07StompOnce.Do(func() {
		stdlog.SetOutput(io.Discard) // go-stomp logs through the standard logger
		if a := os.Getenv("C07_STOMP_ADDR"); a != "" {
			c07StompAddr = a
			return
		}
		c07StompAddr, c07StompErr = c07StartBroker()
	})
	return c07StompAddr, c07StompErr
}

// ---------- payload struct (hand-written thrift.TStruct: 1: i64 tag, 2: binary blob) ----------

type c07Payload struct {
	Tag      int64
	Blob     []byte
	truncate bool // Write stops after the first field header (an unreadable payload)
}

func (p *c07Payload) Write(ctx context.Context, o thrift.TProtocol) error {
	if err := o.WriteStructBegin(ctx, "Payload"); err != nil {
		return err
	}
	if err := o.WriteFieldBegin(ctx, "tag", thrift.I64, 1); err != nil {
		return err
	}
	if p.truncate {
		return nil
	}
	o.WriteI64(ctx, p.Tag)
	o.WriteFieldEnd(ctx)
	o.WriteFieldBegin(ctx, "blob", thrift.STRING, 2)
	o.WriteBinary(ctx, p.Blob)
	o.WriteFieldEnd(ctx)
	o.WriteFieldStop(ctx)
	return o.WriteStructEnd(ctx)
}

func (p *c07Payload) Read(ctx context.Context, i thrift.TProtocol) error {
	if _, err := i.ReadStructBegin(ctx); err != nil {
		return err
	}
	seenTag := false
	for {
		_, ft, id, err := i.ReadFieldBegin(ctx)
		if err != nil {
			return err
		}
		if ft == thrift.STOP {
			break
		}
		switch {
		case id == 1 && ft == thrift.I64:
			if p.Tag, err = i.ReadI64(ctx); err != nil {
				return err
			}
			seenTag = true
		case id == 2 && ft == thrift.STRING:
			if p.Blob, err = i.ReadBinary(ctx); err != nil {
				return err
			}
		default:
			if err = i.Skip(ctx, ft); err != nil {
				return err
			}
		}
		if err = i.ReadFieldEnd(ctx); err != nil {
			return err
		}
	}
	if !seenTag {
		return thrift.NewTProtocolExceptionWithType(thrift.INVALID_DATA, fmt.Errorf("tag not set"))
	}
	return i.ReadStructEnd(ctx)
}

func (p *c07Payload) String() string { return fmt.Sprintf("Payload(%d)", p.Tag) }

func c07Blob(tag int) []byte {
	n := tag % 7
	b := make([]byte, n)
	for i := range b {
		b[i] = byte(tag*31 + i*7)
	}
	return b
}

// c07Recv is the emitted recv<Op> callback pattern (generator.go generateSubscribeMethod).
func c07Recv(op string, pf *frugal.FProtocolFactory, handler func(frugal.FContext, *c07Payload) error) frugal.FAsyncCallback {
	return func(transport thrift.TTransport) error {
		iprot := pf.GetProtocol(transport)
		fctx, err := iprot.ReadRequestHeader()
		if err != nil {
			return err
		}
		ctx, cancelFn := frugal.ToContext(fctx)
		defer cancelFn()
		name, _, _, err := iprot.ReadMessageBegin(ctx)
		if err != nil {
			return err
		}
		if name != op {
			iprot.Skip(ctx, thrift.STRUCT)
			iprot.ReadMessageEnd(ctx)
			return thrift.NewTApplicationException(frugal.APPLICATION_EXCEPTION_UNKNOWN_METHOD, "Unknown function"+name)
		}
		req := &c07Payload{}
		if err := req.Read(ctx, iprot); err != nil {
			return thrift.PrependError("error reading struct: ", err)
		}
		iprot.ReadMessageEnd(ctx)
		return handler(fctx, req)
	}
}

// ---------- scenarios ----------

type c07Operation struct {
	kind byte // V R O G F B U
	tag  int
	raw  []byte
}

type c07Scn struct {
	tr      string // nats | stomp
	w       int
	delayUs int
	ops     []c07Operation
}

func (s c07Scn) opsArg() string {
	if len(s.ops) == 0 {
		return "."
	}
	parts := make([]string, len(s.ops))
	for i, o := range s.ops {
		switch o.kind {
		case 'B', 'U', 'W':
			parts[i] = string(o.kind)
		case 'R':
			parts[i] = "R" + hx(o.raw)
		default:
			parts[i] = string(o.kind) + strconv.Itoa(o.tag)
		}
	}
	return strings.Join(parts, ",")
}

func c07ParseOps(s string) ([]c07Operation, bool) {
	if s == "." || s == "" {
		return nil, true
	}
	var ops []c07Operation
	for _, p := range strings.Split(s, ",") {
		if p == "" {
			return nil, false
		}
		switch p[0] {
		case 'B', 'U', 'W':
			if len(p) != 1 {
				return nil, false
			}
			ops = append(ops, c07Operation{kind: p[0]})
		case 'R':
			ops = append(ops, c07Operation{kind: 'R', raw: unhx(p[1:])})
		case 'V', 'O', 'G', 'F':
			n, err := strconv.Atoi(p[1:])
			if err != nil || n < 0 {
				return nil, false
			}
			ops = append(ops, c07Operation{kind: p[0], tag: n})
		default:
			return nil, false
		}
	}
	return ops, true
}

// racing: some U is not directly preceded by a barrier (messages may be in flight).
func (s c07Scn) racing() bool {
	for i, o := range s.ops {
		if o.kind == 'U' && (i == 0 || s.ops[i-1].kind != 'B') {
			// nothing owed before it? then nothing is in flight either
			for _, p := range s.ops[:i] {
				if p.kind != 'F' && p.kind != 'B' && p.kind != 'U' && p.kind != 'W' {
					return true
				}
			}
		}
	}
	return false
}

type c07Delivery struct {
	tag int
	bad string // "" or what differed from what was published
}

type c07Result struct {
	known     string // id of a known finding this run ran into (the scenario is re-run)
	where     string // where the transport's and the stomp client's goroutines are parked when Unsubscribe hangs
	delivered []c07Delivery
	cb, errs  int
	unsub     string // none | ok | blocked | err
	fails     []string
}

func (r *c07Result) tags() []int {
	t := make([]int, len(r.delivered))
	for i, d := range r.delivered {
		t[i] = d.tag
	}
	return t
}

func tagsArg(t []int) string {
	if len(t) == 0 {
		return "-"
	}
	p := make([]string, len(t))
	for i, x := range t {
		p[i] = strconv.Itoa(x)
	}
	return strings.Join(p, ",")
}

type c07Conns struct {
	pubF    frugal.FPublisherTransportFactory
	subF    frugal.FSubscriberTransportFactory
	fence   func() error // returns once the broker has processed everything published so far
	subSync func() error // returns once the broker has registered the subscription
	close   func()
}

func c07Connect(tr string, w int) (*c07Conns, error) {
	switch tr {
	case "nats":
		url, err := c07Nats()
		if err != nil {
			return nil, err
		}
		pc, err := nats.Connect(url)
		if err != nil {
			return nil, err
		}
		sc, err := nats.Connect(url)
		if err != nil {
			pc.Close()
			return nil, err
		}
		return &c07Conns{
			pubF:    frugal.NewFNatsPublisherTransportFactory(pc),
			subF:    frugal.NewFNatsSubscriberFactoryBuilder(sc).WithWorkerCount(uint(w)).Build(),
			fence:   func() error { return pc.FlushTimeout(c07Watchdog) },
			subSync: func() error { return nil }, // Subscribe flushes the SUB itself
			close:   func() { pc.Close(); sc.Close() },
		}, nil
	case "stomp":
		addr, err := c07Stomp()
		if err != nil {
			return nil, err
		}
		dial := func() (net.Conn, *stomp.Conn, error) {
			nc, err := net.Dial("tcp", addr)
			if err != nil {
				return nil, nil, err
			}
			c, err := stomp.Connect(nc, stomp.ConnOpt.HeartBeat(0, 0))
			if err != nil {
				nc.Close()
				return nil, nil, err
			}
			return nc, c, nil
		}
		pn, pc, err := dial()
		if err != nil {
			return nil, err
		}
		sn, sc, err := dial()
		if err != nil {
			pn.Close()
			return nil, err
		}
		receipt := func(c *stomp.Conn) func() error {
			return func() error {
				var err error
				if o := guard(c07Watchdog, func() {
					err = c.Send("/topic/c07.sync", "text/plain", []byte("x"), stomp.SendOpt.Receipt)
				}); o != "" {
					return fmt.Errorf("sync send %s", o)
				}
				return err
			}
		}
		return &c07Conns{
			pubF:  frugal.NewFStompPublisherTransportFactoryBuilder(pc).Build(),
			subF:  frugal.NewFStompSubscriberTransportFactoryBuilder(sc).Build(),
			fence: receipt(pc),
			// the broker handles one connection's frames in order and queues SUBSCRIBE before it
			// answers the SEND that follows it: after the receipt the subscription precedes every
			// later publish in the broker's request queue
			subSync: receipt(sc),
			// closing the sockets (not Disconnect: a wedged client loop would block it)
			close: func() { pn.Close(); sn.Close() },
		}, nil
	}
	return nil, fmt.Errorf("unknown transport %q", tr)
}

func c07Foreign(topic string, tag int) string {
	switch tag % 3 {
	case 0:
		return topic + ".x"
	case 1:
		return topic + "x"
	}
	return topic[:len(topic)-1]
}

const c07KnownLostWakeup = "gostomp-unsubscribe-lost-wakeup"

// c07LostWakeup recognises go-stomp v2.1.4's own defect (KNOWN_FINDINGS.txt): Subscription.closeChannel
// stores the closed state and calls closeCond.Broadcast() WITHOUT holding closeMutex, so a
// Subscription.Unsubscribe that has just tested the state and not yet parked in closeCond.Wait() misses
// the wake-up and waits forever although the subscription IS closed. Signature: a goroutine parked in
// sync.(*Cond).Wait under stomp.(*Subscription).Unsubscribe while no stomp.(*Subscription).readLoop
// goroutine exists any more (it has processed the RECEIPT and returned). In frugal's own hang (DESIGN §8
// row 17) the readLoop is alive, blocked on its send to sub.C.
func c07LostWakeup() bool {
	buf := make([]byte, 1<<20)
	buf = buf[:runtime.Stack(buf, true)]
	waiting := false
	for _, g := range strings.Split(string(buf), "\n\n") {
		if strings.Contains(g, "stomp.(*Subscription).readLoop") {
			return false
		}
		if strings.Contains(g, "sync.(*Cond).Wait") && strings.Contains(g, "stomp.(*Subscription).Unsubscribe") {
			waiting = true
		}
	}
	return waiting
}

// c07Stacks lists, per goroutine that is inside lib/go or the stomp client, the innermost frames
// (function names only): a diagnosis attached to a hung Unsubscribe.
func c07Stacks() string {
	buf := make([]byte, 1<<20)
	buf = buf[:runtime.Stack(buf, true)]
	var out []string
	for _, g := range strings.Split(string(buf), "\n\n") {
		if !strings.Contains(g, "go-stomp/stomp") && !strings.Contains(g, "frugal/lib/go.") {
			continue
		}
		var fns []string
		for _, l := range strings.Split(g, "\n") {
			if strings.HasPrefix(l, "\t") || strings.HasPrefix(l, "goroutine ") || strings.HasPrefix(l, "created by") {
				continue
			}
			if k := strings.LastIndex(l, "("); k > 0 {
				l = l[:k]
			}
			if k := strings.LastIndex(l, "/"); k >= 0 {
				l = l[k+1:]
			}
			fns = append(fns, l)
			if len(fns) == 5 {
				break
			}
		}
		out = append(out, strings.Join(fns, "<"))
	}
	sort.Strings(out)
	return strings.Join(out, " | ")
}

// c07Stalled runs f under recover; it reports "blocked" when f has not returned and no subscriber
// callback has completed for c07Stall (an Unsubscribe that waits for handlers still running is making
// progress; one that waits for nothing that can happen is a hang).
func c07Stalled(progress *int64, f func()) string {
	done := make(chan string, 1)
	go func() {
		defer func() {
			if r := recover(); r != nil {
				done <- "panic:" + panicClass(r)
			}
		}()
		f()
		done <- ""
	}()
	last, lastAt := atomic.LoadInt64(progress), time.Now()
	tick := time.NewTicker(20 * time.Millisecond)
	defer tick.Stop()
	for {
		select {
		case o := <-done:
			return o
		case <-tick.C:
			if n := atomic.LoadInt64(progress); n != last {
				last, lastAt = n, time.Now()
			} else if time.Since(lastAt) > c07Stall {
				return "blocked"
			}
		}
	}
}

// c07Run executes one scenario against the real transports and evaluates the oracle.
func c07Run(s c07Scn) *c07Result {
	res := &c07Result{unsub: "none"}
	fail := func(f string, a ...interface{}) { res.fails = append(res.fails, fmt.Sprintf(f, a...)) }
	if s.w < 1 || s.w > 8 || (s.tr == "stomp" && s.w != 1) {
		fail("bad-config")
		return res
	}
	conns, err := c07Connect(s.tr, s.w)
	if err != nil {
		fail("harness: cannot connect: %v", err)
		return res
	}
	defer conns.close()
	topic := fmt.Sprintf("c07.p%d.s%d", os.Getpid(), atomic.AddUint64(&c07Seq, 1))
	provider := frugal.NewFScopeProvider(conns.pubF, conns.subF, binFactory)

	var mu sync.Mutex
	type pubInfo struct{ opid string }
	published := map[int]pubInfo{}
	var cbCount, errCount, startCount, startSeen int64
	handler := func(fctx frugal.FContext, p *c07Payload) error {
		tag := int(p.Tag)
		bad := ""
		if !bytes.Equal(p.Blob, c07Blob(tag)) {
			bad = "payload"
		}
		if fctx.CorrelationID() != fmt.Sprintf("cid-%d", tag) {
			bad += "+cid"
		}
		if v, _ := fctx.RequestHeader("k"); v != fmt.Sprintf("v%d", tag) {
			bad += "+header"
		}
		op, _ := fctx.ResponseHeader("_opid")
		mu.Lock()
		if pi, ok := published[tag]; ok && pi.opid != op {
			bad += "+opid"
		}
		res.delivered = append(res.delivered, c07Delivery{tag, bad})
		mu.Unlock()
		if s.delayUs > 0 {
			time.Sleep(time.Duration(s.delayUs) * time.Microsecond)
		}
		return nil
	}
	inner := c07Recv(c07Op, binFactory, handler)
	cb := func(tr thrift.TTransport) error {
		atomic.AddInt64(&startCount, 1)
		err := inner(tr)
		if err != nil {
			atomic.AddInt64(&errCount, 1)
		}
		atomic.AddInt64(&cbCount, 1)
		return err
	}
	sub, _ := provider.NewSubscriber()
	var subErr error
	if o := guard(c07Watchdog, func() { subErr = sub.Subscribe(topic, cb) }); o != "" || subErr != nil {
		fail("Subscribe failed: %s %v", o, subErr)
		return res
	}
	if err := conns.subSync(); err != nil {
		fail("harness: %v", err)
		return res
	}
	if !sub.IsSubscribed() {
		fail("IsSubscribed false after Subscribe")
	}
	client := frugal.NewFScopeClient(provider)
	rawPub := conns.pubF.GetTransport()
	if err := client.Open(); err != nil {
		fail("publisher Open: %v", err)
		return res
	}
	rawPub.Open()

	publish := func(top, op string, tag int, truncate bool) {
		fctx := frugal.NewFContext(fmt.Sprintf("cid-%d", tag))
		fctx.AddRequestHeader("k", fmt.Sprintf("v%d", tag))
		opid, _ := fctx.RequestHeader("_opid")
		mu.Lock()
		published[tag] = pubInfo{opid}
		mu.Unlock()
		if err := client.Publish(fctx, op, top, &c07Payload{Tag: int64(tag), Blob: c07Blob(tag), truncate: truncate}); err != nil {
			fail("Publish returned %v", err)
		}
	}

	owedCb := int64(0)     // callbacks owed so far (messages on the topic with >= 4 bytes, while subscribed)
	var valid []int        // V tags published while subscribed (before U was called), in order
	must := map[int]bool{} // V tags published before a barrier
	subscribed := true
	barrier := func() {
		if !subscribed {
			return
		}
		deadline := time.Now().Add(c07Watchdog)
		for atomic.LoadInt64(&cbCount) < owedCb && time.Now().Before(deadline) {
			time.Sleep(100 * time.Microsecond)
		}
		if got := atomic.LoadInt64(&cbCount); got < owedCb {
			fail("a subscribed transport did not hand over every message: %d of %d callbacks ran within the watchdog", got, owedCb)
		}
		for _, t := range valid {
			must[t] = true
		}
	}
	for _, o := range s.ops {
		switch o.kind {
		case 'V':
			publish(topic, c07Op, o.tag, false)
			if subscribed {
				valid = append(valid, o.tag)
				owedCb++
			}
		case 'O':
			publish(topic, c07OtherOp, o.tag, false)
			if subscribed {
				owedCb++
			}
		case 'G':
			publish(topic, c07Op, o.tag, true)
			if subscribed {
				owedCb++
			}
		case 'F':
			publish(c07Foreign(topic, o.tag), c07Op, o.tag, false)
		case 'R':
			if err := rawPub.Publish(topic, exact(o.raw)); err != nil {
				fail("raw Publish returned %v", err)
			}
			if subscribed && len(o.raw) >= 4 {
				owedCb++
			}
		case 'B':
			barrier()
			startSeen = atomic.LoadInt64(&startCount)
		case 'W':
			deadline := time.Now().Add(200 * time.Millisecond)
			for atomic.LoadInt64(&startCount) <= startSeen && time.Now().Before(deadline) {
				time.Sleep(20 * time.Microsecond)
			}
			startSeen = atomic.LoadInt64(&startCount)
		case 'U':
			if !subscribed {
				// a second Unsubscribe is a no-op that must return as well
				var e error
				if o := guard(c07Watchdog, func() { e = sub.Unsubscribe() }); o != "" || e != nil {
					fail("second Unsubscribe: %s %v", o, e)
				}
				continue
			}
			subscribed = false
			var uerr error
			isC := make(chan string, 1)
			go func() {
				time.Sleep(200 * time.Microsecond)
				isC <- c07Stalled(&cbCount, func() { sub.IsSubscribed() })
			}()
			o := c07Stalled(&cbCount, func() { uerr = sub.Unsubscribe() })
			switch {
			case o == "blocked":
				res.unsub = "blocked"
				res.where = c07Stacks()
				if c07LostWakeup() {
					// not frugal's: KNOWN_FINDINGS gostomp-unsubscribe-lost-wakeup
					res.known = c07KnownLostWakeup
				} else {
					fail("Unsubscribe did not return (no progress within the watchdog)")
				}
			case o != "":
				res.unsub = o
				fail("Unsubscribe %s", o)
			case uerr != nil:
				res.unsub = "err"
				fail("Unsubscribe returned %v", uerr)
			default:
				res.unsub = "ok"
			}
			if io := <-isC; io != "" && res.known == "" {
				fail("IsSubscribed %s while Unsubscribe was running", io)
			}
			if res.unsub == "ok" {
				still := true
				if o := guard(c07Watchdog, func() { still = sub.IsSubscribed() }); o != "" || still {
					fail("IsSubscribed after Unsubscribe: %s %v", o, still)
				}
			}
		}
		if res.unsub == "blocked" || res.known != "" {
			break // the subscriber transport is wedged; nothing after this is meaningful
		}
	}
	// end of the scenario: everything published has reached the broker; a subscriber that is
	// still subscribed gets all of it; then a grace period for what must NOT arrive
	if err := conns.fence(); err != nil {
		fail("harness: fence: %v", err)
	}
	barrier()
	time.Sleep(c07Grace + time.Duration(s.delayUs)*time.Microsecond)
	if subscribed && res.known == "" {
		var e error
		o := c07Stalled(&cbCount, func() { e = sub.Unsubscribe() })
		if o == "blocked" && c07LostWakeup() {
			res.where = c07Stacks()
			res.known = c07KnownLostWakeup
		} else if o != "" || e != nil {
			fail("final Unsubscribe: %s %v", o, e)
		}
	}
	mu.Lock()
	res.cb, res.errs = int(atomic.LoadInt64(&cbCount)), int(atomic.LoadInt64(&errCount))
	delivered := append([]c07Delivery{}, res.delivered...)
	res.delivered = delivered
	mu.Unlock()

	// ---- oracle on the delivery list
	validSet := map[int]int{}
	for i, t := range valid {
		validSet[t] = i
	}
	seen := map[int]bool{}
	last := -1
	for _, d := range delivered {
		idx, ok := validSet[d.tag]
		if !ok {
			fail("handler invoked for tag %d, which is not a valid message published on the topic while subscribed (foreign topic / malformed / wrong operation / after Unsubscribe)", d.tag)
			continue
		}
		if seen[d.tag] {
			fail("message %d delivered twice", d.tag)
		}
		seen[d.tag] = true
		if d.bad != "" {
			fail("message %d delivered with different %s", d.tag, d.bad)
		}
		if s.w == 1 {
			if idx < last {
				fail("single-worker subscriber delivered message %d out of publish order", d.tag)
			}
			last = idx
		}
	}
	for _, t := range valid {
		if must[t] && !seen[t] {
			fail("valid message %d, published while subscribed and before a barrier, was never delivered", t)
		}
	}
	return res
}

func (s c07Scn) line(res *c07Result) (string, string) {
	t := res.tags()
	if s.racing() {
		real := "ok"
		if len(res.fails) > 0 {
			real = "bad"
			if res.unsub == "blocked" {
				real = "unsub=blocked"
			}
		}
		return fmt.Sprintf("psr %s %d %d %s %s", s.tr, s.w, s.delayUs, tagsArg(t), s.opsArg()), real
	}
	if s.w > 1 {
		sort.Ints(t)
	}
	return fmt.Sprintf("ps %s %d %d %s", s.tr, s.w, s.delayUs, s.opsArg()),
		fmt.Sprintf("unsub=%s delivered=%s cb=%d err=%d", res.unsub, tagsArg(t), res.cb, res.errs)
}

// ---------- generation ----------

func c07RawMsg(r *Rng) []byte {
	switch r.Intn(6) {
	case 0, 1:
		return r.Bytes(r.Intn(4)) // shorter than the frame-size prefix
	case 2:
		return r.Bytes(4 + r.Intn(24))
	case 3: // decodable headers without _opid, nothing after them
		return frameOf(frugal.VerifMarshalHeaders(map[string]string{"_cid": "c", "k": "v"}), nil)
	case 4: // valid header block, then nothing (no envelope)
		return frameOf(frugal.VerifMarshalHeaders(map[string]string{"_opid": "7", "_cid": "c"}), nil)
	}
	m := genHeaders(r, true)
	m["_opid"] = strconv.Itoa(r.Intn(1000))
	fr := frameOf(frugal.VerifMarshalHeaders(m), nil)
	fr, _ = mutate(r, fr, sizeFieldOffsets(fr))
	if len(fr) >= 9 && fr[4] == 0 && fr[5] < 0x80 && (fr[5] > 0 || fr[6] > 0) {
		fr[5], fr[6] = 0, 0 // keep a declared header size small (allocation); the huge-size region belongs to C05
	}
	return fr
}

func c07Gen(r *Rng) c07Scn {
	s := c07Scn{tr: "nats", w: 1 + r.Intn(4)}
	if r.Chance(45) {
		s.tr, s.w = "stomp", 1
	}
	s.delayUs = r.Pick(0, 0, 0, 50, 300)
	racing := r.Chance(35)
	burst := racing && r.Chance(40)
	n := 2 + r.Intn(14)
	if burst {
		n = 20 + r.Intn(45)
		s.delayUs = r.Pick(0, 50, 300, 1000)
	}
	uAt := -1
	if racing || r.Chance(60) {
		uAt = r.Intn(n + 1)
		if burst {
			uAt = n
		}
	}
	tag := 0
	for i := 0; i <= n; i++ {
		if i == uAt {
			if !racing {
				s.ops = append(s.ops, c07Operation{kind: 'B'})
			} else if r.Chance(60) {
				s.ops = append(s.ops, c07Operation{kind: 'W'})
			}
			s.ops = append(s.ops, c07Operation{kind: 'U'})
			for k := r.Intn(4); k > 0; k-- { // published after Unsubscribe returned
				tag++
				if r.Chance(75) {
					s.ops = append(s.ops, c07Operation{kind: 'V', tag: tag})
				} else {
					s.ops = append(s.ops, c07Operation{kind: 'R', raw: c07RawMsg(r)})
				}
			}
			if r.Chance(10) {
				s.ops = append(s.ops, c07Operation{kind: 'U'})
			}
		}
		if i == n {
			break
		}
		tag++
		c := r.Intn(100)
		if burst {
			c = r.Intn(60)
		}
		switch {
		case c < 50:
			s.ops = append(s.ops, c07Operation{kind: 'V', tag: tag})
		case c < 68:
			s.ops = append(s.ops, c07Operation{kind: 'R', raw: c07RawMsg(r)})
		case c < 76:
			s.ops = append(s.ops, c07Operation{kind: 'O', tag: tag})
		case c < 82:
			s.ops = append(s.ops, c07Operation{kind: 'G', tag: tag})
		case c < 93:
			s.ops = append(s.ops, c07Operation{kind: 'F', tag: tag})
		default:
			s.ops = append(s.ops, c07Operation{kind: 'B'})
		}
	}
	return s
}

// ---------- supervisor / child processes ----------
//
// lib/go has no recover(): a panic inside a transport goroutine (processMessages calling a nil
// callback …) kills the process. Scenarios therefore run in CHILD processes of this binary (suite
// "c07child": scenario lines on stdin, one JSON result per line on stdout, sequentially); the
// supervisor hosts the brokers, owns the generation, and turns a child that died into the outcome
// `crashed` of the scenario that was running (and restarts a child for the rest).

type c07Out struct {
	Line      string   `json:"line"`
	Real      string   `json:"real"`
	Fails     []string `json:"fails"`
	Delivered int      `json:"delivered"`
	Unsub     string   `json:"unsub"`
	Where     string   `json:"where,omitempty"`
	Known     string   `json:"known,omitempty"`
}

func (s c07Scn) childLine() string {
	return fmt.Sprintf("%s %d %d %s", s.tr, s.w, s.delayUs, s.opsArg())
}

func c07ParseScn(args []string) (c07Scn, bool) {
	if len(args) != 4 {
		return c07Scn{}, false
	}
	w, e1 := strconv.Atoi(args[1])
	d, e2 := strconv.Atoi(args[2])
	ops, ok := c07ParseOps(args[3])
	if e1 != nil || e2 != nil || !ok || (args[0] != "nats" && args[0] != "stomp") || d < 0 || d > 100000 {
		return c07Scn{}, false
	}
	return c07Scn{tr: args[0], w: w, delayUs: d, ops: ops}, true
}

func runC07Child(r *Rng, n int) {
	sc := bufio.NewScanner(os.Stdin)
	sc.Buffer(make([]byte, 1<<20), 1<<26)
	w := bufio.NewWriter(os.Stdout)
	for sc.Scan() {
		s, ok := c07ParseScn(strings.Split(strings.TrimSpace(sc.Text()), " "))
		var o c07Out
		if !ok {
			o = c07Out{Real: "bad-args"}
		} else {
			res := c07Run(s)
			line, real := s.line(res)
			o = c07Out{Line: line, Real: real, Fails: res.fails, Delivered: len(res.delivered), Unsub: res.unsub, Where: res.where, Known: res.known}
		}
		b, _ := json.Marshal(o)
		w.Write(b)
		w.WriteByte('\n')
		w.Flush()
	}
}

// c07Chunk runs the scenarios sequentially in child processes, restarting after a crash.
func c07Chunk(scns []c07Scn, outs []c07Out) {
	natsURL, e1 := c07Nats()
	stompAddr, e2 := c07Stomp()
	next := 0
	for next < len(scns) {
		if e1 != nil || e2 != nil {
			outs[next] = c07Out{Real: "harness", Fails: []string{fmt.Sprintf("harness: brokers: %v %v", e1, e2)}}
			next++
			continue
		}
		var in bytes.Buffer
		for _, s := range scns[next:] {
			in.WriteString(s.childLine() + "\n")
		}
		cmd := exec.Command(os.Args[0], "c07child")
		cmd.Env = append(os.Environ(), "C07_NATS_URL="+natsURL, "C07_STOMP_ADDR="+stompAddr)
		cmd.Stdin = &in
		var stderr bytes.Buffer
		cmd.Stderr = &stderr
		stdout, err := cmd.StdoutPipe()
		if err != nil || cmd.Start() != nil {
			outs[next] = c07Out{Real: "harness", Fails: []string{"harness: cannot start child process"}}
			next++
			continue
		}
		sc := bufio.NewScanner(stdout)
		sc.Buffer(make([]byte, 1<<20), 1<<26)
		for sc.Scan() && next < len(scns) {
			if len(sc.Bytes()) == 0 || sc.Bytes()[0] != '{' {
				continue
			}
			var o c07Out
			if json.Unmarshal(sc.Bytes(), &o) == nil {
				outs[next] = o
				next++
			}
		}
		werr := cmd.Wait()
		if next < len(scns) {
			// the child died while scenario `next` was running
			why := "child process ended early"
			if werr != nil {
				why = werr.Error()
			}
			for _, l := range strings.Split(stderr.String(), "\n") {
				if strings.HasPrefix(l, "panic:") || strings.HasPrefix(l, "fatal error:") {
					why = l
					break
				}
			}
			where := ""
			for _, l := range strings.Split(stderr.String(), "\n") {
				if strings.Contains(l, "frugal/lib/go.") {
					where = strings.TrimSpace(l[strings.Index(l, "frugal/lib/go.")+len("frugal/lib/go."):])
					if k := strings.LastIndex(where, "("); k > 0 {
						where = where[:k] // drop the argument words (addresses)
					}
					where = " in " + where
					break
				}
			}
			s := scns[next]
			line := fmt.Sprintf("ps %s", s.childLine())
			if s.racing() {
				line = fmt.Sprintf("psr %s %d %d - %s", s.tr, s.w, s.delayUs, s.opsArg())
			}
			outs[next] = c07Out{Line: line, Real: "crashed", Unsub: "crashed",
				Fails: []string{"the process crashed (" + why + where + "): lib/go has no recover, one subscriber kills the service"}}
			next++
		}
	}
}

// c07Supervise runs the scenarios in `par` parallel chunks.
func c07Supervise(scns []c07Scn, par int) []c07Out {
	outs := make([]c07Out, len(scns))
	if par > len(scns) {
		par = len(scns)
	}
	if par < 1 {
		par = 1
	}
	var wg sync.WaitGroup
	per := (len(scns) + par - 1) / par
	for a := 0; a < len(scns); a += per {
		b := a + per
		if b > len(scns) {
			b = len(scns)
		}
		wg.Add(1)
		go func(a, b int) {
			defer wg.Done()
			c07Chunk(scns[a:b], outs[a:b])
		}(a, b)
	}
	wg.Wait()
	return outs
}

func c07Report(s c07Scn, o c07Out) {
	Case(o.Line, o.Real)
	Stat("evaluations")
	Stat("transport:" + s.tr)
	Stat(fmt.Sprintf("workers:%d", s.w))
	if s.racing() {
		Stat("shape:unsubscribe-races-inflight")
	} else {
		Stat("shape:quiescent")
	}
	for _, op := range s.ops {
		k := string(op.kind)
		if op.kind == 'R' {
			if len(op.raw) < 4 {
				k = "R:short"
			} else {
				k = "R:long"
			}
		}
		Stat("op:" + k)
	}
	StatN("delivered", o.Delivered)
	Stat("unsub:" + o.Unsub)
	ln := o.Line
	if len(ln) > 300 {
		ln = ln[:300] + "…"
	}
	Sample(map[string]interface{}{"line": ln, "real": o.Real})
	if len(o.Fails) > 0 {
		OracleFail("pub/sub delivery: "+c07Class(o.Fails[0]), map[string]interface{}{"op": strings.SplitN(o.Line, " ", 2)[0], "line": o.Line, "got": o.Real, "all": o.Fails, "goroutines": o.Where})
	}
}

// c07Class strips the numbers from an oracle message so that the shrinker recognises the same failure.
func c07Class(f string) string {
	var b strings.Builder
	for _, c := range f {
		if c >= '0' && c <= '9' {
			continue
		}
		b.WriteRune(c)
	}
	return b.String()
}

// c07Retry re-runs (up to 3 times) the scenarios that ran into a known finding of the environment and
// reports the finding; what is left after the retries is reported as it is.
func c07Retry(scns []c07Scn, outs []c07Out) {
	for round := 0; round < 3; round++ {
		var idx []int
		for i := range outs {
			if outs[i].Known != "" {
				idx = append(idx, i)
			}
		}
		if len(idx) == 0 {
			return
		}
		again := make([]c07Scn, len(idx))
		for k, i := range idx {
			Known(outs[i].Known, "go-stomp v2.1.4 Subscription.Unsubscribe missed the wake-up of a subscription that IS closed (closeCond.Broadcast without closeMutex): frugal's STOMP Unsubscribe waits forever; goroutines: "+outs[i].Where)
			Stat("known:" + outs[i].Known)
			again[k] = scns[i]
		}
		re := c07Supervise(again, 2)
		for k, i := range idx {
			outs[i] = re[k]
		}
	}
	for i := range outs {
		if outs[i].Known != "" {
			outs[i].Fails = append(outs[i].Fails, "Unsubscribe did not return in 4 consecutive runs (each time with the signature of go-stomp's lost wake-up)")
		}
	}
}

func runC07RT(r *Rng, n int) {
	scns := make([]c07Scn, n)
	for i := range scns {
		scns[i] = c07Gen(r)
	}
	outs := c07Supervise(scns, 4)
	c07Retry(scns, outs)
	for i := range scns {
		c07Report(scns[i], outs[i])
	}
}

func c07ReplayLine(op string, args []string) (string, bool) {
	if op == "psr" {
		if len(args) != 5 {
			return "bad-args", true
		}
		args = append(append([]string{}, args[:3]...), args[4])
	}
	s, ok := c07ParseScn(args)
	if !ok {
		return "bad-args", true
	}
	outs := c07Supervise([]c07Scn{s}, 1)
	c07Retry([]c07Scn{s}, outs)
	o := outs[0]
	real := o.Real
	if op == "psr" && !s.racing() && real != "crashed" {
		real = "ok"
		if len(o.Fails) > 0 {
			real = "bad"
		}
	}
	if op == "ps" && s.racing() && real != "crashed" {
		// a `ps` line whose Unsubscribe lost its barrier (shrinking): only the oracle speaks
		real = "racing"
	}
	return real, len(o.Fails) == 0
}

func init() {
	suites["c07rt"] = runC07RT
	suites["c07child"] = runC07Child
	lineOps["ps"] = func(args []string) (string, bool) { return c07ReplayLine("ps", args) }
	lineOps["psr"] = func(args []string) (string, bool) { return c07ReplayLine("psr", args) }
}
