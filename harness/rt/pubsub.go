package main

// C07 (runtime part, suite "c07rt"): the REAL pub/sub transports of lib/go on in-process brokers.
//
//   NATS   frugal.NewFNatsPublisherTransportFactory / NewFNatsSubscriberFactoryBuilder(...).WithWorkerCount(w)
//          over github.com/nats-io/nats-server/v2 (Port -1), one connection for the publisher, one for the subscriber
//   STOMP  frugal.NewFStompPublisherTransportFactoryBuilder / NewFStompSubscriberTransportFactoryBuilder
//          over the conforming in-process STOMP broker of pubsub_broker.go on a free port (go-stomp's own
//          server never answers UNSUBSCRIBE, see there), two go-stomp client connections
//
// One case = one scenario: subscribe, then a list of operations
//
//   V<tag>   valid message on the topic, published through the real publish path
//            (FScopeProvider -> NewFScopeClient -> FStandardClient.Publish -> FPublisherTransport.Publish)
//   R<hex>   raw bytes published on the topic (short messages, undecodable headers, garbage)
//   O<tag>   valid headers, envelope names ANOTHER operation
//   G<tag>   valid headers and envelope, payload struct truncated
//   F<tag>   valid message on a FOREIGN topic (suffix-extended, glued, truncated name)
//   B        barrier: wait until every callback owed so far has run
//   W        wait (briefly, no obligation) until one more callback has STARTED: what follows finds the
//            subscriber busy and the rest of the burst in flight
//   U        Unsubscribe (with a concurrent IsSubscribed), both under a watchdog
//
// The subscriber callback is the emitted `recv<Op>` pattern (header read, op-name check, payload read,
// handler); the handler records (tag, `_opid` of the publisher, `_cid`, user header, payload).
//
// How the transports come into being is part of the case (c07SplitTr: every public entry point of lib/go —
// the NATS subscriber factory builder with/without WithQueueLength/WithQueue, the plain factory constructors,
// the per-transport constructors, both publisher entry points, the STOMP builders with their options), and a
// case may hold SEVERAL subscriptions (2..4, on different topics and on the same topic) made from ONE
// FScopeProvider, i.e. one subscriber factory; operations then carry the topic (`V7.2`) / subscription (`U1`).
//
// Driver lines:
//   ps  <tr> <w> <delayUs> <ops>             every U is directly preceded by B: the outcome is determined,
//                                            the model prints the same `unsub=… delivered=… cb=… err=…`
//   pm  <tr> <w> <delayUs> <subs> <ops>      several subscriptions (topic index of each) from one provider, quiescent:
//                                            the model is the PRODUCT of independent instances (c07_subscribers_independent)
//                                            and prints `k=<n> <subscription 0> / <subscription 1> / …`
//   psr <tr> <w> <delayUs> <observed> <ops>  U races the messages in flight: the model checks that the observed
//                                            delivery list is admissible (everything before the last barrier,
//                                            then a sub-sequence of what was in flight); output `ok`
//
// ORACLE (the property, evaluated on the real run, independent of the model), PER SUBSCRIPTION:
//   * a callback-delivered tag is a V published on ITS topic before its U was called: never a foreign-topic,
//     another subscription's topic,
//     malformed, wrong-op message or one published after U returned;
//   * no tag twice; with one worker (and for STOMP) tags arrive in publish order;
//   * every V published before a barrier is delivered (a subscriber that stays subscribed gets every
//     message exactly once; a malformed message in between changes nothing);
//   * payload, `_cid`, user header equal to what was published; `_opid` response header = publisher's op id;
//   * Unsubscribe returns nil within the watchdog, IsSubscribed answers within the watchdog and is false after.
// Messages in flight when U is called may be dropped (both transports stop their workers on a quit
// signal that races the queue): at most once, in order — DESIGN.md §7 C07.

import (
	"bufio"
	"bytes"
	"context"
	"encoding/json"
	"fmt"
	"io"
	stdlog "log"
	"net"
	"os"
	"os/exec"
	"path/filepath"
	"regexp"
	"runtime"
	"runtime/debug"
	"sort"
	"strconv"
	"strings"
	"sync"
	"sync/atomic"
	"time"

	frugal "github.com/Workiva/frugal/lib/go"
	"github.com/apache/thrift/lib/go/thrift"
	"github.com/go-stomp/stomp"
	natsd "github.com/nats-io/nats-server/v2/server"
	"github.com/nats-io/nats.go"
)

const (
	c07Watchdog = 8 * time.Second // Unsubscribe / IsSubscribed / barrier: a hang, not a latency bound
	c07Grace    = 25 * time.Millisecond
	c07Op       = "Evt"
	c07OtherOp  = "Other"
)

// c07Stall: Unsubscribe / IsSubscribed / a barrier without any callback progress for this long counts as
// "stalled". On a machine shared with many other checks a stall is not yet a verdict: the scenario is then
// re-run alone with the long window (C07_STALL_MS, c07Retry) and only that run decides.
var c07Stall = 3 * time.Second

// c07StallEff: the window of the scenario that is running (scenarios of a child run one after the other):
// c07Stall, stretched when the machine answers slowly (c07Run).
var c07StallEff = c07Stall

const (
	c07StallRerun = 12 * time.Second
	c07MaxReruns  = 4       // re-runs that did NOT come back clean, per harness process: after that, expiries are reported as they are
	c07MarkerBase = 1 << 30 // tags of the barrier markers
	c07Quiescence = time.Second
)

var errC07Marker = fmt.Errorf("c07 barrier marker")

var (
	c07NatsOnce  sync.Once
	c07NatsURL   string
	c07NatsErr   error
	c07StompOnce sync.Once
	c07StompAddr string
	c07StompErr  error
	c07Seq       uint64
)

func c07Nats() (string, error) {
	c07NatsOnce.Do(func() {
		if u := os.Getenv("C07_NATS_URL"); u != "" {
			c07NatsURL = u
			return
		}
		s, err := natsd.NewServer(&natsd.Options{Host: "127.0.0.1", Port: -1, NoLog: true, NoSigs: true})
		if err != nil {
			c07NatsErr = err
			return
		}
		go s.Start()
		if !s.ReadyForConnections(10 * time.Second) {
			c07NatsErr = fmt.Errorf("in-process nats-server not ready")
			return
		}
		c07NatsURL = s.ClientURL()
	})
	return c07NatsURL, c07NatsErr
}

func c07Stomp() (string, error) {
	c07StompOnce.Do(func() {
		stdlog.SetOutput(io.Discard) // go-stomp logs through the standard logger
		if a := os.Getenv("C07_STOMP_ADDR"); a != "" {
			c07StompAddr = a
			return
		}
		c07StompAddr, c07StompErr = c07StartBroker()
	})
	return c07StompAddr, c07StompErr
}

// ---------- payload struct (hand-written thrift.TStruct: 1: i64 tag, 2: binary blob) ----------

type c07Payload struct {
	Tag      int64
	Blob     []byte
	truncate bool // Write stops after the first field header (an unreadable payload)
}

func (p *c07Payload) Write(ctx context.Context, o thrift.TProtocol) error {
	if err := o.WriteStructBegin(ctx, "Payload"); err != nil {
		return err
	}
	if err := o.WriteFieldBegin(ctx, "tag", thrift.I64, 1); err != nil {
		return err
	}
	if p.truncate {
		return nil
	}
	// every error is returned, as the emitted Write does (a write refused by the bounded buffer must
	// abort the message, not be followed by more writes)
	if err := o.WriteI64(ctx, p.Tag); err != nil {
		return err
	}
	if err := o.WriteFieldEnd(ctx); err != nil {
		return err
	}
	if err := o.WriteFieldBegin(ctx, "blob", thrift.STRING, 2); err != nil {
		return err
	}
	if err := o.WriteBinary(ctx, p.Blob); err != nil {
		return err
	}
	if err := o.WriteFieldEnd(ctx); err != nil {
		return err
	}
	if err := o.WriteFieldStop(ctx); err != nil {
		return err
	}
	return o.WriteStructEnd(ctx)
}

func (p *c07Payload) Read(ctx context.Context, i thrift.TProtocol) error {
	if _, err := i.ReadStructBegin(ctx); err != nil {
		return err
	}
	seenTag := false
	for {
		_, ft, id, err := i.ReadFieldBegin(ctx)
		if err != nil {
			return err
		}
		if ft == thrift.STOP {
			break
		}
		switch {
		case id == 1 && ft == thrift.I64:
			if p.Tag, err = i.ReadI64(ctx); err != nil {
				return err
			}
			seenTag = true
		case id == 2 && ft == thrift.STRING:
			if p.Blob, err = i.ReadBinary(ctx); err != nil {
				return err
			}
		default:
			if err = i.Skip(ctx, ft); err != nil {
				return err
			}
		}
		if err = i.ReadFieldEnd(ctx); err != nil {
			return err
		}
	}
	if !seenTag {
		return thrift.NewTProtocolExceptionWithType(thrift.INVALID_DATA, fmt.Errorf("tag not set"))
	}
	return i.ReadStructEnd(ctx)
}

func (p *c07Payload) String() string { return fmt.Sprintf("Payload(%d)", p.Tag) }

func c07Blob(tag int) []byte {
	n := tag % 7
	b := make([]byte, n)
	for i := range b {
		b[i] = byte(tag*31 + i*7)
	}
	return b
}

// c07Recv is the emitted recv<Op> callback pattern (generator.go generateSubscribeMethod).
func c07Recv(op string, pf *frugal.FProtocolFactory, handler func(frugal.FContext, *c07Payload) error) frugal.FAsyncCallback {
	return func(transport thrift.TTransport) error {
		iprot := pf.GetProtocol(transport)
		fctx, err := iprot.ReadRequestHeader()
		if err != nil {
			return err
		}
		ctx, cancelFn := frugal.ToContext(fctx)
		defer cancelFn()
		name, _, _, err := iprot.ReadMessageBegin(ctx)
		if err != nil {
			return err
		}
		if name != op {
			iprot.Skip(ctx, thrift.STRUCT)
			iprot.ReadMessageEnd(ctx)
			return thrift.NewTApplicationException(frugal.APPLICATION_EXCEPTION_UNKNOWN_METHOD, "Unknown function"+name)
		}
		req := &c07Payload{}
		if err := req.Read(ctx, iprot); err != nil {
			return thrift.PrependError("error reading struct: ", err)
		}
		iprot.ReadMessageEnd(ctx)
		return handler(fctx, req)
	}
}

// ---------- scenarios ----------

type c07Operation struct {
	kind  byte // V R O G H X F B W U S
	tag   int
	raw   []byte
	topic int // V R O G: index of the topic it is published on
	sub   int // U: index of the subscription
}

// c07Scn: one case. `tr` = transport and HOW its factories come into being (c07Connect), `subs` = the
// topic index of every subscription made from the ONE provider (nil: the single-subscription lines
// ps/psr, one subscription on topic 0).
type c07Scn struct {
	tr      string
	w       int
	delayUs int
	subs    []int
	ops     []c07Operation
}

func (s c07Scn) topics() []int {
	if s.subs == nil {
		return []int{0}
	}
	return s.subs
}

func (s c07Scn) subsArg() string {
	p := make([]string, len(s.subs))
	for i, t := range s.subs {
		p[i] = strconv.Itoa(t)
	}
	return strings.Join(p, ",")
}

func (s c07Scn) opsArg() string {
	if len(s.ops) == 0 {
		return "."
	}
	parts := make([]string, len(s.ops))
	for i, o := range s.ops {
		suffix := ""
		if o.topic != 0 {
			suffix = "." + strconv.Itoa(o.topic)
		}
		switch o.kind {
		case 'B', 'W':
			parts[i] = string(o.kind)
		case 'U', 'S':
			parts[i] = string(o.kind)
			if o.sub != 0 {
				parts[i] = string(o.kind) + strconv.Itoa(o.sub)
			}
		case 'R':
			parts[i] = "R" + hx(o.raw) + suffix
		case 'F':
			parts[i] = "F" + strconv.Itoa(o.tag)
		default:
			parts[i] = string(o.kind) + strconv.Itoa(o.tag) + suffix
		}
	}
	return strings.Join(parts, ",")
}

// ops syntax: V<tag>[.<topic>] O… G… H… X… R<hex>[.<topic>] F<tag> B W U[<sub>] S[<sub>]
func c07ParseOps(s string) ([]c07Operation, bool) {
	if s == "." || s == "" {
		return nil, true
	}
	var ops []c07Operation
	for _, p := range strings.Split(s, ",") {
		if p == "" {
			return nil, false
		}
		body, topic := p[1:], 0
		if k := strings.IndexByte(body, '.'); k >= 0 && p[0] != 'B' && p[0] != 'W' && p[0] != 'U' && p[0] != 'S' && p[0] != 'F' {
			t, err := strconv.Atoi(body[k+1:])
			if err != nil || t < 0 || t > 64 {
				return nil, false
			}
			body, topic = body[:k], t
		}
		switch p[0] {
		case 'B', 'W':
			if len(p) != 1 {
				return nil, false
			}
			ops = append(ops, c07Operation{kind: p[0]})
		case 'U', 'S':
			k := 0
			if body != "" {
				n, err := strconv.Atoi(body)
				if err != nil || n < 0 || n > 64 {
					return nil, false
				}
				k = n
			}
			ops = append(ops, c07Operation{kind: p[0], sub: k})
		case 'R':
			if body != "-" && (len(body)%2 != 0 || strings.Trim(body, "0123456789abcdef") != "") {
				return nil, false
			}
			ops = append(ops, c07Operation{kind: 'R', raw: unhx(body), topic: topic})
		case 'V', 'O', 'G', 'F', 'H', 'X':
			n, err := strconv.Atoi(body)
			if err != nil || n < 0 {
				return nil, false
			}
			ops = append(ops, c07Operation{kind: p[0], tag: n, topic: topic})
		default:
			return nil, false
		}
	}
	return ops, true
}

// racing: some U is not directly preceded by a barrier (messages may be in flight).
func (s c07Scn) racing() bool {
	for i, o := range s.ops {
		if o.kind == 'U' && (i == 0 || s.ops[i-1].kind != 'B') {
			// nothing owed before it? then nothing is in flight either
			for _, p := range s.ops[:i] {
				if p.kind != 'F' && p.kind != 'B' && p.kind != 'U' && p.kind != 'W' && p.kind != 'X' && p.kind != 'S' {
					return true
				}
			}
		}
	}
	return false
}

type c07Delivery struct {
	tag int
	bad string // "" or what differed from what was published
}

// c07SubRes: what one subscription saw.
type c07SubRes struct {
	delivered []c07Delivery
	cb, errs  int
	unsub     string // none | ok | blocked | err
}

type c07Result struct {
	barrierMax time.Duration // the longest barrier of the scenario (how late the machine lets a marker arrive)
	retry      string        // a stall window expired: what would be reported — decided by a re-run alone with the long window
	known      string        // id of a known finding this run ran into (the scenario is re-run)
	where      string        // where the transport's and the stomp client's goroutines are parked when Unsubscribe hangs
	subs       []c07SubRes
	delivered  []c07Delivery // = subs[0] (single-subscription lines)
	cb, errs   int
	unsub      string // none | ok | blocked | err
	fails      []string
}

func tagsOf(ds []c07Delivery) []int {
	t := make([]int, len(ds))
	for i, d := range ds {
		t[i] = d.tag
	}
	return t
}

func (r *c07Result) tags() []int {
	t := make([]int, len(r.delivered))
	for i, d := range r.delivered {
		t[i] = d.tag
	}
	return t
}

func tagsArg(t []int) string {
	if len(t) == 0 {
		return "-"
	}
	p := make([]string, len(t))
	for i, x := range t {
		p[i] = strconv.Itoa(x)
	}
	return strings.Join(p, ",")
}

type c07Conns struct {
	pubF    frugal.FPublisherTransportFactory
	subF    frugal.FSubscriberTransportFactory
	fence   func() error // returns once the broker has processed everything published so far
	subSync func() error // returns once the broker has registered the subscriptions made so far
	close   func()
}

// Factories that reach the public per-transport constructors of lib/go.
type c07PubCtor func() frugal.FPublisherTransport

func (f c07PubCtor) GetTransport() frugal.FPublisherTransport { return f() }

type c07SubCtor func() frugal.FSubscriberTransport

func (f c07SubCtor) GetTransport() frugal.FSubscriberTransport { return f() }

// c07Kinds: HOW the factories come into being — every public entry point of lib/go for pub/sub
// transports. The transport name of a line is `<nats|stomp>[-<subscriber kind>][+<publisher kind>]`.
//
//	nats        NewFNatsSubscriberFactoryBuilder(c).WithWorkerCount(w).Build()
//	nats-b<q>   … .WithQueueLength(q).WithWorkerCount(w).Build()
//	nats-g      … .WithQueue(group).WithWorkerCount(w).Build()                      (queue group: distinct topics only)
//	nats-f      NewFNatsSubscriberTransportFactory(c)                               (w = 1)
//	nats-q      NewFNatsSubscriberTransportFactoryWithQueue(c, group)               (w = 1, distinct topics only)
//	nats-d      NewNatsFSubscriberTransport(c) per subscription                     (w = 1)
//	nats-e      NewNatsFSubscriberTransportWithQueue(c, group) per subscription     (w = 1, distinct topics only)
//	…+d         publisher: NewNatsFPublisherTransport(c) per publisher instead of NewFNatsPublisherTransportFactory(c)
//	stomp       NewFStomp{Publisher,Subscriber}TransportFactoryBuilder(c).Build()
//	stomp-p     both .WithTopicPrefix("VT.")
//	stomp-u     subscriber .WithUseQueues(false)
//	…+m         publisher .WithMaxPublishSize(1 MiB)
func c07SplitTr(tr string) (base, sk, pk string, ok bool) {
	if k := strings.IndexByte(tr, '+'); k >= 0 {
		tr, pk = tr[:k], tr[k+1:]
	}
	if k := strings.IndexByte(tr, '-'); k >= 0 {
		tr, sk = tr[:k], tr[k+1:]
	}
	base = tr
	switch base {
	case "nats":
		if pk != "" && pk != "d" {
			return
		}
		switch {
		case sk == "" || sk == "g" || sk == "f" || sk == "q" || sk == "d" || sk == "e":
		case len(sk) >= 2 && sk[0] == 'b':
			if n, err := strconv.Atoi(sk[1:]); err != nil || n < 0 || n > 4096 {
				return
			}
		default:
			return
		}
	case "stomp":
		if (pk != "" && pk != "m") || (sk != "" && sk != "p" && sk != "u") {
			return
		}
	default:
		return
	}
	return base, sk, pk, true
}

// c07QueueGroup: the subscriber kind joins a NATS queue group (one member gets each message):
// only meaningful here when no two subscriptions share a topic.
func c07QueueGroup(tr string) bool {
	_, sk, _, _ := c07SplitTr(tr)
	return sk == "g" || sk == "q" || sk == "e"
}

func c07SingleWorker(tr string) bool {
	base, sk, _, _ := c07SplitTr(tr)
	return base == "stomp" || sk == "f" || sk == "q" || sk == "d" || sk == "e"
}

func c07Connect(tr string, w int) (*c07Conns, error) {
	base, sk, pk, ok := c07SplitTr(tr)
	if !ok {
		return nil, fmt.Errorf("unknown transport %q", tr)
	}
	switch base {
	case "nats":
		url, err := c07Nats()
		if err != nil {
			return nil, err
		}
		pc, err := nats.Connect(url)
		if err != nil {
			return nil, err
		}
		sc, err := nats.Connect(url)
		if err != nil {
			pc.Close()
			return nil, err
		}
		group := fmt.Sprintf("g%d.%d", os.Getpid(), atomic.AddUint64(&c07Seq, 1))
		var subF frugal.FSubscriberTransportFactory
		switch {
		case sk == "":
			subF = frugal.NewFNatsSubscriberFactoryBuilder(sc).WithWorkerCount(uint(w)).Build()
		case sk[0] == 'b':
			q, _ := strconv.Atoi(sk[1:])
			subF = frugal.NewFNatsSubscriberFactoryBuilder(sc).WithQueueLength(uint(q)).WithWorkerCount(uint(w)).Build()
		case sk == "g":
			subF = frugal.NewFNatsSubscriberFactoryBuilder(sc).WithQueue(group).WithWorkerCount(uint(w)).Build()
		case sk == "f":
			subF = frugal.NewFNatsSubscriberTransportFactory(sc)
		case sk == "q":
			subF = frugal.NewFNatsSubscriberTransportFactoryWithQueue(sc, group)
		case sk == "d":
			subF = c07SubCtor(func() frugal.FSubscriberTransport { return frugal.NewNatsFSubscriberTransport(sc) })
		case sk == "e":
			subF = c07SubCtor(func() frugal.FSubscriberTransport { return frugal.NewNatsFSubscriberTransportWithQueue(sc, group) })
		}
		var pubF frugal.FPublisherTransportFactory = frugal.NewFNatsPublisherTransportFactory(pc)
		if pk == "d" {
			pubF = c07PubCtor(func() frugal.FPublisherTransport { return frugal.NewNatsFPublisherTransport(pc) })
		}
		return &c07Conns{
			pubF:    pubF,
			subF:    subF,
			fence:   func() error { return pc.FlushTimeout(c07Watchdog) },
			subSync: func() error { return nil }, // Subscribe flushes the SUB itself
			close:   func() { pc.Close(); sc.Close() },
		}, nil
	case "stomp":
		addr, err := c07Stomp()
		if err != nil {
			return nil, err
		}
		dial := func() (net.Conn, *stomp.Conn, error) {
			nc, err := net.Dial("tcp", addr)
			if err != nil {
				return nil, nil, err
			}
			c, err := stomp.Connect(nc, stomp.ConnOpt.HeartBeat(0, 0))
			if err != nil {
				nc.Close()
				return nil, nil, err
			}
			return nc, c, nil
		}
		pn, pc, err := dial()
		if err != nil {
			return nil, err
		}
		sn, sc, err := dial()
		if err != nil {
			pn.Close()
			return nil, err
		}
		receipt := func(c *stomp.Conn) func() error {
			return func() error {
				var err error
				if o := guard(c07Watchdog, func() {
					err = c.Send("/topic/c07.sync", "text/plain", []byte("x"), stomp.SendOpt.Receipt)
				}); o != "" {
					return fmt.Errorf("sync send %s", o)
				}
				return err
			}
		}
		pb := frugal.NewFStompPublisherTransportFactoryBuilder(pc)
		sb := frugal.NewFStompSubscriberTransportFactoryBuilder(sc)
		if sk == "p" {
			pb, sb = pb.WithTopicPrefix("VT."), sb.WithTopicPrefix("VT.")
		}
		if sk == "u" {
			sb = sb.WithUseQueues(false)
		}
		if pk == "m" {
			pb = pb.WithMaxPublishSize(1 << 20)
		}
		return &c07Conns{
			pubF:  pb.Build(),
			subF:  sb.Build(),
			fence: receipt(pc),
			// the broker handles one connection's frames in order and queues SUBSCRIBE before it
			// answers the SEND that follows it: after the receipt the subscriptions precede every
			// later publish in the broker's request queue
			subSync: receipt(sc),
			// closing the sockets (not Disconnect: a wedged client loop would block it)
			close: func() { pn.Close(); sn.Close() },
		}, nil
	}
	return nil, fmt.Errorf("unknown transport %q", tr)
}

func c07Foreign(topic string, tag int) string {
	switch tag % 3 {
	case 0:
		return topic + ".x"
	case 1:
		return topic + "x"
	}
	return topic[:len(topic)-1]
}

const c07KnownLostWakeup = "gostomp-unsubscribe-lost-wakeup"

// c07LostWakeup recognises go-stomp v2.1.4's own defect (KNOWN_FINDINGS.txt): Subscription.closeChannel
// stores the closed state and calls closeCond.Broadcast() WITHOUT holding closeMutex, so a
// Subscription.Unsubscribe that has just tested the state and not yet parked in closeCond.Wait() misses
// the wake-up and waits forever although the subscription IS closed. Signature: a goroutine parked in
// sync.(*Cond).Wait under stomp.(*Subscription).Unsubscribe while no stomp.(*Subscription).readLoop
// goroutine exists any more FOR THAT SUBSCRIPTION (it has processed the RECEIPT and returned; with several
// subscriptions on the connection: fewer readLoops than subscriptions still to be closed). In frugal's own
// hang (DESIGN §8 row 17) the readLoop is alive, blocked on its send to sub.C.
func c07LostWakeup(liveSubs int) bool {
	buf := make([]byte, 1<<20)
	buf = buf[:runtime.Stack(buf, true)]
	waiting, loops := 0, 0
	for _, g := range strings.Split(string(buf), "\n\n") {
		if strings.Contains(g, "stomp.(*Subscription).readLoop") {
			loops++
		}
		if strings.Contains(g, "sync.(*Cond).Wait") && strings.Contains(g, "stomp.(*Subscription).Unsubscribe") {
			waiting++
		}
	}
	// liveSubs = subscriptions of this scenario not yet unsubscribed, the hanging one included: every one of
	// them has a readLoop unless it has already processed its RECEIPT
	return waiting > 0 && loops < liveSubs
}

// c07Stacks lists, per goroutine that is inside lib/go or the stomp client, the innermost frames
// (function names only): a diagnosis attached to a hung Unsubscribe.
func c07Stacks() string {
	buf := make([]byte, 1<<20)
	buf = buf[:runtime.Stack(buf, true)]
	var out []string
	for _, g := range strings.Split(string(buf), "\n\n") {
		if !strings.Contains(g, "go-stomp/stomp") && !strings.Contains(g, "frugal/lib/go.") {
			continue
		}
		var fns []string
		for _, l := range strings.Split(g, "\n") {
			if strings.HasPrefix(l, "\t") || strings.HasPrefix(l, "goroutine ") || strings.HasPrefix(l, "created by") {
				continue
			}
			if k := strings.LastIndex(l, "("); k > 0 {
				l = l[:k]
			}
			if k := strings.LastIndex(l, "/"); k >= 0 {
				l = l[k+1:]
			}
			fns = append(fns, l)
			if len(fns) == 5 {
				break
			}
		}
		out = append(out, strings.Join(fns, "<"))
	}
	sort.Strings(out)
	return strings.Join(out, " | ")
}

// c07Stalled runs f under recover; it reports "blocked" when f has not returned and no subscriber
// callback has completed for c07Stall (an Unsubscribe that waits for handlers still running is making
// progress; one that waits for nothing that can happen is a hang).
func c07Stalled(progress *int64, f func()) string {
	done := make(chan string, 1)
	go func() {
		defer func() {
			if r := recover(); r != nil {
				done <- "panic:" + panicClass(r)
			}
		}()
		f()
		done <- ""
	}()
	last, lastAt := atomic.LoadInt64(progress), time.Now()
	tick := time.NewTicker(20 * time.Millisecond)
	defer tick.Stop()
	for {
		select {
		case o := <-done:
			return o
		case <-tick.C:
			if n := atomic.LoadInt64(progress); n != last {
				last, lastAt = n, time.Now()
			} else if time.Since(lastAt) > c07StallEff {
				return "blocked"
			}
		}
	}
}

// c07Run executes one scenario against the real transports and evaluates the oracle, per subscription.
// All subscriptions are made from ONE FScopeProvider (one publisher factory, one subscriber factory).
func c07Run(s c07Scn) *c07Result {
	res := &c07Result{unsub: "none"}
	fail := func(f string, a ...interface{}) { res.fails = append(res.fails, fmt.Sprintf(f, a...)) }
	base, _, _, okTr := c07SplitTr(s.tr)
	topicIDs := s.topics()
	if !okTr || s.w < 1 || s.w > 8 || (c07SingleWorker(s.tr) && s.w != 1) || len(topicIDs) < 1 || len(topicIDs) > 8 {
		fail("bad-config")
		return res
	}
	if c07QueueGroup(s.tr) {
		seenT := map[int]bool{}
		for _, t := range topicIDs {
			if seenT[t] {
				fail("bad-config")
				return res
			}
			seenT[t] = true
		}
	}
	_ = base
	conns, err := c07Connect(s.tr, s.w)
	if err != nil {
		fail("harness: cannot connect: %v", err)
		return res
	}
	defer conns.close()
	baseTopic := fmt.Sprintf("c07.p%d.s%d", os.Getpid(), atomic.AddUint64(&c07Seq, 1))
	topicName := func(id int) string { return fmt.Sprintf("%s.t%d", baseTopic, id) }
	provider := frugal.NewFScopeProvider(conns.pubF, conns.subF, binFactory)

	var mu sync.Mutex
	type pubInfo struct{ opid string }
	published := map[int]pubInfo{}
	var cbTotal, startCount, startSeen int64 // over all subscriptions: progress / "somebody is busy"
	handlerErr := map[int]bool{}             // H tags: the (Errorable) handler returns an error for them
	for _, o := range s.ops {
		if o.kind == 'H' {
			handlerErr[o.tag] = true
		}
	}

	type subState struct {
		topicID       int
		marker        int64 // last barrier marker its handler saw
		foreignMarker int64 // 1 + topic of a marker of ANOTHER topic its handler saw
		cbf           frugal.FAsyncCallback
		tr            frugal.FSubscriberTransport
		delivered     []c07Delivery
		cb, errs      int64
		owed          int64        // callbacks owed so far (messages on its topic with >= 4 bytes, while subscribed)
		valid         []int        // V tags published on its topic while subscribed, in order
		must          map[int]bool // … before a barrier
		subscribed    bool
		unsub         string
	}
	subs := make([]*subState, len(topicIDs))
	subscribeStart := time.Now()
	for k, tid := range topicIDs {
		st := &subState{topicID: tid, must: map[int]bool{}, unsub: "none"}
		subs[k] = st
		handler := func(fctx frugal.FContext, p *c07Payload) error {
			tag := int(p.Tag)
			if tag >= c07MarkerBase {
				// a barrier marker (harness traffic, not part of the case): remember it, count nothing
				if (tag-c07MarkerBase)%64 != st.topicID {
					atomic.StoreInt64(&st.foreignMarker, int64(1+(tag-c07MarkerBase)%64))
				}
				atomic.StoreInt64(&st.marker, int64(tag))
				return errC07Marker
			}
			bad := ""
			if !bytes.Equal(p.Blob, c07Blob(tag)) {
				bad = "payload"
			}
			if fctx.CorrelationID() != fmt.Sprintf("cid-%d", tag) {
				bad += "+cid"
			}
			if v, _ := fctx.RequestHeader("k"); v != fmt.Sprintf("v%d", tag) {
				bad += "+header"
			}
			op, _ := fctx.ResponseHeader("_opid")
			mu.Lock()
			if pi, ok := published[tag]; ok && pi.opid != op {
				bad += "+opid"
			}
			st.delivered = append(st.delivered, c07Delivery{tag, bad})
			mu.Unlock()
			if s.delayUs > 0 {
				time.Sleep(time.Duration(s.delayUs) * time.Microsecond)
			}
			if handlerErr[tag] {
				return fmt.Errorf("handler refuses %d", tag)
			}
			return nil
		}
		inner := c07Recv(c07Op, binFactory, handler)
		cb := func(tr thrift.TTransport) error {
			atomic.AddInt64(&startCount, 1)
			err := inner(tr)
			if err == errC07Marker {
				atomic.AddInt64(&cbTotal, 1) // progress, but not a callback of the case
				return nil
			}
			if err != nil {
				atomic.AddInt64(&st.errs, 1)
			}
			atomic.AddInt64(&st.cb, 1)
			atomic.AddInt64(&cbTotal, 1)
			return err
		}
		st.cbf = cb
		st.tr, _ = provider.NewSubscriber()
		var subErr error
		if o := guard(c07Watchdog, func() { subErr = st.tr.Subscribe(topicName(tid), cb) }); o != "" || subErr != nil {
			fail("Subscribe %d failed: %s %v", k, o, subErr)
			return res
		}
		st.subscribed = true
	}
	if err := conns.subSync(); err != nil {
		fail("harness: %v", err)
		return res
	}
	for k, st := range subs {
		if !st.tr.IsSubscribed() {
			fail("IsSubscribed false after Subscribe (subscription %d)", k)
		}
	}
	// how responsive the machine is right now: one Subscribe + broker round trip normally takes well under a
	// millisecond; the stall window of this scenario is at least 40 such round trips (at most 20 s)
	stall := c07Stall
	if rtt := time.Since(subscribeStart) / time.Duration(len(subs)); 40*rtt > stall {
		stall = 40 * rtt
		if stall > 20*time.Second {
			stall = 20 * time.Second
		}
	}
	c07StallEff = stall
	client := frugal.NewFScopeClient(provider)
	rawPub := conns.pubF.GetTransport()
	if err := client.Open(); err != nil {
		fail("publisher Open: %v", err)
		return res
	}
	rawPub.Open()

	publishBlob := func(top, op string, tag int, truncate bool, blob []byte) error {
		fctx := frugal.NewFContext(fmt.Sprintf("cid-%d", tag))
		fctx.AddRequestHeader("k", fmt.Sprintf("v%d", tag))
		opid, _ := fctx.RequestHeader("_opid")
		mu.Lock()
		published[tag] = pubInfo{opid}
		mu.Unlock()
		return client.Publish(fctx, op, top, &c07Payload{Tag: int64(tag), Blob: blob, truncate: truncate})
	}
	publish := func(top, op string, tag int, truncate bool) {
		if err := publishBlob(top, op, tag, truncate, c07Blob(tag)); err != nil {
			fail("Publish returned %v", err)
		}
	}
	// what a message on topic `tid` owes to every subscription on that topic
	owe := func(tid int, validTag int, callback bool) {
		for _, st := range subs {
			if st.topicID == tid && st.subscribed {
				if validTag >= 0 {
					st.valid = append(st.valid, validTag)
				}
				if callback {
					st.owed++
				}
			}
		}
	}
	// barrier: a MARKER message is published on every topic that has a live subscription; the broker keeps a
	// topic's messages in order, so a subscription that has seen its marker has been handed everything that
	// was published before it. Waiting for the marker is progress-based (no callback of any subscription for
	// c07Stall): an expiry is NOT a verdict on a loaded machine — the case is marked for a re-run alone with
	// the long window (c07Retry). Once the marker was seen, a callback that is still missing is a LOST
	// delivery, whatever the load: a single worker has run everything before the marker by then; several
	// workers get a quiescence window for callbacks still running. After a failed barrier the scenario stops.
	barrierFailed, barrierNo := false, 0
	barrier := func() {
		barrierNo++
		want := map[int]int64{}
		for _, st := range subs {
			if st.subscribed {
				if _, ok := want[st.topicID]; !ok {
					tag := c07MarkerBase + barrierNo*64 + st.topicID
					want[st.topicID] = int64(tag)
					if err := publishBlob(topicName(st.topicID), c07Op, tag, false, nil); err != nil {
						fail("Publish returned %v", err)
					}
				}
			}
		}
		last, lastAt, start := atomic.LoadInt64(&cbTotal), time.Now(), time.Now()
		defer func() {
			if d := time.Since(start); d > res.barrierMax {
				res.barrierMax = d
			}
		}()
		for k, st := range subs {
			if !st.subscribed {
				continue
			}
			for atomic.LoadInt64(&st.marker) != want[st.topicID] {
				if time.Since(start) < 5*time.Millisecond {
					time.Sleep(100 * time.Microsecond)
				} else {
					time.Sleep(time.Millisecond) // do not add to the load that makes the marker late
				}
				if n := atomic.LoadInt64(&cbTotal); n != last {
					last, lastAt = n, time.Now()
				} else if time.Since(lastAt) > stall || time.Since(start) > 10*stall {
					res.retry = fmt.Sprintf("a subscribed transport did not hand over every message: %d of %d callbacks ran and the barrier marker did not arrive within the watchdog (subscription %d)", atomic.LoadInt64(&st.cb), st.owed, k)
					barrierFailed = true
					return
				}
			}
		}
		for k, st := range subs {
			if !st.subscribed {
				continue
			}
			if s.w > 1 {
				for atomic.LoadInt64(&st.cb) < st.owed {
					time.Sleep(100 * time.Microsecond)
					if n := atomic.LoadInt64(&cbTotal); n != last {
						last, lastAt = n, time.Now()
					} else if time.Since(lastAt) > c07Quiescence+4*time.Duration(s.delayUs)*time.Microsecond {
						break
					}
				}
			}
			if got := atomic.LoadInt64(&st.cb); got < st.owed {
				fail("a subscribed transport did not hand over every message: %d of %d callbacks ran although the marker published after them arrived (subscription %d): lost", got, st.owed, k)
				barrierFailed = true
				return
			}
			for _, t := range st.valid {
				st.must[t] = true
			}
		}
	}
	liveSubs := func() int { // subscriptions whose go-stomp readLoop must still exist (call BEFORE marking one unsubscribed)
		n := 0
		for _, st := range subs {
			if st.subscribed {
				n++
			}
		}
		return n
	}
	wedged := false
	for _, o := range s.ops {
		switch o.kind {
		case 'V':
			publish(topicName(o.topic), c07Op, o.tag, false)
			owe(o.topic, o.tag, true)
		case 'O':
			publish(topicName(o.topic), c07OtherOp, o.tag, false)
			owe(o.topic, -1, true)
		case 'G':
			publish(topicName(o.topic), c07Op, o.tag, true)
			owe(o.topic, -1, true)
		case 'H': // a valid message whose handler returns an error: delivered (once), the callback reports the error
			publish(topicName(o.topic), c07Op, o.tag, false)
			owe(o.topic, o.tag, true)
		case 'X': // larger than the publisher's size limit: refused by Publish, nothing reaches the broker
			limit := rawPub.GetPublishSizeLimit()
			if limit == 0 || limit > 1<<24 {
				fail("bad-config")
				continue
			}
			err := publishBlob(topicName(o.topic), c07Op, o.tag, false, make([]byte, limit))
			if errClass(err) != "err:tooLarge" {
				fail("Publish of a message above the size limit returned %v, not REQUEST_TOO_LARGE", err)
			}
		case 'S': // a NEW transport from the same provider takes the place of an unsubscribed subscription
			if o.sub >= len(subs) || subs[o.sub].subscribed {
				fail("bad-config")
				continue
			}
			st := subs[o.sub]
			st.tr, _ = provider.NewSubscriber()
			var subErr error
			if out := guard(c07Watchdog, func() { subErr = st.tr.Subscribe(topicName(st.topicID), st.cbf) }); out != "" || subErr != nil {
				fail("re-Subscribe failed: %s %v", out, subErr)
				wedged = true
				break
			}
			if err := conns.subSync(); err != nil {
				fail("harness: %v", err)
			}
			if !st.tr.IsSubscribed() {
				fail("IsSubscribed false after Subscribe (cycle)")
			}
			st.subscribed, st.unsub = true, "none"
		case 'F':
			publish(c07Foreign(topicName(0), o.tag), c07Op, o.tag, false)
		case 'R':
			if err := rawPub.Publish(topicName(o.topic), exact(o.raw)); err != nil {
				fail("raw Publish returned %v", err)
			}
			owe(o.topic, -1, len(o.raw) >= 4)
		case 'B':
			barrier()
			startSeen = atomic.LoadInt64(&startCount)
		case 'W':
			deadline := time.Now().Add(200 * time.Millisecond)
			for atomic.LoadInt64(&startCount) <= startSeen && time.Now().Before(deadline) {
				time.Sleep(20 * time.Microsecond)
			}
			startSeen = atomic.LoadInt64(&startCount)
		case 'U':
			if o.sub >= len(subs) {
				fail("bad-config")
				continue
			}
			st := subs[o.sub]
			if !st.subscribed {
				// a second Unsubscribe is a no-op that must return as well
				var e error
				if o := guard(c07Watchdog, func() { e = st.tr.Unsubscribe() }); o != "" || e != nil {
					fail("second Unsubscribe: %s %v", o, e)
				}
				continue
			}
			live := liveSubs()
			st.subscribed = false
			var uerr error
			isC := make(chan string, 1)
			go func() {
				time.Sleep(200 * time.Microsecond)
				isC <- c07Stalled(&cbTotal, func() { st.tr.IsSubscribed() })
			}()
			out := c07Stalled(&cbTotal, func() { uerr = st.tr.Unsubscribe() })
			switch {
			case out == "blocked":
				st.unsub = "blocked"
				res.where = c07Stacks()
				if c07LostWakeup(live) {
					// not frugal's: KNOWN_FINDINGS gostomp-unsubscribe-lost-wakeup
					res.known = c07KnownLostWakeup
				} else {
					// decided by the re-run alone with the long window
					res.retry = "Unsubscribe did not return (no progress within the watchdog)"
				}
			case out != "":
				st.unsub = out
				fail("Unsubscribe %s", out)
			case uerr != nil:
				st.unsub = "err"
				fail("Unsubscribe returned %v", uerr)
			default:
				st.unsub = "ok"
			}
			if io := <-isC; io != "" && res.known == "" && res.retry == "" {
				fail("IsSubscribed %s while Unsubscribe was running", io)
			}
			if st.unsub == "ok" {
				still := true
				if o := guard(c07Watchdog, func() { still = st.tr.IsSubscribed() }); o != "" || still {
					fail("IsSubscribed after Unsubscribe: %s %v", o, still)
				}
				// the other subscriptions of the provider are untouched
				for k2, other := range subs {
					if other != st && other.subscribed && !other.tr.IsSubscribed() {
						fail("Unsubscribe of one subscription ended subscription %d of the same provider", k2)
					}
				}
			}
			if st.unsub == "blocked" {
				wedged = true
			}
		}
		if wedged || barrierFailed || res.known != "" || res.retry != "" {
			break // the subscriber transport is wedged; nothing after this is meaningful
		}
	}
	// end of the scenario: everything published has reached the broker; a subscriber that is
	// still subscribed gets all of it; then a grace period for what must NOT arrive
	if err := conns.fence(); err != nil {
		fail("harness: fence: %v", err)
	}
	if !wedged && !barrierFailed && res.known == "" && res.retry == "" {
		barrier()
	}
	time.Sleep(c07Grace + time.Duration(s.delayUs)*time.Microsecond)
	for _, st := range subs {
		if st.subscribed && res.known == "" && res.retry == "" && !wedged {
			var e error
			live := liveSubs()
			st.subscribed = false
			o := c07Stalled(&cbTotal, func() { e = st.tr.Unsubscribe() })
			if o == "blocked" {
				res.where = c07Stacks()
			}
			if o == "blocked" && c07LostWakeup(live) {
				res.known = c07KnownLostWakeup
			} else if o == "blocked" {
				res.retry = "final Unsubscribe: blocked <nil>"
				wedged = true
			} else if o != "" || e != nil {
				fail("final Unsubscribe: %s %v", o, e)
				wedged = true
			}
		}
	}
	mu.Lock()
	res.subs = make([]c07SubRes, len(subs))
	for k, st := range subs {
		res.subs[k] = c07SubRes{delivered: append([]c07Delivery{}, st.delivered...), cb: int(atomic.LoadInt64(&st.cb)), errs: int(atomic.LoadInt64(&st.errs)), unsub: st.unsub}
	}
	mu.Unlock()
	res.delivered, res.cb, res.errs, res.unsub = res.subs[0].delivered, res.subs[0].cb, res.subs[0].errs, res.subs[0].unsub

	// ---- oracle on every subscription's delivery list
	for k, st := range subs {
		if fm := atomic.LoadInt64(&st.foreignMarker); fm != 0 {
			fail("handler invoked for tag %d, the barrier marker of topic %d (subscription %d is on topic %d): a message of another topic was delivered", c07MarkerBase, fm-1, k, st.topicID)
		}
		who := ""
		if len(subs) > 1 {
			who = fmt.Sprintf(" (subscription %d, topic %d)", k, st.topicID)
		}
		validSet := map[int]int{}
		for i, t := range st.valid {
			validSet[t] = i
		}
		seen := map[int]bool{}
		last := -1
		for _, d := range res.subs[k].delivered {
			idx, ok := validSet[d.tag]
			if !ok {
				fail("handler invoked for tag %d, which is not a valid message published on the subscription's topic while subscribed (foreign topic / another subscription's topic / malformed / wrong operation / after Unsubscribe)%s", d.tag, who)
				continue
			}
			if seen[d.tag] {
				fail("message %d delivered twice%s", d.tag, who)
			}
			seen[d.tag] = true
			if d.bad != "" {
				fail("message %d delivered with different %s%s", d.tag, d.bad, who)
			}
			if s.w == 1 {
				if idx < last {
					fail("single-worker subscriber delivered message %d out of publish order%s", d.tag, who)
				}
				last = idx
			}
		}
		for _, t := range st.valid {
			if st.must[t] && !seen[t] {
				fail("valid message %d, published while subscribed and before a barrier, was never delivered%s", t, who)
			}
		}
	}
	return res
}

func (s c07Scn) subLine(r c07SubRes) string {
	t := tagsOf(r.delivered)
	if s.w > 1 {
		sort.Ints(t)
	}
	return fmt.Sprintf("unsub=%s delivered=%s cb=%d err=%d", r.unsub, tagsArg(t), r.cb, r.errs)
}

func (s c07Scn) line(res *c07Result) (string, string) {
	if s.subs != nil {
		// several subscriptions from one provider: `pm <tr> <w> <delayUs> <subs> <ops>` (quiescent only)
		line := fmt.Sprintf("pm %s %d %d %s %s", s.tr, s.w, s.delayUs, s.subsArg(), s.opsArg())
		if s.racing() {
			return line, "racing"
		}
		parts := make([]string, len(res.subs))
		for k, r := range res.subs {
			parts[k] = s.subLine(r)
		}
		if len(parts) == 0 {
			return line, "k=0"
		}
		return line, fmt.Sprintf("k=%d %s", len(parts), strings.Join(parts, " / "))
	}
	if s.racing() {
		real := "ok"
		if len(res.fails) > 0 {
			real = "bad"
			if res.unsub == "blocked" {
				real = "unsub=blocked"
			}
		}
		return fmt.Sprintf("psr %s %d %d %s %s", s.tr, s.w, s.delayUs, tagsArg(tagsOf(res.delivered)), s.opsArg()), real
	}
	if len(res.subs) == 0 {
		return fmt.Sprintf("ps %s %d %d %s", s.tr, s.w, s.delayUs, s.opsArg()), "bad-config"
	}
	return fmt.Sprintf("ps %s %d %d %s", s.tr, s.w, s.delayUs, s.opsArg()), s.subLine(res.subs[0])
}

// ---------- generation ----------

func c07RawMsg(r *Rng) []byte {
	switch r.Intn(6) {
	case 0, 1:
		return r.Bytes(r.Intn(4)) // shorter than the frame-size prefix
	case 2:
		return r.Bytes(4 + r.Intn(24))
	case 3: // decodable headers without _opid, nothing after them
		return frameOf(frugal.VerifMarshalHeaders(map[string]string{"_cid": "c", "k": "v"}), nil)
	case 4: // valid header block, then nothing (no envelope)
		return frameOf(frugal.VerifMarshalHeaders(map[string]string{"_opid": "7", "_cid": "c"}), nil)
	}
	m := genHeaders(r, true)
	m["_opid"] = strconv.Itoa(r.Intn(1000))
	fr := frameOf(frugal.VerifMarshalHeaders(m), nil)
	fr, _ = mutate(r, fr, sizeFieldOffsets(fr))
	if len(fr) >= 9 && fr[4] == 0 && fr[5] < 0x80 && (fr[5] > 0 || fr[6] > 0) {
		fr[5], fr[6] = 0, 0 // keep a declared header size small (allocation); the huge-size region belongs to C05
	}
	return fr
}

var c07NatsMulti = []string{"", "", "b0", "b1", "b5", "b64", "g", "f", "q", "d", "e"}

// c07GenTr draws how the transports come into being (all public entry points, see c07SplitTr).
func c07GenTr(r *Rng, distinctTopics bool) (string, int) {
	if r.Chance(45) {
		tr := "stomp" + []string{"", "", "-p", "-u"}[r.Intn(4)]
		if r.Chance(25) {
			tr += "+m"
		}
		return tr, 1
	}
	sk := c07NatsMulti[r.Intn(len(c07NatsMulti))]
	tr := "nats"
	if sk != "" {
		tr += "-" + sk
	}
	if !distinctTopics && c07QueueGroup(tr) {
		tr = "nats-b" + strconv.Itoa(r.Pick(0, 1, 5, 64))
	}
	w := 1 + r.Intn(4)
	if c07SingleWorker(tr) {
		w = 1
	}
	if r.Chance(25) {
		tr += "+d"
	}
	return tr, w
}

// c07GenMulti: 2..4 subscriptions from one provider, on different topics and on the same topic;
// traffic on every topic interleaved; some subscriptions are unsubscribed (after a barrier) while
// the others go on.
func c07GenMulti(r *Rng) c07Scn {
	k := 2 + r.Intn(3)
	nTopics := 1 + r.Intn(k)
	if r.Chance(50) {
		nTopics = k
	}
	s := c07Scn{subs: make([]int, k)}
	distinct := nTopics == k
	for i := range s.subs {
		if distinct {
			s.subs[i] = i
		} else {
			s.subs[i] = r.Intn(nTopics)
		}
	}
	if !distinct {
		seen := map[int]bool{}
		distinct = true
		for _, t := range s.subs {
			if seen[t] {
				distinct = false
			}
			seen[t] = true
		}
	}
	s.tr, s.w = c07GenTr(r, distinct)
	s.delayUs = r.Pick(0, 0, 0, 50, 300)
	n := 4 + r.Intn(20)
	tag := 0
	alive := make([]bool, k)
	for i := range alive {
		alive[i] = true
	}
	for i := 0; i < n; i++ {
		tag++
		t := r.Intn(nTopics + 1) // nTopics = a topic nobody subscribed to
		if t == nTopics && !r.Chance(30) {
			t = r.Intn(nTopics)
		}
		c := r.Intn(100)
		switch {
		case c < 58:
			s.ops = append(s.ops, c07Operation{kind: 'V', tag: tag, topic: t})
		case c < 70:
			s.ops = append(s.ops, c07Operation{kind: 'R', raw: c07RawMsg(r), topic: t})
		case c < 76:
			s.ops = append(s.ops, c07Operation{kind: 'O', tag: tag, topic: t})
		case c < 80:
			s.ops = append(s.ops, c07Operation{kind: 'G', tag: tag, topic: t})
		case c < 86:
			s.ops = append(s.ops, c07Operation{kind: 'F', tag: tag})
		case c < 92:
			s.ops = append(s.ops, c07Operation{kind: 'B'})
		default:
			u := r.Intn(k)
			s.ops = append(s.ops, c07Operation{kind: 'B'}, c07Operation{kind: 'U', sub: u})
			alive[u] = false
		}
	}
	return s
}

func c07Gen(r *Rng) c07Scn {
	if r.Chance(40) {
		return c07GenMulti(r)
	}
	s := c07Scn{}
	s.tr, s.w = c07GenTr(r, true)
	s.delayUs = r.Pick(0, 0, 0, 50, 300)
	racing := r.Chance(35)
	burst := racing && r.Chance(40)
	n := 2 + r.Intn(14)
	if burst {
		n = 20 + r.Intn(45)
		s.delayUs = r.Pick(0, 50, 300, 1000)
	}
	uAt := -1
	if racing || r.Chance(60) {
		uAt = r.Intn(n + 1)
		if burst {
			uAt = n
		}
	}
	tag := 0
	for i := 0; i <= n; i++ {
		if i == uAt {
			if !racing {
				s.ops = append(s.ops, c07Operation{kind: 'B'})
			} else if r.Chance(60) {
				s.ops = append(s.ops, c07Operation{kind: 'W'})
			}
			s.ops = append(s.ops, c07Operation{kind: 'U'})
			for k := r.Intn(4); k > 0; k-- { // published after Unsubscribe returned
				tag++
				if r.Chance(75) {
					s.ops = append(s.ops, c07Operation{kind: 'V', tag: tag})
				} else {
					s.ops = append(s.ops, c07Operation{kind: 'R', raw: c07RawMsg(r)})
				}
			}
			if r.Chance(10) {
				s.ops = append(s.ops, c07Operation{kind: 'U'})
			}
		}
		if i == n {
			break
		}
		tag++
		c := r.Intn(100)
		if burst {
			c = r.Intn(60)
		}
		switch {
		case c < 50:
			s.ops = append(s.ops, c07Operation{kind: 'V', tag: tag})
		case c < 68:
			s.ops = append(s.ops, c07Operation{kind: 'R', raw: c07RawMsg(r)})
		case c < 76:
			s.ops = append(s.ops, c07Operation{kind: 'O', tag: tag})
		case c < 82:
			s.ops = append(s.ops, c07Operation{kind: 'G', tag: tag})
		case c < 93:
			s.ops = append(s.ops, c07Operation{kind: 'F', tag: tag})
		default:
			s.ops = append(s.ops, c07Operation{kind: 'B'})
		}
	}
	return s
}

// ---------- supervisor / child processes ----------
//
// lib/go has no recover(): a panic inside a transport goroutine (processMessages calling a nil
// callback …) kills the process. Scenarios therefore run in CHILD processes of this binary (suite
// "c07child": scenario lines on stdin, one JSON result per line on stdout, sequentially); the
// supervisor hosts the brokers, owns the generation, and turns a child that died into the outcome
// `crashed` of the scenario that was running (and restarts a child for the rest).

type c07Out struct {
	Line      string   `json:"line"`
	Real      string   `json:"real"`
	Fails     []string `json:"fails"`
	Delivered int      `json:"delivered"`
	Unsub     string   `json:"unsub"`
	Where     string   `json:"where,omitempty"`
	Known     string   `json:"known,omitempty"`
	Retry     string   `json:"retry,omitempty"`
	BarrierMs int64    `json:"barrier_ms,omitempty"`
}

func (s c07Scn) childLine() string {
	if s.subs != nil {
		return fmt.Sprintf("%s %d %d %s %s", s.tr, s.w, s.delayUs, s.subsArg(), s.opsArg())
	}
	return fmt.Sprintf("%s %d %d %s", s.tr, s.w, s.delayUs, s.opsArg())
}

// c07ParseScn: `<tr> <w> <delayUs> [<subs>] <ops>`.
func c07ParseScn(args []string) (c07Scn, bool) {
	if len(args) != 4 && len(args) != 5 {
		return c07Scn{}, false
	}
	w, e1 := strconv.Atoi(args[1])
	d, e2 := strconv.Atoi(args[2])
	ops, ok := c07ParseOps(args[len(args)-1])
	_, _, _, okTr := c07SplitTr(args[0])
	if e1 != nil || e2 != nil || !ok || !okTr || d < 0 || d > 100000 {
		return c07Scn{}, false
	}
	s := c07Scn{tr: args[0], w: w, delayUs: d, ops: ops}
	if len(args) == 5 {
		s.subs = []int{}
		for _, p := range strings.Split(args[3], ",") {
			t, err := strconv.Atoi(p)
			if err != nil || t < 0 || t > 64 {
				return c07Scn{}, false
			}
			s.subs = append(s.subs, t)
		}
		if len(s.subs) > 8 {
			return c07Scn{}, false
		}
	}
	return s, true
}

func runC07Child(r *Rng, n int) {
	if ms, err := strconv.Atoi(os.Getenv("C07_STALL_MS")); err == nil && ms > 0 {
		c07Stall = time.Duration(ms) * time.Millisecond
	}
	sc := bufio.NewScanner(os.Stdin)
	sc.Buffer(make([]byte, 1<<20), 1<<26)
	w := bufio.NewWriter(os.Stdout)
	for sc.Scan() {
		s, ok := c07ParseScn(strings.Split(strings.TrimSpace(sc.Text()), " "))
		var o c07Out
		if !ok {
			o = c07Out{Real: "bad-args"}
		} else {
			res := c07Run(s)
			line, real := s.line(res)
			o = c07Out{Line: line, Real: real, Fails: res.fails, Delivered: len(res.delivered), Unsub: res.unsub, Where: res.where, Known: res.known, Retry: res.retry, BarrierMs: int64(res.barrierMax / time.Millisecond)}
		}
		b, _ := json.Marshal(o)
		w.Write(b)
		w.WriteByte('\n')
		w.Flush()
	}
}

// c07Chunk runs the scenarios sequentially in child processes, restarting after a crash.
func c07Chunk(scns []c07Scn, outs []c07Out) {
	natsURL, e1 := c07Nats()
	stompAddr, e2 := c07Stomp()
	next := 0
	for next < len(scns) {
		if e1 != nil || e2 != nil {
			outs[next] = c07Out{Real: "harness", Fails: []string{fmt.Sprintf("harness: brokers: %v %v", e1, e2)}}
			next++
			continue
		}
		var in bytes.Buffer
		for _, s := range scns[next:] {
			in.WriteString(s.childLine() + "\n")
		}
		cmd := exec.Command(os.Args[0], "c07child")
		cmd.Env = append(os.Environ(), "C07_NATS_URL="+natsURL, "C07_STOMP_ADDR="+stompAddr)
		if c07ChildStall > 0 {
			cmd.Env = append(cmd.Env, fmt.Sprintf("C07_STALL_MS=%d", c07ChildStall/time.Millisecond))
		}
		cmd.Stdin = &in
		var stderr bytes.Buffer
		cmd.Stderr = &stderr
		stdout, err := cmd.StdoutPipe()
		if err != nil || cmd.Start() != nil {
			outs[next] = c07Out{Real: "harness", Fails: []string{"harness: cannot start child process"}}
			next++
			continue
		}
		sc := bufio.NewScanner(stdout)
		sc.Buffer(make([]byte, 1<<20), 1<<26)
		for sc.Scan() && next < len(scns) {
			if len(sc.Bytes()) == 0 || sc.Bytes()[0] != '{' {
				continue
			}
			var o c07Out
			if json.Unmarshal(sc.Bytes(), &o) == nil {
				outs[next] = o
				next++
			}
		}
		werr := cmd.Wait()
		if next < len(scns) {
			// the child died while scenario `next` was running
			why := "child process ended early"
			if werr != nil {
				why = werr.Error()
			}
			for _, l := range strings.Split(stderr.String(), "\n") {
				if strings.HasPrefix(l, "panic:") || strings.HasPrefix(l, "fatal error:") {
					why = l
					break
				}
			}
			where := ""
			for _, l := range strings.Split(stderr.String(), "\n") {
				if strings.Contains(l, "frugal/lib/go.") {
					where = strings.TrimSpace(l[strings.Index(l, "frugal/lib/go.")+len("frugal/lib/go."):])
					if k := strings.LastIndex(where, "("); k > 0 {
						where = where[:k] // drop the argument words (addresses)
					}
					where = " in " + where
					break
				}
			}
			s := scns[next]
			line := fmt.Sprintf("ps %s", s.childLine())
			if s.subs != nil {
				line = fmt.Sprintf("pm %s", s.childLine())
			} else if s.racing() {
				line = fmt.Sprintf("psr %s %d %d - %s", s.tr, s.w, s.delayUs, s.opsArg())
			}
			outs[next] = c07Out{Line: line, Real: "crashed", Unsub: "crashed",
				Fails: []string{"the process crashed (" + why + where + "): lib/go has no recover, one subscriber kills the service"}}
			next++
		}
	}
}

// c07Supervise runs the scenarios in `par` parallel chunks.
func c07Supervise(scns []c07Scn, par int) []c07Out {
	outs := make([]c07Out, len(scns))
	if par > len(scns) {
		par = len(scns)
	}
	if par < 1 {
		par = 1
	}
	var wg sync.WaitGroup
	per := (len(scns) + par - 1) / par
	for a := 0; a < len(scns); a += per {
		b := a + per
		if b > len(scns) {
			b = len(scns)
		}
		wg.Add(1)
		go func(a, b int) {
			defer wg.Done()
			c07Chunk(scns[a:b], outs[a:b])
		}(a, b)
	}
	wg.Wait()
	return outs
}

func c07Report(s c07Scn, o c07Out) {
	Case(o.Line, o.Real)
	Stat("evaluations")
	Stat("transport:" + s.tr)
	Stat(fmt.Sprintf("workers:%d", s.w))
	Stat(fmt.Sprintf("subscriptions-from-one-provider:%d", len(s.topics())))
	if s.subs != nil {
		d := map[int]bool{}
		for _, t := range s.subs {
			d[t] = true
		}
		if len(d) < len(s.subs) {
			Stat("multi:some-share-a-topic")
		} else {
			Stat("multi:distinct-topics")
		}
	}
	if s.racing() {
		Stat("shape:unsubscribe-races-inflight")
	} else {
		Stat("shape:quiescent")
	}
	for _, op := range s.ops {
		k := string(op.kind)
		if op.kind == 'R' {
			if len(op.raw) < 4 {
				k = "R:short"
			} else {
				k = "R:long"
			}
		}
		Stat("op:" + k)
	}
	StatN("delivered", o.Delivered)
	Stat("unsub:" + o.Unsub)
	switch ms := o.BarrierMs; {
	case ms < 100:
		Stat("slowest-barrier:<0.1s")
	case ms < 1000:
		Stat("slowest-barrier:0.1-1s")
	case ms < 3000:
		Stat("slowest-barrier:1-3s")
	default:
		Stat("slowest-barrier:>3s")
	}
	ln := o.Line
	if len(ln) > 300 {
		ln = ln[:300] + "…"
	}
	Sample(map[string]interface{}{"line": ln, "real": o.Real})
	if len(o.Fails) > 0 {
		OracleFail("pub/sub delivery: "+c07Class(o.Fails[0]), map[string]interface{}{"op": strings.SplitN(o.Line, " ", 2)[0], "line": o.Line, "got": o.Real, "all": o.Fails, "goroutines": o.Where})
	}
}

// c07Class strips the numbers from an oracle message so that the shrinker recognises the same failure.
func c07Class(f string) string {
	var b strings.Builder
	for _, c := range f {
		if c >= '0' && c <= '9' {
			continue
		}
		b.WriteRune(c)
	}
	return b.String()
}

// c07Retry re-runs (up to 3 times) the scenarios that ran into a known finding of the environment and
// reports the finding; what is left after the retries is reported as it is.
var (
	c07ChildStall time.Duration // stall window handed to the children of a re-run (0: the default)
	c07Reruns     int           // re-runs after an expired stall window, per harness process
)

// c07Retry re-runs the scenarios that did not reach a verdict:
//   - a known finding of the ENVIRONMENT (go-stomp's lost wake-up): reported as KNOWN-FINDING, re-run up to 3 times;
//   - an expired stall window (barrier marker / Unsubscribe not back without any callback progress for c07Stall):
//     on a machine shared with other checks that is not a verdict. The scenario is re-run ALONE (all other
//     scenarios of this process have finished) with the long window c07StallRerun; what that run shows is
//     what is reported — clean, or the failure. After c07MaxReruns re-runs that were not clean, further
//     expiries are reported as failures at once (a transport that is really wedged wedges many cases).
//
// The oracle is the same in every run.
func c07Retry(scns []c07Scn, outs []c07Out) {
	for round := 0; round < 3; round++ {
		var idx []int
		for i := range outs {
			if outs[i].Known != "" {
				idx = append(idx, i)
			}
		}
		if len(idx) == 0 {
			break
		}
		again := make([]c07Scn, len(idx))
		for k, i := range idx {
			Known(outs[i].Known, "go-stomp v2.1.4 Subscription.Unsubscribe missed the wake-up of a subscription that IS closed (closeCond.Broadcast without closeMutex): frugal's STOMP Unsubscribe waits forever; goroutines: "+outs[i].Where)
			Stat("known:" + outs[i].Known)
			again[k] = scns[i]
		}
		re := c07Supervise(again, 2)
		for k, i := range idx {
			outs[i] = re[k]
		}
	}
	for i := range outs {
		if outs[i].Known != "" {
			outs[i].Fails = append(outs[i].Fails, "Unsubscribe did not return in 4 consecutive runs (each time with the signature of go-stomp's lost wake-up)")
		}
	}
	for i := range outs {
		if outs[i].Retry == "" {
			continue
		}
		first := outs[i].Retry
		if c07Reruns >= c07MaxReruns {
			Stat("stall-expired:reported-without-rerun")
			outs[i].Fails = append(outs[i].Fails, first)
			continue
		}
		Stat("stall-expired:rerun-alone")
		if strings.HasPrefix(first, "a subscribed transport") {
			Stat("stall-expired:kind:barrier-marker-late")
		} else {
			Stat("stall-expired:kind:unsubscribe-late")
		}
		c07ChildStall = c07StallRerun
		re := c07Supervise([]c07Scn{scns[i]}, 1)
		c07ChildStall = 0
		outs[i] = re[0]
		switch {
		case outs[i].Retry != "":
			c07Reruns++
			Stat("stall-expired:rerun-expired-too")
			outs[i].Fails = append(outs[i].Fails, outs[i].Retry)
		case outs[i].Known != "":
			Known(outs[i].Known, "go-stomp v2.1.4 Subscription.Unsubscribe missed the wake-up of a subscription that IS closed (re-run of a stalled case); goroutines: "+outs[i].Where)
			outs[i].Fails = append(outs[i].Fails, first)
		case len(outs[i].Fails) == 0:
			Stat("stall-expired:rerun-clean(load)")
		default:
			c07Reruns++
		}
	}
}

// ---------- LENGTH / REPETITION: cases longer than every capacity of the code ----------

var (
	c07CapOnce sync.Once
	c07CapMax  int
	c07CapSrc  string
)

// c07Capacity reads the capacity constants of the code under test from its SOURCE at run time: every
// `make(chan T, N)` (N a literal, or an identifier defined as `N = <int>` in the package) in lib/go's
// transports and in the go-stomp client the harness is linked with. Values above 4096 are sizes, not queue
// capacities. Falls back to 64 when the sources cannot be located.
func c07Capacity() (int, string) {
	c07CapOnce.Do(func() {
		c07CapMax, c07CapSrc = 64, "fallback"
		var dirs []string
		if bi, ok := debug.ReadBuildInfo(); ok {
			for _, d := range bi.Deps {
				switch d.Path {
				case "github.com/Workiva/frugal/lib/go":
					if d.Replace != nil {
						dirs = append(dirs, d.Replace.Path)
					}
				case "github.com/go-stomp/stomp":
					mc := os.Getenv("GOMODCACHE")
					if mc == "" {
						home, _ := os.UserHomeDir()
						mc = filepath.Join(home, "go", "pkg", "mod")
					}
					v := d.Version
					if d.Replace != nil {
						v = d.Replace.Version
					}
					dirs = append(dirs, filepath.Join(mc, "github.com", "go-stomp", "stomp@"+v))
				}
			}
		}
		mk := regexp.MustCompile(`make\(chan [^,()]+,\s*([A-Za-z_][\w.]*|\d+)\s*\)`)
		found, best := 0, 0
		for _, dir := range dirs {
			files, _ := filepath.Glob(filepath.Join(dir, "*.go"))
			var all strings.Builder
			texts := map[string]string{}
			for _, f := range files {
				if strings.HasSuffix(f, "_test.go") {
					continue
				}
				b, err := os.ReadFile(f)
				if err != nil {
					continue
				}
				texts[f] = string(b)
				all.Write(b)
				all.WriteByte('\n')
			}
			whole := all.String()
			for _, t := range texts {
				for _, m := range mk.FindAllStringSubmatch(t, -1) {
					tok := m[1]
					n, err := strconv.Atoi(tok)
					if err != nil {
						if k := strings.LastIndexByte(tok, '.'); k >= 0 {
							tok = tok[k+1:]
						}
						def := regexp.MustCompile(`\b` + regexp.QuoteMeta(tok) + `\s*(?::=|=)\s*(\d+)\b`).FindStringSubmatch(whole)
						if def == nil {
							continue
						}
						n, _ = strconv.Atoi(def[1])
					}
					if n > 0 && n <= 4096 {
						found++
						if n > best {
							best = n
						}
					}
				}
			}
		}
		if found > 0 {
			c07CapMax, c07CapSrc = best, fmt.Sprintf("from-source(%d-channel-capacities)", found)
		}
	})
	return c07CapMax, c07CapSrc
}

var c07LongKinds = []string{
	"nats", "nats-b0", "nats-b1", "nats-b5", "nats-b64", "nats-b200", "nats-g", "nats-f", "nats-q", "nats-d", "nats-e", "nats+d", "nats-f+d",
	"stomp", "stomp-p", "stomp-u", "stomp+m", "stomp-p+m",
}

var c07LongShapes = []string{"total", "short", "garbage", "foreign-op", "bad-payload", "handler-error", "oversize", "mixed", "cycles"}

// c07GenLong: one subscription, N = 2·max(capacities, the case's own queue length and worker count)+k
// messages of the shape's kind — in total / of each kind of bad message separately — with good messages
// interleaved (every good one owed exactly once, in order for one worker), or N Subscribe/Unsubscribe
// cycles on one provider with deliveries in every cycle.
func c07GenLong(r *Rng, tr, shape string) c07Scn {
	s := c07Scn{tr: tr, w: 1 + r.Intn(4)}
	if c07SingleWorker(tr) {
		s.w = 1
	}
	capMax, _ := c07Capacity()
	_, sk, pk, _ := c07SplitTr(tr)
	if len(sk) >= 2 && sk[0] == 'b' {
		if q, _ := strconv.Atoi(sk[1:]); q > capMax {
			capMax = q
		}
	}
	if s.w > capMax {
		capMax = s.w
	}
	n := 2*capMax + 3 + r.Intn(5)
	limited := strings.HasPrefix(tr, "nats") || pk == "m"
	if shape == "oversize" && !limited {
		shape = "mixed"
	}
	tag := 0
	good := func() { tag++; s.ops = append(s.ops, c07Operation{kind: 'V', tag: tag}) }
	bad := func(kind string) {
		tag++
		switch kind {
		case "short":
			s.ops = append(s.ops, c07Operation{kind: 'R', raw: r.Bytes(r.Intn(4))})
		case "garbage":
			raw := c07RawMsg(r)
			for len(raw) < 4 {
				raw = c07RawMsg(r)
			}
			s.ops = append(s.ops, c07Operation{kind: 'R', raw: raw})
		case "foreign-op":
			s.ops = append(s.ops, c07Operation{kind: 'O', tag: tag})
		case "bad-payload":
			s.ops = append(s.ops, c07Operation{kind: 'G', tag: tag})
		case "handler-error":
			s.ops = append(s.ops, c07Operation{kind: 'H', tag: tag})
		case "oversize":
			s.ops = append(s.ops, c07Operation{kind: 'X', tag: tag})
		}
	}
	switch shape {
	case "total":
		for i := 0; i < n; i++ {
			good()
			if i%40 == 39 {
				s.ops = append(s.ops, c07Operation{kind: 'B'})
			}
		}
	case "cycles":
		for i := 0; i < n; i++ {
			good()
			if r.Chance(30) {
				bad("foreign-op")
			}
			good()
			s.ops = append(s.ops, c07Operation{kind: 'B'}, c07Operation{kind: 'U'}, c07Operation{kind: 'S'})
		}
		good()
	case "mixed":
		kinds := []string{"short", "garbage", "foreign-op", "bad-payload", "handler-error"}
		for i := 0; i < 3*n; i++ { // n of the rejected kinds alone would not do: only 4 of 5 reach the callback
			bad(kinds[r.Intn(len(kinds))])
			if i%7 == 6 {
				good()
			}
		}
		good()
	default:
		for i := 0; i < n; i++ {
			bad(shape)
			if i%9 == 8 {
				good()
			}
			if shape == "oversize" && i >= 12+capMax/8 && i < n-2 {
				i = n - 2 // a dozen megabyte-sized refusals make the point; the count that matters is at the subscriber
			}
		}
		good()
	}
	s.ops = append(s.ops, c07Operation{kind: 'B'})
	if r.Chance(50) {
		s.ops = append(s.ops, c07Operation{kind: 'U'})
		tag++
		s.ops = append(s.ops, c07Operation{kind: 'V', tag: tag})
	}
	return s
}

func runC07RT(r *Rng, n int) {
	scns := make([]c07Scn, n)
	long := map[int]string{}
	// long cases: every run covers transport kinds × shapes round-robin from a seed-dependent offset
	nLong := n / 22
	if nLong < 2 {
		nLong = 2
	}
	if nLong > n {
		nLong = n
	}
	space := len(c07LongKinds) * len(c07LongShapes)
	off := r.Intn(space)
	for i := range scns {
		if i < nLong {
			j := (off + i*37) % space // 37 is coprime to the size of the table: all pairs before any repeats
			tr, shape := c07LongKinds[j%len(c07LongKinds)], c07LongShapes[j/len(c07LongKinds)]
			scns[i] = c07GenLong(r, tr, shape)
			long[i] = shape
			continue
		}
		scns[i] = c07Gen(r)
	}
	capMax, src := c07Capacity()
	Stat(fmt.Sprintf("capacity-constant-max=%d:%s", capMax, src))
	outs := c07Supervise(scns, 4)
	c07Retry(scns, outs)
	for i := range scns {
		if sh, ok := long[i]; ok {
			Stat("long:" + sh)
			Stat("long-transport:" + scns[i].tr)
		}
		c07Report(scns[i], outs[i])
	}
}

func c07ReplayLine(op string, args []string) (string, bool) {
	if op == "psr" {
		if len(args) != 5 {
			return "bad-args", true
		}
		args = append(append([]string{}, args[:3]...), args[4])
	}
	if (op == "pm") != (len(args) == 5) {
		return "bad-args", true
	}
	s, ok := c07ParseScn(args)
	if !ok {
		return "bad-args", true
	}
	outs := c07Supervise([]c07Scn{s}, 1)
	c07Retry([]c07Scn{s}, outs)
	o := outs[0]
	real := o.Real
	if op == "psr" && !s.racing() && real != "crashed" {
		real = "ok"
		if len(o.Fails) > 0 {
			real = "bad"
		}
	}
	if op == "ps" && s.racing() && real != "crashed" {
		// a `ps` line whose Unsubscribe lost its barrier (shrinking): only the oracle speaks
		real = "racing"
	}
	return real, len(o.Fails) == 0
}

func init() {
	suites["c07rt"] = runC07RT
	suites["c07child"] = runC07Child
	lineOps["ps"] = func(args []string) (string, bool) { return c07ReplayLine("ps", args) }
	lineOps["psr"] = func(args []string) (string, bool) { return c07ReplayLine("psr", args) }
	lineOps["pm"] = func(args []string) (string, bool) { return c07ReplayLine("pm", args) }
}
