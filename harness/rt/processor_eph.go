package main

// C14, fourth part: the request-scoped STATE a handler reaches through its FContext.
//
// The ping handler, when the request carries an "x-eph" header (key:value, hex), behaves like a
// middleware / handler that uses the context: it looks the key up in the EPHEMERAL PROPERTIES, sets
// it to the request's own value, adds a request header and a response header with that value to its
// inbound context, (under concurrency: repeats the write/read a number of times, yielding), reads
// everything back and builds the reply from what it read:
//
//	entry=<value found on entry|none>,back=<value read back>,n=<number of properties>,rq=…,rs=…
//
// suite c14eph, op  eph - <proto> <simple|http> <seq|conc> <conn>;<conn>;…   req = <op id>/<key>/<value> (hex)
//   simple  the real FSimpleServer.Serve() on a loopback listener, one TCP connection per <conn>,
//           its requests pipelined; seq = one connection after the other, conc = all at once
//   http    the real NewFrugalHandlerFunc, one HTTP request per request; seq / conc
// Concurrent cases run in a child process: a fatal error of the Go runtime (concurrent map
// writes) is then an observed outcome with a failing input, not the end of the suite.
//
// Oracle (the property, not the model): what a request's handler reads is only what that request —
// or, on a simple-server connection, an earlier request of the SAME connection — put there; what
// it reads back, its own headers and the response header on the wire are its own value.

import (
	"bytes"
	"encoding/base64"
	"fmt"
	"net/http/httptest"
	"os"
	"os/exec"
	"runtime"
	"strings"
	"sync"
	"time"

	frugal "github.com/Workiva/frugal/lib/go"
)

func c14EphHandler(fctx frugal.FContext, script string) string {
	f := strings.SplitN(script, ":", 2)
	if len(f) != 2 {
		return "bad-script"
	}
	key, val := string(unhx(f[0])), string(unhx(f[1]))
	e, ok := fctx.(frugal.FContextWithEphemeralProperties)
	if !ok {
		return "no-ephemeral-properties"
	}
	show := func(v interface{}, ok bool) string {
		if !ok {
			return "none"
		}
		if s, isStr := v.(string); isStr {
			return hx([]byte(s))
		}
		return "nonstring"
	}
	entry := show(e.EphemeralProperty(key))
	reps := 1
	if _, conc := fctx.RequestHeader("x-eph-conc"); conc {
		reps = 40
	}
	back := "none"
	for i := 0; i < reps; i++ {
		e.AddEphemeralProperty(key, val)
		fctx.AddRequestHeader("x-eph-req", val)
		fctx.AddResponseHeader("x-eph-resp", val)
		if reps > 1 {
			runtime.Gosched()
		}
		back = show(e.EphemeralProperty(key))
		if back != hx([]byte(val)) {
			break
		}
	}
	rq, okq := fctx.RequestHeader("x-eph-req")
	rs, oks := fctx.ResponseHeader("x-eph-resp")
	return fmt.Sprintf("entry=%s,back=%s,n=%d,rq=%s,rs=%s", entry, back, len(e.EphemeralProperties()), show(rq, okq), show(rs, oks))
}

type c14EphReq struct{ opid, key, val string }

func c14EphTok(q c14EphReq) string {
	return hx([]byte(q.opid)) + "/" + hx([]byte(q.key)) + "/" + hx([]byte(q.val))
}

func c14EphLine(proto, server, mode string, conns [][]c14EphReq) string {
	cs := make([]string, len(conns))
	for i, c := range conns {
		toks := make([]string, len(c))
		for j, q := range c {
			toks[j] = c14EphTok(q)
		}
		cs[i] = strings.Join(toks, ",")
		if len(toks) == 0 {
			cs[i] = "."
		}
	}
	return fmt.Sprintf("eph - %s %s %s %s", proto, server, mode, strings.Join(cs, ";"))
}

func c14EphParse(args []string) (proto, server, mode string, conns [][]c14EphReq, ok bool) {
	if len(args) != 5 {
		return
	}
	proto, server, mode = args[1], args[2], args[3]
	if _, has := c14Factories[proto]; !has || (server != "simple" && server != "http") || (mode != "seq" && mode != "conc") {
		return
	}
	for _, c := range strings.Split(args[4], ";") {
		var reqs []c14EphReq
		if c != "." {
			for _, t := range strings.Split(c, ",") {
				f := strings.Split(t, "/")
				if len(f) != 3 {
					return
				}
				reqs = append(reqs, c14EphReq{string(unhx(f[0])), string(unhx(f[1])), string(unhx(f[2]))})
			}
		}
		conns = append(conns, reqs)
	}
	return proto, server, mode, conns, true
}

// c14EphRequest: the wire request of one script; its expected reply is left open ("s:" + whatever
// the handler observes): the expectation is evaluated by c14EphOracle.
func c14EphRequest(q c14EphReq, conc bool) *c14Req {
	h := map[string]string{"_opid": q.opid, "x-eph": hx([]byte(q.key)) + ":" + hx([]byte(q.val))}
	if conc {
		h["x-eph-conc"] = "1"
	}
	return &c14Req{env: "1", method: "ping", mtype: 1, args: "ok0", outcome: "s:-", hdrBlock: frugal.VerifMarshalHeaders(h)}
}

// c14EphShow renders what came back for one request from its parsed reply.
func c14EphShow(q c14EphReq, rp *c14Reply) string {
	if rp == nil {
		return hx([]byte(q.opid)) + ":unanswered"
	}
	if rp.kind != "R" || !strings.HasPrefix(rp.payload, "s:") || rp.hdrs["_opid"] != q.opid {
		return hx([]byte(q.opid)) + ":reply=" + rp.kind + "/" + fmt.Sprint(rp.exType) + "/opid=" + hx([]byte(rp.hdrs["_opid"]))
	}
	obs := string(unhx(rp.payload[2:]))
	own := hx([]byte(q.val))
	i := strings.Index(obs, ",rq=")
	if i < 0 {
		return hx([]byte(q.opid)) + ":" + obs
	}
	head, tail := obs[:i], obs[i+1:]
	hdr := "none"
	if v, ok := rp.hdrs["x-eph-resp"]; ok {
		hdr = hx([]byte(v))
	}
	if tail == "rq="+own+",rs="+own && hdr == own {
		return hx([]byte(q.opid)) + ":" + head + ",own=" + own
	}
	return hx([]byte(q.opid)) + ":" + head + ",own!" + tail + ",hdr=" + hdr
}

// c14EphInproc runs the case in this process.
func c14EphInproc(proto, server, mode string, conns [][]c14EphReq) string {
	conc := mode == "conc"
	shown := make([][]string, len(conns))
	for i, c := range conns {
		shown[i] = make([]string, len(c))
	}
	switch server {
	case "simple":
		wire := make([][]*c14Req, len(conns))
		for i, c := range conns {
			for _, q := range c {
				wire[i] = append(wire[i], c14EphRequest(q, conc))
			}
		}
		timing := "seq"
		if conc {
			timing = "pre"
		}
		real, _, replies := c14ServeCaseX(proto, 0, timing, "one", wire)
		for try := 0; try < 1; try++ { // a reply that missed the watchdog must miss it twice to count
			got, want := 0, 0
			for i := range wire {
				want += len(wire[i])
				if replies != nil {
					got += len(replies[i])
				}
			}
			if got >= want || strings.HasPrefix(real, "harness:") {
				break
			}
			Stat("eph:watchdog-retry")
			real, _, replies = c14ServeCaseX(proto, 0, timing, "one", wire)
		}
		if strings.HasPrefix(real, "harness:") {
			return real
		}
		for i, c := range conns {
			by := map[string]*c14Reply{}
			if replies != nil {
				for _, rp := range replies[i] {
					by[rp.hdrs["_opid"]] = rp
				}
			}
			for j, q := range c {
				shown[i][j] = c14EphShow(q, by[q.opid])
			}
		}
	case "http":
		pf := frugal.NewFProtocolFactory(c14Factories[proto])
		handler := frugal.NewFrugalHandlerFunc(newC14Processor(), pf)
		one := func(i, j int) {
			q := conns[i][j]
			b := c14Bytes(proto, c14EphRequest(q, conc))
			body := base64.StdEncoding.EncodeToString(append(be32(uint32(len(b))), b...))
			w := httptest.NewRecorder()
			handler(w, httptest.NewRequest("POST", "/frugal", strings.NewReader(body)))
			var rp *c14Reply
			if w.Code == 200 {
				if raw, e := base64.StdEncoding.DecodeString(w.Body.String()); e == nil && len(raw) >= 4 {
					if rs, e := c14ParseStream(proto, raw[4:]); e == nil && len(rs) == 1 {
						rp = rs[0]
					}
				}
			}
			shown[i][j] = c14EphShow(q, rp)
		}
		if !conc {
			for i := range conns {
				for j := range conns[i] {
					one(i, j)
				}
			}
		} else {
			start := make(chan struct{})
			var wg sync.WaitGroup
			for i := range conns {
				for j := range conns[i] {
					wg.Add(1)
					go func(i, j int) {
						defer wg.Done()
						<-start
						one(i, j)
					}(i, j)
				}
			}
			close(start)
			wg.Wait()
		}
	}
	parts := make([]string, len(conns))
	for i := range conns {
		parts[i] = strings.Join(shown[i], "|")
		if len(shown[i]) == 0 {
			parts[i] = "."
		}
	}
	return strings.Join(parts, " ; ")
}

// c14EphRun: sequential cases here, concurrent ones in a child process.
func c14EphRun(proto, server, mode string, conns [][]c14EphReq) string {
	return c14EphRunIn(proto, server, mode, conns, false)
}

// fresh = in a child process even when sequential (a witness must fail from a clean process start).
func c14EphRunIn(proto, server, mode string, conns [][]c14EphReq, fresh bool) string {
	if (mode != "conc" && !fresh) || os.Getenv("VERIF_C14_INPROC") != "" {
		var real string
		if o := guard(60*time.Second, func() { real = c14EphInproc(proto, server, mode, conns) }); o != "" {
			return o
		}
		return real
	}
	f, err := os.CreateTemp("", "c14eph")
	if err != nil {
		return "harness:tempfile"
	}
	defer os.Remove(f.Name())
	f.WriteString(c14EphLine(proto, server, mode, conns) + "\n")
	f.Close()
	cmd := exec.Command(os.Args[0], "c14eph", "-lines", f.Name())
	cmd.Env = append(os.Environ(), "VERIF_C14_INPROC=1")
	var so, se bytes.Buffer
	cmd.Stdout, cmd.Stderr = &so, &se
	done := make(chan error, 1)
	go func() { done <- cmd.Run() }()
	select {
	case err = <-done:
	case <-time.After(90 * time.Second):
		cmd.Process.Kill()
		return "blocked"
	}
	if err != nil {
		why := "process died"
		for _, l := range strings.Split(se.String(), "\n") {
			if strings.HasPrefix(l, "fatal error:") || strings.HasPrefix(l, "panic:") {
				why = strings.TrimSpace(l)
				break
			}
		}
		return "crash:" + strings.ReplaceAll(why, " ", "_")
	}
	for _, l := range strings.Split(so.String(), "\n") {
		if q := strings.Split(l, "\t"); q[0] == "C" && len(q) == 3 {
			return q[2]
		}
	}
	return "crash:no_output"
}

// c14EphOracle evaluates the isolation sentence on the real output.
func c14EphOracle(server string, conns [][]c14EphReq, real string) string {
	if strings.HasPrefix(real, "crash:") || real == "blocked" || strings.HasPrefix(real, "panic") {
		return "the server process dies while handlers of different requests use their own FContext's ephemeral properties: " + real
	}
	parts := strings.Split(real, " ; ")
	if len(parts) != len(conns) {
		return "harness: output shape"
	}
	for i, c := range conns {
		last := map[string]string{} // what earlier requests of THIS connection left (simple server only)
		var got []string
		if parts[i] != "." {
			got = strings.Split(parts[i], "|")
		}
		if len(got) != len(c) {
			return "harness: output shape"
		}
		for j, q := range c {
			own := hx([]byte(q.val))
			wantEntry := "none"
			if v, ok := last[q.key]; ok && server == "simple" {
				wantEntry = v
			}
			if server == "simple" {
				last[q.key] = own
			}
			n := 1
			if server == "simple" {
				n = len(last)
			}
			want := fmt.Sprintf("%s:entry=%s,back=%s,n=%d,own=%s", hx([]byte(q.opid)), wantEntry, own, n, own)
			if got[j] != want {
				return "a handler read, through its own FContext, state that its request (or an earlier request of its connection) did not put there, or its reply was not built from its own data"
			}
		}
	}
	return ""
}

var c14EphFailures int

func runC14Eph(r *Rng, n int) {
	for i := 0; i < n && c14EphFailures < 6; i++ {
		proto := r.PickS("bin", "cmp")
		server := r.PickS("simple", "http", "http")
		mode := r.PickS("seq", "seq", "seq", "conc")
		nc := r.Pick(1, 2, 2, 3, 4, 8)
		if mode == "conc" {
			nc = r.Pick(2, 4, 8, 16)
		}
		keys := []string{"principal", "trace", "k\x00", "é"}
		conns := make([][]c14EphReq, nc)
		for ci := range conns {
			k := 1 + r.Intn(4)
			for j := 0; j < k; j++ {
				key := keys[0]
				if r.Chance(35) {
					key = keys[r.Intn(len(keys))]
				}
				conns[ci] = append(conns[ci], c14EphReq{fmt.Sprintf("%d.%d", ci, j), key, fmt.Sprintf("v%d.%d-%s", ci, j, hx(r.Bytes(3)))})
			}
		}
		Stat("eph:server=" + server)
		Stat("eph:mode=" + mode)
		Stat(fmt.Sprintf("eph:connections=%d", nc))
		real := c14EphRun(proto, server, mode, conns)
		if strings.HasPrefix(real, "harness:") {
			Stat("eph:" + real)
			continue
		}
		line := c14EphLine(proto, server, mode, conns)
		Case(line, real)
		if i < 2 {
			Sample(map[string]interface{}{"line": clip(line), "real": clip(real)})
		}
		if what := c14EphOracle(server, conns, real); what != "" && !strings.HasPrefix(what, "harness:") {
			c14EphFailures++
			// minimise: drop connections, then requests, while the oracle still fails
			cur := conns
			fails := func(c [][]c14EphReq) bool {
				if len(c) == 0 {
					return false
				}
				for rep := 0; rep < 3; rep++ {
					if w := c14EphOracle(server, c, c14EphRunIn(proto, server, mode, c, true)); w != "" && !strings.HasPrefix(w, "harness:") {
						return true
					}
					if mode == "seq" {
						break
					}
				}
				return false
			}
			deadline := time.Now().Add(10 * time.Second)
			for a := 0; a < len(cur) && len(cur) > 1 && time.Now().Before(deadline); {
				cand := append(append([][]c14EphReq{}, cur[:a]...), cur[a+1:]...)
				if fails(cand) {
					cur = cand
				} else {
					a++
				}
			}
			for ci := range cur {
				for j := 0; j < len(cur[ci]) && len(cur[ci]) > 1 && time.Now().Before(deadline); {
					cand := append([][]c14EphReq{}, cur...)
					cand[ci] = append(append([]c14EphReq{}, cur[ci][:j]...), cur[ci][j+1:]...)
					if fails(cand) {
						cur = cand
					} else {
						j++
					}
				}
			}
			OracleFail(what, map[string]interface{}{"op": "eph", "line": c14EphLine(proto, server, mode, cur), "got": clip(c14EphRunIn(proto, server, mode, cur, true)), "connections": len(cur)})
		}
		Stat("evaluations")
	}
}

func init() {
	suites["c14eph"] = runC14Eph
	lineOps["eph"] = func(args []string) (string, bool) {
		proto, server, mode, conns, ok := c14EphParse(args)
		if !ok {
			return "bad-op", true
		}
		real := c14EphRun(proto, server, mode, conns)
		what := c14EphOracle(server, conns, real)
		return real, what == "" || strings.HasPrefix(what, "harness:")
	}
}
