package main

import (
	"bytes"
	"context"
	"errors"
	"fmt"
	"net"
	"strconv"
	"strings"
	"sync"
	"time"

	frugal "github.com/Workiva/frugal/lib/go"
	"github.com/apache/thrift/lib/go/thrift"
)

// ---------- C20: the processor, built the way generated code builds one ----------
//
// NewFBaseProcessor + NewFBaseProcessorFunction(writeMutex, NewMethod(handler…)), the function
// body a copy of what the Go generator emits for `string work() throws (1: Exc e)`: read args,
// InvokeMethod, then SendReply / SendError. What the handler does is the request's kind:
//   r small reply        u reply whose frame is one byte under the NATS limit
//   x declared exception a reply whose frame is exactly the NATS limit (1 MiB)
//   e undeclared error   o reply whose frame is one byte over the limit
// (slow = the request's duration). The caller must see: r/u/a a REPLY with the result (u/a of
// exactly that frame length), x a REPLY carrying the exception, e an EXCEPTION INTERNAL_ERROR,
// o an EXCEPTION RESPONSE_TOO_LARGE.

const c20NatsLimit = 1024 * 1024

type c20Exc struct{ Message string }

func (e *c20Exc) Error() string { return "Exc(" + e.Message + ")" }
func (e *c20Exc) Write(ctx context.Context, oprot thrift.TProtocol) error {
	if err := oprot.WriteStructBegin(ctx, "Exc"); err != nil {
		return err
	}
	if err := oprot.WriteFieldBegin(ctx, "message", thrift.STRING, 1); err != nil {
		return err
	}
	if err := oprot.WriteString(ctx, e.Message); err != nil {
		return err
	}
	if err := oprot.WriteFieldEnd(ctx); err != nil {
		return err
	}
	if err := oprot.WriteFieldStop(ctx); err != nil {
		return err
	}
	return oprot.WriteStructEnd(ctx)
}

type c20WorkArgs struct{}

func (p *c20WorkArgs) Read(ctx context.Context, iprot thrift.TProtocol) error {
	if _, err := iprot.ReadStructBegin(ctx); err != nil {
		return err
	}
	for {
		_, ft, _, err := iprot.ReadFieldBegin(ctx)
		if err != nil {
			return err
		}
		if ft == thrift.STOP {
			break
		}
		if err := iprot.Skip(ctx, ft); err != nil {
			return err
		}
		if err := iprot.ReadFieldEnd(ctx); err != nil {
			return err
		}
	}
	return iprot.ReadStructEnd(ctx)
}

type c20WorkResult struct {
	Success *string
	E       *c20Exc
}

func (p *c20WorkResult) Read(ctx context.Context, iprot thrift.TProtocol) error {
	return errors.New("not used by the server")
}
func (p *c20WorkResult) Write(ctx context.Context, oprot thrift.TProtocol) error {
	if err := oprot.WriteStructBegin(ctx, "work_result"); err != nil {
		return err
	}
	if p.Success != nil {
		if err := oprot.WriteFieldBegin(ctx, "success", thrift.STRING, 0); err != nil {
			return err
		}
		if err := oprot.WriteString(ctx, *p.Success); err != nil {
			return err
		}
		if err := oprot.WriteFieldEnd(ctx); err != nil {
			return err
		}
	}
	if p.E != nil {
		if err := oprot.WriteFieldBegin(ctx, "e", thrift.STRUCT, 1); err != nil {
			return err
		}
		if err := p.E.Write(ctx, oprot); err != nil {
			return err
		}
		if err := oprot.WriteFieldEnd(ctx); err != nil {
			return err
		}
	}
	if err := oprot.WriteFieldStop(ctx); err != nil {
		return err
	}
	return oprot.WriteStructEnd(ctx)
}

// c20Work is what the handler needs from a run (the real run, or the calibration dummy).
type c20Work interface {
	begin(i int) (kind byte, dur time.Duration, ok bool)
	end(i int)
	bigLen(rid, opid string, kind byte) int
}

type c20Handler struct{ w c20Work }

func (h *c20Handler) Work(fctx frugal.FContext) (string, error) {
	rid, _ := fctx.RequestHeader("rid")
	i, err := strconv.Atoi(rid)
	if err != nil {
		return "", fmt.Errorf("c20: request without a usable rid header %q", rid)
	}
	kind, dur, ok := h.w.begin(i)
	if !ok {
		return "", fmt.Errorf("c20: request id %d out of range", i)
	}
	if dur > 0 {
		time.Sleep(dur)
	}
	fctx.AddResponseHeader("rid", rid)
	defer h.w.end(i)
	switch kind {
	case 'x':
		return "", &c20Exc{Message: "declared"}
	case 'e':
		return "", errors.New("undeclared")
	case 'u', 'a', 'o':
		opid, _ := fctx.ResponseHeader("_opid")
		return strings.Repeat("z", h.w.bigLen(rid, opid, kind)), nil
	}
	return "ok", nil
}

type c20FWork struct{ *frugal.FBaseProcessorFunction }

func (p *c20FWork) Process(fctx frugal.FContext, iprot, oprot *frugal.FProtocol) error {
	ctx, cancelFn := frugal.ToContext(fctx)
	defer cancelFn()

	args := c20WorkArgs{}
	err := args.Read(ctx, iprot)
	iprot.ReadMessageEnd(ctx)
	if err != nil {
		return p.SendError(fctx, oprot, frugal.APPLICATION_EXCEPTION_PROTOCOL_ERROR, "work", err.Error())
	}
	result := c20WorkResult{}
	ret := p.InvokeMethod([]interface{}{fctx})
	if len(ret) != 2 {
		panic(fmt.Sprintf("Middleware returned %d arguments, expected 2", len(ret)))
	}
	if ret[1] != nil {
		err = ret[1].(error)
	}
	if err != nil {
		if typedError, ok := err.(thrift.TApplicationException); ok {
			p.SendError(fctx, oprot, typedError.TypeId(), "work", typedError.Error())
			return nil
		}
		switch v := err.(type) {
		case *c20Exc:
			result.E = v
		default:
			return p.SendError(fctx, oprot, frugal.APPLICATION_EXCEPTION_INTERNAL_ERROR, "work", "Internal error processing work: "+err.Error())
		}
	} else {
		var retval string = ret[0].(string)
		result.Success = &retval
	}
	return p.SendReply(fctx, oprot, "work", &result)
}

func newC20Processor(w c20Work) *frugal.FBaseProcessor {
	p := frugal.NewFBaseProcessor()
	h := &c20Handler{w}
	p.AddToProcessorMap("work", &c20FWork{frugal.NewFBaseProcessorFunction(p.GetWriteMutex(), frugal.NewMethod(h, h.Work, "Work", nil))})
	return p
}

func c20OpID(i int) string { return strconv.Itoa(i + 1) }

func c20Frame(i int) []byte {
	return frugal.VerifPrependFrameSize(c20FrameBody(strconv.Itoa(i), c20OpID(i)))
}

func c20FrameBody(rid, opid string) []byte {
	hdr := frugal.VerifMarshalHeaders(map[string]string{"_opid": opid, "rid": rid})
	tr := thrift.NewTMemoryBuffer()
	pr := thrift.NewTBinaryProtocolConf(tr, nil)
	bg := context.Background()
	pr.WriteMessageBegin(bg, "work", thrift.CALL, 0)
	pr.WriteStructBegin(bg, "work_args")
	pr.WriteFieldStop(bg)
	pr.WriteStructEnd(bg)
	pr.WriteMessageEnd(bg)
	pr.Flush(bg)
	return append(hdr, tr.Bytes()...)
}

// ---------- calibration of the reply length at the limit ----------
//
// The frame of a reply is linear in the length of the result string. Its length for the 2-byte
// result "ok" is measured once per (len(rid), len(opid)) by running the same processor into an
// unbounded output buffer; the string length that makes the frame exactly 1 MiB follows. The
// oracle then checks the LENGTH ON THE WIRE (1 MiB - 1, 1 MiB) and the reply kind, so this is
// only how the harness aims, not what it accepts.

type c20Calib struct{}

func (c20Calib) begin(i int) (byte, time.Duration, bool) { return 'r', 0, true }
func (c20Calib) end(i int)                                 {}
func (c20Calib) bigLen(rid, opid string, kind byte) int    { return 2 }

var c20CalibCache sync.Map // "lenRid/lenOpid" -> frame length of the "ok" reply

func c20SmallFrameLen(rid, opid string) int {
	key := fmt.Sprintf("%d/%d", len(rid), len(opid))
	if v, ok := c20CalibCache.Load(key); ok {
		return v.(int)
	}
	in := &thrift.TMemoryBuffer{Buffer: bytes.NewBuffer(c20FrameBody(rid, opid))}
	out := frugal.NewTMemoryOutputBuffer(0)
	proc := newC20Processor(c20Calib{})
	if err := proc.Process(binFactory.GetProtocol(in), binFactory.GetProtocol(out)); err != nil {
		return -1
	}
	n := len(out.Bytes())
	c20CalibCache.Store(key, n)
	return n
}

func c20BigLen(rid, opid string, kind byte) int {
	small := c20SmallFrameLen(rid, opid)
	if small < 0 {
		return 16
	}
	at := 2 + (c20NatsLimit - small)
	switch kind {
	case 'u':
		return at - 1
	case 'o':
		return at + 1
	}
	return at
}

// ---------- what the caller sees ----------

type c20Reply struct {
	rid, opid string
	exception bool  // message type EXCEPTION
	excType   int32 // its TApplicationException type
	declared  bool  // REPLY carrying the declared exception (field 1)
	success   bool  // REPLY carrying the result (field 0)
	frameLen  int
}

func (r c20Reply) class() string {
	switch {
	case r.exception:
		return fmt.Sprintf("exception:%d", r.excType)
	case r.declared:
		return "declared"
	case r.success:
		return "result"
	}
	return "empty"
}

func c20ParseReply(data []byte) (c20Reply, error) {
	var r c20Reply
	r.frameLen = len(data)
	if len(data) < 4 {
		return r, errors.New("shorter than a frame")
	}
	if len(data) < 9 || int(uint32(data[0])<<24|uint32(data[1])<<16|uint32(data[2])<<8|uint32(data[3])) != len(data)-4 {
		return r, errors.New("frame size field does not match the message")
	}
	hsize := int(uint32(data[5])<<24 | uint32(data[6])<<16 | uint32(data[7])<<8 | uint32(data[8]))
	if data[4] != 0 || 9+hsize > len(data) {
		return r, errors.New("bad header block")
	}
	hdrs, err := frugal.VerifGetHeadersFromFrame(data[4:])
	if err != nil {
		return r, err
	}
	payload := data[9+hsize:]
	r.rid, r.opid = hdrs["rid"], hdrs["_opid"]
	bg := context.Background()
	pr := thrift.NewTBinaryProtocolConf(&thrift.TMemoryBuffer{Buffer: bytes.NewBuffer(payload)}, nil)
	name, mt, _, err := pr.ReadMessageBegin(bg)
	if err != nil {
		return r, err
	}
	if name != "work" {
		return r, fmt.Errorf("reply names method %q", name)
	}
	switch mt {
	case thrift.EXCEPTION:
		ex := thrift.NewTApplicationException(0, "")
		if err := ex.Read(bg, pr); err != nil {
			return r, err
		}
		r.exception, r.excType = true, ex.TypeId()
	case thrift.REPLY:
		if _, err := pr.ReadStructBegin(bg); err != nil {
			return r, err
		}
		for {
			_, ft, id, err := pr.ReadFieldBegin(bg)
			if err != nil {
				return r, err
			}
			if ft == thrift.STOP {
				break
			}
			if id == 0 {
				r.success = true
			} else if id == 1 {
				r.declared = true
			}
			if err := pr.Skip(bg, ft); err != nil {
				return r, err
			}
		}
	default:
		return r, fmt.Errorf("reply has message type %d", mt)
	}
	return r, nil
}

// c20ExpectedClass: what the caller must see for a request of this kind.
func c20ExpectedClass(kind byte) string {
	switch kind {
	case 'x':
		return "declared"
	case 'e':
		return fmt.Sprintf("exception:%d", frugal.APPLICATION_EXCEPTION_INTERNAL_ERROR)
	case 'o':
		return fmt.Sprintf("exception:%d", frugal.APPLICATION_EXCEPTION_RESPONSE_TOO_LARGE)
	}
	return "result"
}

// ---------- a pausable TCP relay (link stall between the server's connection and the broker) ----------

type c20Relay struct {
	ln     net.Listener
	target string
	mu     sync.Mutex
	cond   *sync.Cond
	paused bool
	closed bool
	conns  []net.Conn
}

func newC20Relay(target string) (*c20Relay, error) {
	ln, err := net.Listen("tcp", "127.0.0.1:0")
	if err != nil {
		return nil, err
	}
	r := &c20Relay{ln: ln, target: target}
	r.cond = sync.NewCond(&r.mu)
	go r.accept()
	return r, nil
}

func (r *c20Relay) url() string { return "nats://" + r.ln.Addr().String() }

func (r *c20Relay) accept() {
	for {
		c, err := r.ln.Accept()
		if err != nil {
			return
		}
		b, err := net.Dial("tcp", r.target)
		if err != nil {
			c.Close()
			continue
		}
		r.mu.Lock()
		r.conns = append(r.conns, c, b)
		r.mu.Unlock()
		go r.pipe(c, b)
		go r.pipe(b, c)
	}
}

func (r *c20Relay) pipe(src, dst net.Conn) {
	buf := make([]byte, 64*1024)
	for {
		n, err := src.Read(buf)
		if n > 0 {
			r.mu.Lock()
			for r.paused && !r.closed {
				r.cond.Wait()
			}
			r.mu.Unlock()
			if _, werr := dst.Write(buf[:n]); werr != nil {
				break
			}
		}
		if err != nil {
			break
		}
	}
	src.Close()
	dst.Close()
}

func (r *c20Relay) pause()  { r.mu.Lock(); r.paused = true; r.mu.Unlock() }
func (r *c20Relay) resume() { r.mu.Lock(); r.paused = false; r.cond.Broadcast(); r.mu.Unlock() }
func (r *c20Relay) close() {
	r.mu.Lock()
	r.closed = true
	r.cond.Broadcast()
	cs := r.conns
	r.mu.Unlock()
	r.ln.Close()
	for _, c := range cs {
		c.Close()
	}
}
