package main

// C17 — free-running concurrent cases on ONE shared FContext, each in a child process
// (`fatal error: concurrent map iteration and map write` cannot be recovered).
//
// Driver line: `c17conc <hex> <iters>`; hex = [kind, seed bytes…]; the model's answer is
// always "ok" (atomic operations: no crash, no block, ids distinct, every serialised frame a
// consistent snapshot). Kinds:
//   0 serialise  writers (Add{Request,Response}Header, SetTimeout, AddEphemeralProperty) ∥
//                serialisers (FProtocol.WriteRequestHeader / WriteResponseHeader, decoded with the
//                independent reader of the v0 layout) ∥ readers (RequestHeaders, getters, ToContext, getOpID)
//   1 clone      readers and writers inside critical sections of the original ∥ cloners (method,
//                package-level, foreign generic, foreign EP); every clone is then USED (writes, reads,
//                Clone again) — a clone that cannot be used blocks its cloner, which the watchdog reports
//   2 create     every way a context comes into being, concurrently; all op ids distinct
//   3 quiescent  many short races, then every derived accessor must agree with the header maps (contextheap_quiesce.go)
// Consistent snapshot: writer g sets "a<g>" := i and then "b<g>" := i, so at every instant
// a = b or a = b+1; a copy taken under the lock (accessor, clone, serialised frame) must satisfy it.

import (
	"bytes"
	"encoding/json"
	"fmt"
	"os"
	"os/exec"
	"sort"
	"strconv"
	"strings"
	"sync"
	"sync/atomic"
	"time"

	frugal "github.com/Workiva/frugal/lib/go"
	"github.com/apache/thrift/lib/go/thrift"
)

var c17ConcKinds = []string{"serialise", "clone", "create", "quiescent"}

func c17ConcParse(args []string) (kind int, seed uint64, iters int, ok bool) {
	if len(args) != 2 {
		return 0, 0, 0, false
	}
	b := unhx(args[0])
	if len(b) > 0 {
		kind = int(b[0]) % 4
		for _, x := range b[1:] {
			seed = seed*257 + uint64(x) + 1
		}
	}
	n, err := strconv.Atoi(args[1])
	if err != nil || n < 0 {
		return 0, 0, 0, false
	}
	if n > 2000000 {
		n = 2000000
	}
	return kind, seed, n, true
}

// c17Clip shortens a message (clip() of headers.go cuts at the first space: meant for outputs).
func c17Clip(s string) string {
	if len(s) > 400 {
		return s[:400] + "…"
	}
	return s
}

type c17Problems struct {
	mu sync.Mutex
	l  []string
}

func (p *c17Problems) add(f string, a ...interface{}) {
	p.mu.Lock()
	if len(p.l) < 6 {
		p.l = append(p.l, fmt.Sprintf(f, a...))
	}
	p.mu.Unlock()
}

var c17ConcTimeouts = map[string]bool{"5000": true, "1000": true, "2000": true, "3000": true}

// c17CheckSnapshot: m is a copy of the shared context's request (or response) header map.
func c17CheckSnapshot(p *c17Problems, where string, m map[string]string, fixed map[string]string, writers int) {
	for k, want := range fixed {
		if got, ok := m[k]; !ok || got != want {
			p.add("%s: header %s is %q, never written (want %q)", where, k, got, want)
		}
	}
	if t, ok := m["_timeout"]; ok && !c17ConcTimeouts[t] {
		p.add("%s: _timeout is %q, never written", where, t)
	}
	for g := 0; g < writers; g++ {
		as, aok := m["a"+strconv.Itoa(g)]
		bs, bok := m["b"+strconv.Itoa(g)]
		if !aok && !bok {
			continue
		}
		a, e1 := strconv.Atoi(as)
		b := -1
		var e2 error
		if bok {
			b, e2 = strconv.Atoi(bs)
		}
		if e1 != nil || e2 != nil || !(a == b || a == b+1) {
			p.add("%s: not a snapshot of the context: a%d=%q b%d=%q (the writer sets a then b to the same number)", where, g, as, g, bs)
		}
	}
}

func c17Recover(p *c17Problems, who string) {
	if r := recover(); r != nil {
		p.add("%s panicked: %s", who, c17Clip(fmt.Sprint(r)))
	}
}

// c17ConcInproc runs one case in this process. Returns the problems found.
func c17ConcInproc(kind int, seed uint64, iters int) []string {
	r := &Rng{s: seed ^ 0xC0C17}
	atomic.StoreUint64(frugal.VerifNextOpIDCounter(), r.U64()%(1<<40))
	p := &c17Problems{}
	switch kind {
	case 0:
		c17ConcSerialise(p, r, iters)
	case 1:
		c17ConcClone(p, r, iters)
	case 3:
		c17ConcQuiescent(p, r, seed, iters)
	default:
		c17ConcCreate(p, r, iters)
	}
	sort.Strings(p.l)
	return p.l
}

func c17SharedCtx(prefill int) (frugal.FContext, map[string]string, map[string]string) {
	ctx := frugal.NewFContext("conc-cid")
	id, _ := ctx.RequestHeader("_opid")
	fixedReq := map[string]string{"_opid": id, "_cid": "conc-cid"}
	fixedResp := map[string]string{}
	for i := 0; i < prefill; i++ {
		k, v := fmt.Sprintf("fixed-%03d", i), fmt.Sprintf("value-%d", i*7)
		ctx.AddRequestHeader(k, v)
		ctx.AddResponseHeader(k, v)
		fixedReq[k], fixedResp[k] = v, v
	}
	return ctx, fixedReq, fixedResp
}

func c17Writer(ctx frugal.FContext, g, iters int, stop *int32) {
	a, b := "a"+strconv.Itoa(g), "b"+strconv.Itoa(g)
	for i := 0; i < iters && atomic.LoadInt32(stop) == 0; i++ {
		v := strconv.Itoa(i)
		ctx.AddRequestHeader(a, v)
		ctx.AddRequestHeader(b, v)
		ctx.AddResponseHeader(a, v)
		ctx.AddResponseHeader(b, v)
		if i%7 == g {
			ctx.SetTimeout(time.Duration(1+i%3) * time.Second)
		}
		if i%5 == 0 {
			if e, ok := ctx.(frugal.FContextWithEphemeralProperties); ok {
				e.AddEphemeralProperty(a, v)
			}
		}
		if i%64 == 0 { // a key that comes and stays: the map grows while others iterate
			ctx.AddRequestHeader(fmt.Sprintf("grow-%d-%d", g, i), "x")
		}
	}
}

func c17DecodeFrame(p *c17Problems, where string, frame []byte) (map[string]string, bool) {
	l, rest, ok := specDecode(frame)
	m, nodup := listToMap(l)
	if !ok || len(rest) != 0 || !nodup {
		p.add("%s: serialised headers do not decode (torn frame, %d bytes)", where, len(frame))
		return nil, false
	}
	return m, true
}

func c17ConcSerialise(p *c17Problems, r *Rng, iters int) {
	const writers = 3
	ctx, fixedReq, fixedResp := c17SharedCtx(40)
	wantID, _ := strconv.ParseUint(fixedReq["_opid"], 10, 64)
	var stop int32
	var ww, rw sync.WaitGroup
	for g := 0; g < writers; g++ {
		ww.Add(1)
		go func(g int) { defer ww.Done(); defer c17Recover(p, "writer"); c17Writer(ctx, g, iters, &stop) }(g)
	}
	for s := 0; s < 4; s++ {
		rw.Add(1)
		go func(s int) {
			defer rw.Done()
			defer c17Recover(p, "serialiser/reader")
			var target frugal.FContext = ctx
			if s == 3 {
				target = c17Foreign{ctx} // a foreign wrapper takes the interface path of every consumer
			}
			for i := 0; atomic.LoadInt32(&stop) == 0; i++ {
				tr := thrift.NewTMemoryBuffer()
				pr := binFactory.GetProtocol(tr)
				switch i % 6 {
				case 0, 1:
					if err := pr.WriteRequestHeader(target); err != nil {
						p.add("WriteRequestHeader failed: %s", errClass(err))
					} else if m, ok := c17DecodeFrame(p, "WriteRequestHeader", tr.Bytes()); ok {
						c17CheckSnapshot(p, "WriteRequestHeader", m, fixedReq, writers)
					}
				case 2:
					if err := pr.WriteResponseHeader(target); err != nil {
						p.add("WriteResponseHeader failed: %s", errClass(err))
					} else if m, ok := c17DecodeFrame(p, "WriteResponseHeader", tr.Bytes()); ok {
						c17CheckSnapshot(p, "WriteResponseHeader", m, fixedResp, writers)
					}
				case 3:
					c17CheckSnapshot(p, "RequestHeaders()", target.RequestHeaders(), fixedReq, writers)
				case 4:
					c17CheckSnapshot(p, "ResponseHeaders()", target.ResponseHeaders(), fixedResp, writers)
				case 5:
					if id, err := frugal.VerifGetOpID(target); err != nil || id != wantID {
						p.add("getOpID returned %d,%v want %d", id, err, wantID)
					}
					cctx, cancel := frugal.ToContext(target)
					if _, has := cctx.Deadline(); !has {
						p.add("ToContext: no deadline although every timeout written is positive")
					}
					cancel()
					if t := target.Timeout(); t < time.Second || t > 5*time.Second {
						p.add("Timeout() returned %v, never written", t)
					}
					if target.CorrelationID() != "conc-cid" {
						p.add("CorrelationID() returned %q", target.CorrelationID())
					}
				}
			}
		}(s)
	}
	c17Wait(p, &ww, &stop, &rw, "writers ∥ serialisers on one context", iters)
}

// c17Wait: the first group ends the case; the second group then stops; both under a watchdog.
func c17Wait(p *c17Problems, first *sync.WaitGroup, stop *int32, second *sync.WaitGroup, what string, iters int) {
	done := make(chan struct{})
	go func() { first.Wait(); atomic.StoreInt32(stop, 1); second.Wait(); close(done) }()
	limit := 20*time.Second + time.Duration(iters)*50*time.Microsecond
	select {
	case <-done:
	case <-time.After(limit):
		atomic.StoreInt32(stop, 1)
		p.add("blocked: %s did not finish within %v (an operation on a context never returned)", what, limit)
	}
}

type c17Stage struct {
	what string
	n    int64
}

var c17StageCtr int64

func c17SetStage(v *atomic.Value, what string) {
	v.Store(c17Stage{what, atomic.AddInt64(&c17StageCtr, 1)})
}

// c17UseClone: everything a caller does with a fresh clone. `stage` tells the watchdog where it is.
func c17UseClone(p *c17Problems, cl frugal.FContext, stage *atomic.Value, depth int) {
	c17SetStage(stage, "AddRequestHeader on the clone")
	cl.AddRequestHeader("used", "yes")
	c17SetStage(stage, "RequestHeader on the clone")
	if v, ok := cl.RequestHeader("used"); !ok || v != "yes" {
		p.add("clone lost its own write: used=%q,%v", v, ok)
	}
	c17SetStage(stage, "AddResponseHeader on the clone")
	cl.AddResponseHeader("used", "yes")
	c17SetStage(stage, "SetTimeout on the clone")
	cl.SetTimeout(2 * time.Second)
	if e, ok := cl.(frugal.FContextWithEphemeralProperties); ok {
		c17SetStage(stage, "AddEphemeralProperty on the clone")
		e.AddEphemeralProperty("used", "yes")
		c17SetStage(stage, "EphemeralProperty on the clone")
		e.EphemeralProperty("used")
	}
	c17SetStage(stage, "RequestHeaders on the clone")
	_ = cl.RequestHeaders()
	if depth > 0 {
		c17SetStage(stage, "Clone of the clone")
		c17UseClone(p, frugal.Clone(cl), stage, depth-1)
	}
	c17SetStage(stage, "idle")
}

func c17ConcClone(p *c17Problems, r *Rng, iters int) {
	const writers = 2
	ctx, fixedReq, fixedResp := c17SharedCtx(120) // long critical sections in the copying accessors
	_ = fixedResp
	var stop int32
	var cw, bg sync.WaitGroup
	for g := 0; g < writers; g++ {
		bg.Add(1)
		go func(g int) { defer bg.Done(); defer c17Recover(p, "writer"); c17Writer(ctx, g, 1<<30, &stop) }(g)
	}
	for s := 0; s < 3; s++ {
		bg.Add(1)
		go func(s int) {
			defer bg.Done()
			defer c17Recover(p, "reader")
			for i := 0; atomic.LoadInt32(&stop) == 0; i++ {
				switch (i + s) % 3 {
				case 0:
					_ = ctx.RequestHeaders()
				case 1:
					_ = ctx.ResponseHeaders()
				default:
					ctx.RequestHeader("a0")
					ctx.(frugal.FContextWithEphemeralProperties).EphemeralProperties()
				}
			}
		}(s)
	}
	const cloners = 3
	ids := make([][]string, cloners)
	stages := make([]*atomic.Value, cloners)
	n := iters / 20
	if n < 50 {
		n = 50
	}
	for c := 0; c < cloners; c++ {
		stages[c] = &atomic.Value{}
		c17SetStage(stages[c], "start")
		cw.Add(1)
		go func(c int) {
			defer cw.Done()
			defer c17Recover(p, "cloner")
			for i := 0; i < n; i++ {
				c17SetStage(stages[c], "Clone of the shared context")
				var cl frugal.FContext
				switch (i + c) % 4 {
				case 0:
					cl = ctx.(frugal.FContextWithEphemeralProperties).Clone()
				case 1:
					cl = frugal.Clone(ctx)
				case 2:
					cl = frugal.Clone(c17Foreign{ctx})
				case 3:
					cl = frugal.Clone(c17ForeignEP{ctx.(frugal.FContextWithEphemeralProperties)})
				}
				id, _ := cl.RequestHeader("_opid")
				ids[c] = append(ids[c], id)
				m := cl.RequestHeaders()
				delete(m, "_opid")
				fx := c17Without(fixedReq, "_opid")
				c17CheckSnapshot(p, "request headers of a clone", m, fx, writers)
				c17UseClone(p, cl, stages[c], 1)
				id2, _ := cl.RequestHeader("_opid")
				if id2 != id {
					p.add("op id of a clone changed from %q to %q by using it", id, id2)
				}
			}
		}(c)
	}
	done := make(chan struct{})
	go func() { cw.Wait(); close(done) }()
	// watchdog on PROGRESS: every step of a cloner stores its stage; a cloner whose stage does not
	// change for 4 s is inside an operation that does not return
	last := make([]interface{}, cloners)
	quiet := 0
	for finished := false; !finished; {
		select {
		case <-done:
			finished = true
		case <-time.After(200 * time.Millisecond):
			moved := false
			for c := range stages {
				if cur := stages[c].Load(); cur != last[c] {
					last[c], moved = cur, true
				}
			}
			if moved {
				quiet = 0
			} else if quiet++; quiet >= 20 {
				var st []string
				for c := range stages {
					if s := stages[c].Load().(c17Stage).what; s != "idle" {
						st = append(st, s)
					}
				}
				sort.Strings(st)
				p.add("blocked: a clone made while other goroutines were inside critical sections of the original cannot be used: %s never returned", strings.Join(st, "; "))
				atomic.StoreInt32(&stop, 1)
				return
			}
		}
	}
	atomic.StoreInt32(&stop, 1)
	bgDone := make(chan struct{})
	go func() { bg.Wait(); close(bgDone) }()
	select {
	case <-bgDone:
	case <-time.After(15 * time.Second):
		p.add("blocked: readers/writers of the original did not stop")
	}
	seen := map[string]bool{fixedReq["_opid"]: true}
	for c := range ids {
		for _, id := range ids[c] {
			if id == "" || seen[id] {
				p.add("op id %q carried by two contexts (original/clones)", id)
			}
			seen[id] = true
		}
	}
}

func c17ConcCreate(p *c17Problems, r *Rng, iters int) {
	const G = 6
	shared, _, _ := c17SharedCtx(3)
	ids := make([][]string, G)
	var wg sync.WaitGroup
	var stop int32
	n := iters / 4
	for g := 0; g < G; g++ {
		wg.Add(1)
		go func(g int) {
			defer wg.Done()
			defer c17Recover(p, "creator")
			tr := thrift.NewTMemoryBuffer()
			pr := binFactory.GetProtocol(tr)
			var own frugal.FContext = frugal.NewFContext("own")
			id0, _ := own.RequestHeader("_opid")
			ids[g] = append(ids[g], id0)
			for i := 0; i < n; i++ {
				var c frugal.FContext
				switch (i + g) % 7 {
				case 0:
					c = frugal.NewFContext("c")
				case 1:
					c = frugal.Clone(shared)
				case 2:
					c = frugal.Clone(c17Foreign{shared})
				case 3:
					c = frugal.Clone(c17ForeignEP{shared.(frugal.FContextWithEphemeralProperties)})
				case 4:
					c = frugal.Clone(c17Foreign{own}) // clone of a clone of a foreign context …
					own = c
				case 5:
					c = shared.(frugal.FContextWithEphemeralProperties).Clone()
				default:
					tr.Write(frugal.VerifMarshalHeaders(map[string]string{"_opid": "7", "_cid": "r"}))
					var err error
					if c, err = pr.ReadRequestHeader(); err != nil {
						p.add("ReadRequestHeader failed: %s", errClass(err))
						continue
					}
				}
				id, ok := c.RequestHeader("_opid")
				if !ok {
					p.add("a created context carries no op id")
				}
				if _, err := frugal.VerifGetOpID(c); err != nil {
					p.add("getOpID fails on a created context (%q)", id)
				}
				ids[g] = append(ids[g], id)
			}
		}(g)
	}
	var none sync.WaitGroup
	c17Wait(p, &wg, &stop, &none, "concurrent creation", iters)
	sid, _ := shared.RequestHeader("_opid")
	seen := map[string]bool{sid: true}
	for g := range ids {
		for _, id := range ids[g] {
			if seen[id] {
				p.add("op id %q carried by two contexts", id)
			}
			seen[id] = true
		}
	}
}

// c17ConcRun runs a case in a child process (or here, when we are the child).
func c17ConcRun(args []string) (string, []string) {
	kind, seed, iters, ok := c17ConcParse(args)
	if !ok {
		return "bad-op", nil
	}
	if os.Getenv("VERIF_C17_INPROC") != "" {
		if probs := c17ConcInproc(kind, seed, iters); len(probs) > 0 {
			return "fail", probs
		}
		return "ok", nil
	}
	f, err := os.CreateTemp("", "c17line")
	if err != nil {
		return "crash:tempfile", []string{"cannot create temp file"}
	}
	defer os.Remove(f.Name())
	f.WriteString("c17conc " + strings.Join(args, " ") + "\n")
	f.Close()
	cmd := exec.Command(os.Args[0], "c17", "-lines", f.Name())
	cmd.Env = append(os.Environ(), "VERIF_C17_INPROC=1")
	var so, se bytes.Buffer
	cmd.Stdout, cmd.Stderr = &so, &se
	done := make(chan error, 1)
	go func() { done <- cmd.Run() }()
	select {
	case err = <-done:
	case <-time.After(180 * time.Second):
		cmd.Process.Kill()
		return "blocked", []string{"blocked: the child process of the concurrent case did not end"}
	}
	if err != nil {
		why := "process died"
		if strings.Contains(se.String(), "WARNING: DATA RACE") {
			why = "data race reported by the Go race detector"
		}
		for _, l := range strings.Split(se.String(), "\n") {
			if strings.HasPrefix(l, "fatal error:") || strings.HasPrefix(l, "panic:") {
				why = strings.TrimSpace(l)
				break
			}
		}
		return "crash", []string{"the process running " + c17ConcKinds[kind] + " dies: " + why}
	}
	real, probs := "crash:nooutput", []string(nil)
	for _, l := range strings.Split(so.String(), "\n") {
		q := strings.Split(l, "\t")
		if q[0] == "C" && len(q) == 3 {
			real = q[2]
		}
		if q[0] == "O" && len(q) == 2 {
			var d struct {
				Detail string `json:"detail"`
			}
			if json.Unmarshal([]byte(q[1]), &d) == nil && d.Detail != "" {
				probs = append(probs, d.Detail)
			} else {
				probs = append(probs, c17Clip(q[1]))
			}
		}
	}
	if real == "crash:nooutput" {
		probs = append(probs, "child printed no case")
	}
	return real, probs
}

// c17ConcClass: failure name that is stable across runs (for the shrinker of bin/check).
func c17ConcClass(prob string) string {
	switch {
	case strings.HasPrefix(prob, "quiescent:"):
		return "accessors of one FContext disagree after all concurrent operations have finished"
	case strings.Contains(prob, "dies:"):
		return "process dies under concurrent use of one FContext"
	case strings.HasPrefix(prob, "blocked"):
		return "an operation on an FContext never returns"
	case strings.Contains(prob, "op id"):
		return "op id not unique"
	case strings.Contains(prob, "snapshot") || strings.Contains(prob, "torn") || strings.Contains(prob, "never written"):
		return "headers read/serialised are not a snapshot of the context"
	case strings.Contains(prob, "panicked"):
		return "panic under concurrent use of one FContext"
	}
	return "concurrent use of one FContext fails"
}

func c17ConcReport(line, real string, probs []string) {
	seen := map[string]bool{}
	for _, pr := range probs {
		cl := c17ConcClass(pr)
		if seen[cl] {
			continue
		}
		seen[cl] = true
		OracleFail("C17 concurrent: "+cl, map[string]interface{}{"op": "c17conc", "line": line, "detail": c17Clip(pr), "got": real})
	}
}

func c17ConcGen(r *Rng, kind, iters int) {
	hexarg := hx(append([]byte{byte(kind + 4*r.Intn(60))}, r.Bytes(4)...))
	args := []string{hexarg, strconv.Itoa(iters)}
	line := "c17conc " + strings.Join(args, " ")
	real, probs := c17ConcRun(args)
	Case(line, real)
	Stat("conc:" + c17ConcKinds[kind] + ":" + real)
	Stat("evaluations")
	c17ConcReport(line, real, probs)
}

func init() {
	lineOps["c17conc"] = func(args []string) (string, bool) {
		real, probs := c17ConcRun(args)
		if os.Getenv("VERIF_C17_INPROC") != "" {
			// we are the child: hand the problems to the parent verbatim
			for _, pr := range probs {
				OracleFail("C17 concurrent (child)", map[string]interface{}{"detail": pr})
			}
			return real, true
		}
		c17ConcReport("c17conc "+strings.Join(args, " "), real, probs)
		return real, true
	}
}
