package main

// C09 over the real transports, in the size and the concurrency dimension.
//
//   links     mem   FStandardClient -> in-memory FTransport -> FBaseProcessor            (context_e2e.go)
//             http  FStandardClient -> FHTTPTransport -> net/http (httptest server) -> NewFrugalHandlerFunc
//             tcp   FStandardClient -> FAdapterTransport over a TSocket -> FSimpleServer (real socket)
//             nats  FStandardClient -> FNatsTransport -> in-process nats-server -> FNatsServer (4 workers)
//   suite c09tr   one call per case with user / response header sets whose v0 block sits on a buffering
//                 boundary of these transports (c9PickSize), few huge values or many small pairs, in the
//                 request direction, the response direction or both. Oracle: the property (handler sees
//                 exactly user headers, cid, timeout; caller sees every response header; ids). Tie:
//                 op `c9e2e` = the model's whole call (callThrough) for the same inputs.
//   suite c09conc many contexts created and received at the same time: goroutines on in-memory frames
//                 (what NATS-server workers do) and whole calls over http / nats / tcp / mem from several
//                 callers. Oracle: all op ids (callers' and handlers') pairwise distinct. Tie: op `c9ids`
//                 = the ids issued are exactly counter+1 .. counter+n (atomic fetch-and-add).

import (
	"fmt"
	"net/http"
	"net/http/httptest"
	"sort"
	"strconv"
	"strings"
	"sync"
	"sync/atomic"
	"time"

	frugal "github.com/Workiva/frugal/lib/go"
	"github.com/apache/thrift/lib/go/thrift"
	"github.com/nats-io/nats.go"
)

// ---------- the shared service: a handler that looks its instructions up by correlation id ----------

type c9Plan struct {
	R map[string]string // response headers to set
	// what the handler observed
	mu      sync.Mutex
	calls   int
	req     map[string]string
	resp    map[string]string
	cid     string
	timeout time.Duration
}

var (
	c9Plans    sync.Map // cid -> *c9Plan
	c9Stray    int64    // handler invocations whose correlation id matches no plan
	c9StrayReq atomic.Value
	c9ProcOnce sync.Once
	c9Proc     *frugal.FBaseProcessor
	c9CallSeq  uint64
)

func c9SharedProc() *frugal.FBaseProcessor {
	c9ProcOnce.Do(func() {
		c9Proc = frugal.NewFBaseProcessor()
		c9Proc.AddToProcessorMap("m", &c9Fn{base: frugal.NewFBaseProcessorFunction(&sync.Mutex{}, nil), handler: func(fctx frugal.FContext) {
			v, ok := c9Plans.Load(fctx.CorrelationID())
			if !ok {
				atomic.AddInt64(&c9Stray, 1)
				c9StrayReq.Store(pairs(fctx.RequestHeaders()))
				return
			}
			p := v.(*c9Plan)
			p.mu.Lock()
			defer p.mu.Unlock()
			p.calls++
			p.req, p.resp = fctx.RequestHeaders(), fctx.ResponseHeaders()
			p.cid, p.timeout = fctx.CorrelationID(), fctx.Timeout()
			for _, k := range sortedKeys(p.R) {
				fctx.AddResponseHeader(k, p.R[k])
			}
		}})
		c9Proc.AddToProcessorMap("s", &c9Fn{name: "s", base: frugal.NewFBaseProcessorFunction(&sync.Mutex{}, nil), handler: c9ScriptHandler})
	})
	return c9Proc
}

// ---------- links ----------

type c9Link struct {
	kind   string
	fi     int
	tr     frugal.FTransport
	client *frugal.FStandardClient
	close  func()
}

var (
	c9LinkMu  sync.Mutex
	c9Links   = map[string]*c9Link{}
	c9HTTPSrv = map[int]*httptest.Server{}
	c9TCPAddr = map[int]string{}
	c9NatsSub = map[int]string{}
	c9HTTPCli = &http.Client{Transport: &http.Transport{MaxIdleConnsPerHost: 64}}
)

// c9MaxBlock: the largest header block (bytes) a link carries in one direction.
func c9MaxBlock(kind string) int {
	if kind == "nats" {
		return 1<<20 - 2048 // frames are limited to 1 MiB (natsMaxMessageSize)
	}
	return 1<<20 + 1<<17
}

func c9NewLink(kind string, fi int) (*c9Link, error) {
	fac := c9Factories[fi].f
	proc := c9SharedProc()
	l := &c9Link{kind: kind, fi: fi, close: func() {}}
	switch kind {
	case "mem":
		l.tr = &c9Transport{proc: proc, fac: fac}
	case "http":
		srv := c9HTTPSrv[fi]
		if srv == nil {
			srv = httptest.NewServer(frugal.NewFrugalHandlerFunc(proc, fac))
			c9HTTPSrv[fi] = srv
		}
		l.tr = frugal.NewFHTTPTransportBuilder(c9HTTPCli, srv.URL).Build()
	case "tcp":
		addr := c9TCPAddr[fi]
		if addr == "" {
			st, err := thrift.NewTServerSocket("127.0.0.1:0")
			if err != nil {
				return nil, err
			}
			if err := st.Listen(); err != nil {
				return nil, err
			}
			addr = st.Addr().String()
			go frugal.NewFSimpleServer(proc, st, fac).Serve()
			c9TCPAddr[fi] = addr
		}
		sock := thrift.NewTSocketConf(addr, &thrift.TConfiguration{ConnectTimeout: 2 * time.Second})
		l.tr = frugal.NewAdapterTransport(sock)
	case "nats":
		url, err := c20Broker()
		if err != nil {
			return nil, err
		}
		subj := c9NatsSub[fi]
		if subj == "" {
			sconn, err := nats.Connect(url)
			if err != nil {
				return nil, err
			}
			subj = fmt.Sprintf("c9.svc.%d", fi)
			srv := frugal.NewFNatsServerBuilder(sconn, proc, fac, []string{subj}).WithWorkerCount(4).Build()
			go srv.Serve()
			c9NatsSub[fi] = subj
		}
		cconn, err := nats.Connect(url)
		if err != nil {
			return nil, err
		}
		l.tr = frugal.NewFNatsTransport(cconn, subj, "")
		l.close = func() { cconn.Close() }
	default:
		return nil, fmt.Errorf("unknown link %s", kind)
	}
	if err := l.tr.Open(); err != nil {
		return nil, err
	}
	l.client = frugal.NewFStandardClient(frugal.NewFServiceProvider(l.tr, fac))
	// the server side may still be subscribing / accepting: probe until one call gets through
	deadline := time.Now().Add(10 * time.Second)
	for {
		cid := fmt.Sprintf("c9-probe-%d", atomic.AddUint64(&c9CallSeq, 1))
		c9Plans.Store(cid, &c9Plan{})
		err := l.client.Call(frugal.NewFContext(cid).SetTimeout(500*time.Millisecond), "m", c9Empty{}, &c9Empty{})
		c9Plans.Delete(cid)
		if err == nil {
			return l, nil
		}
		if time.Now().After(deadline) {
			return nil, fmt.Errorf("link %s never became ready: %v", kind, err)
		}
		time.Sleep(20 * time.Millisecond)
	}
}

// c9GetLink returns the link named `<kind>/<factory>[#i]` (one per name, rebuilt after c9DropLink).
func c9GetLink(name string) (*c9Link, error) {
	c9LinkMu.Lock()
	defer c9LinkMu.Unlock()
	if l := c9Links[name]; l != nil {
		return l, nil
	}
	base := name
	if i := strings.IndexByte(base, '#'); i >= 0 {
		base = base[:i]
	}
	parts := strings.Split(base, "/")
	fi := 0
	if len(parts) == 2 {
		for i, f := range c9Factories {
			if f.name == parts[1] {
				fi = i
			}
		}
	}
	l, err := c9NewLink(parts[0], fi)
	if err != nil {
		return nil, err
	}
	c9Links[name] = l
	return l, nil
}

func c9DropLink(name string) {
	c9LinkMu.Lock()
	defer c9LinkMu.Unlock()
	if l := c9Links[name]; l != nil {
		go func() { l.tr.Close(); l.close() }()
		delete(c9Links, name)
	}
}

// ---------- one call over a link ----------

type c9CallResult struct {
	out      string // canonical output of op c9e2e ("" when the handler op id is not usable as a counter value)
	why      string // property violated ("" = held)
	callerOp string
	serverOp string
	ctr      uint64 // serverOp - 1
}

// c9LinkCall performs one real call. forceOpid (replay only) overrides the op id NewFContext assigned;
// lineCtr (replay only) is the counter value of the driver line the handler's fresh id is translated to.
func c9LinkCall(link string, cid string, forceOpid string, U map[string]string, d time.Duration, R map[string]string, lineCtr *uint64) c9CallResult {
	var res c9CallResult
	l, err := c9GetLink(link)
	if err != nil {
		res.why = "harness: " + err.Error()
		return res
	}
	plan := &c9Plan{R: R}
	c9Plans.Store(cid, plan)
	defer c9Plans.Delete(cid)
	ctx := frugal.NewFContext(cid)
	if forceOpid != "" {
		ctx.AddRequestHeader("_opid", forceOpid)
	}
	for _, k := range sortedKeys(U) {
		ctx.AddRequestHeader(k, U[k])
	}
	ctx.SetTimeout(d)
	H := ctx.RequestHeaders()
	res.callerOp = H["_opid"]
	want := wireTimeout(d)
	var cerr error
	o := guard(d+20*time.Second, func() { cerr = l.client.Call(ctx, "m", c9Empty{}, &c9Empty{}) })
	plan.mu.Lock()
	defer plan.mu.Unlock()
	after := ctx.ResponseHeaders()
	switch {
	case o != "" || cerr != nil:
		c9DropLink(link) // a failed call may leave a stream misaligned
		res.why = "call over a real transport failed although request and response are within its size limit"
		if plan.calls == 0 {
			res.why = "call over a real transport failed: the handler never saw the request (user headers, cid, timeout lost)"
		}
		return res
	case plan.calls != 1:
		res.why = "handler did not run exactly once for the call"
		return res
	}
	a, b := copyMap(plan.req), copyMap(H)
	res.serverOp = a["_opid"]
	delete(a, "_opid")
	delete(b, "_opid")
	n, perr := strconv.ParseUint(res.serverOp, 10, 64)
	switch {
	case !mapsEqual(a, b):
		res.why = "handler's request headers differ from the caller's (ignoring _opid)"
	case plan.cid != cid:
		res.why = "handler sees a different correlation id"
	case plan.timeout != want:
		res.why = "handler sees a different timeout"
	case perr != nil || n == 0 || res.serverOp == res.callerOp:
		res.why = "handler context's op id is not fresh"
	case !mapsEqual(plan.resp, map[string]string{"_opid": res.callerOp, "_cid": cid}):
		res.why = "handler context's response headers are not {_opid: request op id, _cid: cid}"
	case !mapsEqual(H, ctx.RequestHeaders()):
		res.why = "caller's request headers changed during the call"
	}
	if res.why == "" {
		wantAfter := copyMap(R)
		wantAfter["_cid"] = cid
		if !mapsEqual(after, wantAfter) {
			res.why = "caller's response headers after the call are not the handler's response headers plus the cid echo"
			for k, v := range R {
				if w, has := after[k]; !has || w != v {
					res.why = "a response header set by the handler is not visible on the caller's context"
				}
			}
		}
	}
	if perr == nil && n > 0 {
		res.ctr = n - 1
		req := copyMap(plan.req)
		if lineCtr != nil {
			req["_opid"] = strconv.FormatUint(*lineCtr+1, 10)
		}
		res.out = fmt.Sprintf("ok req=%s resp=%s cid=%s timeout=%d after=%s", pairs(req), pairs(plan.resp), hx([]byte(plan.cid)), int64(plan.timeout), pairs(after))
	}
	return res
}

func c9E2ELine(cid, link, opid string, d time.Duration, ctr uint64, U, R map[string]string) string {
	return fmt.Sprintf("c9e2e %s %s %s %d %d %s %s", hx([]byte(cid)), link, opid, int64(d), ctr, pairs(U), pairs(R))
}

// ---------- suite c09tr ----------

var c9LinkFails = map[string]int{}

func runC09Transports(r *Rng, n int) {
	kinds := []string{"http", "tcp", "nats", "mem"}
	for i := 0; i < n; i++ {
		Stat("evaluations")
		kind := kinds[r.Intn(len(kinds))]
		if c9LinkFails[kind] >= 3 { // enough witnesses on this transport; every further failure costs a call timeout
			Stat("skipped-after-failures:" + kind)
			continue
		}
		fi := 0
		if r.Chance(40) {
			fi = r.Intn(len(c9Factories))
		}
		link := kind + "/" + c9Factories[fi].name
		dir := []string{"request", "response", "both"}[r.Intn(3)]
		ut, ushape := 10, "few"
		rt, rshape := 10, "few"
		if dir != "response" {
			ut, ushape = c9PickSize(r, c9MaxBlock(kind))
		}
		if dir != "request" {
			rt, rshape = c9PickSize(r, c9MaxBlock(kind))
		}
		if r.Chance(15) { // a small ordinary set as well
			ut, rt = r.Intn(300), r.Intn(300)
		}
		U := c9SizedHeaders(r, ut, ushape, "u")
		R := c9SizedHeaders(r, rt, rshape, "r")
		cid := fmt.Sprintf("%s#%d", strings.Map(func(c rune) rune {
			if c == ' ' {
				return '_'
			}
			return c
		}, c9Cid(r)), atomic.AddUint64(&c9CallSeq, 1))
		d := time.Duration(8000+r.Intn(4000)) * time.Millisecond
		Stat("link:" + link)
		Stat("direction:" + dir)
		Stat(fmt.Sprintf("request-block:%s:%s/%s", kind, c9SizeClass(c9BlockSize(U)), ushape))
		Stat(fmt.Sprintf("response-block:%s:%s/%s", kind, c9SizeClass(c9BlockSize(R)), rshape))
		Sample(map[string]interface{}{"link": link, "direction": dir, "request_block": c9BlockSize(U), "response_block": c9BlockSize(R), "user_headers": len(U), "response_headers": len(R)})
		res := c9LinkCall(link, cid, "", U, d, R, nil)
		line := c9E2ELine(cid, link, res.callerOp, d, res.ctr, U, R)
		if c9Seen[res.callerOp] || (res.serverOp != "" && c9Seen[res.serverOp]) {
			if res.why == "" {
				res.why = "an op id of this call was seen before in this process"
			}
		}
		c9Seen[res.callerOp] = true
		if res.serverOp != "" {
			c9Seen[res.serverOp] = true
		}
		// the model driver is quadratic in the number of pairs: tie the calls with moderate maps
		if res.out != "" && len(U) <= 500 && len(R) <= 500 && c9BlockSize(U)+c9BlockSize(R) < 1<<19 {
			Case(line, res.out)
		} else {
			Stat("oracle-only")
		}
		if res.why != "" {
			c9LinkFails[kind]++
			OracleFail(res.why, map[string]interface{}{"line": line, "link": link, "request_block": c9BlockSize(U), "response_block": c9BlockSize(R)})
		}
	}
	if n := atomic.LoadInt64(&c9Stray); n > 0 {
		s, _ := c9StrayReq.Load().(string)
		OracleFail("a handler was invoked with a correlation id no caller sent", map[string]interface{}{"count": n, "handler_saw": clip(s)})
	}
}

// ---------- suite c09conc ----------

// c9IdsOut renders the ids issued while the counter went from base to after, in the numbering of lineCtr.
func c9IdsOut(ids []string, base, after, lineCtr uint64) (string, string) {
	seen := map[string]int{}
	var min, max uint64
	bad := ""
	for _, s := range ids {
		seen[s]++
		n, err := strconv.ParseUint(s, 10, 64)
		if err != nil {
			bad = "an op id is not a decimal number"
			continue
		}
		if min == 0 || n < min {
			min = n
		}
		if n > max {
			max = n
		}
	}
	why := bad
	if len(seen) != len(ids) {
		why = "contexts created / received at the same time share an op id"
	}
	if len(ids) == 0 {
		return fmt.Sprintf("ok n=0 distinct=0 first=%d last=%d ctr=%d", lineCtr+1, lineCtr, lineCtr+(after-base)), why
	}
	return fmt.Sprintf("ok n=%d distinct=%d first=%d last=%d ctr=%d", len(ids), len(seen), min-base+lineCtr, max-base+lineCtr, lineCtr+(after-base)), why
}

// c9ConcRun: `who` = g<G> (goroutines on in-memory frames) or <h|n|t|m><G> (G callers over http / nats /
// tcp (one connection each) / mem). Every worker performs `per` iterations, each issuing two op ids: the
// caller's (NewFContext) and the handler's (ReadRequestHeader). Returns all ids and the counter before/after.
func c9ConcRun(who string, total int) (ids []string, base, after uint64, why string) {
	if len(who) < 2 {
		return nil, 0, 0, "harness: bad worker spec"
	}
	G, _ := strconv.Atoi(who[1:])
	if G < 1 {
		G = 1
	}
	per := total / (2 * G)
	links := make([]string, G)
	kind := map[byte]string{'h': "http", 'n': "nats", 't': "tcp", 'm': "mem"}[who[0]]
	if who[0] != 'g' {
		if kind == "" {
			return nil, 0, 0, "harness: bad worker spec"
		}
		for g := range links {
			links[g] = kind + "/binary"
			if kind == "tcp" || kind == "mem" {
				links[g] = fmt.Sprintf("%s/binary#%d", kind, g)
			}
			if _, err := c9GetLink(links[g]); err != nil {
				return nil, 0, 0, "harness: " + err.Error()
			}
		}
	}
	var mu sync.Mutex
	var wg sync.WaitGroup
	start := make(chan struct{})
	fails := ""
	base = frugal.VerifCtx09OpIDCounter()
	for g := 0; g < G; g++ {
		wg.Add(1)
		go func(g int) {
			defer wg.Done()
			mine := make([]string, 0, 2*per)
			f := c9Factories[0].f
			frame := frugal.VerifMarshalHeaders(map[string]string{"_opid": "1", "_cid": "c", "_timeout": "5000"})
			<-start
			for i := 0; i < per; i++ {
				if who[0] == 'g' {
					// tight loops, as NATS-server workers / parallel callers do: even workers receive a
					// request (ReadRequestHeader on an in-memory frame), odd workers create contexts
					for j := 0; j < 2; j++ {
						if g%2 == 1 {
							mine = append(mine, frugal.NewFContext("c").RequestHeaders()["_opid"])
							continue
						}
						buf := thrift.NewTMemoryBuffer()
						buf.Write(frame)
						s, err := f.GetProtocol(buf).ReadRequestHeader()
						if err != nil {
							continue
						}
						mine = append(mine, s.RequestHeaders()["_opid"])
					}
					continue
				}
				cid := fmt.Sprintf("conc#%d", atomic.AddUint64(&c9CallSeq, 1))
				res := c9LinkCall(links[g], cid, "", map[string]string{"w": strconv.Itoa(g)}, 10*time.Second, map[string]string{"r": strconv.Itoa(i)}, nil)
				if res.why != "" {
					mu.Lock()
					fails = res.why
					mu.Unlock()
					return
				}
				mine = append(mine, res.callerOp, res.serverOp)
			}
			mu.Lock()
			ids = append(ids, mine...)
			mu.Unlock()
		}(g)
	}
	close(start)
	wg.Wait()
	after = frugal.VerifCtx09OpIDCounter()
	sort.Strings(ids)
	return ids, base, after, fails
}

func c9ConcCase(who string, total int, lineCtr *uint64) (line, out, why string) {
	ids, base, after, fails := c9ConcRun(who, total)
	lc := base
	if lineCtr != nil {
		lc = *lineCtr
	}
	out, why = c9IdsOut(ids, base, after, lc)
	if why == "" {
		why = fails
	}
	// the line carries the number of ids actually issued (2 per completed iteration)
	return fmt.Sprintf("c9ids %s %d %d", who, len(ids), lc), out, why
}

func runC09Conc(r *Rng, n int) {
	for i := 0; i < n; i++ {
		Stat("evaluations")
		var who string
		var total int
		switch k := r.Intn(10); {
		case k < 5:
			who, total = fmt.Sprintf("g%d", r.Pick(2, 4, 8, 16)), 2*r.Pick(32000, 64000, 128000)
		case k < 7:
			who, total = fmt.Sprintf("h%d", r.Pick(4, 8, 16)), 2*r.Pick(160, 320)
		case k < 8:
			who, total = fmt.Sprintf("n%d", r.Pick(4, 8)), 2*r.Pick(160, 320)
		case k < 9:
			who, total = fmt.Sprintf("t%d", r.Pick(4, 8)), 2*r.Pick(160, 320)
		default:
			who, total = fmt.Sprintf("m%d", r.Pick(4, 8)), 2*r.Pick(400, 800)
		}
		Stat("concurrent:" + who[:1])
		Stat("workers=" + who[1:])
		line, out, why := c9ConcCase(who, total, nil)
		StatN("ids-issued-concurrently", total)
		Case(line, out)
		Sample(map[string]interface{}{"workers": who, "ids": total, "got": out})
		if why != "" {
			OracleFail(why, map[string]interface{}{"line": line, "got": out})
		}
	}
}

func init() {
	suites["c09tr"] = runC09Transports
	suites["c09conc"] = runC09Conc
	lineOps["c9e2e"] = func(args []string) (string, bool) {
		if len(args) != 7 {
			return "bad-op", true
		}
		cid := string(unhx(args[0]))
		ns, _ := strconv.ParseInt(args[3], 10, 64)
		ctr, _ := strconv.ParseUint(args[4], 10, 64)
		if cid == "" || ns <= 0 {
			return "bad-op", true
		}
		res := c9LinkCall(args[1], cid, args[2], c9MapOf(args[5]), time.Duration(ns), c9MapOf(args[6]), &ctr)
		if res.why != "" {
			OracleFail(res.why, map[string]interface{}{"line": "c9e2e " + strings.Join(args, " "), "replayed": true})
		}
		if res.out == "" {
			return "err:call", res.why == ""
		}
		return res.out, res.why == ""
	}
	lineOps["c9ids"] = func(args []string) (string, bool) {
		if len(args) != 3 {
			return "bad-op", true
		}
		total, _ := strconv.Atoi(args[1])
		ctr, _ := strconv.ParseUint(args[2], 10, 64)
		if total > 1<<22 {
			total = 1 << 22
		}
		_, out, why := c9ConcCase(args[0], total, &ctr)
		if why != "" {
			OracleFail(why, map[string]interface{}{"line": "c9ids " + strings.Join(args, " "), "replayed": true})
		}
		return out, why == ""
	}
}
