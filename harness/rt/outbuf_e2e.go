package main

// C12 end to end over real brokers (suite "c12e2e"):
//   * an in-process nats-server, the real fNatsServer (FNatsServerBuilder) with a processor whose
//     handler answers with SendReply, and the real fNatsTransport: Call and Oneway with requests
//     and replies around the 1 MiB limit; a raw NATS subscriber on the service subject observes
//     what was actually published;
//   * the real fNatsPublisherTransport (Publish, raw subscriber on the topic);
//   * the real fStompPublisherTransport with a configured limit against the in-process STOMP
//     broker of pubsub_broker.go (raw go-stomp subscription on the destination).
// Every case is followed by a normal message through the SAME client and server (keeps working;
// by the brokers' per-publisher ordering it also tells that nothing else was published before it).
// Lines: `c12call … nats 1048576 1048576 …` (model: callNats) and `c12send … nats|natspub|stomp …`.

import (
	"fmt"
	"strings"
	"sync"
	"time"

	frugal "github.com/Workiva/frugal/lib/go"
	"github.com/apache/thrift/lib/go/thrift"
	"github.com/go-stomp/stomp"
	"github.com/nats-io/nats.go"
)

const c12MiB = 1 << 20

func c12IsE2EKind(k string) bool { return k == "nats" || k == "natspub" || k == "stomp" }

// c12Tap records the sizes of the messages a raw subscriber sees.
type c12Tap struct {
	mu   sync.Mutex
	lens []int
}

func (t *c12Tap) add(n int) { t.mu.Lock(); t.lens = append(t.lens, n); t.mu.Unlock() }
func (t *c12Tap) count() int {
	t.mu.Lock()
	defer t.mu.Unlock()
	return len(t.lens)
}

// after waits until the follow-up message (the `follow`-th new message that must arrive) is
// there and returns the sizes of the new messages since c0.
func (t *c12Tap) after(c0, atLeast int, d time.Duration) []int {
	deadline := time.Now().Add(d)
	for {
		t.mu.Lock()
		n := len(t.lens) - c0
		var out []int
		if n > 0 {
			out = append(out, t.lens[c0:]...)
		}
		t.mu.Unlock()
		if n >= atLeast || time.Now().After(deadline) {
			return out
		}
		time.Sleep(300 * time.Microsecond)
	}
}

// ---------- NATS request/reply environment, one per protocol ----------

type c12NatsEnv struct {
	pf      *frugal.FProtocolFactory
	srv     *c12Server
	client  *frugal.FStandardClient
	tr      frugal.FTransport
	tap     *c12Tap
	subject string
	// publisher side
	pubClient *frugal.FStandardClient
	pubTap    *c12Tap
	topic     string
}

var (
	c12NatsMu   sync.Mutex
	c12NatsEnvs = map[string]*c12NatsEnv{}
)

var c12NatsGen int

// c12NatsReset drops the environment of a protocol (its transport is left in a bad state by a
// defect under test); the next case builds a fresh one on a new subject.
func c12NatsReset(proto string) {
	c12NatsMu.Lock()
	delete(c12NatsEnvs, proto)
	c12NatsMu.Unlock()
}

func c12NatsConn(url string) (*nats.Conn, error) {
	return nats.Connect(url, nats.MaxReconnects(-1))
}

func c12Nats(proto string) (*c12NatsEnv, error) {
	c12NatsMu.Lock()
	defer c12NatsMu.Unlock()
	if e, ok := c12NatsEnvs[proto]; ok {
		return e, nil
	}
	url, err := c20Broker()
	if err != nil {
		return nil, err
	}
	e := &c12NatsEnv{pf: frugal.NewFProtocolFactory(c12ProtoFactory(proto)), tap: &c12Tap{}, pubTap: &c12Tap{},
		subject: fmt.Sprintf("c12.svc.%s.%d", proto, c12NatsGen), topic: fmt.Sprintf("c12.topic.%s.%d", proto, c12NatsGen)}
	c12NatsGen++
	sconn, err := c12NatsConn(url)
	if err != nil {
		return nil, err
	}
	cconn, err := c12NatsConn(url)
	if err != nil {
		return nil, err
	}
	rconn, err := c12NatsConn(url)
	if err != nil {
		return nil, err
	}
	e.srv = &c12Server{result: &c12Shape{}, rlimit: c12MiB, pf: e.pf}
	proc := frugal.NewFBaseProcessor()
	e.srv.base = frugal.NewFBaseProcessorFunction(proc.GetWriteMutex(), nil)
	proc.AddToProcessorMap("m", e.srv)
	server := frugal.NewFNatsServerBuilder(sconn, proc, e.pf, []string{e.subject}).WithWorkerCount(1).Build()
	go server.Serve()
	if _, err := rconn.Subscribe(e.subject, func(m *nats.Msg) { e.tap.add(len(m.Data)) }); err != nil {
		return nil, err
	}
	if _, err := rconn.Subscribe("frugal."+e.topic, func(m *nats.Msg) { e.pubTap.add(len(m.Data)) }); err != nil {
		return nil, err
	}
	rconn.Flush()
	tr := frugal.NewFNatsTransport(cconn, e.subject, "")
	if err := tr.Open(); err != nil {
		return nil, err
	}
	e.tr = tr
	e.client = frugal.NewFStandardClient(frugal.NewFServiceProvider(tr, e.pf))
	e.pubClient = frugal.NewFScopeClient(frugal.NewFScopeProvider(frugal.NewFNatsPublisherTransportFactory(cconn), nil, e.pf))
	if err := e.pubClient.Open(); err != nil {
		return nil, err
	}
	// wait until the server's queue subscription is in place
	deadline := time.Now().Add(10 * time.Second)
	for {
		fc := frugal.NewFContext("c12warm")
		fc.SetTimeout(300 * time.Millisecond)
		if err := e.client.Call(fc, "m", &c12Shape{}, &c12Shape{}); err == nil {
			break
		} else if time.Now().After(deadline) {
			return nil, fmt.Errorf("NATS server does not answer: %v", err)
		}
	}
	c12NatsEnvs[proto] = e
	return e, nil
}

func c12Ctx(reqHdr int) frugal.FContext {
	fctx := frugal.NewFContext("c12")
	if reqHdr > 0 {
		fctx.AddRequestHeader("q", strings.Repeat("H", reqHdr))
	}
	fctx.SetTimeout(3 * time.Second)
	return fctx
}

var c12FollowShape = &c12Shape{fields: []c12Field{{"i64", 12}, {"string", 11}}}

// c12SentFrom interprets what the tap saw since c0: the main message (framed size Q), if it
// was published, comes before the follow-up (framed size F).
func c12SentFrom(seen []int, Q, F int) (sent bool, odd string) {
	switch {
	case len(seen) == 0:
		return false, "the follow-up message never reached the broker"
	case len(seen) == 1:
		if seen[0] != F {
			return true, fmt.Sprintf("one message of %d bytes seen, follow-up (%d bytes) missing", seen[0], F)
		}
		return false, ""
	case len(seen) == 2:
		if seen[0] != Q {
			return true, fmt.Sprintf("published message has %d bytes, the framed message %d", seen[0], Q)
		}
		return true, ""
	}
	return true, fmt.Sprintf("%d messages published for one call and one follow-up", len(seen))
}

// c12E2ECall: one Call over NATS, then a normal call through the same client and server.
func c12E2ECall(proto string, args, result *c12Shape, reqHdr, respHdr int) (out c12CallOut, outcome string) {
	e, err := c12Nats(proto)
	if err != nil {
		return out, "crash:broker " + err.Error()
	}
	fctx := c12Ctx(reqHdr)
	if respHdr >= c12MiB/2 {
		fctx.SetTimeout(time.Second) // the oversize-response-headers case ends in a timeout
	}
	out.req = c12RecordRequest(e.pf, fctx, args, thrift.CALL)
	e.srv.mu.Lock()
	e.srv.result, e.srv.respHdr, e.srv.repOps, e.srv.errSegs = result, respHdr, nil, nil
	e.srv.mu.Unlock()
	c0 := e.tap.count()
	outcome = guard(30*time.Second, func() {
		out.err = e.client.Call(fctx, "m", args, &c12Shape{})
	})
	if outcome != "" {
		return out, outcome
	}
	out.res = c12CallClass(out.err)
	e.srv.mu.Lock()
	out.rep, out.errp = e.srv.repOps, e.srv.errSegs
	e.srv.result, e.srv.respHdr = &c12Shape{}, 0
	e.srv.mu.Unlock()
	// the same client and server serve a normal call
	f2 := c12Ctx(0)
	F := 4 + c12Sum(c12RecordRequest(e.pf, f2, c12FollowShape, thrift.CALL))
	var ferr error
	if o := guard(30*time.Second, func() { ferr = e.client.Call(f2, "m", c12FollowShape, &c12Shape{}) }); o != "" {
		out.follow = "follow-up call " + o
	} else if ferr != nil {
		out.follow = fmt.Sprintf("follow-up normal call fails: %v", ferr)
	}
	Q := 4 + c12Sum(out.req)
	want := 1
	if out.res != "err:requestTooLarge" {
		want = 2
	}
	seen := e.tap.after(c0, want, 2*time.Second)
	var odd string
	out.sent, odd = c12SentFrom(seen, Q, F)
	if odd != "" && out.follow == "" {
		out.follow = odd
	}
	return out, ""
}

// ---------- STOMP publisher environment ----------

type c12StompEnv struct {
	pconn *stomp.Conn
	tap   *c12Tap
	topic string
}

var (
	c12StompOnce sync.Once
	c12StompE    *c12StompEnv
	c12StompErr  error
)

func c12Stomp() (*c12StompEnv, error) {
	c12StompOnce.Do(func() {
		addr, err := c07Stomp()
		if err != nil {
			c12StompErr = err
			return
		}
		e := &c12StompEnv{tap: &c12Tap{}, topic: "c12.topic"}
		pc, err := stomp.Dial("tcp", addr, stomp.ConnOpt.HeartBeat(0, 0))
		if err != nil {
			c12StompErr = err
			return
		}
		rc, err := stomp.Dial("tcp", addr, stomp.ConnOpt.HeartBeat(0, 0))
		if err != nil {
			c12StompErr = err
			return
		}
		sub, err := rc.Subscribe("/topic/frugal."+e.topic, stomp.AckAuto)
		if err != nil {
			c12StompErr = err
			return
		}
		go func() {
			for m := range sub.C {
				if m != nil && m.Err == nil {
					e.tap.add(len(m.Body))
				}
			}
		}()
		// the subscription precedes later publishes once a receipt for a later frame came back
		rc.Send("/topic/c12.sync", "text/plain", []byte("x"), stomp.SendOpt.Receipt)
		e.pconn = pc
		c12StompE = e
	})
	return c12StompE, c12StompErr
}

// c12E2ESend: Oneway over NATS, Publish over NATS / STOMP, each followed by a normal message.
func c12E2ESend(p c12SendParams) (out c12SendOut, outcome string) {
	out.sentLen = -1
	fctx := c12Ctx(p.reqHdr)
	f2 := c12Ctx(0)
	var tap *c12Tap
	var pf *frugal.FProtocolFactory
	var main, follow func() error
	mtype := thrift.CALL
	switch p.kind {
	case "nats":
		e, err := c12Nats(p.proto)
		if err != nil {
			return out, "crash:broker " + err.Error()
		}
		tap, pf, mtype = e.tap, e.pf, thrift.ONEWAY
		e.srv.mu.Lock()
		e.srv.result, e.srv.respHdr = &c12Shape{}, 0
		e.srv.mu.Unlock()
		main = func() error { return e.client.Oneway(fctx, "m", p.args) }
		follow = func() error { return e.client.Call(f2, "m", c12FollowShape, &c12Shape{}) }
	case "natspub":
		e, err := c12Nats(p.proto)
		if err != nil {
			return out, "crash:broker " + err.Error()
		}
		tap, pf = e.pubTap, e.pf
		main = func() error { return e.pubClient.Publish(fctx, "m", e.topic, p.args) }
		follow = func() error { return e.pubClient.Publish(f2, "m", e.topic, c12FollowShape) }
	case "stomp":
		e, err := c12Stomp()
		if err != nil {
			return out, "crash:broker " + err.Error()
		}
		tap, pf = e.tap, frugal.NewFProtocolFactory(c12ProtoFactory(p.proto))
		fac := frugal.NewFStompPublisherTransportFactoryBuilder(e.pconn).WithMaxPublishSize(int(p.q)).Build()
		client := frugal.NewFScopeClient(frugal.NewFScopeProvider(fac, nil, pf))
		if err := client.Open(); err != nil {
			return out, "crash:open " + err.Error()
		}
		main = func() error { return client.Publish(fctx, "m", e.topic, p.args) }
		follow = func() error { return client.Publish(f2, "m", e.topic, c12FollowShape) }
		if ff := 4 + c12Sum(c12RecordRequest(pf, f2, c12FollowShape, thrift.CALL)); p.q > 0 && uint(ff) > p.q {
			// the limit admits no normal message: the ordering marker goes through an unlimited
			// publisher on the same connection
			free := frugal.NewFScopeClient(frugal.NewFScopeProvider(frugal.NewFStompPublisherTransportFactoryBuilder(e.pconn).WithMaxPublishSize(0).Build(), nil, pf))
			free.Open()
			follow = func() error { return free.Publish(f2, "m", e.topic, c12FollowShape) }
		}
	default:
		return out, "bad-kind"
	}
	out.req = c12RecordRequest(pf, fctx, p.args, mtype)
	fmt2 := thrift.CALL
	F := 4 + c12Sum(c12RecordRequest(pf, f2, c12FollowShape, fmt2))
	c0 := tap.count()
	if outcome = guard(30*time.Second, func() { out.err = main() }); outcome != "" {
		return out, outcome
	}
	out.res = c12CallClass(out.err)
	var ferr error
	if o := guard(30*time.Second, func() { ferr = follow() }); o != "" {
		out.res = "follow-up " + o
		return out, ""
	} else if ferr != nil {
		out.err = fmt.Errorf("follow-up normal message fails: %v (main: %v)", ferr, out.err)
		out.res = "err:follow-up"
		return out, ""
	}
	Q := 4 + c12Sum(out.req)
	want := 1
	if out.res == "ok" {
		want = 2
	}
	seen := tap.after(c0, want, 2*time.Second)
	var odd string
	out.sent, odd = c12SentFrom(seen, Q, F)
	if out.sent && len(seen) > 0 {
		out.sentLen = seen[0]
	}
	if odd != "" {
		out.err = fmt.Errorf("%s (main: %v)", odd, out.err)
		out.res = "err:wire"
	}
	return out, ""
}

// ---------- generation ----------

var c12E2EBig = []string{"string", "string", "binary", "blist", "bmap", "n2string", "n1binary", "n3string"}

// c12E2EShape: small fields and one big part (first / middle / last) whose size is tuned so
// that `framed(shape)` hits the target as closely as the encoding allows.
func c12E2EShape(r *Rng, target int, framed func(*c12Shape) int) (*c12Shape, string) {
	bk := c12E2EBig[r.Intn(len(c12E2EBig))]
	nsmall := 1 + r.Intn(3)
	pos := r.Pick(0, 1, 2, 2)
	var fs []c12Field
	for i := 0; i < nsmall; i++ {
		fs = append(fs, c12Field{c12SmallKinds[r.Intn(len(c12SmallKinds))], r.Intn(6)})
	}
	at, where := 0, "first"
	switch pos {
	case 1:
		at, where = 1+r.Intn(nsmall), "middle"
		if at >= nsmall {
			at, where = nsmall, "last"
		}
	case 2:
		at, where = nsmall, "last"
	}
	fs = append(fs[:at], append([]c12Field{{bk, 0}}, fs[at:]...)...)
	sh := &c12Shape{fields: fs}
	for k := 0; k < 5; k++ {
		d := target - framed(sh)
		if d == 0 {
			break
		}
		if bk == "binary" && k < 2 { // JSON writes binary as base64
			d = d * 3 / 4
		}
		n := sh.fields[at].n + d
		if n < 0 {
			n = 0
		}
		sh.fields[at].n = n
	}
	return sh, bk + "-" + where
}

func c12Around(r *Rng, limit int) int {
	switch r.Intn(10) {
	case 0:
		return limit
	case 1:
		return limit + 1
	case 2:
		return limit - 1
	case 3:
		return limit + 200 + r.Intn(300000)
	}
	return limit - 8 + r.Intn(17)
}

func runC12E2E(r *Rng, n int) {
	for i := 0; i < n; i++ {
		proto := c12Protos[r.Intn(len(c12Protos))]
		pf := frugal.NewFProtocolFactory(c12ProtoFactory(proto))
		reqFramed := func(hdr int, t thrift.TMessageType) func(*c12Shape) int {
			return func(sh *c12Shape) int { return 4 + c12Sum(c12RecordRequest(pf, c12Ctx(hdr), sh, t)) }
		}
		switch k := i % 8; {
		case k == 7: // sequences on one NATS transport after an oversize failure
			c12SeqCase(r, i, []string{"nats-t", "nats-t", "nats-c"})
		case k < 4: // Call over NATS
			p := c12CallParams{kind: "nats", proto: proto, qlimit: c12MiB, rlimit: c12MiB}
			if r.Chance(12) {
				p.reqHdr = r.Pick(30, 300)
			}
			if r.Chance(12) {
				p.respHdr = r.Pick(30, 300)
			}
			mode := r.Pick(0, 1, 1, 1, 2, 3)
			tq, tr := 60+r.Intn(2000), 60+r.Intn(2000)
			switch mode {
			case 0:
				tq = c12Around(r, c12MiB)
			case 1:
				tr = c12Around(r, c12MiB)
			case 2:
				tq, tr = c12Around(r, c12MiB), c12Around(r, c12MiB)
			}
			hdrCase := i%96 == 9 && proto != "json"
			if hdrCase { // response HEADERS alone over the limit: outside the assumption, model tie only
				mode, tq, tr, p.respHdr = 3, 60+r.Intn(200), 60+r.Intn(200), c12MiB+r.Intn(100)
				Stat("e2e:call:oversize-response-headers")
			}
			p.args, p.whereQ = c12E2EShape(r, tq, reqFramed(p.reqHdr, thrift.CALL))
			// reply overhead: measured on a probe through the in-process transport
			repFramed := func(sh *c12Shape) int {
				pr, _ := c12RealCall("loop", proto, &c12Shape{}, sh, 0, p.respHdr, 0, 0)
				return 4 + c12Sum(pr.rep)
			}
			if hdrCase {
				p.result, p.whereR = &c12Shape{fields: []c12Field{{"string", r.Intn(9)}}}, "string-only"
			} else {
				p.result, p.whereR = c12E2EShape(r, tr, repFramed)
			}
			R := repFramed(p.result)
			// known finding json-sticky-writer: JSON replies stay within the server-side limit. R is measured
			// on a probe whose op id may have one digit less than the real call's: keep 8 bytes of margin.
			if c12KnownClass(p, R+8) {
				for t := c12MiB - 8 - r.Intn(9); c12KnownClass(p, R+8); t -= 64 {
					p.result, p.whereR = c12E2EShape(r, t, repFramed)
					R = repFramed(p.result)
				}
				Stat("e2e:excluded-known-class(json-sticky-writer)")
			}
			var line, real, bad string
			var assumed bool
			retryTiming(func() (string, bool, string) {
				line, real, bad, assumed = c12JudgeCall(p)
				return real, bad == "", bad
			})
			Case(line, real)
			Stat("e2e:call:proto:" + proto)
			Stat("e2e:call:req:" + p.whereQ + ":" + c12LimitClass(c12MiB, tq))
			Stat("e2e:call:rep:" + p.whereR + ":" + c12LimitClass(c12MiB, R))
			Stat("e2e:call:outcome:" + strings.ReplaceAll(real, " ", ","))
			if assumed {
				Stat("e2e:call:outside-assumption(error reply does not fit the limit)")
			}
			if i < 24 {
				Sample(map[string]interface{}{"op": "c12call", "kind": "nats", "protocol": proto, "args": p.args.String(), "result": p.result.String(), "real": real})
			}
			if bad != "" {
				OracleFail("size limit not enforced/reported exactly end to end over NATS", map[string]interface{}{"op": "c12call", "line": line, "got": real, "why": bad,
					"protocol": proto, "args": p.args.String(), "result": p.result.String()})
			}
		default: // Oneway over NATS, Publish over NATS, Publish over STOMP
			p := c12SendParams{kind: [...]string{"nats", "natspub", "stomp"}[k-4], proto: proto}
			if r.Chance(12) {
				p.reqHdr = r.Pick(30, 300)
			}
			limit := c12MiB
			mt := thrift.CALL
			if p.kind == "nats" {
				mt = thrift.ONEWAY
			}
			if p.kind == "stomp" {
				limit = r.Pick(0, 64, 200, 1000, 5000, 70000, 70000, 300000)
				p.q = uint(limit)
			}
			target := 60 + r.Intn(2000)
			if limit > 0 && r.Chance(75) {
				target = c12Around(r, limit)
			} else if limit == 0 {
				target = r.Pick(100, 5000, 200000)
			}
			p.args, p.where = c12E2EShape(r, target, reqFramed(p.reqHdr, mt))
			var line, real, bad string
			retryTiming(func() (string, bool, string) {
				line, real, bad = c12JudgeSend(p)
				return real, bad == "", bad
			})
			Case(line, real)
			Stat("e2e:send:" + p.kind + ":" + proto)
			Stat("e2e:send:" + p.kind + ":" + p.where + ":" + c12LimitClass(uint(limit), target))
			Stat("e2e:send:" + p.kind + ":outcome:" + strings.ReplaceAll(real, " ", ","))
			if i < 24 {
				Sample(map[string]interface{}{"op": "c12send", "kind": p.kind, "protocol": proto, "args": p.args.String(), "limit": limit, "real": real})
			}
			if bad != "" {
				OracleFail("size limit not enforced/reported exactly end to end ("+p.kind+")", map[string]interface{}{"op": "c12send", "line": line, "got": real, "why": bad,
					"kind": p.kind, "protocol": proto, "args": p.args.String(), "limit": limit})
			}
		}
		Stat("evaluations")
	}
}

func init() { suites["c12e2e"] = runC12E2E }

// c12canon <kind> <q> <r> <proto> <args> <result> <reqHdr> <respHdr>: tooling — prints the full
// `c12call` line (with the recorded programs) for hand-written corpus entries. Not a model op.
func init() {
	lineOps["c12canon"] = func(a []string) (string, bool) {
		if len(a) != 8 {
			return "bad-op", true
		}
		line, _ := c12ReplayCall(append([]string{"-", "-", "-"}, a...))
		_ = line
		p := c12CallParams{kind: a[0], qlimit: c12ParseLimit(a[1]), rlimit: c12ParseLimit(a[2]), proto: a[3], args: c12ParseShape(a[4]), result: c12ParseShape(a[5])}
		fmt.Sscan(a[6], &p.reqHdr)
		fmt.Sscan(a[7], &p.respHdr)
		l, _, _, _ := c12JudgeCall(p)
		return l, true
	}
}
