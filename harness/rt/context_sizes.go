package main

// C09: the size dimension and the "one Read is not the whole block" dimension.
//
//   c9Source     what the header readers read from: a thrift.TMemoryBuffer (k = 0) or a reader that
//                hands out at most k bytes per Read, with chunk lengths 1..k in a fixed pattern
//                (what a socket, a 4096-byte bufio window or a 768-byte base64 decoder step do)
//   c9PickSize   marshalled-block targets around every buffering boundary of the transports the
//                suites drive: 0, 1 header; ~700-900 (HTTP base64 decoder step 768); ~4000-4200
//                (bufio 4096 of TFramedTransport / StreamTransport); 8 KiB; 64 KiB; ~1 MiB (NATS limit)
//   c9SizedHeaders a header map whose v0 block (sum of 8+|k|+|v|) is the target: a few huge values or
//                many small pairs

import (
	"context"
	"fmt"
	"io"

	"github.com/apache/thrift/lib/go/thrift"
)

type c9Source interface {
	thrift.TTransport
	Rest() []byte
}

type c9MemSource struct{ *thrift.TMemoryBuffer }

func (m c9MemSource) Rest() []byte { return append([]byte{}, m.Bytes()...) }

type c9Dribble struct {
	b    []byte
	k, i int
}

func (d *c9Dribble) Read(p []byte) (int, error) {
	if len(p) == 0 {
		return 0, nil
	}
	if len(d.b) == 0 {
		return 0, io.EOF
	}
	n := 1 + (d.i*7+3)%d.k
	d.i++
	if n > len(p) {
		n = len(p)
	}
	if n > len(d.b) {
		n = len(d.b)
	}
	copy(p, d.b[:n])
	d.b = d.b[n:]
	return n, nil
}
func (d *c9Dribble) Write(p []byte) (int, error)     { return len(p), nil }
func (d *c9Dribble) Open() error                     { return nil }
func (d *c9Dribble) Close() error                    { return nil }
func (d *c9Dribble) IsOpen() bool                    { return true }
func (d *c9Dribble) Flush(ctx context.Context) error { return nil }
func (d *c9Dribble) RemainingBytes() uint64          { return ^uint64(0) }
func (d *c9Dribble) Rest() []byte                    { return append([]byte{}, d.b...) }

func c9NewSource(wire []byte, k int) c9Source {
	if k <= 0 {
		buf := thrift.NewTMemoryBuffer()
		buf.Write(wire)
		return c9MemSource{buf}
	}
	return &c9Dribble{b: append([]byte{}, wire...), k: k}
}

// c9Chunk: 0 = memory buffer; else the largest chunk a Read returns.
func c9Chunk(r *Rng) int {
	return r.Pick(0, 0, 0, 1, 2, 3, 7, 64, 768, 4096)
}

func c9SizeClass(t int) string {
	switch {
	case t == 0:
		return "0"
	case t <= 64:
		return "1"
	case t < 2000:
		return "~768"
	case t < 6000:
		return "~4096"
	case t < 20000:
		return "~8K"
	case t < 200000:
		return "~64K"
	default:
		return "~1M"
	}
}

// c9PickSize picks a block-size target (bytes of the v0 header block contributed by the map) not above
// max, and a shape.
func c9PickSize(r *Rng, max int) (int, string) {
	var t int
	switch r.Intn(8) {
	case 0:
		t = 0
	case 1:
		t = 10
	case 2:
		t = 600 + r.Intn(400) // 768 minus the ~70-100 bytes of _cid/_opid/_timeout falls in here
	case 3:
		t = 3900 + r.Intn(400)
	case 4:
		t = 8192 - 160 + r.Intn(320)
	case 5:
		t = 65536 - 160 + r.Intn(320)
	case 6:
		t = 1<<20 - 4096 - r.Intn(8192) // a frame just under the 1 MiB NATS limit
	default:
		t = 1<<20 + r.Intn(1<<16)
	}
	for t > max {
		t = []int{10, 600 + r.Intn(400), 3900 + r.Intn(400), 8192 - 160 + r.Intn(320), 65536 - 160 + r.Intn(320)}[r.Intn(5)]
	}
	shape := "few"
	if r.Bool() {
		shape = "many"
	}
	return t, shape
}

func c9Fill(r *Rng, n int) string {
	b := make([]byte, n)
	switch r.Intn(3) {
	case 0: // printable
		for i := range b {
			b[i] = byte(33 + r.Intn(94))
		}
	case 1: // arbitrary bytes, zeros included (a zero-padded block must not look right)
		x := r.U64()
		for i := range b {
			x = x*6364136223846793005 + 1442695040888963407
			b[i] = byte(x >> 56)
		}
	default:
		for i := range b {
			b[i] = "abcdefghijklmnopqrstuvwxyz0123456789-_"[r.Intn(38)]
		}
	}
	return string(b)
}

// c9SizedHeaders returns a map of non-reserved names (prefix + serial) whose block size is target
// (exactly, when target >= 9).
func c9SizedHeaders(r *Rng, target int, shape, prefix string) map[string]string {
	m := map[string]string{}
	if target < 9 {
		return m
	}
	left := target
	for i := 0; left >= 9; i++ {
		name := fmt.Sprintf("%s%d", prefix, i)
		room := left - 8 - len(name)
		if room < 0 {
			name = name[:len(name)+room]
			room = 0
			if name == "" || m[name] != "" {
				break
			}
		}
		vlen := room
		if shape == "many" {
			if v := r.Intn(24); v < room && room-v >= 9+len(name)+1 {
				vlen = v
			}
		} else if i < 2 && room > 64 { // two or three values share the block
			if v := room/2 + r.Intn(room/4+1); room-v >= 9+len(name)+1 {
				vlen = v
			}
		}
		m[name] = c9Fill(r, vlen)
		left -= 8 + len(name) + vlen
	}
	return m
}

func c9BlockSize(m map[string]string) int {
	n := 0
	for k, v := range m {
		n += 8 + len(k) + len(v)
	}
	return n
}
