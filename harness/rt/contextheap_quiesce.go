package main

// C17 — quiescent consistency of the accessors of ONE shared FContext (kind 3 of `c17conc`,
// run in a child process like the other free-running cases, see contextheap_conc.go).
//
// Many short races: per round 2..8 goroutines start together on one context; writers alternate
// between values through EVERY mutator that can change a fact (SetTimeout and
// AddRequestHeader("_timeout") for the timeout, AddRequestHeader for `_cid` / `_opid` / a user
// header, AddResponseHeader, AddEphemeralProperty), readers spin on every getter, cloners and
// serialisers run in between. When all have finished (quiescence) every derived view must agree
// with the header maps the copying accessors return — the equalities of theorem
// c17_accessors_agree_with_headers / c17_clone_agrees_with_source:
//   Timeout() = decode(RequestHeaders()["_timeout"]), ToContext has a deadline iff that is > 0,
//   CorrelationID() = "_cid", getOpID = parse "_opid", X-Header(k) = X-Headers()[k],
//   WriteRequestHeader / WriteResponseHeader serialise exactly these maps, and a Clone taken now
//   (method, package-level, foreign generic) agrees with its source on all of them.
// A disagreement after quiescence is the failing input (seed and round are reported).

import (
	"fmt"
	"runtime"
	"strconv"
	"sync"
	"sync/atomic"
	"time"

	frugal "github.com/Workiva/frugal/lib/go"
	"github.com/apache/thrift/lib/go/thrift"
)

// c17DecodeTimeout: the documented meaning of the `_timeout` header (milliseconds, decimal;
// anything else: the default of 5 s), written independently of context.go.
func c17DecodeTimeout(v string) time.Duration {
	ms, err := strconv.ParseInt(v, 10, 64)
	if err != nil {
		return 5 * time.Second
	}
	return time.Millisecond * time.Duration(ms)
}

// c17QuiescentCheck compares every derived accessor of ctx with the maps of the copying accessors.
// Nothing else touches ctx while it runs.
func c17QuiescentCheck(ctx frugal.FContext, where string) []string {
	var out []string
	bad := func(f string, a ...interface{}) { out = append(out, "quiescent: "+where+": "+fmt.Sprintf(f, a...)) }
	req, resp := ctx.RequestHeaders(), ctx.ResponseHeaders()
	want := c17DecodeTimeout(req["_timeout"])
	for rep := 0; rep < 2; rep++ {
		if got := ctx.Timeout(); got != want {
			bad("Timeout() = %v but RequestHeaders()[\"_timeout\"] = %q means %v", got, req["_timeout"], want)
			break
		}
	}
	cctx, cancel := frugal.ToContext(ctx)
	if _, has := cctx.Deadline(); has != (want > 0) {
		bad("ToContext has a deadline: %v, but the _timeout header %q means %v", has, req["_timeout"], want)
	}
	cancel()
	if got := ctx.CorrelationID(); got != req["_cid"] {
		bad("CorrelationID() = %q but RequestHeaders()[\"_cid\"] = %q", got, req["_cid"])
	}
	id, err := frugal.VerifGetOpID(ctx)
	hv, herr := strconv.ParseUint(req["_opid"], 10, 64)
	if _, present := req["_opid"]; !present {
		herr = fmt.Errorf("absent")
	}
	if (err != nil) != (herr != nil) || (err == nil && id != hv) {
		bad("getOpID = %d,%v but RequestHeaders()[\"_opid\"] = %q", id, err, req["_opid"])
	}
	for k, v := range req {
		if got, ok := ctx.RequestHeader(k); !ok || got != v {
			bad("RequestHeader(%q) = %q,%v but RequestHeaders() has %q", k, got, ok, v)
		}
	}
	for k, v := range resp {
		if got, ok := ctx.ResponseHeader(k); !ok || got != v {
			bad("ResponseHeader(%q) = %q,%v but ResponseHeaders() has %q", k, got, ok, v)
		}
	}
	if _, ok := ctx.RequestHeader("never-written"); ok {
		bad("RequestHeader finds a header that RequestHeaders() does not have")
	}
	if e, ok := ctx.(frugal.FContextWithEphemeralProperties); ok {
		for k, v := range e.EphemeralProperties() {
			if got, ok := e.EphemeralProperty(k); !ok || got != v {
				bad("EphemeralProperty(%v) = %v,%v but EphemeralProperties() has %v", k, got, ok, v)
			}
		}
	}
	for i, m := range []map[string]string{req, resp} {
		tr := thrift.NewTMemoryBuffer()
		pr := binFactory.GetProtocol(tr)
		name := "WriteRequestHeader"
		var werr error
		if i == 0 {
			werr = pr.WriteRequestHeader(ctx)
		} else {
			name, werr = "WriteResponseHeader", pr.WriteResponseHeader(ctx)
		}
		l, rest, ok := specDecode(tr.Bytes())
		got, nodup := listToMap(l)
		if werr != nil || !ok || len(rest) != 0 || !nodup || !mapsEqual(got, m) {
			bad("%s does not serialise the map the accessor returns (err %v)", name, werr)
		}
	}
	clones := []struct {
		how string
		c   frugal.FContext
	}{{"package-level Clone", frugal.Clone(ctx)}, {"Clone of a foreign wrapper", frugal.Clone(c17Foreign{ctx})}}
	if e, ok := ctx.(frugal.FContextWithEphemeralProperties); ok {
		clones = append(clones, struct {
			how string
			c   frugal.FContext
		}{"Clone()", e.Clone()})
	}
	for _, cl := range clones {
		if got := cl.c.Timeout(); got != want {
			bad("%s: the clone's Timeout() = %v, the source's _timeout header %q means %v", cl.how, got, req["_timeout"], want)
		}
		if got := cl.c.CorrelationID(); got != req["_cid"] {
			bad("%s: the clone's CorrelationID() = %q, the source's _cid header is %q", cl.how, got, req["_cid"])
		}
		if !mapsEqual(c17Without(cl.c.RequestHeaders(), "_opid"), c17Without(req, "_opid")) {
			bad("%s: the clone's request headers differ from the source's beyond _opid", cl.how)
		}
		if !mapsEqual(cl.c.ResponseHeaders(), resp) {
			bad("%s: the clone's response headers differ from the source's", cl.how)
		}
	}
	if len(out) > 3 {
		out = out[:3]
	}
	return out
}

var c17QTimeoutVals = []string{"5000", "30000", "abc", "1", "0", "-7", ""}
var c17QDurations = []time.Duration{5 * time.Second, 30 * time.Second, time.Millisecond, 0, 2 * time.Hour, -time.Second}

// c17QSource: the context of a run of rounds comes into being in every way.
func c17QSource(i int) frugal.FContext {
	switch i % 4 {
	case 0:
		return frugal.NewFContext("q-cid")
	case 1:
		return frugal.Clone(frugal.NewFContext("q-cid"))
	case 2:
		return frugal.Clone(c17Foreign{frugal.NewFContext("q-cid")})
	default:
		tr := thrift.NewTMemoryBuffer()
		tr.Write(frugal.VerifMarshalHeaders(map[string]string{"_opid": "7", "_cid": "q-cid", "_timeout": "5000"}))
		c, err := binFactory.GetProtocol(tr).ReadRequestHeader()
		if err != nil {
			return frugal.NewFContext("q-cid")
		}
		return c
	}
}

func c17ConcQuiescent(p *c17Problems, r *Rng, seed uint64, iters int) {
	if runtime.GOMAXPROCS(0) < 8 {
		runtime.GOMAXPROCS(8)
	}
	rounds := iters
	if rounds < 200 {
		rounds = 200
	}
	var ctx frugal.FContext
	for round := 0; round < rounds; round++ {
		if round%32 == 0 {
			ctx = c17QSource(round / 32)
		}
		g := 2 + r.Intn(7)
		fact := r.Intn(6) // what the writers of this round change
		writers := 1 + r.Intn(2)
		if writers >= g {
			writers = g - 1
		}
		seeds := make([]uint64, g)
		for i := range seeds {
			seeds[i] = r.U64()
		}
		start := make(chan struct{})
		var stop int32
		var ww, rw sync.WaitGroup
		for i := 0; i < g; i++ {
			rr := &Rng{s: seeds[i]}
			if i < writers {
				ww.Add(1)
				go func(i int) {
					defer ww.Done()
					defer c17Recover(p, "writer")
					<-start
					n := 1 + rr.Intn(5)
					for j := 0; j < n; j++ {
						c17QWrite(ctx, fact, rr)
					}
				}(i)
			} else {
				rw.Add(1)
				go func(i int) {
					defer rw.Done()
					defer c17Recover(p, "reader")
					<-start
					for j := 0; j < 4 || atomic.LoadInt32(&stop) == 0; j++ {
						c17QRead(ctx, fact, (i+j)%8)
						if j > 100000 {
							break
						}
					}
				}(i)
			}
		}
		close(start)
		done := make(chan struct{})
		go func() { ww.Wait(); atomic.StoreInt32(&stop, 1); rw.Wait(); close(done) }()
		select {
		case <-done:
		case <-time.After(20 * time.Second):
			p.add("blocked: round %d of the quiescence races did not finish (an operation on the context never returned)", round)
			return
		}
		// quiescence: nobody touches ctx any more
		if probs := c17QuiescentCheck(ctx, fmt.Sprintf("seed %d round %d (%d goroutines, writers changing %s)", seed, round, g, c17QFacts[fact])); len(probs) > 0 {
			for _, pr := range probs {
				p.add("%s", pr)
			}
			return
		}
	}
}

var c17QFacts = []string{"the timeout", "the timeout", "_cid", "_opid", "response headers", "ephemeral properties"}

// c17QWrite: one write of the round's fact, through any of the mutators that can change it.
func c17QWrite(ctx frugal.FContext, fact int, r *Rng) {
	switch fact {
	case 0, 1:
		if r.Bool() {
			ctx.SetTimeout(c17QDurations[r.Intn(len(c17QDurations))])
		} else {
			ctx.AddRequestHeader("_timeout", c17QTimeoutVals[r.Intn(len(c17QTimeoutVals))])
		}
	case 2:
		ctx.AddRequestHeader("_cid", []string{"q-cid", "other-cid", ""}[r.Intn(3)])
	case 3:
		ctx.AddRequestHeader("_opid", []string{"11", "22", "x", "18446744073709551615"}[r.Intn(4)])
	case 4:
		ctx.AddResponseHeader([]string{"_cid", "_opid", "k"}[r.Intn(3)], []string{"a", "b"}[r.Intn(2)])
	default:
		if e, ok := ctx.(frugal.FContextWithEphemeralProperties); ok {
			e.AddEphemeralProperty([]string{"k", "j"}[r.Intn(2)], []string{"a", "b"}[r.Intn(2)])
		}
	}
}

// c17QRead: readers spin mostly on the getter of the fact being written, and on all the others.
func c17QRead(ctx frugal.FContext, fact, turn int) {
	if turn < 5 {
		switch fact {
		case 0, 1:
			ctx.Timeout()
		case 2:
			ctx.CorrelationID()
		case 3:
			frugal.VerifGetOpID(ctx)
		case 4:
			ctx.ResponseHeader("k")
		default:
			if e, ok := ctx.(frugal.FContextWithEphemeralProperties); ok {
				e.EphemeralProperty("k")
			}
		}
		return
	}
	switch turn {
	case 5:
		ctx.Timeout()
		ctx.CorrelationID()
		ctx.RequestHeader("_timeout")
	case 6:
		cctx, cancel := frugal.ToContext(ctx)
		_ = cctx
		cancel()
		frugal.VerifGetOpID(ctx)
	default:
		cl := frugal.Clone(ctx)
		cl.Timeout()
		tr := thrift.NewTMemoryBuffer()
		binFactory.GetProtocol(tr).WriteRequestHeader(ctx)
	}
}
