package main

// C06 / C01 — the registry FREE-RUNNING (no forced schedule): K callers Register / wait / Unregister `iters`
// times each while the single reader executes, as fast as it can, frames nobody waits for (late, unsolicited,
// duplicate responses) and the response of every registered call. This is the search for a concrete stall when
// an obligation about the registry's locking (cNN_lock_discipline) or a forced schedule no longer checks: a
// reader that can block — behind a queued writer, on a full channel — shows up as calls that never complete.
//
// Op:  rfree <callers> <iters>   ->  ok answered=<callers*iters> | stalled answered=<n>
// (the model's answer is the constant: by c06_reader_never_blocks / c06_fresh_response_delivered no
// interleaving stalls; the property oracle is the same statement on the real run)

import (
	"fmt"
	"strconv"
	"sync"
	"sync/atomic"
	"time"

	frugal "github.com/Workiva/frugal/lib/go"
)

func runRegFree(k, iters int) (string, bool) {
	reg := frugal.VerifNewRegistry()
	respond := make(chan uint64, 4*k)
	stop := make(chan struct{})
	var answered int64
	var readerWG, callerWG sync.WaitGroup
	readerWG.Add(1)
	go func() { // the single reader
		defer readerWG.Done()
		late := respFrame(1<<60, 7)
		for {
			select {
			case <-stop:
				return
			case id := <-respond:
				fr := respFrame(id, 1)
				reg.Execute(fr)
				reg.Execute(fr) // and a duplicate
			default:
				reg.Execute(late)
			}
		}
	}()
	for c := 0; c < k; c++ {
		callerWG.Add(1)
		go func() {
			defer callerWG.Done()
			for i := 0; i < iters; i++ {
				ctx := frugal.NewFContext("")
				id, _ := frugal.VerifGetOpID(ctx)
				ch := make(chan []byte, 1)
				if reg.Register(ctx, ch) != nil {
					return
				}
				select {
				case respond <- id:
				case <-stop:
					reg.Unregister(ctx)
					return
				}
				select {
				case <-ch:
					atomic.AddInt64(&answered, 1)
				case <-stop:
					reg.Unregister(ctx)
					return
				}
				reg.Unregister(ctx)
			}
		}()
	}
	done := make(chan struct{})
	go func() { callerWG.Wait(); close(done) }()
	out, fine := "", true
	select {
	case <-done:
		out = fmt.Sprintf("ok answered=%d", atomic.LoadInt64(&answered))
	case <-time.After(20 * time.Second):
		out, fine = fmt.Sprintf("stalled answered=%d", atomic.LoadInt64(&answered)), false
	}
	close(stop)
	if fine {
		readerWG.Wait()
	}
	return out, fine
}

func init() {
	suites["c06free"] = func(r *Rng, n int) {
		// n is a budget of calls, spent on a few runs with different shapes
		for n > 0 {
			k := 1 + r.Intn(8)
			iters := 200 + r.Intn(1800)
			if k*iters > n {
				iters = n/k + 1
			}
			line := fmt.Sprintf("rfree %d %d", k, iters)
			out, fine := runRegFree(k, iters)
			Case(line, out)
			Stat(fmt.Sprintf("callers=%d", k))
			StatN("calls", k*iters)
			if !fine {
				OracleFail("the inbound path stalled: with late/duplicate frames arriving and other callers registering and unregistering, registered calls were no longer answered", map[string]interface{}{"op": "rfree", "line": line, "got": out})
				return
			}
			Stat("evaluations")
			n -= k * iters
		}
	}
	lineOps["rfree"] = func(a []string) (string, bool) {
		if len(a) != 2 {
			return "bad-op", true
		}
		k, _ := strconv.Atoi(a[0])
		it, _ := strconv.Atoi(a[1])
		return runRegFree(k, it)
	}
}
