package main

import (
	"io"

	frugal "github.com/Workiva/frugal/lib/go"
	"github.com/sirupsen/logrus"
)

func quietLogs() {
	l := logrus.New()
	l.Out = io.Discard
	frugal.SetLogger(l)
}
