package main

// C05 (g) — the HTTP client response path again, this time with the SIZE FIELDS OF THE HTTP LAYER chosen by the
// peer and inconsistent with what it sends: the response is written byte by byte on a raw TCP socket (Go's
// HTTP server would compute a truthful Content-Length), with
//   * Content-Length far above / below / equal to the body actually sent, at every power of two (±1) up to
//     max int64, and 0;
//   * chunked bodies whose chunk-size lines lie (too big, too small, huge), or that are not terminated;
//   * any of these with status 200/201/204/299/300/404/413/500/503;
//   * the connection closed behind what was sent (the body ends early), or held open (the caller's timeout ends it).
//
// Real code under test: FStandardClient.Call / Oneway → fHTTPTransport.Request → makeRequest (net/http client,
// `buf.ReadFrom(response.Body)`, status tests, base64) → processReply, one transport for the whole run.
//
// Property oracle (independent of the model): the call returns an error or a reply — never a panic (recover),
// never later than the timeout + watchdog; the memory it allocates is bounded by what was actually RECEIVED
// (runtime.MemStats.TotalAlloc around the call: at most 64 MiB + 8 × the bytes sent), never by an announced size;
// nil only for a reply read from a complete 2xx body; a well-formed response on the same transport right
// afterwards is accepted. A case that announces more than 1 MiB runs in a CHILD process under an address-space
// limit, so that a multi-GiB allocation (or the runtime's unrecoverable out-of-memory) is reported as this
// case's failure instead of killing the suite.
//
// Op:  htr <c|o> <method> <status> <framing> <close|hold> <sent> <decoded|!|x>
//        framing  L<n> = `Content-Length: n`;  K<a>:<k>,<a>:<k>,…[T] = chunked, each chunk announcing a bytes and
//                 carrying the next k bytes of <sent>; T = the terminating 0-chunk is sent
//        decoded  what base64 makes of the bytes DELIVERED (x = none were: the body read fails)
//      output as op htc.

import (
	"bufio"
	"bytes"
	"fmt"
	"io"
	"net"
	"net/http"
	"os"
	"os/exec"
	"runtime"
	"strconv"
	"strings"
	"sync"
	"syscall"
	"time"

	frugal "github.com/Workiva/frugal/lib/go"
	"github.com/apache/thrift/lib/go/thrift"
)

type rawChunk struct {
	announced uint64
	carried   int
}

type rawSpec struct {
	status     int
	chunked    bool
	announced  uint64 // Content-Length
	chunks     []rawChunk
	terminated bool
	hold       bool
	sent       []byte
}

func (sp rawSpec) framing() string {
	if !sp.chunked {
		return "L" + strconv.FormatUint(sp.announced, 10)
	}
	parts := make([]string, len(sp.chunks))
	for i, c := range sp.chunks {
		parts[i] = fmt.Sprintf("%d:%d", c.announced, c.carried)
	}
	s := "K" + strings.Join(parts, ",")
	if sp.terminated {
		s += "T"
	}
	return s
}

func parseFraming(s string, sp *rawSpec) bool {
	if len(s) < 1 {
		return false
	}
	switch s[0] {
	case 'L':
		v, err := strconv.ParseUint(s[1:], 10, 63)
		sp.announced = v
		return err == nil
	case 'K':
		sp.chunked = true
		body := s[1:]
		if strings.HasSuffix(body, "T") {
			sp.terminated = true
			body = body[:len(body)-1]
		}
		if body == "" {
			return true
		}
		for _, p := range strings.Split(body, ",") {
			ak := strings.Split(p, ":")
			if len(ak) != 2 {
				return false
			}
			a, e1 := strconv.ParseUint(ak[0], 10, 63)
			k, e2 := strconv.Atoi(ak[1])
			if e1 != nil || e2 != nil || k < 0 {
				return false
			}
			sp.chunks = append(sp.chunks, rawChunk{a, k})
		}
		return true
	}
	return false
}

// wire renders the response exactly as the peer puts it on the socket.
func (sp rawSpec) wire() []byte {
	var b bytes.Buffer
	fmt.Fprintf(&b, "HTTP/1.1 %d %s\r\nContent-Type: application/x-frugal\r\nConnection: close\r\n", sp.status, http.StatusText(sp.status))
	if !sp.chunked {
		fmt.Fprintf(&b, "Content-Length: %d\r\n\r\n", sp.announced)
		b.Write(sp.sent)
		return b.Bytes()
	}
	b.WriteString("Transfer-Encoding: chunked\r\n\r\n")
	rest := sp.sent
	for _, c := range sp.chunks {
		k := c.carried
		if k > len(rest) {
			k = len(rest)
		}
		fmt.Fprintf(&b, "%x\r\n", c.announced)
		b.Write(rest[:k])
		rest = rest[k:]
		if c.announced != uint64(k) {
			return b.Bytes() // the lie is the last thing the peer sends
		}
		b.WriteString("\r\n")
	}
	if sp.terminated {
		b.WriteString("0\r\n\r\n")
	}
	return b.Bytes()
}

// deliveredRef: the bytes a reader of this response obtains before the body ends, and whether it ends well
// (RFC 7230 framing; what Go's net/http does with it is what the suite observes).
func (sp rawSpec) deliveredRef() ([]byte, bool) {
	if sp.status == 204 || sp.status == 304 {
		return nil, true
	}
	if !sp.chunked {
		if sp.announced <= uint64(len(sp.sent)) {
			return sp.sent[:sp.announced], true
		}
		return nil, false
	}
	total := 0
	for _, c := range sp.chunks {
		if c.announced == 0 || c.announced != uint64(c.carried) {
			return nil, false
		}
		total += c.carried
	}
	if !sp.terminated || total != len(sp.sent) {
		return nil, false
	}
	return sp.sent, true
}

// ---------- the raw peer ----------

type rawServer struct {
	mu   sync.Mutex
	spec rawSpec
	addr string
}

var (
	rawMu  sync.Mutex
	rawSrv *rawServer
	rawCli *htcClient
)

func rawSetup() (*rawServer, *htcClient, error) {
	if rawSrv == nil {
		ln, err := net.Listen("tcp", "127.0.0.1:0")
		if err != nil {
			return nil, nil, err
		}
		s := &rawServer{addr: ln.Addr().String()}
		go func() {
			for {
				c, err := ln.Accept()
				if err != nil {
					return
				}
				go s.serve(c)
			}
		}()
		rawSrv = s
	}
	if rawCli == nil {
		c := &htcClient{st: &spyState{}}
		c.tr = frugal.NewFHTTPTransportBuilder(&http.Client{}, "http://"+rawSrv.addr+"/frugal").Build()
		c.tr.Open()
		pf := frugal.NewFProtocolFactory(&spyFactory{inner: thrift.NewTBinaryProtocolFactoryConf(nil), st: c.st})
		c.client = frugal.NewFStandardClient(frugal.NewFServiceProvider(c.tr, pf))
		rawCli = c
	}
	return rawSrv, rawCli, nil
}

func (s *rawServer) serve(c net.Conn) {
	defer c.Close()
	c.SetDeadline(time.Now().Add(10 * time.Second))
	req, err := http.ReadRequest(bufio.NewReader(c))
	if err != nil {
		return
	}
	io.Copy(io.Discard, req.Body)
	s.mu.Lock()
	sp := s.spec
	s.mu.Unlock()
	c.Write(sp.wire())
	if sp.hold { // say nothing more and keep the connection: the caller's timeout has to end it
		c.SetReadDeadline(time.Now().Add(3 * time.Second))
		io.Copy(io.Discard, c)
	}
}

// ---------- one case ----------

const rawChildAbove = 1 << 20 // an announced size above this runs in a child process

func (sp rawSpec) maxAnnounced() uint64 {
	m := uint64(0)
	if !sp.chunked {
		m = sp.announced
	}
	for _, c := range sp.chunks {
		if c.announced > m {
			m = c.announced
		}
	}
	return m
}

func rawLine(oneway bool, method string, sp rawSpec) string {
	mode, end := "c", "close"
	if oneway {
		mode = "o"
	}
	if sp.hold {
		end = "hold"
	}
	dec := "x"
	if d, ok := sp.deliveredRef(); ok {
		dec, _, _ = decodedArg(d)
	}
	return fmt.Sprintf("htr %s %s %d %s %s %s %s", mode, hx([]byte(method)), sp.status, sp.framing(), end, hx(sp.sent), dec)
}

func realHTR(oneway bool, method string, sp rawSpec) htcRun {
	if sp.maxAnnounced() > rawChildAbove && os.Getenv("VERIF_C05_RAWCHILD") == "" {
		return rawChildRun(rawLine(oneway, method, sp))
	}
	rawMu.Lock()
	defer rawMu.Unlock()
	if os.Getenv("VERIF_C05_RAWCHILD") != "" {
		// address space of the child: enough for the harness, not for what a peer may announce
		lim := syscall.Rlimit{Cur: 6 << 30, Max: 6 << 30}
		syscall.Setrlimit(syscall.RLIMIT_AS, &lim)
	}
	srv, c, err := rawSetup()
	if err != nil {
		return htcRun{out: "err:setup", viol: []string{"harness: " + err.Error()}}
	}
	srv.mu.Lock()
	srv.spec = sp
	srv.mu.Unlock()
	d, whole := sp.deliveredRef()
	_, dec, isB64 := decodedArg(d)
	acceptable := sp.status >= 200 && sp.status < 300 && whole && isB64 && len(dec) > 4
	timeout := 5 * time.Second
	if sp.hold {
		timeout = 300 * time.Millisecond
	}
	var before, after runtime.MemStats
	runtime.ReadMemStats(&before)
	t0 := time.Now()
	r := htcCallAndReport(c, oneway, method, timeout, acceptable)
	took := time.Since(t0)
	runtime.ReadMemStats(&after)
	if strings.HasPrefix(r.out, "panic") || r.out == "blocked" {
		rawCli = nil
		return r
	}
	if grew := after.TotalAlloc - before.TotalAlloc; grew > 64<<20+8*uint64(len(sp.sent)) {
		r.viol = append(r.viol, fmt.Sprintf("the call allocated %d MiB for a response of %d bytes (announced %d)", grew>>20, len(sp.sent), sp.maxAnnounced()))
	}
	if took > timeout+3*time.Second {
		r.viol = append(r.viol, fmt.Sprintf("the call took %v with a timeout of %v", took.Round(time.Millisecond), timeout))
	}
	if !whole && !strings.HasPrefix(r.out, "req:") {
		r.viol = append(r.viol, "a body that ended early / was malformed did not give the transport's error: "+clip(r.out))
	}
	return r
}

// rawChildRun runs one line in a child process (address-space limit inside the child).
func rawChildRun(line string) htcRun {
	f, err := os.CreateTemp("", "c05rawline")
	if err != nil {
		return htcRun{out: "crash:tempfile", viol: []string{"harness: cannot create temp file"}}
	}
	defer os.Remove(f.Name())
	f.WriteString(line + "\n")
	f.Close()
	cmd := exec.Command(os.Args[0], "c05httpraw", "-lines", f.Name())
	cmd.Env = append(os.Environ(), "VERIF_C05_RAWCHILD=1", "GOMAXPROCS=2")
	var so, se bytes.Buffer
	cmd.Stdout, cmd.Stderr = &so, &se
	done := make(chan error, 1)
	go func() { done <- cmd.Run() }()
	select {
	case err = <-done:
	case <-time.After(60 * time.Second):
		cmd.Process.Kill()
		return htcRun{out: "blocked", viol: []string{"the client process did not finish the call within 60 s"}}
	}
	if err != nil {
		what := "the client process died on this response: " + clipN(strings.TrimSpace(se.String()), 160)
		if strings.Contains(se.String(), "out of memory") {
			what = "the client process died with the runtime's out-of-memory error (an allocation sized by the peer's announcement): " + clipN(strings.TrimSpace(se.String()), 120)
		}
		return htcRun{out: "crash", viol: []string{what}}
	}
	r := htcRun{out: "crash:nooutput"}
	for _, l := range strings.Split(so.String(), "\n") {
		p := strings.Split(l, "\t")
		if p[0] == "C" && len(p) == 3 {
			r.out = p[2]
		}
		if p[0] == "O" {
			r.viol = append(r.viol, "in the child process: "+clipN(l, 300))
		}
	}
	if r.out == "crash:nooutput" {
		r.viol = append(r.viol, "the child process printed no case")
	}
	return r
}

// ---------- generator ----------

// sizeBoundaries: every power of two up to 2^62 (±1), and max int64.
func genAnnounced(r *Rng, sent int) uint64 {
	switch r.Intn(10) {
	case 0:
		return uint64(sent)
	case 1:
		return 0
	case 2:
		if sent > 0 {
			return uint64(r.Intn(sent))
		}
		return 0
	case 3:
		return uint64(sent + r.Pick(1, 2, 3, 4, 100, 4096))
	case 4:
		return 1<<63 - 1
	default:
		k := uint(1 + r.Intn(62))
		return uint64(1)<<k + uint64(int64(r.Pick(-1, 0, 0, 1)))
	}
}

func genRaw(r *Rng, method string) (rawSpec, string) {
	var sp rawSpec
	sp.status = r.Pick(200, 200, 200, 200, 200, 201, 204, 299, 300, 404, 413, 500, 503)
	opid := strconv.Itoa(r.Intn(1 << 20))
	good := b64(framed(c05Reply(method, thrift.REPLY, opid, smallHeaders(r), resultBody("pong"))))
	switch r.Intn(5) {
	case 0:
		sp.sent = good
	case 1:
		sp.sent = good[:r.Intn(len(good)+1)]
	case 2:
		sp.sent = b64([]byte{0, 0, 0, 0})
	case 3:
		sp.sent = nil
	default:
		_, reply, _ := genReply(r)
		sp.sent = b64(framed(tameHead(reply)))
	}
	sp.hold = r.Chance(3)
	if r.Chance(70) {
		sp.announced = genAnnounced(r, len(sp.sent))
		why := "length:above"
		switch {
		case sp.announced == uint64(len(sp.sent)):
			why = "length:equal"
		case sp.announced < uint64(len(sp.sent)):
			why = "length:below"
		case sp.announced > 1<<48:
			why = "length:above-2^48"
		case sp.announced > 1<<30:
			why = "length:above-1GiB"
		}
		return sp, why
	}
	sp.chunked = true
	sp.terminated = r.Chance(80)
	rest := len(sp.sent)
	why := "chunked:honest"
	for rest > 0 {
		k := 1 + r.Intn(rest)
		if r.Chance(30) {
			k = rest
		}
		c := rawChunk{uint64(k), k}
		rest -= k
		if r.Chance(15) { // this chunk-size line lies; nothing follows it
			c.announced = genAnnounced(r, k)
			if c.announced == 0 { // a 0-chunk is the terminator, not a lie about this chunk
				c.announced = uint64(k) + 7
			}
			if c.announced != uint64(k) {
				why = "chunked:lying-size"
				sp.chunks = append(sp.chunks, c)
				sp.sent = sp.sent[:len(sp.sent)-rest]
				if c.announced < uint64(k) && int(c.announced) < k { // what follows the announced bytes must not look like CRLF
					sp.sent[len(sp.sent)-k+int(c.announced)] = 'x'
				}
				return sp, why
			}
		}
		sp.chunks = append(sp.chunks, c)
	}
	if !sp.terminated {
		why = "chunked:unterminated"
	}
	return sp, why
}

func runC05HTTPRaw(r *Rng, n int) {
	valid := rawSpec{status: 200, sent: b64(framed(c05Reply("ping", thrift.REPLY, "1", nil, resultBody("pong"))))}
	valid.announced = uint64(len(valid.sent))
	for i := 0; i < n; i++ {
		method := r.PickS("ping", "ping", "ping", "p")
		oneway := r.Chance(15)
		sp, why := genRaw(r, method)
		run := realHTR(oneway, method, sp)
		line := rawLine(oneway, method, sp)
		Case(line, run.out)
		Stat("htr:framing:" + why)
		Stat(fmt.Sprintf("htr:status=%d", sp.status))
		Stat(fmt.Sprintf("htr:child=%v", sp.maxAnnounced() > rawChildAbove))
		if sp.hold {
			Stat("htr:held-open")
		}
		if j := strings.Index(run.out, " hdrs="); j > 0 {
			Stat("htr:" + run.out[:j])
		} else {
			Stat("htr:" + clip(run.out))
		}
		if i < 3 {
			Sample(map[string]interface{}{"op": "htr", "framing": why, "status": sp.status, "announced": sp.maxAnnounced(), "sent": len(sp.sent), "real": clip(run.out)})
		}
		if len(run.viol) > 0 {
			OracleFail("HTTP client, size fields of the HTTP layer: "+run.viol[0], map[string]interface{}{"op": "htr", "line": line, "framing": why, "status": sp.status, "announced": sp.maxAnnounced(), "sent_bytes": len(sp.sent), "got": clip(run.out), "all": run.viol})
		}
		if i%8 == 0 { // the next call on the same transport
			ok := realHTR(false, "ping", valid)
			if ok.out != "stage=reply hdrs=-" || len(ok.viol) > 0 {
				OracleFail("HTTP client, size fields of the HTTP layer: a well-formed response is not accepted after "+why+": "+clip(ok.out), map[string]interface{}{"op": "htr", "line": rawLine(false, "ping", valid), "got": clip(ok.out)})
			}
		}
		Stat("evaluations")
	}
}

func realHTRLine(args []string) (string, bool) {
	if len(args) != 7 || (args[0] != "c" && args[0] != "o") || (args[4] != "close" && args[4] != "hold") {
		return "bad-op", true
	}
	var sp rawSpec
	st, err := strconv.Atoi(args[2])
	if err != nil || st < 200 || st > 599 || !parseFraming(args[3], &sp) {
		return "bad-op", true
	}
	sp.status, sp.hold, sp.sent = st, args[4] == "hold", unhx(args[5])
	method := string(unhx(args[1]))
	if rawLine(args[0] == "o", method, sp) != "htr "+strings.Join(args, " ") {
		return "bad-op", true // not a line of this suite (its decoded form does not belong to its bytes)
	}
	r := realHTR(args[0] == "o", method, sp)
	return r.out, len(r.viol) == 0
}

func init() {
	suites["c05httpraw"] = runC05HTTPRaw
	lineOps["htr"] = realHTRLine
}
