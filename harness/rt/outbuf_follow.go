package main

// C12, "keeps working": sequences of uses of ONE transport / ONE client after an oversize failure.
//   c12seq - <kind> <L> <steps>    steps = <ctx>:<size>:<op>,…   ctx s(ame FContext) / c(lone of it) / f(resh)
//                                  size = framed size in bytes, op r (Request / Call) / o (Oneway)
// kinds  nats-t  frames handed directly to the real fNatsTransport.Request / .Oneway (in-process nats-server,
//                real fNatsServer answering), registry size after every step (frugal.VerifNatsRegistrySize)
//        nats-c  the same sequence through FStandardClient.Call / .Oneway on that transport
//        http-t / http-c  the real fHTTPTransport with request limit L (it keeps no registrations: 0)
// Oracle: an oversize step fails with REQUEST_TOO_LARGE, a step within the limit succeeds — whichever
// context it reuses — and no registration is left behind after any step.
// Model: FV.runSeq (theorems c12_no_registration_left, c12_followups_work).

import (
	"context"
	"fmt"
	"net/http"
	"strconv"
	"strings"
	"time"

	frugal "github.com/Workiva/frugal/lib/go"
	"github.com/apache/thrift/lib/go/thrift"
)

type c12SeqStep struct {
	ctx    byte // 's', 'c', 'f'
	size   int
	oneway bool
}

func c12SeqString(steps []c12SeqStep) string {
	parts := make([]string, len(steps))
	for i, s := range steps {
		op := "r"
		if s.oneway {
			op = "o"
		}
		parts[i] = fmt.Sprintf("%c:%d:%s", s.ctx, s.size, op)
	}
	return strings.Join(parts, ",")
}

func c12ParseSeq(s string) []c12SeqStep {
	var out []c12SeqStep
	for _, x := range strings.Split(s, ",") {
		p := strings.Split(x, ":")
		if len(p) != 3 || len(p[0]) != 1 {
			return nil
		}
		n, err := strconv.Atoi(p[1])
		if err != nil {
			return nil
		}
		out = append(out, c12SeqStep{p[0][0], n, p[2] == "o"})
	}
	return out
}

// c12Frame: a complete framed request for method "m" (as prepareMessage builds it) whose framed
// size is `size` if the fixed overhead allows, else the smallest possible.
func c12Frame(pf *frugal.FProtocolFactory, fctx frugal.FContext, size int, mt thrift.TMessageType) []byte {
	build := func(n int) []byte {
		buf := frugal.NewTMemoryOutputBuffer(0)
		p := pf.GetProtocol(buf)
		ctx := context.Background()
		p.WriteRequestHeader(fctx)
		p.WriteMessageBegin(ctx, "m", mt, 0)
		(&c12Shape{fields: []c12Field{{"string", n}}}).Write(ctx, p)
		p.WriteMessageEnd(ctx)
		p.Flush(ctx)
		return append([]byte{}, buf.Bytes()...)
	}
	n := 0
	for k := 0; k < 4; k++ {
		d := size - len(build(n))
		if d == 0 {
			break
		}
		if n+d < 0 {
			n = 0
			break
		}
		n += d
	}
	return build(n)
}

// c12ArgsFor: an argument struct whose request (prepareMessage with this context) has the framed size.
func c12ArgsFor(pf *frugal.FProtocolFactory, fctx frugal.FContext, size int, mt thrift.TMessageType) *c12Shape {
	sh := &c12Shape{fields: []c12Field{{"string", 0}}}
	for k := 0; k < 4; k++ {
		d := size - (4 + c12Sum(c12RecordRequest(pf, fctx, sh, mt)))
		if d == 0 || sh.fields[0].n+d < 0 {
			break
		}
		sh.fields[0].n += d
	}
	return sh
}

// c12RunSeq executes the steps on the real code; returns the steps with their ACTUAL sizes, the
// canonical output and the verdict.
func c12RunSeq(kind string, L uint, steps []c12SeqStep) (actual []c12SeqStep, real, bad string) {
	proto := "binary"
	var pf *frugal.FProtocolFactory
	var tr frugal.FTransport
	regSize := func() int { return 0 }
	switch {
	case strings.HasPrefix(kind, "nats"):
		e, err := c12Nats(proto)
		if err != nil {
			return steps, "crash:broker", "no broker: " + err.Error()
		}
		pf, tr = e.pf, e.tr
		e.srv.mu.Lock()
		e.srv.result, e.srv.respHdr = &c12Shape{}, 0
		e.srv.mu.Unlock()
		regSize = func() int { return frugal.VerifNatsRegistrySize(tr) }
	case strings.HasPrefix(kind, "http"):
		pf = frugal.NewFProtocolFactory(c12ProtoFactory(proto))
		srv := &c12Server{result: &c12Shape{}, pf: pf}
		proc := frugal.NewFBaseProcessor()
		srv.base = frugal.NewFBaseProcessorFunction(proc.GetWriteMutex(), nil)
		proc.AddToProcessorMap("m", srv)
		url := c12HTTPURL()
		c12HTTPMu.Lock()
		c12HTTPHandler = frugal.NewFrugalHandlerFunc(proc, pf)
		c12HTTPMu.Unlock()
		tr = frugal.NewFHTTPTransportBuilder(&http.Client{}, url).WithRequestSizeLimit(L).Build()
		tr.Open()
	default:
		return steps, "bad-kind", ""
	}
	clientLevel := strings.HasSuffix(kind, "-c")
	client := frugal.NewFStandardClient(frugal.NewFServiceProvider(tr, pf))
	base := c12Ctx(0)
	var outs []string
	note := func(s string) {
		if bad == "" {
			bad = s
		}
	}
	for i, st := range steps {
		var fctx frugal.FContext
		switch st.ctx {
		case 's':
			fctx = base
		case 'c':
			fctx = frugal.Clone(base)
		default:
			fctx = c12Ctx(0)
		}
		mt := thrift.CALL
		if st.oneway {
			mt = thrift.ONEWAY
		}
		var err error
		size := st.size
		o := guard(30*time.Second, func() {
			if clientLevel {
				args := c12ArgsFor(pf, fctx, st.size, mt)
				size = 4 + c12Sum(c12RecordRequest(pf, fctx, args, mt))
				if st.oneway {
					err = client.Oneway(fctx, "m", args)
				} else {
					err = client.Call(fctx, "m", args, &c12Shape{})
				}
			} else {
				data := c12Frame(pf, fctx, st.size, mt)
				size = len(data)
				if st.oneway {
					err = tr.Oneway(fctx, data)
				} else {
					var rt thrift.TTransport
					rt, err = tr.Request(fctx, data)
					if err == nil && rt == nil {
						err = fmt.Errorf("no reply transport")
					}
				}
			}
		})
		res := c12CallClass(err)
		if o != "" {
			res = o
		}
		reg := regSize()
		outs = append(outs, fmt.Sprintf("%s/%d", res, reg))
		actual = append(actual, c12SeqStep{st.ctx, size, st.oneway})
		what := fmt.Sprintf("step %d (%s FContext, %d bytes, %s)", i, map[byte]string{'s': "same", 'c': "cloned", 'f': "fresh"}[st.ctx], size, map[bool]string{true: "Oneway", false: "Request"}[st.oneway])
		over := L > 0 && uint(size) > L
		switch {
		case over && res != "err:requestTooLarge":
			note(fmt.Sprintf("%s over limit %d: %s (%v), not REQUEST_TOO_LARGE", what, L, res, err))
		case !over && res != "ok":
			note(fmt.Sprintf("%s within limit %d after an oversize failure on this transport is rejected: %s (%v)", what, L, res, err))
		}
		if reg != 0 {
			note(fmt.Sprintf("after %s the transport's registry holds %d registration(s)", what, reg))
		}
	}
	// leave the shared transport clean for the cases that follow
	if strings.HasPrefix(kind, "nats") && regSize() != 0 {
		c12NatsReset(proto)
	}
	return actual, strings.Join(outs, ","), bad
}

func c12GenSeq(r *Rng, L int) []c12SeqStep {
	over := func() int {
		if L == 0 || L > 1<<21 { // nothing can be over: every step is within
			return 100 + r.Intn(1500)
		}
		return L + 1 + r.Pick(0, 0, 1, 7, 100, 5000)
	}
	within := func() int {
		if r.Chance(20) && L > 100 && L <= 1<<21 {
			return L - r.Intn(9)
		}
		return 100 + r.Intn(1500)
	}
	steps := []c12SeqStep{{'s', over(), r.Chance(25)}}
	n := 1 + r.Intn(4)
	for i := 0; i < n; i++ {
		st := c12SeqStep{byte("sscf"[r.Intn(4)]), within(), r.Chance(25)}
		if r.Chance(30) {
			st.size = over()
		}
		steps = append(steps, st)
	}
	return steps
}

func c12SeqCase(r *Rng, i int, kinds []string) {
	kind := kinds[r.Intn(len(kinds))]
	L := c12MiB
	if strings.HasPrefix(kind, "http") {
		L = r.Pick(600, 2000, 20000)
		if r.Chance(15) { // the limit VALUE as a dimension: no limit, 16/32/63-bit edges (no message can be over those)
			L = r.Pick(0, 1<<15, 1<<16, 1<<31-1, 1<<31, 1<<31+1, 1<<32-1, 1<<32, 1<<40, 1<<63-1)
		}
	}
	steps := c12GenSeq(r, L)
	var actual []c12SeqStep
	var real, bad string
	run := func() (string, bool, string) {
		actual, real, bad = c12RunSeq(kind, uint(L), steps)
		return real, bad == "", bad
	}
	if strings.HasPrefix(kind, "nats") {
		retryTiming(run)
	} else {
		run()
	}
	line := fmt.Sprintf("c12seq - %s %d %s", kind, L, c12SeqString(actual))
	Case(line, real)
	Stat("seq:kind:" + kind)
	Stat(fmt.Sprintf("seq:steps=%d", len(steps)))
	for _, s := range steps[1:] {
		Stat(fmt.Sprintf("seq:followup:%c:%s:%s", s.ctx, map[bool]string{true: "over", false: "within"}[s.size > L], map[bool]string{true: "oneway", false: "request"}[s.oneway]))
	}
	if i < 40 {
		Sample(map[string]interface{}{"op": "c12seq", "kind": kind, "limit": L, "steps": c12SeqString(actual), "real": real})
	}
	if bad != "" {
		// shortest failing prefix / pair
		best := actual
		for n := 2; n < len(actual); n++ {
			if _, _, b := c12RunSeq(kind, uint(L), actual[:n]); b != "" {
				best = actual[:n]
				break
			}
		}
		_, real2, bad2 := c12RunSeq(kind, uint(L), best)
		if bad2 == "" {
			best, real2, bad2 = actual, real, bad
		}
		OracleFail("after an oversize failure the same transport/client does not keep working", map[string]interface{}{"op": "c12seq",
			"line": fmt.Sprintf("c12seq - %s %d %s", kind, L, c12SeqString(best)), "got": real2, "why": bad2})
	}
}

func init() {
	lineOps["c12seq"] = func(a []string) (string, bool) {
		if len(a) != 4 {
			return "bad-op", true
		}
		a = a[1:] // a[0] is "-" (bin/check's shrinker treats the first argument as hex)
		steps := c12ParseSeq(a[2])
		if steps == nil || len(steps) > 12 {
			return "bad-op", true
		}
		var real, bad string
		retryTiming(func() (string, bool, string) {
			_, real, bad = c12RunSeq(a[0], c12ParseLimit(a[1]), steps)
			return real, bad == "", bad
		})
		return real, bad == ""
	}
}
