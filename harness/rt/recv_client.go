package main

// C05 (d) — the generic client path: FStandardClient.Call → processReply (lib/go/client.go) on ARBITRARY reply
// bytes handed back by the transport for a generated-style call `string ping(1: string s)`.
//
// Real code under test: FStandardClient.Call (prepareMessage, transport.Request, processReply),
// FProtocol.ReadResponseHeader → readHeader/unmarshalHeaders/readPairs, Thrift's binary protocol
// (ReadMessageBegin, TApplicationException.Read, Skip) and a hand-written result struct with the structure of
// the emitted code. The transport is a stub whose Request returns the bytes in a thrift.TMemoryBuffer, as the
// adapter / NATS / HTTP transports do. A spying TProtocol (pure forwarding) notes what ReadMessageBegin
// returned and whether the body readers were reached, so that the stage `processReply` got to is an
// observation of the real run.
//
// Property oracle (independent of the model): Call never panics and returns within the watchdog; it
// returns nil only for a REPLY message with the right method name whose result struct was read; every
// other reply is an error of the documented kind (wrong method name → APPLICATION_EXCEPTION_WRONG_METHOD_NAME,
// other message type → …INVALID_MESSAGE_TYPE, EXCEPTION → an error); the caller's `_opid` is never
// overwritten by a reply header; the next call on the same client with a well-formed reply succeeds.
//
// Op:  prp <method> <reply>    output `stage=<hdr:class|msg|wrong-method|exception|bad-type|reply> hdrs=<pairs>`

import (
	"context"
	"fmt"
	"strconv"
	"strings"
	"time"

	frugal "github.com/Workiva/frugal/lib/go"
	"github.com/apache/thrift/lib/go/thrift"
)

// ---------- stub transport ----------

type replyTransport struct {
	reply []byte
	sent  int
}

func (t *replyTransport) SetMonitor(frugal.FTransportMonitor)  {}
func (t *replyTransport) Closed() <-chan error                 { return nil }
func (t *replyTransport) Open() error                          { return nil }
func (t *replyTransport) IsOpen() bool                         { return true }
func (t *replyTransport) Close() error                         { return nil }
func (t *replyTransport) GetRequestSizeLimit() uint            { return 0 }
func (t *replyTransport) Oneway(frugal.FContext, []byte) error { t.sent++; return nil }
func (t *replyTransport) Request(ctx frugal.FContext, payload []byte) (thrift.TTransport, error) {
	t.sent++
	// a TMemoryBuffer holding exactly the reply bytes (what the adapter / NATS / HTTP transports return)
	buf := thrift.NewTMemoryBufferLen(len(t.reply))
	buf.Write(exact(t.reply))
	return buf, nil
}

// ---------- spying protocol ----------

type spyState struct {
	msgCalled bool
	msgErr    error
	name      string
	typ       thrift.TMessageType
	bodyRead  bool // ReadStructBegin reached (exception or result body)
	protocols int  // protocols made by the factory during the call
}

type spyProtocol struct {
	thrift.TProtocol
	st *spyState
}

func (p *spyProtocol) ReadMessageBegin(ctx context.Context) (string, thrift.TMessageType, int32, error) {
	n, t, s, err := p.TProtocol.ReadMessageBegin(ctx)
	p.st.msgCalled, p.st.msgErr, p.st.name, p.st.typ = true, err, n, t
	return n, t, s, err
}
func (p *spyProtocol) ReadStructBegin(ctx context.Context) (string, error) {
	p.st.bodyRead = true
	return p.TProtocol.ReadStructBegin(ctx)
}

type spyFactory struct {
	inner thrift.TProtocolFactory
	st    *spyState
}

func (f *spyFactory) GetProtocol(t thrift.TTransport) thrift.TProtocol {
	f.st.protocols++ // 1: prepareMessage; 2: processReply was entered
	return &spyProtocol{TProtocol: f.inner.GetProtocol(t), st: f.st}
}

// ---------- hand-written args / result of `string ping(1: string s)` (structure of the emitted code) ----------

type c05PingArgs struct{ S string }

func (p *c05PingArgs) Read(ctx context.Context, iprot thrift.TProtocol) error { return nil }
func (p *c05PingArgs) Write(ctx context.Context, oprot thrift.TProtocol) error {
	oprot.WriteStructBegin(ctx, "ping_args")
	oprot.WriteFieldBegin(ctx, "s", thrift.STRING, 1)
	oprot.WriteString(ctx, p.S)
	oprot.WriteFieldEnd(ctx)
	oprot.WriteFieldStop(ctx)
	return oprot.WriteStructEnd(ctx)
}

type c05PingResult struct{ Success *string }

func (p *c05PingResult) Write(ctx context.Context, oprot thrift.TProtocol) error { return nil }
func (p *c05PingResult) Read(ctx context.Context, iprot thrift.TProtocol) error {
	if _, err := iprot.ReadStructBegin(ctx); err != nil {
		return thrift.PrependError(fmt.Sprintf("%T read error: ", p), err)
	}
	for {
		_, fieldTypeID, fieldID, err := iprot.ReadFieldBegin(ctx)
		if err != nil {
			return thrift.PrependError(fmt.Sprintf("%T field %d read error: ", p, fieldID), err)
		}
		if fieldTypeID == thrift.STOP {
			break
		}
		switch fieldID {
		case 0:
			if fieldTypeID == thrift.STRING {
				v, err := iprot.ReadString(ctx)
				if err != nil {
					return thrift.PrependError("error reading field 0: ", err)
				}
				p.Success = &v
			} else if err := iprot.Skip(ctx, fieldTypeID); err != nil {
				return err
			}
		default:
			if err := iprot.Skip(ctx, fieldTypeID); err != nil {
				return err
			}
		}
		if err := iprot.ReadFieldEnd(ctx); err != nil {
			return err
		}
	}
	if err := iprot.ReadStructEnd(ctx); err != nil {
		return thrift.PrependError(fmt.Sprintf("%T read struct end error: ", p), err)
	}
	return nil
}

// ---------- one call ----------

type prpRun struct {
	out  string
	viol []string
}

func realPRP(method string, reply []byte) prpRun {
	st := &spyState{}
	tr := &replyTransport{reply: reply}
	pf := frugal.NewFProtocolFactory(&spyFactory{inner: thrift.NewTBinaryProtocolFactoryConf(nil), st: st})
	client := frugal.NewFStandardClient(frugal.NewFServiceProvider(tr, pf))
	fctx := frugal.NewFContext("cid")
	opidBefore, _ := fctx.RequestHeader("_opid")
	res := &c05PingResult{}
	var err error
	var r prpRun
	if o := guard(10*time.Second, func() { err = client.Call(fctx, method, &c05PingArgs{S: "x"}, res) }); o != "" {
		r.out = o
		r.viol = append(r.viol, "FStandardClient.Call "+o+" on a received reply")
		return r
	}
	stage, hdrs, viol := classifyReply(st, method, err, fctx, opidBefore)
	r.viol = append(r.viol, viol...)
	r.out = fmt.Sprintf("stage=%s hdrs=%s", stage, hdrs)
	return r
}

// classifyReply: the stage processReply got to (from what the spying protocol saw), the response headers the
// reply added to the caller's context, and the property violations that need no reference.
func classifyReply(st *spyState, method string, err error, fctx frugal.FContext, opidBefore string) (string, string, []string) {
	var r struct{ viol []string }
	stage := ""
	app, isApp := err.(thrift.TApplicationException)
	switch {
	case !st.msgCalled:
		stage = "hdr:" + strings.TrimPrefix(errClass(err), "err:")
		if err == nil {
			r.viol = append(r.viol, "Call returned nil although the response header was not read")
		}
	case st.msgErr != nil:
		stage = "msg"
		if err == nil {
			r.viol = append(r.viol, "Call returned nil although the message envelope could not be read")
		}
	case st.name != method:
		stage = "wrong-method"
		if !isApp || app.TypeId() != frugal.APPLICATION_EXCEPTION_WRONG_METHOD_NAME {
			r.viol = append(r.viol, "a reply for another method did not give WRONG_METHOD_NAME: "+errClass(err))
		}
	case st.typ == thrift.EXCEPTION:
		stage = "exception"
		if err == nil {
			r.viol = append(r.viol, "Call returned nil for an EXCEPTION message")
		}
	case st.typ != thrift.REPLY:
		stage = "bad-type"
		if !isApp || app.TypeId() != frugal.APPLICATION_EXCEPTION_INVALID_MESSAGE_TYPE {
			r.viol = append(r.viol, "a message that is neither REPLY nor EXCEPTION did not give INVALID_MESSAGE_TYPE: "+errClass(err))
		}
	default:
		stage = "reply"
		if !st.bodyRead {
			r.viol = append(r.viol, "a REPLY message was accepted without reading the result")
		}
	}
	if (stage == "wrong-method" || stage == "bad-type" || stage == "msg" || strings.HasPrefix(stage, "hdr")) && st.bodyRead {
		r.viol = append(r.viol, "a body was read although the envelope had been rejected")
	}
	if now, _ := fctx.RequestHeader("_opid"); now != opidBefore {
		r.viol = append(r.viol, "the reply changed the caller's request op id")
	}
	hdrs := map[string]string{}
	for k, v := range fctx.ResponseHeaders() {
		if k == "_opid" {
			r.viol = append(r.viol, "a reply header overwrote _opid in the caller's context")
			continue
		}
		hdrs[k] = v
	}
	return stage, pairs(hdrs), r.viol
}

// ---------- generator: a valid reply + one mutation, or raw bytes ----------

func c05Reply(method string, typ thrift.TMessageType, opid string, extra map[string]string, body func(p thrift.TProtocol)) []byte {
	buf := thrift.NewTMemoryBuffer()
	p := thrift.NewTBinaryProtocolFactoryConf(nil).GetProtocol(buf)
	m := map[string]string{"_opid": opid}
	for k, v := range extra {
		m[k] = v
	}
	buf.Write(marshalSorted(m))
	p.WriteMessageBegin(c14Bg, method, typ, 0)
	body(p)
	p.WriteMessageEnd(c14Bg)
	p.Flush(c14Bg)
	return append([]byte{}, buf.Bytes()...)
}

func resultBody(s string) func(p thrift.TProtocol) {
	return func(p thrift.TProtocol) {
		p.WriteStructBegin(c14Bg, "ping_result")
		p.WriteFieldBegin(c14Bg, "success", thrift.STRING, 0)
		p.WriteString(c14Bg, s)
		p.WriteFieldEnd(c14Bg)
		p.WriteFieldStop(c14Bg)
		p.WriteStructEnd(c14Bg)
	}
}

func genReply(r *Rng) (method string, reply []byte, why string) {
	method = r.PickS("ping", "ping", "ping", "p", "", "pingpong", strings.Repeat("m", 70))
	if r.Chance(8) {
		return method, r.Bytes(r.Intn(65)), "raw"
	}
	extra := map[string]string{}
	if r.Bool() {
		extra = smallHeaders(r)
		delete(extra, "_opid")
	}
	opid := strconv.Itoa(r.Intn(1 << 20))
	good := c05Reply(method, thrift.REPLY, opid, extra, resultBody("pong"))
	hdrLen := len(marshalSorted(func() map[string]string {
		m := map[string]string{"_opid": opid}
		for k, v := range extra {
			m[k] = v
		}
		return m
	}()))
	switch r.Intn(14) {
	case 0:
		return method, good, "valid"
	case 1: // wrong method name
		other := r.PickS("pong", "pin", "pingg", "Ping", "", "ping\x00")
		if other == method {
			other += "x"
		}
		return method, c05Reply(other, thrift.REPLY, opid, extra, resultBody("pong")), "wrong-method"
	case 2: // wrong message type
		t := thrift.TMessageType(r.Pick(0, 1, 4, 5, 17, 255))
		return method, c05Reply(method, t, opid, extra, resultBody("pong")), "wrong-type"
	case 3: // well-formed application exception
		ex := thrift.NewTApplicationException(int32(r.Pick(0, 1, 3, 6, 7, 100, 101, 102, -1)), "boom")
		return method, c05Reply(method, thrift.EXCEPTION, opid, extra, func(p thrift.TProtocol) { ex.Write(c14Bg, p) }), "exception"
	case 4: // application exception with a garbage body
		b := c05Reply(method, thrift.EXCEPTION, opid, extra, func(p thrift.TProtocol) {})
		return method, append(b, r.Bytes(r.Intn(24))...), "exception-garbage-body"
	case 5: // REPLY with a garbage body
		b := c05Reply(method, thrift.REPLY, opid, extra, func(p thrift.TProtocol) {})
		return method, append(b, r.Bytes(r.Intn(24))...), "reply-garbage-body"
	case 6: // envelope garbage behind a good header block
		return method, append(append([]byte{}, good[:hdrLen]...), r.Bytes(r.Intn(24))...), "envelope-garbage"
	case 7: // the 4-byte envelope word / name length set to a boundary value
		b := append([]byte{}, good...)
		off := hdrLen + r.Pick(0, 4)
		if off+4 <= len(b) {
			v := boundaryU32[r.Intn(len(boundaryU32))]
			if r.Bool() {
				v = uint32(r.Pick(0x80010000, 0x80010002, 0x80010003, 0x80020002, 0x80000002, 0x7fffffff, 63, 64, 65, 104857600, 104857601))
			}
			copy(b[off:], be32(v))
		}
		return method, b, "envelope-word"
	case 8: // old-style (unversioned) envelope: name, type byte, seqid
		b := append([]byte{}, good[:hdrLen]...)
		name := method
		if r.Chance(30) {
			name = "other"
		}
		b = append(append(b, be32(uint32(len(name)))...), name...)
		b = append(b, byte(r.Pick(2, 2, 3, 1, 9)))
		b = append(b, be32(0)...)
		return method, append(b, good[len(good)-12:]...), "old-envelope"
	case 9: // truncate anywhere
		return method, good[:r.Intn(len(good)+1)], "truncate"
	case 10: // a reply header named _opid with another value / response header flood
		return method, c05Reply(method, thrift.REPLY, "999999", extra, resultBody("pong")), "other-opid"
	default: // header-level mutation (size fields, version, bit flip, splice, truncate+pad) of the whole reply
		fr := framed(good)
		m, why := mutate(r, fr, sizeFieldOffsets(fr)[1:])
		if len(m) < 4 {
			return method, nil, "frame:" + why
		}
		return method, tameHead(m[4:]), "frame:" + why
	}
}

func runC05Cli(r *Rng, n int) {
	for i := 0; i < n; i++ {
		method, reply, why := genReply(r)
		reply = tameHead(reply)
		run := realPRP(method, reply)
		line := fmt.Sprintf("prp %s %s", hx([]byte(method)), hx(reply))
		Case(line, run.out)
		Stat("prp:mutation:" + why)
		if j := strings.Index(run.out, " hdrs="); j > 0 {
			Stat("prp:" + run.out[:j])
		} else {
			Stat("prp:" + clip(run.out))
		}
		if i < 3 {
			Sample(map[string]interface{}{"op": "prp", "mutation": why, "reply_len": len(reply), "real": clip(run.out)})
		}
		if len(run.viol) > 0 {
			OracleFail("client reply path: "+run.viol[0], map[string]interface{}{"op": "prp", "line": line, "in": hx(reply), "mutation": why, "got": clip(run.out), "all": run.viol})
		}
		// the next call with a well-formed reply succeeds (a client has no state a reply could corrupt)
		if i%16 == 0 {
			ok := realPRP("ping", c05Reply("ping", thrift.REPLY, "1", nil, resultBody("pong")))
			if ok.out != "stage=reply hdrs=-" || len(ok.viol) > 0 {
				OracleFail("client reply path: a well-formed reply is not accepted: "+ok.out, map[string]interface{}{"op": "prp", "got": ok.out})
			}
		}
		Stat("evaluations")
	}
}

func realPRPLine(args []string) (string, bool) {
	if len(args) != 2 {
		return "bad-op", true
	}
	r := realPRP(string(unhx(args[0])), unhx(args[1]))
	return r.out, len(r.viol) == 0
}

func init() {
	suites["c05cli"] = runC05Cli
	lineOps["prp"] = realPRPLine
}
