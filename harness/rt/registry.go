package main

import (
	"fmt"
	"strconv"
	"strings"
	"sync"
	"time"

	frugal "github.com/Workiva/frugal/lib/go"
)

// ---------- schedule forcing against the real registry (C01, C06, C13) ----------
//
// One scenario = n callers with distinct real FContexts, one registry, one reader.
// The controller performs an action list one action at a time; the reader's
// Execute is split at the yield point `registry.dispatch.presend`.

type parkPoint struct {
	arrived chan struct{}
	release chan struct{}
}

var (
	parkMu sync.Mutex
	parks  = map[uint64]*parkPoint{} // op id -> parking spot of the reader goroutine for that op id
)

func installRegistryYield() {
	frugal.SetVerifYield(func(point string, id uint64) {
		if point != "registry.dispatch.presend" {
			return
		}
		parkMu.Lock()
		p := parks[id]
		parkMu.Unlock()
		if p == nil {
			return
		}
		p.arrived <- struct{}{}
		<-p.release
	})
}

type regCaller struct {
	ctx  frugal.FContext
	opid uint64
	ch   chan []byte
	pc   string // new | waiting | leaving:<o> | done:<o>
	got  []string
}

type regScenario struct {
	reg      frugal.VerifRegistry
	callers  []*regCaller
	park     *parkPoint
	execDone chan error
	parked   bool   // reader holds a frame after lookup
	parkedOp uint64 // op id the reader is parked for
	blocked  bool
	panicked string
	capacity int
}

func newRegScenario(n, capacity int) *regScenario {
	s := &regScenario{reg: frugal.VerifNewRegistry(), capacity: capacity}
	for i := 0; i < n; i++ {
		ctx := frugal.NewFContext("")
		id, _ := frugal.VerifGetOpID(ctx)
		s.callers = append(s.callers, &regCaller{ctx: ctx, opid: id, ch: make(chan []byte, capacity), pc: "new"})
	}
	return s
}

func respFrame(opid uint64, tag int) []byte {
	hdr := frugal.VerifMarshalHeaders(map[string]string{"_opid": strconv.FormatUint(opid, 10)})
	return append(hdr, byte(tag>>8), byte(tag))
}

// frameIdent decodes op id and tag with the independent reference decoder.
func frameIdent(fr []byte) (uint64, int, bool) {
	l, payload, ok := specDecode(fr)
	if !ok || len(payload) != 2 {
		return 0, 0, false
	}
	for _, p := range l {
		if p.k == "_opid" {
			id, err := strconv.ParseUint(p.v, 10, 64)
			return id, int(payload[0])<<8 | int(payload[1]), err == nil
		}
	}
	return 0, 0, false
}

// act performs one action; returns whether it was enabled.
func (s *regScenario) act(a string, opidOf func(int) uint64) bool {
	kind := a[0]
	switch kind {
	case 'R', 'V', 'T', 'E', 'U':
		i, _ := strconv.Atoi(a[1:])
		if i >= len(s.callers) {
			return false
		}
		c := s.callers[i]
		switch kind {
		case 'R':
			if c.pc != "new" {
				return false
			}
			if err := s.reg.Register(c.ctx, c.ch); err != nil {
				c.pc = "done:regErr"
			} else {
				c.pc = "waiting"
			}
			return true
		case 'V':
			if c.pc != "waiting" {
				return false
			}
			select {
			case fr := <-c.ch:
				id, tag, ok := frameIdent(fr)
				if !ok {
					c.pc = "leaving:ok:garbled"
				} else {
					c.pc = fmt.Sprintf("leaving:ok:%d:%d", s.rel(id), tag)
				}
				return true
			default:
				return false
			}
		case 'T':
			if c.pc != "waiting" {
				return false
			}
			c.pc = "leaving:timedOut"
			return true
		case 'E':
			if c.pc != "waiting" {
				return false
			}
			c.pc = "leaving:sendErr"
			return true
		case 'U':
			if !strings.HasPrefix(c.pc, "leaving:") {
				return false
			}
			s.reg.Unregister(c.ctx)
			c.pc = "done:" + strings.TrimPrefix(c.pc, "leaving:")
			return true
		}
	case 'L': // L<callerIndexOrX<k>>:<tag>   X<k> = an op id that was never issued
		if s.parked || s.blocked {
			return false
		}
		parts := strings.Split(a[1:], ":")
		tag, _ := strconv.Atoi(parts[1])
		var opid uint64
		if parts[0][0] == 'X' {
			k, _ := strconv.Atoi(parts[0][1:])
			opid = 1<<62 + uint64(k)
		} else {
			i, _ := strconv.Atoi(parts[0])
			opid = opidOf(i)
		}
		p := &parkPoint{arrived: make(chan struct{}, 1), release: make(chan struct{})}
		parkMu.Lock()
		parks[opid] = p
		parkMu.Unlock()
		done := make(chan error, 1)
		go func() {
			defer func() {
				if r := recover(); r != nil { // a panic in the reader kills the process in production
					s.panicked = "panic:" + panicClass(r)
					done <- fmt.Errorf("%s", s.panicked)
				}
			}()
			done <- s.reg.Execute(exact(respFrame(opid, tag)))
		}()
		select {
		case <-p.arrived:
			s.parked, s.park, s.execDone, s.parkedOp = true, p, done, opid
		case <-done: // unregistered: frame dropped, Execute returned
			parkMu.Lock()
			delete(parks, opid)
			parkMu.Unlock()
		case <-time.After(5 * time.Second):
			s.blocked = true
		}
		return true
	case 'S':
		if !s.parked {
			return false
		}
		parkMu.Lock()
		delete(parks, s.parkedOp)
		parkMu.Unlock()
		close(s.park.release)
		select {
		case <-s.execDone:
			s.parked = false
			return true
		case <-time.After(300 * time.Millisecond):
			// the send blocks on a full channel: the reader is wedged
			s.blocked = true
			s.parked = false
			return false
		}
	}
	return false
}

// rel maps a real op id to the caller index (op ids come from a process-wide counter).
func (s *regScenario) rel(id uint64) int {
	for i, c := range s.callers {
		if c.opid == id {
			return i
		}
	}
	return -1
}

func (s *regScenario) observe() string {
	var parts []string
	for i, c := range s.callers {
		var buf []string
		// drain and refill to look at the channel content without disturbing the order
		n := len(c.ch)
		if s.blocked { // a wedged reader is racing for the channel: do not touch it
			n = 0
			buf = append(buf, "?")
		}
		for k := 0; k < n; k++ {
			fr := <-c.ch
			id, tag, ok := frameIdent(fr)
			if ok {
				buf = append(buf, fmt.Sprintf("%d:%d", s.rel(id), tag))
			} else {
				buf = append(buf, "garbled")
			}
			c.ch <- fr
		}
		parts = append(parts, fmt.Sprintf("%d=%s[%s]", i, c.pc, strings.Join(buf, " ")))
	}
	rd := "idle"
	if s.parked {
		rd = fmt.Sprintf("lookedUp:%d", s.rel(s.parkedOp))
	}
	if s.blocked {
		rd = "blocked"
	}
	if s.panicked != "" {
		rd = s.panicked
	}
	return fmt.Sprintf("%s reg=%d reader=%s", strings.Join(parts, ","), frugal.VerifRegistrySize(s.reg), rd)
}

func (s *regScenario) cleanup() {
	if s.parked {
		s.act("S", nil)
	}
	if s.blocked { // unblock a wedged reader so the goroutine can end
		for _, c := range s.callers {
			for len(c.ch) > 0 {
				<-c.ch
			}
		}
	}
}

func genRegActions(r *Rng, n int) []string {
	k := 4 + r.Intn(28)
	var as []string
	for len(as) < k {
		switch r.Intn(12) {
		case 0, 1:
			as = append(as, fmt.Sprintf("R%d", r.Intn(n)))
		case 2, 3:
			as = append(as, fmt.Sprintf("V%d", r.Intn(n)))
		case 4:
			as = append(as, fmt.Sprintf("T%d", r.Intn(n)))
		case 5:
			as = append(as, fmt.Sprintf("E%d", r.Intn(n)))
		case 6, 7:
			as = append(as, fmt.Sprintf("U%d", r.Intn(n)))
		case 8:
			as = append(as, fmt.Sprintf("LX%d:%d", r.Intn(3), r.Intn(50)))
		default:
			as = append(as, fmt.Sprintf("L%d:%d", r.Intn(n), r.Intn(50)))
			if r.Chance(70) {
				as = append(as, "S")
			}
		}
	}
	return as
}

// runRegLine executes one scenario line `reg <n> <cap> <actions,…>` and returns the
// canonical observation and whether the property oracle held.
func runRegLine(n, capacity int, actions []string) (string, bool, string) {
	s := newRegScenario(n, capacity)
	defer s.cleanup()
	flags := make([]byte, len(actions))
	for i, a := range actions {
		if s.act(a, func(i int) uint64 {
			if i < len(s.callers) {
				return s.callers[i].opid
			}
			return 1 << 61
		}) {
			flags[i] = '1'
		} else {
			flags[i] = '0'
		}
	}
	obs := fmt.Sprintf("flags=%s %s", flags, s.observe())
	// the property itself, on the real observation
	why := ""
	if s.panicked != "" {
		why = "the reader goroutine panicked in dispatch (" + s.panicked + "): the process would die"
	}
	if s.blocked {
		why = "the reader blocked forever in dispatch (head-of-line blocking: later responses on this transport are lost)"
	}
	allDone := true
	for i, c := range s.callers {
		if strings.Contains(c.pc, ":ok:") {
			f := strings.Split(c.pc, ":")
			if f[2] != strconv.Itoa(i) {
				why = fmt.Sprintf("caller %d completed with a frame of op id of caller %s", i, f[2])
			}
		}
		if !strings.HasPrefix(c.pc, "done:") && c.pc != "new" {
			allDone = false
		}
	}
	if allDone && !s.parked && frugal.VerifRegistrySize(s.reg) != 0 {
		why = "registrations left behind after every request returned"
	}
	return obs, why == "", why
}

func runRegistrySuite(r *Rng, n int) {
	installRegistryYield()
	for i := 0; i < n; i++ {
		nc := 1 + r.Intn(4)
		actions := genRegActions(r, nc)
		line := fmt.Sprintf("reg %d 1 %s", nc, strings.Join(actions, ","))
		obs, fine, why := runRegLine(nc, 1, actions)
		Case(line, obs)
		Stat(fmt.Sprintf("callers=%d", nc))
		StatN("actions", len(actions))
		Sample(map[string]interface{}{"line": line, "real": obs})
		if !fine {
			OracleFail(why, map[string]interface{}{"op": "reg", "line": line, "got": obs})
		}
		Stat("evaluations")
	}
}

func init() {
	suites["c01reg"] = runRegistrySuite
	lineOps["reg"] = func(args []string) (string, bool) {
		installRegistryYield()
		n, _ := strconv.Atoi(args[0])
		capacity, _ := strconv.Atoi(args[1])
		obs, fine, _ := runRegLine(n, capacity, strings.Split(args[2], ","))
		return obs, fine
	}
}
