package main

import (
	"bytes"
	"fmt"
	"strconv"
	"strings"
	"time"

	frugal "github.com/Workiva/frugal/lib/go"
	"github.com/apache/thrift/lib/go/thrift"
)

// ---------- generators ----------

var utf8Samples = []string{"é", "日本語", "😀", "ß", "Ω≈ç", "\u0000", "á"}

func genString(r *Rng, allowBinary bool) string {
	var n int
	switch r.Intn(20) {
	case 0:
		n = 0
	case 1:
		n = 1
	case 2:
		n = 255
	case 3:
		n = 256
	case 4:
		if r.Chance(10) {
			n = 65536
		} else {
			n = 300 + r.Intn(200)
		}
	default:
		n = 1 + r.Intn(12)
	}
	kind := r.Intn(4)
	if !allowBinary && kind == 3 {
		kind = 1
	}
	var b bytes.Buffer
	for b.Len() < n {
		switch kind {
		case 0: // identifier-like ascii
			b.WriteByte("abcdefghijklmnopqrstuvwxyz_ABCXYZ0123456789-"[r.Intn(44)])
		case 1: // printable ascii incl. separators used by our own line protocol
			b.WriteByte(byte(32 + r.Intn(95)))
		case 2: // multi-byte UTF-8
			b.WriteString(utf8Samples[r.Intn(len(utf8Samples))])
		case 3: // arbitrary bytes, incl. 0x00 and invalid UTF-8
			b.WriteByte(byte(r.U64()))
		}
	}
	return b.String()
}

func genHeaders(r *Rng, allowBinary bool) map[string]string {
	n := r.Pick(0, 1, 1, 2, 2, 3, 3, 5, 8, 13, 40)
	m := make(map[string]string, n)
	for len(m) < n {
		m[genString(r, allowBinary)] = genString(r, allowBinary)
	}
	return m
}

func genPayload(r *Rng) []byte {
	switch r.Intn(6) {
	case 0:
		return []byte{}
	case 1:
		return r.Bytes(1)
	case 2:
		return r.Bytes(1 + r.Intn(4096))
	default:
		return r.Bytes(r.Intn(40))
	}
}

// ---------- independent reference decoder (written from documentation/protocol.md) ----------

// specDecode parses [ver][m][pairs...][payload]; returns pairs in wire order.
func specDecode(b []byte) (l []kv, payload []byte, ok bool) {
	if len(b) < 5 || b[0] != 0 {
		return nil, nil, false
	}
	m := int(uint32(b[1])<<24 | uint32(b[2])<<16 | uint32(b[3])<<8 | uint32(b[4]))
	if 5+m > len(b) {
		return nil, nil, false
	}
	hs := b[5 : 5+m]
	for len(hs) > 0 {
		var fld [2]string
		for j := 0; j < 2; j++ {
			if len(hs) < 4 {
				return nil, nil, false
			}
			k := int(uint32(hs[0])<<24 | uint32(hs[1])<<16 | uint32(hs[2])<<8 | uint32(hs[3]))
			if 4+k > len(hs) {
				return nil, nil, false
			}
			fld[j] = string(hs[4 : 4+k])
			hs = hs[4+k:]
		}
		l = append(l, kv{fld[0], fld[1]})
	}
	return l, b[5+m:], true
}

func listToMap(l []kv) (map[string]string, bool) {
	m := map[string]string{}
	for _, p := range l {
		if _, dup := m[p.k]; dup {
			return m, false
		}
		m[p.k] = p.v
	}
	return m, true
}

func mapsEqual(a, b map[string]string) bool {
	if len(a) != len(b) {
		return false
	}
	for k, v := range a {
		if w, ok := b[k]; !ok || w != v {
			return false
		}
	}
	return true
}

// ---------- real calls, canonicalised ----------

func realHFF(frame []byte) (string, map[string]string) {
	var m map[string]string
	var err error
	if o := guard(5*time.Second, func() { m, err = frugal.VerifGetHeadersFromFrame(exact(frame)) }); o != "" {
		return o, nil
	}
	if err != nil {
		return errClass(err), nil
	}
	return "ok " + pairs(m), m
}

func realUMS(bs []byte) (string, map[string]string, []byte) {
	var m map[string]string
	var err error
	buf := thrift.NewTMemoryBuffer()
	buf.Write(bs)
	if o := guard(20*time.Second, func() { m, err = frugal.VerifReadHeader(buf) }); o != "" {
		return o, nil, nil
	}
	if err != nil {
		return errClass(err), nil, nil
	}
	rest := buf.Bytes()
	return "ok " + pairs(m) + " rest=" + hx(rest), m, rest
}

func realUMF(frame []byte) (string, map[string]string, []byte) {
	var m map[string]string
	var p []byte
	var size uint32
	var ver byte
	var err error
	if o := guard(5*time.Second, func() { size, ver, m, p, err = frugal.VerifUnmarshalFrame(exact(frame)) }); o != "" {
		return o, nil, nil
	}
	if err != nil {
		return errClass(err), nil, nil
	}
	return fmt.Sprintf("ok size=%d ver=%d %s payload=%s", size, ver, pairs(m), hx(p)), m, p
}

func realAHF(frame []byte, adds map[string]string) (string, []byte) {
	var res []byte
	var err error
	if o := guard(5*time.Second, func() { res, err = frugal.VerifAddHeadersToFrame(exact(frame), adds) }); o != "" {
		return o, nil
	}
	if err != nil {
		return errClass(err), nil
	}
	// canonicalise: the merged map is marshalled in Go's random map order
	if len(res) < 4 {
		return "ok raw=" + hx(res), res
	}
	l, payload, ok := specDecode(res[4:])
	if !ok {
		return "ok raw=" + hx(res), res
	}
	m, nodup := listToMap(l)
	if !nodup {
		return "ok raw=" + hx(res), res
	}
	prefix := uint32(res[0])<<24 | uint32(res[1])<<16 | uint32(res[2])<<8 | uint32(res[3])
	return fmt.Sprintf("ok size=%d %s payload=%s", prefix, pairs(m), hx(payload)), res
}

func realEXF(frame []byte) string {
	var err error
	if o := guard(5*time.Second, func() { err = frugal.VerifBaseTransportExecuteFrame(exact(frame)) }); o != "" {
		return o
	}
	if err != nil {
		if _, isNum := err.(*strconv.NumError); isNum {
			return "err:badOpId"
		}
	}
	return errClass(err)
}

func realEXE(frame []byte) string {
	var err error
	reg := frugal.VerifNewRegistry()
	if o := guard(5*time.Second, func() { err = reg.Execute(exact(frame)) }); o != "" {
		return o
	}
	if err != nil {
		if _, isNum := err.(*strconv.NumError); isNum {
			return "err:badOpId"
		}
	}
	return errClass(err)
}

// ---------- C04: well-formed inputs ----------

func frameOf(hdr, payload []byte) []byte {
	body := append(append([]byte{}, hdr...), payload...)
	return append(be32(uint32(len(body))), body...)
}

func runC04(r *Rng, n int) {
	for i := 0; i < n; i++ {
		m := genHeaders(r, true)
		p := genPayload(r)
		StatN("pairs", len(m))
		Stat(fmt.Sprintf("npairs=%d", len(m)))
		hdr := frugal.VerifMarshalHeaders(m)
		Sample(map[string]interface{}{"headers": pairs(m), "payload_len": len(p), "marshalled_len": len(hdr)})

		// marshal: documented layout, checked by the independent decoder and by the model
		Case("mar "+pairs(m)+" "+hx(hdr), "ok")
		l, rest, ok := specDecode(hdr)
		dm, nodup := listToMap(l)
		if !ok || !nodup || len(rest) != 0 || !mapsEqual(dm, m) {
			OracleFail("marshalHeaders output is not the documented v0 layout of the map", map[string]interface{}{"op": "mar", "headers": pairs(m), "bytes": hx(hdr)})
		}
		Case(fmt.Sprintf("csz %s", pairs(m)), fmt.Sprintf("%d", frugal.VerifCalculateHeaderSize(m)))

		// stream
		in := append(append([]byte{}, hdr...), p...)
		o, gm, grest := realUMS(in)
		Case("ums "+hx(in), o)
		if gm == nil || !mapsEqual(gm, m) || !bytes.Equal(grest, p) {
			OracleFail("stream read-back differs from the written map / payload touched", map[string]interface{}{"op": "ums", "in": hx(in), "headers": pairs(m), "got": o})
		}
		// frame (without size prefix)
		o, gm = realHFF(in)
		Case("hff "+hx(in), o)
		if gm == nil || !mapsEqual(gm, m) {
			OracleFail("frame read-back differs from the written map", map[string]interface{}{"op": "hff", "in": hx(in), "headers": pairs(m), "got": o})
		}
		// whole frame
		fr := frameOf(hdr, p)
		o, gm, gp := realUMF(fr)
		Case("umf "+hx(fr), o)
		// unmarshalFrame strips a 4-byte inner length prefix from the payload (see its unit test)
		if len(p) >= 4 && (gm == nil || !mapsEqual(gm, m) || !bytes.Equal(gp, p[4:])) {
			OracleFail("unmarshalFrame: headers/payload differ from what was framed", map[string]interface{}{"op": "umf", "in": hx(fr), "headers": pairs(m), "payload": hx(p), "got": o})
		}
		// add headers
		adds := genHeaders(r, true)
		if r.Chance(50) && len(m) > 0 { // overwrite an existing one
			for k := range m {
				adds[k] = genString(r, true)
				break
			}
		}
		o, res := realAHF(fr, adds)
		Case("ahf "+hx(fr)+" "+pairs(adds), o)
		want := map[string]string{}
		for k, v := range m {
			want[k] = v
		}
		for k, v := range adds {
			want[k] = v
		}
		good := false
		if res != nil && len(res) >= 4 {
			l, payload, ok := specDecode(res[4:])
			gm, nodup := listToMap(l)
			prefix := int(uint32(res[0])<<24 | uint32(res[1])<<16 | uint32(res[2])<<8 | uint32(res[3]))
			good = ok && nodup && mapsEqual(gm, want) && bytes.Equal(payload, p) && prefix == len(res)-4
		}
		if !good {
			OracleFail("addHeadersToFrame: result is not (size, merged headers, same payload)", map[string]interface{}{"op": "ahf", "in": hx(fr), "adds": pairs(adds), "got": o})
		}
		Stat("evaluations")
	}
}

// ---------- C05: malformed inputs to the pure receivers ----------

// hugeBudget: how many stream reads with a declared size above 64 MiB one process executes.
var hugeBudget = 0

var boundaryU32 = []uint32{0, 1, 2, 3, 4, 5, 7, 8, 9, 0x7fffffff, 0x80000000, 0xffffffff, 0xfffffffe, 0xfffffff8, 0x7ffffffc, 0x80000004}

// mutate returns a malformed variant of a valid frame (4-byte size + headers + payload).
func mutate(r *Rng, fr []byte, offsets []int) ([]byte, string) {
	b := append([]byte{}, fr...)
	switch r.Intn(7) {
	case 0: // truncate anywhere
		return b[:r.Intn(len(b)+1)], "truncate"
	case 1, 2: // set one size field to a boundary value / relative to remaining length
		if len(offsets) == 0 {
			return b[:0], "empty"
		}
		off := offsets[r.Intn(len(offsets))]
		var v uint32
		if r.Bool() {
			v = boundaryU32[r.Intn(len(boundaryU32))]
		} else {
			v = uint32(len(b) - off - 4 + r.Pick(-9, -5, -4, -3, -2, -1, 0, 1, 2, 3, 4, 5))
		}
		copy(b[off:], be32(v))
		return b, "sizefield"
	case 3: // version byte
		if len(b) > 4 {
			b[4] = byte(1 + r.Intn(255))
		}
		return b, "version"
	case 4: // flip a random byte
		if len(b) > 0 {
			b[r.Intn(len(b))] ^= byte(1 << uint(r.Intn(8)))
		}
		return b, "bitflip"
	case 5: // splice / duplicate a chunk
		if len(b) > 2 {
			i := r.Intn(len(b))
			j := i + r.Intn(len(b)-i)
			b = append(b[:j], append(append([]byte{}, b[i:j]...), b[j:]...)...)
		}
		return b, "dup"
	default: // truncate then pad
		b = b[:r.Intn(len(b)+1)]
		return append(b, r.Bytes(r.Intn(6))...), "truncpad"
	}
}

// sizeFieldOffsets lists the offsets of every 4-byte size field of a valid frame.
func sizeFieldOffsets(fr []byte) []int {
	offs := []int{0, 5}
	i := 9
	end := 9 + int(uint32(fr[5])<<24|uint32(fr[6])<<16|uint32(fr[7])<<8|uint32(fr[8]))
	for i < end {
		offs = append(offs, i)
		k := int(uint32(fr[i])<<24 | uint32(fr[i+1])<<16 | uint32(fr[i+2])<<8 | uint32(fr[i+3]))
		i += 4 + k
	}
	return offs
}

func c05Ops(in []byte, why string, bigOK *int) {
	check := func(op, o string, input []byte) {
		Case(op+" "+hx(input), o)
		Stat("outcome:" + op + ":" + clip(o))
		if len(o) >= 5 && (o[:5] == "panic" || o == "blocked") {
			OracleFail("receiver "+op+" "+o+" on a received byte sequence", map[string]interface{}{"op": op, "in": hx(input), "mutation": why, "got": o})
		}
	}
	o, _ := realHFF(in)
	check("hff", o, in)
	// unmarshalFrame is not a receiving entry point (unused outside tests): correspondence only
	o, _, _ = realUMF(in)
	Case("umf "+hx(in), o)
	Stat("outcome:umf:" + clip(o))
	check("exf", realEXF(in), in)
	check("exe", realEXE(in), in)
	// stream variant: skip gigantic allocations except for a few cases per run
	big := false
	if len(in) >= 5 && in[0] == 0 {
		sz := int32(uint32(in[1])<<24 | uint32(in[2])<<16 | uint32(in[3])<<8 | uint32(in[4]))
		big = sz > 1<<26
	}
	if !big || *bigOK > 0 {
		if big {
			*bigOK--
			Stat("stream-huge-size")
		}
		o, _, _ = realUMS(in)
		check("ums", o, in)
	}
	o, _ = realAHF(in, map[string]string{"x": "y"})
	Case("ahf "+hx(in)+" "+pairs(map[string]string{"x": "y"}), o)
	Stat("outcome:ahf:" + clip(o))
	if len(o) >= 5 && (o[:5] == "panic" || o == "blocked") {
		OracleFail("addHeadersToFrame "+o, map[string]interface{}{"op": "ahf", "in": hx(in), "adds": pairs(map[string]string{"x": "y"}), "mutation": why, "got": o})
	}
}

func clip(o string) string {
	for i := 0; i < len(o); i++ {
		if o[i] == ' ' {
			return o[:i]
		}
	}
	return o
}

func runC05Pure(r *Rng, n int) {
	bigOK := 0
	if r.s%1000 == 0 || true {
		bigOK = hugeBudget
	}
	for i := 0; i < n; i++ {
		var in []byte
		var why string
		if r.Chance(15) {
			in = r.Bytes(r.Intn(65))
			if r.Chance(50) && len(in) > 0 { // make the version byte plausible
				in[0] = 0
				if len(in) > 4 {
					in[4] = 0
				}
			}
			why = "random"
		} else {
			m := genHeaders(r, true)
			if r.Chance(70) {
				m["_opid"] = strconv.FormatUint(r.U64()>>uint(r.Intn(64)), 10)
			}
			hdr := frugal.VerifMarshalHeaders(m)
			fr := frameOf(hdr, genPayload(r))
			in, why = mutate(r, fr, sizeFieldOffsets(fr))
			if r.Bool() && len(in) >= 4 { // same bytes without the frame-size prefix
				in = in[4:]
				why += "-nosize"
			}
		}
		Stat("mutation:" + why)
		Sample(map[string]interface{}{"mutation": why, "in": hx(in)})
		c05Ops(in, why, &bigOK)
		Stat("evaluations")
	}
}

// replayHeaderLine re-runs one driver input line (`op hex [pairs]`) against the real code.
func replayHeaderLine(op string, args []string) string {
	in := unhx(args[0])
	switch op {
	case "hff":
		o, _ := realHFF(in)
		return o
	case "ums":
		o, _, _ := realUMS(in)
		return o
	case "umf":
		o, _, _ := realUMF(in)
		return o
	case "exf":
		return realEXF(in)
	case "exe":
		return realEXE(in)
	case "ahf":
		m := map[string]string{}
		for _, p := range parsePairs(args[1]) {
			m[p.k] = p.v
		}
		o, _ := realAHF(in, m)
		return o
	}
	return "bad-op"
}

func init() {
	suites["c04"] = runC04
	suites["c05pure"] = runC05Pure
	for _, op := range []string{"hff", "ums", "exf", "exe", "ahf"} {
		op := op
		lineOps[op] = func(args []string) (string, bool) {
			o := replayHeaderLine(op, args)
			return o, !(strings.HasPrefix(o, "panic") || o == "blocked")
		}
	}
	// unmarshalFrame is not a receiving entry point: correspondence only
	lineOps["umf"] = func(args []string) (string, bool) { return replayHeaderLine("umf", args), true }
}
