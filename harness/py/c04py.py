#!/usr/bin/env python3
"""Suite c04py (kind `py`): the PYTHON runtime's header codec (lib/python/frugal/util/headers.py) against the
same Lean model as the Go codec: bytes written by Python must be the documented v0 layout of the map
(`mar`), and Python's stream / frame readers must return the map the model returns for those bytes
(`ums`, `hff`). The `thrift` package is not installed in this sandbox; the codec imports exactly one
name from it (TProtocolException), which is stubbed here."""
import io, json, os, sys, types

REPO = os.environ.get("VERIF_REPO", "/repo")

# --- stub for `from thrift.protocol.TProtocol import TProtocolException`
class TProtocolException(Exception):
    UNKNOWN, INVALID_DATA, NEGATIVE_SIZE, SIZE_LIMIT, BAD_VERSION = 0, 1, 2, 3, 4
    def __init__(self, type=0, message=None):
        Exception.__init__(self, message); self.type = type
for name in ("thrift", "thrift.protocol", "thrift.protocol.TProtocol"):
    sys.modules.setdefault(name, types.ModuleType(name))
sys.modules["thrift.protocol.TProtocol"].TProtocolException = TProtocolException
import importlib.util, logging
logging.disable(logging.CRITICAL)
spec = importlib.util.spec_from_file_location("frugal_headers", os.path.join(REPO, "lib/python/frugal/util/headers.py"))
mod = importlib.util.module_from_spec(spec); spec.loader.exec_module(mod)
H = mod._Headers


class Rng:
    def __init__(self, seed):
        z = (seed + 0x9E3779B97F4A7C15) & (2**64 - 1)
        z = ((z ^ (z >> 30)) * 0xBF58476D1CE4E5B9) & (2**64 - 1)
        z = ((z ^ (z >> 27)) * 0x94D049BB133111EB) & (2**64 - 1)
        self.s = z ^ (z >> 31)
    def u64(self):
        self.s = (self.s + 0x9E3779B97F4A7C15) & (2**64 - 1)
        z = self.s
        z = ((z ^ (z >> 30)) * 0xBF58476D1CE4E5B9) & (2**64 - 1)
        z = ((z ^ (z >> 27)) * 0x94D049BB133111EB) & (2**64 - 1)
        return z ^ (z >> 31)
    def intn(self, n): return self.u64() % n if n > 0 else 0
    def pick(self, xs): return xs[self.intn(len(xs))]


def gen_str(r):
    n = r.pick([0, 1, 1, 2, 3, 5, 8, 12, 255, 256, 300])
    alphabet = r.pick(["abcXYZ019_-", " !\"#$%&'()*+,-./:;<=>?@[]{}|~", "éß日本語😀Ω\u0000á"])
    s = ""
    while len(s.encode("utf8")) < n: s += r.pick(list(alphabet))
    return s

def pairs(m):
    if not m: return "-"
    items = sorted(((k.encode("utf8"), v.encode("utf8")) for k, v in m.items()))
    return ";".join(k.hex() + ":" + v.hex() for k, v in items)

def hx(b): return bytes(b).hex() if len(b) else "-"

def main():
    seed, n, i = 1, 100, 2
    while i < len(sys.argv):
        if sys.argv[i] == "-seed": seed = int(sys.argv[i + 1]); i += 2
        elif sys.argv[i] == "-n": n = int(sys.argv[i + 1]); i += 2
        elif sys.argv[i] == "-lines": print("S\tevaluations\t0"); return
        else: i += 1
    r = Rng(seed)
    stats = {}
    def stat(k): stats[k] = stats.get(k, 0) + 1
    for c in range(n):
        m = {}
        for _ in range(r.pick([0, 1, 1, 2, 3, 5, 8, 20])): m[gen_str(r)] = gen_str(r)
        payload = bytes(r.intn(256) for _ in range(r.pick([0, 1, 7, 40])))
        stat("npairs=%d" % len(m))
        buf = bytes(H._write_to_bytearray(m))
        print("C\tmar %s %s\tok" % (pairs(m), hx(buf)))
        stream = io.BytesIO(buf + payload)
        try:
            got = H._read(stream); rest = stream.read()
            real = "ok %s rest=%s" % (pairs(got), hx(rest))
            if got != m or rest != payload:
                print("O\t" + json.dumps({"what": "python codec: stream read-back differs from the written map / payload touched", "op": "ums", "line": "ums " + hx(buf + payload), "got": real[:500]}))
        except Exception as e:
            real = "err:" + type(e).__name__
            print("O\t" + json.dumps({"what": "python codec raised on its own output: " + repr(e)[:200], "op": "ums", "line": "ums " + hx(buf + payload)}))
        print("C\tums %s\t%s" % (hx(buf + payload), real))
        try:
            got = H.decode_from_frame(buf + payload)
            real = "ok %s" % pairs(got)
            if got != m:
                print("O\t" + json.dumps({"what": "python codec: frame read-back differs from the written map", "op": "hff", "line": "hff " + hx(buf + payload), "got": real[:500]}))
        except Exception as e:
            real = "err:" + type(e).__name__
            print("O\t" + json.dumps({"what": "python codec raised on its own output: " + repr(e)[:200], "op": "hff", "line": "hff " + hx(buf + payload)}))
        print("C\thff %s\t%s" % (hx(buf + payload), real))
        if c < 3: print("X\t" + json.dumps({"headers": pairs(m)[:200], "python_bytes": hx(buf)[:200]}))
        stat("evaluations")
    for k in sorted(stats): print("S\t%s\t%d" % (k, stats[k]))

if __name__ == "__main__":
    main()
