// pegx translates a pigeon grammar (compiler/parser/grammar.peg) into a Lean value of type
// FV.Peg.Grammar: rule by rule, expression constructors only; the Go code of the actions is
// not translated, an action becomes a tag (rule name + ordinal of the action within the rule).
// Usage: pegx <grammar.peg> <out.lean>   (the file is written only when its content changes)
// Stdlib only. Part of the trusted base (DESIGN.md §4.5, §6).
package main

import (
	"fmt"
	"os"
	"strings"
	"unicode/utf8"
)

type expr struct {
	kind   string // seq choice star plus opt and not lit cls any ref lab act
	kids   []*expr
	s      string // lit value, ref name, label, tag
	ic     bool
	neg    bool
	chars  []rune
	ranges [][2]rune
}

type parser struct {
	src  []rune
	pos  int
	rule string
}

func (p *parser) fail(msg string) {
	line := 1 + strings.Count(string(p.src[:p.pos]), "\n")
	fmt.Fprintf(os.Stderr, "pegx: line %d: %s\n", line, msg)
	os.Exit(1)
}

func (p *parser) eof() bool { return p.pos >= len(p.src) }
func (p *parser) peek() rune {
	if p.eof() {
		return 0
	}
	return p.src[p.pos]
}
func (p *parser) has(s string) bool {
	r := []rune(s)
	if p.pos+len(r) > len(p.src) {
		return false
	}
	for i, c := range r {
		if p.src[p.pos+i] != c {
			return false
		}
	}
	return true
}

// ws skips whitespace and comments of the grammar language.
func (p *parser) ws() {
	for !p.eof() {
		switch {
		case p.peek() == ' ' || p.peek() == '\t' || p.peek() == '\r' || p.peek() == '\n':
			p.pos++
		case p.has("//"):
			for !p.eof() && p.peek() != '\n' {
				p.pos++
			}
		case p.has("/*"):
			p.pos += 2
			for !p.eof() && !p.has("*/") {
				p.pos++
			}
			p.pos += 2
		default:
			return
		}
	}
}

func isIdentStart(c rune) bool { return c == '_' || c >= 'a' && c <= 'z' || c >= 'A' && c <= 'Z' }
func isIdentPart(c rune) bool  { return isIdentStart(c) || c >= '0' && c <= '9' }

func (p *parser) ident() string {
	start := p.pos
	for !p.eof() && isIdentPart(p.peek()) {
		p.pos++
	}
	return string(p.src[start:p.pos])
}

// codeBlock skips a balanced { ... } of Go code (strings, raw strings, runes, comments respected).
func (p *parser) codeBlock() {
	if p.peek() != '{' {
		p.fail("expected code block")
	}
	depth := 0
	for !p.eof() {
		c := p.peek()
		switch {
		case p.has("//"):
			for !p.eof() && p.peek() != '\n' {
				p.pos++
			}
			continue
		case p.has("/*"):
			p.pos += 2
			for !p.eof() && !p.has("*/") {
				p.pos++
			}
			p.pos += 2
			continue
		case c == '"' || c == '\'':
			p.pos++
			for !p.eof() && p.peek() != c {
				if p.peek() == '\\' {
					p.pos++
				}
				p.pos++
			}
			p.pos++
			continue
		case c == '`':
			p.pos++
			for !p.eof() && p.peek() != '`' {
				p.pos++
			}
			p.pos++
			continue
		case c == '{':
			depth++
		case c == '}':
			depth--
			if depth == 0 {
				p.pos++
				return
			}
		}
		p.pos++
	}
	p.fail("unterminated code block")
}

func (p *parser) escape() rune {
	// after the backslash
	c := p.peek()
	p.pos++
	switch c {
	case 'n':
		return '\n'
	case 'r':
		return '\r'
	case 't':
		return '\t'
	case 'f':
		return '\f'
	case 'v':
		return '\v'
	case 'a':
		return '\a'
	case 'b':
		return '\b'
	case '0':
		return 0
	case 'x', 'u', 'U':
		n := map[rune]int{'x': 2, 'u': 4, 'U': 8}[c]
		v := rune(0)
		for i := 0; i < n; i++ {
			d := p.peek()
			p.pos++
			switch {
			case d >= '0' && d <= '9':
				v = v*16 + d - '0'
			case d >= 'a' && d <= 'f':
				v = v*16 + d - 'a' + 10
			case d >= 'A' && d <= 'F':
				v = v*16 + d - 'A' + 10
			default:
				p.fail("bad hex escape")
			}
		}
		return v
	case 'p', 'P':
		p.fail("unicode classes are not supported by the translator")
	}
	return c // \\ \' \" \] \^ \- \[
}

func (p *parser) literal() *expr {
	q := p.peek()
	p.pos++
	var val []rune
	for {
		if p.eof() {
			p.fail("unterminated literal")
		}
		c := p.peek()
		if c == q {
			p.pos++
			break
		}
		p.pos++
		if c == '\\' && q != '`' {
			c = p.escape()
		}
		val = append(val, c)
	}
	e := &expr{kind: "lit", s: string(val)}
	if p.peek() == 'i' && (p.pos+1 >= len(p.src) || !isIdentPart(p.src[p.pos+1])) {
		p.pos++
		e.ic = true
		e.s = strings.ToLower(e.s)
	}
	return e
}

func (p *parser) class() *expr {
	p.pos++ // [
	e := &expr{kind: "cls"}
	if p.peek() == '^' {
		e.neg = true
		p.pos++
	}
	var items []rune
	var esc []bool
	for {
		if p.eof() {
			p.fail("unterminated character class")
		}
		c := p.peek()
		if c == ']' {
			p.pos++
			break
		}
		p.pos++
		if c == '\\' {
			items = append(items, p.escape())
			esc = append(esc, true)
		} else {
			items = append(items, c)
			esc = append(esc, false)
		}
	}
	for i := 0; i < len(items); i++ {
		if i+2 < len(items) && items[i+1] == '-' && !esc[i+1] {
			if items[i] > items[i+2] {
				p.fail("bad range in character class")
			}
			e.ranges = append(e.ranges, [2]rune{items[i], items[i+2]})
			i += 2
		} else {
			e.chars = append(e.chars, items[i])
		}
	}
	if p.peek() == 'i' && (p.pos+1 >= len(p.src) || !isIdentPart(p.src[p.pos+1])) {
		p.pos++
		e.ic = true
	}
	return e
}

// atRuleStart: identifier (optional display name) followed by the rule-definition operator.
func (p *parser) atRuleStart() bool {
	save := p.pos
	defer func() { p.pos = save }()
	if !isIdentStart(p.peek()) {
		return false
	}
	p.ident()
	p.ws()
	if p.peek() == '"' {
		p.literal()
		p.ws()
	}
	return p.has("<-") || p.has("←") || p.has("⟵") || (p.peek() == '=' && !p.has("=="))
}

func (p *parser) primary() *expr {
	p.ws()
	c := p.peek()
	switch {
	case c == '"' || c == '\'' || c == '`':
		return p.literal()
	case c == '[':
		return p.class()
	case c == '.':
		p.pos++
		return &expr{kind: "any"}
	case c == '(':
		p.pos++
		e := p.choice()
		p.ws()
		if p.peek() != ')' {
			p.fail("expected )")
		}
		p.pos++
		return e
	case isIdentStart(c):
		return &expr{kind: "ref", s: p.ident()}
	}
	p.fail(fmt.Sprintf("unexpected %q", string(c)))
	return nil
}

func (p *parser) suffixed() *expr {
	e := p.primary()
	p.ws()
	switch p.peek() {
	case '?':
		p.pos++
		return &expr{kind: "opt", kids: []*expr{e}}
	case '*':
		p.pos++
		return &expr{kind: "star", kids: []*expr{e}}
	case '+':
		p.pos++
		return &expr{kind: "plus", kids: []*expr{e}}
	}
	return e
}

func (p *parser) prefixed() *expr {
	p.ws()
	switch p.peek() {
	case '&', '!':
		k := map[rune]string{'&': "and", '!': "not"}[p.peek()]
		p.pos++
		p.ws()
		if p.peek() == '{' {
			p.fail("code predicates are not supported by the translator")
		}
		return &expr{kind: k, kids: []*expr{p.suffixed()}}
	}
	return p.suffixed()
}

func (p *parser) labeled() *expr {
	p.ws()
	if isIdentStart(p.peek()) {
		save := p.pos
		name := p.ident()
		p.ws()
		if p.peek() == ':' {
			p.pos++
			return &expr{kind: "lab", s: name, kids: []*expr{p.prefixed()}}
		}
		p.pos = save
	}
	return p.prefixed()
}

func (p *parser) seq() *expr {
	var kids []*expr
	for {
		p.ws()
		c := p.peek()
		if p.eof() || c == '/' && !p.has("//") && !p.has("/*") || c == ')' || c == '{' || p.atRuleStart() {
			break
		}
		kids = append(kids, p.labeled())
	}
	if len(kids) == 0 {
		p.fail("empty sequence")
	}
	var e *expr
	if len(kids) == 1 {
		e = kids[0] // pigeon does not wrap a single expression into a sequence
	} else {
		e = &expr{kind: "seq", kids: kids}
	}
	p.ws()
	if p.peek() == '{' {
		p.codeBlock()
		// the tag is assigned afterwards (compact): rule name + ordinal of the action in pre-order
		return &expr{kind: "act", kids: []*expr{e}}
	}
	return e
}

func (p *parser) choice() *expr {
	var alts []*expr
	for {
		alts = append(alts, p.seq())
		p.ws()
		if p.peek() == '/' && !p.has("//") && !p.has("/*") {
			p.pos++
			continue
		}
		break
	}
	if len(alts) == 1 {
		return alts[0]
	}
	return &expr{kind: "choice", kids: alts}
}

// compact renumbers the action tags of one rule 1..n in pre-order.
func compact(e *expr, rule string, n *int) {
	if e.kind == "act" {
		*n++
		e.s = fmt.Sprintf("%s%d", rule, *n)
	}
	for _, k := range e.kids {
		compact(k, rule, n)
	}
}

func leanChar(c rune) string {
	switch {
	case c == '\'':
		return `'\''`
	case c == '\\':
		return `'\\'`
	case c == '\n':
		return `'\n'`
	case c == '\t':
		return `'\t'`
	case c == '\r':
		return `'\r'`
	case c >= 32 && c < 127:
		return "'" + string(c) + "'"
	}
	return fmt.Sprintf("(Char.ofNat %d)", c)
}

func leanChars(rs []rune) string {
	p := make([]string, len(rs))
	for i, c := range rs {
		p[i] = leanChar(c)
	}
	return "[" + strings.Join(p, ", ") + "]"
}

func leanBool(b bool) string {
	if b {
		return "true"
	}
	return "false"
}

func lean(e *expr, ind string) string {
	kids := func() string {
		p := make([]string, len(e.kids))
		for i, k := range e.kids {
			p[i] = lean(k, ind+"  ")
		}
		return "[\n" + ind + "  " + strings.Join(p, ",\n"+ind+"  ") + "]"
	}
	switch e.kind {
	case "seq":
		return ".seq " + kids()
	case "choice":
		return ".choice " + kids()
	case "star", "plus", "opt":
		return "." + e.kind + " (" + lean(e.kids[0], ind) + ")"
	case "and":
		return ".andP (" + lean(e.kids[0], ind) + ")"
	case "not":
		return ".notP (" + lean(e.kids[0], ind) + ")"
	case "lit":
		return ".lit " + leanChars([]rune(e.s)) + " " + leanBool(e.ic)
	case "cls":
		rs := make([]string, len(e.ranges))
		for i, r := range e.ranges {
			rs[i] = "(" + leanChar(r[0]) + ", " + leanChar(r[1]) + ")"
		}
		return ".cls " + leanChars(e.chars) + " [" + strings.Join(rs, ", ") + "] " + leanBool(e.neg) + " " + leanBool(e.ic)
	case "any":
		return ".any"
	case "ref":
		return ".ref \"" + e.s + "\""
	case "lab":
		return ".lab \"" + e.s + "\" (" + lean(e.kids[0], ind) + ")"
	case "act":
		return ".act \"" + e.s + "\" (" + lean(e.kids[0], ind) + ")"
	}
	panic("kind " + e.kind)
}

func leanName(rule string) string {
	var b strings.Builder
	b.WriteString("rule_")
	for _, c := range rule {
		if c == '_' {
			b.WriteString("U")
		} else {
			b.WriteRune(c)
		}
	}
	return b.String()
}

func main() {
	if len(os.Args) != 3 {
		fmt.Fprintln(os.Stderr, "usage: pegx <grammar.peg> <out.lean>")
		os.Exit(2)
	}
	src, err := os.ReadFile(os.Args[1])
	if err != nil {
		fmt.Fprintln(os.Stderr, "pegx:", err)
		os.Exit(1)
	}
	if !utf8.Valid(src) {
		fmt.Fprintln(os.Stderr, "pegx: grammar is not UTF-8")
		os.Exit(1)
	}
	p := &parser{src: []rune(string(src))}
	p.ws()
	if p.peek() == '{' {
		p.codeBlock() // initializer
	}
	type rule struct {
		name string
		e    *expr
	}
	var rules []rule
	seen := map[string]bool{}
	for {
		p.ws()
		if p.eof() {
			break
		}
		if !p.atRuleStart() {
			p.fail("expected a rule definition")
		}
		name := p.ident()
		p.ws()
		if p.peek() == '"' {
			p.literal()
			p.ws()
		}
		switch {
		case p.has("<-"):
			p.pos += 2
		case p.has("←"), p.has("⟵"), p.peek() == '=':
			p.pos++
		}
		if seen[name] {
			p.fail("duplicate rule " + name)
		}
		seen[name] = true
		p.rule = name
		e := p.choice()
		n := 0
		compact(e, name, &n)
		rules = append(rules, rule{name, e})
	}
	var check func(e *expr)
	check = func(e *expr) {
		if e.kind == "ref" && !seen[e.s] {
			fmt.Fprintln(os.Stderr, "pegx: undefined rule", e.s)
			os.Exit(1)
		}
		for _, k := range e.kids {
			check(k)
		}
	}
	var b strings.Builder
	b.WriteString("-- GENERATED by harness/pegx from compiler/parser/grammar.peg on every check. Do not edit.\n")
	b.WriteString("-- One definition per rule (expression constructors only; an action is a tag = rule name + ordinal).\n")
	b.WriteString("import FV.Model.Peg\n\nnamespace FV.Generated\nopen FV.Peg\n\n")
	for _, r := range rules {
		check(r.e)
		b.WriteString("def " + leanName(r.name) + " : Expr :=\n  " + lean(r.e, "  ") + "\n\n")
	}
	b.WriteString("/-- The grammar of compiler/parser/grammar.peg; the start rule is the first one. -/\ndef grammar : Grammar := [\n")
	for i, r := range rules {
		sep := ","
		if i == len(rules)-1 {
			sep = ""
		}
		b.WriteString("  (\"" + r.name + "\", " + leanName(r.name) + ")" + sep + "\n")
	}
	b.WriteString("]\n\nend FV.Generated\n")
	old, _ := os.ReadFile(os.Args[2])
	if string(old) != b.String() {
		if err := os.WriteFile(os.Args[2], []byte(b.String()), 0o644); err != nil {
			fmt.Fprintln(os.Stderr, "pegx:", err)
			os.Exit(1)
		}
	}
}
