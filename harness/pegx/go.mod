module verif/pegx

go 1.20
