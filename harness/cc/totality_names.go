package main

// C11 — naming probes. A probe program puts ONE name from a pool that interacts with the naming
// rules of the targets (snake / SCREAMING / camel / Pascal variants, New…/…Args/…Result, Go
// initialisms, underscores in every position, single letters, names equal to keywords, builtins
// and generated helper names of the targets) into ONE declaration position, in a fixed small
// program in which every declared type is REFERENCED as a type in fields, containers, method
// arguments / returns / throws and scope operations, locally and through an include.
// The (name, position, target) combinations that fail on the unchanged tree are recorded
// findings (c11ProbeKnown): they are still generated and replayed, and reported as KNOWN-FINDING.

import (
	"encoding/json"
	"os"
	"path/filepath"
	"strings"
)

type c11Probe struct{ name, pos string }

var c11ProbePositions = []string{"struct", "structinc", "union", "exception", "exceptioninc", "enum", "enuminc", "enumvalue",
	"typedef", "typedefinc", "const", "service", "serviceinc", "method", "field", "arg", "throwsfield", "scope", "op",
	"prefixvar", "file", "namespace"}

var c11ProbeNames = []string{
	// case / underscore variants of one word pair
	"order_item", "ORDER_ITEM", "orderItem", "OrderItem", "Order_Item", "orderitem",
	// New… / …Args / …Result in every spelling
	"new_order", "newOrder", "NewOrder", "NEW_ORDER", "New", "new", "newly",
	"trade_result", "tradeResult", "TradeResult", "TRADE_RESULT", "Result", "result",
	"query_args", "queryArgs", "QueryArgs", "QUERY_ARGS", "Args", "args",
	// Go initialisms
	"id", "Id", "ID", "user_id", "userId", "UserID", "url", "http_url", "HttpUrl", "api", "uuid", "Uuid",
	// underscores
	"_lead", "trail_", "dbl__under", "__two", "_both_", "_",
	// single letters
	"a", "x", "T", "p", "f", "c", "e", "r", "v", "s", "i", "n",
	// keywords, builtins, generated helper names of the targets
	"type", "func", "range", "class", "final", "def", "None", "self", "error", "Error", "String", "Read", "Write",
	"Equals", "hashCode", "toString", "client", "processor", "ctx", "success", "go", "var", "package", "import",
	"interface", "lambda", "yield", "this", "super", "int", "nil", "null", "len", "print", "object", "dynamic", "async", "await",
}

var c11PrefixVarRe = func(s string) bool {
	if len(s) < 2 {
		return false
	}
	for i := 0; i < len(s); i++ {
		c := s[i]
		letter := c >= 'a' && c <= 'z' || c >= 'A' && c <= 'Z'
		if !(letter || (i > 0 && c >= '0' && c <= '9')) {
			return false
		}
	}
	return true
}

// c11ProbeApplicable: the grammar (and the C10 finding keyword-prefix-identifier) allows the name there.
func c11ProbeApplicable(pr c11Probe) bool {
	if c11HasKeywordPrefix(pr.name) {
		return false
	}
	switch pr.pos {
	case "prefixvar":
		return c11PrefixVarRe(pr.name)
	case "file":
		return pr.name != "prog" && strings.Trim(pr.name, "_") != ""
	}
	return true
}

// c11ProbeProg builds the probe program: prog.frugal includes incp.frugal.
func c11ProbeProg(pr c11Probe) *c11GProg { return c11ProbeProgMulti([]c11Probe{pr}) }

// c11ProbeProgMulti: several probes at once (at most one per position).
func c11ProbeProgMulti(prs []c11Probe) *c11GProg {
	n := map[string]string{"struct": "Thing", "structinc": "Thing2", "union": "Either", "exception": "Oops", "exceptioninc": "Oops2",
		"enum": "Color", "enuminc": "Color2", "enumvalue": "RED", "typedef": "Tid", "typedefinc": "Tid2", "const": "LIMIT",
		"service": "Svc", "serviceinc": "BaseSvc", "method": "fetch", "field": "f1", "arg": "arg1", "throwsfield": "err1",
		"scope": "Events", "op": "Created", "prefixvar": "user", "file": "incp", "namespace": ""}
	for _, pr := range prs {
		n[pr.pos] = pr.name
	}
	q := func(s string) *c11GTy { return &c11GTy{name: n["file"] + "." + s} }
	l := func(s string) *c11GTy { return &c11GTy{name: s} }
	inc := &c11GFile{name: n["file"]}
	if n["namespace"] != "" {
		inc.namespaces = []string{"namespace * " + n["namespace"]}
	}
	inc.enums = []*c11GEnum{{name: n["enuminc"], vals: []string{"ONE", "TWO"}, nums: []int{-1, -1}}}
	inc.typedefs = []*c11GTypedef{{name: n["typedefinc"], t: c11TBase("i64")}}
	inc.structs = []*c11GStruct{
		{kind: "struct", name: n["structinc"], fields: []*c11GField{{id: 1, name: "b1", t: c11TBase("i32")}, {id: 2, name: "b2", t: l(n["enuminc"])}}},
		{kind: "exception", name: n["exceptioninc"], fields: []*c11GField{{id: 1, name: "why", t: c11TBase("string")}}},
	}
	inc.services = []*c11GService{{name: n["serviceinc"], methods: []*c11GMethod{
		{name: "basePing", ret: l(n["structinc"]), args: []*c11GField{{id: 1, name: "q1", t: l(n["structinc"])}},
			excs: []*c11GField{{id: 1, name: "bad", t: l(n["exceptioninc"])}}}}}}
	main := &c11GFile{name: "prog", includes: []string{n["file"] + ".frugal"}}
	main.enums = []*c11GEnum{{name: n["enum"], vals: []string{n["enumvalue"], "GREEN"}, nums: []int{-1, 5}}}
	main.typedefs = []*c11GTypedef{{name: n["typedef"], t: c11TBase("i64")}}
	main.consts = []*c11GConst{{name: n["const"], t: c11TBase("i32"), val: "5"}}
	th, th2 := l(n["struct"]), q(n["structinc"])
	main.structs = []*c11GStruct{
		{kind: "struct", name: n["struct"], fields: []*c11GField{{id: 1, name: n["field"], t: c11TBase("i32")}, {id: 2, name: "other9", t: c11TBase("string"), mod: "optional"}}},
		{kind: "exception", name: n["exception"], fields: []*c11GField{{id: 1, name: "why", t: c11TBase("string")}}},
		{kind: "union", name: n["union"], fields: []*c11GField{{id: 1, name: "ua", t: th}, {id: 2, name: "ub", t: c11TBase("i32")}}},
		{kind: "struct", name: "Holder", fields: []*c11GField{
			{id: 1, name: "h1", t: th}, {id: 2, name: "h2", t: c11TList(th)}, {id: 3, name: "h3", t: c11TMap(c11TBase("string"), th)},
			{id: 4, name: "h4", t: th2}, {id: 5, name: "h5", t: c11TList(th2)}, {id: 6, name: "h6", t: l(n["enum"]), mod: "required"},
			{id: 7, name: "h7", t: l(n["typedef"])}, {id: 8, name: "h8", t: q(n["enuminc"]), mod: "optional"}, {id: 9, name: "h9", t: th, mod: "optional"},
			{id: 10, name: "h10", t: l(n["union"])}, {id: 11, name: "h11", t: q(n["typedefinc"])}, {id: 12, name: "h12", t: c11TSet(l(n["typedef"]))},
			{id: 13, name: "h13", t: c11TMap(l(n["enum"]), c11TList(th2))}}},
	}
	main.services = []*c11GService{{name: n["service"], ext: n["file"] + "." + n["serviceinc"], methods: []*c11GMethod{
		{name: n["method"], ret: th, args: []*c11GField{{id: 1, name: n["arg"], t: th}, {id: 2, name: "second9", t: th2}, {id: 3, name: "third9", t: l(n["enum"])}},
			excs: []*c11GField{{id: 1, name: n["throwsfield"], t: l(n["exception"])}, {id: 2, name: "err9", t: q(n["exceptioninc"])}}},
		{name: "fire9", oneway: true, args: []*c11GField{{id: 1, name: "count9", t: l(n["typedef"])}}},
		{name: "many9", ret: c11TList(th2), args: []*c11GField{{id: 1, name: "u9", t: l(n["union"])}}},
		{name: "plain9", ret: q(n["enuminc"])},
	}}}
	main.scopes = []*c11GScope{{name: n["scope"], prefix: "a.{" + n["prefixvar"] + "}", ops: []*c11GOp{
		{name: n["op"], t: th}, {name: "Other9", t: th2}, {name: "Third9", t: l(n["union"])}}}}
	return &c11GProg{feat: map[string]bool{}, files: []*c11GFile{main, inc}}
}

// c11ProbeKnown: the (name, position, target) combination fails on the unchanged tree for a
// recorded reason: id of the finding ("" = must hold). Filled from the full matrix
// (`cc c11names`), each rule read against the generator code.
func c11ProbeKnown(pr c11Probe, lang string) string {
	return c11ProbeKnownRules(pr, lang)
}

// runC11Names: the full matrix (development / thorough): every applicable (name, position).
func c11AllProbes() []c11Probe {
	out := []c11Probe{}
	for _, pos := range c11ProbePositions {
		for _, nm := range c11ProbeNames {
			pr := c11Probe{nm, pos}
			if c11ProbeApplicable(pr) {
				out = append(out, pr)
			}
		}
	}
	return out
}


// c11ProbeTable: known/c11_names_expected.json — "position|name|target" -> finding id, the
// combinations that fail on the unchanged tree (each assigned to a recorded finding by the shape
// of the name; regenerated only by hand from the full matrix `cc c11names`).
var c11ProbeTable map[string]string

func c11LoadProbeTable() {
	if c11ProbeTable != nil {
		return
	}
	c11ProbeTable = map[string]string{}
	b, err := os.ReadFile(filepath.Join(c11VerifDir(), "known", "c11_names_expected.json"))
	if err != nil {
		return
	}
	json.Unmarshal(b, &c11ProbeTable)
}

var c11Reserved = map[string]string{
	"go":   " break case chan const continue default defer else fallthrough for func go goto if import interface map package range return select struct switch type var ",
	"java": " abstract assert boolean break byte case catch char class const continue default do double else enum extends final finally float for goto if implements import instanceof int interface long native new package private protected public return short static strictfp super switch synchronized this throw throws transient try void volatile while null true false var yield _ ",
	"py":   " None and as assert break class continue def del elif else except exec finally for from global if import in is lambda not or pass print raise return try while with yield ",
	"py3":  " None True False and as assert async await break class continue def del elif else except finally for from global if import in is lambda nonlocal not or pass raise return try while with yield ",
	"dart": " abstract as assert async await break case catch class const continue covariant default deferred do dynamic else enum export extends extension external factory false final finally for get if implements import in interface is late library mixin new null on operator part required rethrow return set show static super switch sync this throw true try typedef var void while with yield ",
}

// c11IsReserved: the name is a reserved word of the target (Apache Thrift rejects such IDL; frugal
// neither rejects nor escapes it — finding target-reserved-word-identifier).
func c11IsReserved(name, lang string) bool {
	key := lang
	switch lang {
	case "py:tornado":
		key = "py"
	case "py:asyncio":
		key = "py3"
	}
	return strings.Contains(c11Reserved[key], " "+name+" ")
}

func c11ProbeKnownRules(pr c11Probe, lang string) string {
	if c11IsReserved(pr.name, lang) {
		return "target-reserved-word-identifier"
	}
	c11LoadProbeTable()
	return c11ProbeTable[pr.pos+"|"+pr.name+"|"+lang]
}

// c11ProbeClean: fails for no target on the unchanged tree.
func c11ProbeClean(pr c11Probe) bool {
	for _, t := range c11Targets {
		if c11ProbeKnown(pr, t.lang) != "" {
			return false
		}
	}
	return true
}

// replay op: probe <position> <name> <gen>  (both sides print `run`)
func c11ReplayProbe(args []string) (string, bool) {
	if len(args) != 3 {
		return "bad-op", true
	}
	pr := c11Probe{args[1], args[0]}
	ok := false
	for _, p := range c11ProbePositions {
		ok = ok || p == pr.pos
	}
	if !ok || !c11ProbeApplicable(pr) {
		return "bad-op", true
	}
	files, order := c11ProbeProg(pr).render()
	c11ReplayBundle(c11Bundle(files, order), "valid", args[2], &pr)
	return "run", true
}

func init() {
	lineOps["probe"] = c11ReplayProbe
}

// c11Cover: a deterministic small set of multi-probe programs that together contain every CLEAN
// (name, position) combination (clean = fails for no target on the unchanged tree), one name per
// position and pairwise different names (up to case and underscores) inside one program.
// The cover combines only the names that exercise the CASING rules (the first c11CoreNames
// entries of the pool) in the positions that declare or name types, services, members and
// constants; keyword-like names, single letters, and the positions whose names become Go locals,
// package names or format arguments (arg, throwsfield, prefixvar, file, namespace) interact with
// each other when combined and are probed one at a time (random sample per run, all in `c11names`).
const c11CoreNames = 43

var c11CoverPositions = map[string]bool{"struct": true, "structinc": true, "union": true, "exception": true, "exceptioninc": true,
	"enum": true, "enuminc": true, "enumvalue": true, "typedef": true, "typedefinc": true, "const": true, "service": true,
	"serviceinc": true, "method": true, "field": true, "scope": true, "op": true}

func c11Cover() [][]c11Probe {
	covered := map[c11Probe]bool{}
	todo := 0
	clean := map[string][]string{}
	for _, pos := range c11ProbePositions {
		if !c11CoverPositions[pos] {
			continue
		}
		for _, nm := range c11ProbeNames[:c11CoreNames] {
			pr := c11Probe{nm, pos}
			if c11ProbeApplicable(pr) && c11ProbeClean(pr) {
				clean[pos] = append(clean[pos], nm)
				todo++
			}
		}
	}
	var out [][]c11Probe
	for todo > 0 && len(out) < 400 {
		used := map[string]bool{}
		var prog []c11Probe
		for pi, pos := range c11ProbePositions {
			names := clean[pos]
			for k := 0; k < len(names); k++ {
				nm := names[(k+len(out)+pi*7)%len(names)]
				pr := c11Probe{nm, pos}
				// names must differ (up to case and underscores) inside one Go package scope only
				grp := pos
				switch pos {
				case "struct", "union", "exception", "enum", "typedef", "const", "service", "scope":
					grp = "A"
				case "structinc", "exceptioninc", "enuminc", "typedefinc", "serviceinc":
					grp = "B"
				}
				cn := grp + ":" + c11Canon(nm)
				if covered[pr] || used[cn] {
					continue
				}
				used[cn] = true
				covered[pr] = true
				todo--
				prog = append(prog, pr)
				break
			}
		}
		if len(prog) == 0 {
			break
		}
		out = append(out, prog)
	}
	return out
}
